import Cell2v.Driver.Util
import Cell2v.Model.Codec
/-!
Model driver for C06.  `modeld_c06 model` : one op line in, one observation out.
`modeld_c06 spec`  : lines `op\tobs` in, `ok` or `VIOLATION <signature> <why>` out —
the property predicate itself (round trip / no crash / earlier decode results
unchanged / the process survives a session's Data packet), applied to observations
recorded from the implementation, independent of the model's internals (it keeps
the implementation's own earlier `pdecs` answers and the staged `sess` op).
-/
namespace Cell2v.Driver.C06
open Cell2v.Driver Cell2v.Codec

structure St where
  dict : List (Bytes × Nat) := []
  /-- results of the last `winCap` calls on the long-lived packet decoder (`pdecs`), newest first -/
  win : List (Except PErr (List Packet)) := []
  /-- memory model: the heap (caller read buffers, decoder-private buffers) and the SLICES the last `winCap`
  `pdecs` calls returned, newest first; `pchk` reads them on the heap as it is then -/
  heap : Heap := []
  winR : List (Except PErr (List PRef)) := []
  /-- Data-packet body staged by `sess` (with the inflate table of the op), consumed by `sgo` -/
  pend : Option (Bytes × List (Nat × Bytes)) := none
  /-- session script staged by `sscr` (frames as the connection hands them over, the JSON bodies accepted,
  compression flag, zlib table), consumed by `sgo` -/
  pendScr : Option (List Bytes × List Bytes × Bool × List (Bytes × Bytes)) := none

def mkEnv (s : St) (compress : Bool) (defl : Bytes) (infl : List (Nat × Bytes)) : Env :=
  { routes := Dict.routes s.dict
    codes := Dict.codes s.dict
    deflate := fun _ => defl
    inflate := fun b => (infl.find? (fun e => e.1 == b.length)).map (·.2)
    compress := compress }

def showMsg (m : Msg) : String :=
  s!"typ={m.typ.code} id={m.id} route={hexOfBytes m.route} data={hexOfBytes m.data} err={b2n m.err}"

def showOut : Out Msg → String
  | .ok m => "ok " ++ showMsg m
  | .err _ => "err"
  | .oob => "panic"

/-- `infl=<bodylen>:<hex>,<bodylen>:<hex>` : the bodies the real zlib inflates successfully -/
def parseInfl (ws : List String) : List (Nat × Bytes) :=
  match kv ws "infl" with
  | none => []
  | some v => (v.splitOn ",").filterMap fun e =>
      match e.splitOn ":" with
      | [l, h] => match l.toNat?, bytesOfHex h with
        | some n, some b => some (n, b)
        | _, _ => none
      | _ => none

def parsePackets (ws : List String) : List Packet :=
  ws.filterMap fun w =>
    if w.startsWith "p=" then
      match ((w.drop 2).toString).splitOn ":" with
      | [t, h] => match t.toNat?, bytesOfHex h with
        | some n, some b => some ⟨n, b⟩
        | _, _ => none
      | _ => none
    else none

def showPackets (ps : List Packet) : String :=
  "ok" ++ String.join (ps.map fun p => s!" p={p.typ}:{hexOfBytes p.body}")

def showDec : Except PErr (List Packet) → String
  | .ok ps => showPackets ps
  | .error _ => "err"

/-- kept packets rendered on the heap as it is NOW -/
def showDecR (h : Heap) : Except PErr (List PRef) → String
  | .ok rs => showPackets (rs.filterMap h.deref)
  | .error _ => "err"

/-- the harness's `recycle`: the caller overwrites the read buffer it handed to `Decode` -/
def recycled (bs : Bytes) : Bytes := bs.map fun x => x ^^^ 0xa5

def showSess : SessOut → String
  | .delivered id r d => s!"delivered id={id} route={hexOfBytes r} data={hexOfBytes d}"
  | .closed => "closed"
  | .crash => "panic"

/-- `e=<hexkey>:<code>` tokens of a multi-entry `SetDictionary` call -/
def parseEntries (ws : List String) : List (Bytes × Nat) :=
  ws.filterMap fun w =>
    if w.startsWith "e=" then
      match ((w.drop 2).toString).splitOn ":" with
      | [h, c] => match bytesOfHex h, c.toNat? with
        | some b, some n => some (b, n)
        | _, _ => none
      | _ => none
    else none

def showEnd : SEnd → String
  | .closed => "closed" | .err => "err" | .fuel => "fuel"

/-- what the packet decoder makes of one frame handed over by `GetNextMessage` -/
def showFramePackets (m : Bytes) : String :=
  match decodePackets m with
  | .ok ps => String.join (ps.map fun p => s!" p={p.typ}:{hexOfBytes p.body}")
  | .error _ => " bad"

/-- `frag=<hex>,<hex>,...` (an empty item is an empty fragment) -/
def parseFrags (ws : List String) : Option (List Bytes) :=
  match kv ws "frag" with
  | none => none
  | some v => (v.splitOn ",").mapM bytesOfHex

/-- `m=<typ>:<id>:<route>:<data>:<err>:<defl>` tokens of an `mchain` op: message fields and the deflated payload -/
def parseChain (ws : List String) : List (Nat × Nat × Bytes × Bytes × Bool × Bytes) :=
  ws.filterMap fun w =>
    if w.startsWith "m=" then
      match ((w.drop 2).toString).splitOn ":" with
      | [t, i, r, d, e, z] =>
        match t.toNat?, i.toNat?, bytesOfHex r, bytesOfHex d, bytesOfHex z with
        | some t, some i, some r, some d, some z => some (t, i, r, d, e == "1", z)
        | _, _, _, _, _ => none
      | _ => none
    else none

/-- environment whose zlib is the table `tbl` of (plain, deflated) pairs recorded from the real zlib -/
def tblEnv (s : St) (compress : Bool) (tbl : List (Bytes × Bytes)) : Env :=
  { routes := Dict.routes s.dict
    codes := Dict.codes s.dict
    deflate := fun d => ((tbl.find? (fun e => e.1 == d)).map (·.2)).getD d
    inflate := fun b => (tbl.find? (fun e => e.2 == b)).map (·.1)
    compress := compress }

def showChainMsg (m : Msg) : String :=
  s!" m={m.typ.code}:{m.id}:{hexOfBytes m.route}:{hexOfBytes m.data}:{b2n m.err}"

/-- one frame of an `mchain` stream, as the harness renders it -/
def showRecv (E : Env) (fr : Bytes) : String :=
  match decodePackets fr with
  | .error _ => " bad"
  | .ok ps => String.join (ps.map fun p =>
      if p.typ != 4 then s!" p{p.typ}" else
      match decodeMsg E p.body with
      | .ok m => showChainMsg m
      | .err _ => " m=err"
      | .oob => " panic")

def parseCuts (ws : List String) : List Nat :=
  ((kv ws "cut").getD "").splitOn "," |>.filterMap (·.toNat?)

/-- the frames of an `sscr` op, in order; `none` when a message cannot be encoded/framed -/
def scriptFrames (E : Env) (ws : List String) : Option (List Bytes) :=
  (ws.drop 1).foldl (fun acc w =>
    match acc with
    | none => none
    | some fr =>
      let fb (p : Packet) : Option (List Bytes) :=
        match frame p with | .ok b => some (fr ++ [b]) | .error _ => none
      if w.startsWith "hs=" then
        match bytesOfHex (w.drop 3).toString with | some b => fb ⟨1, b⟩ | none => none
      else if w == "ack" then fb ⟨2, []⟩
      else if w == "hb" then fb ⟨3, []⟩
      else if w.startsWith "f=" then
        match bytesOfHex (w.drop 2).toString with | some b => some (fr ++ [b]) | none => none
      else if w.startsWith "m=" then
        match parseChain [w] with
        | [c] => match MType.ofCode c.1 with
          | some ty => fb ⟨4, encodeMsg E ⟨ty, c.2.1, c.2.2.1, c.2.2.2.1, c.2.2.2.2.1⟩⟩
          | none => none
        | _ => none
      else some fr) (some [])

def parseHsOk (ws : List String) : List Bytes :=
  (((kv ws "hsok").getD "").splitOn ",").filterMap fun h => if h == "" then none else bytesOfHex h

def showScript (evs : List SessOut) : String :=
  let strs := evs.map showSess
  let closed := match evs.getLast? with | some .closed => true | some .crash => true | _ => false
  " ; ".intercalate (if closed then strs else strs ++ ["open"])

def parseMsgFields (ws : List String) : Option (Nat × Nat × Bytes × Bytes × Bool) := do
  let t ← kvNat ws "typ"
  let id ← kvNat ws "id"
  let route ← kvHex ws "route"
  let data ← kvHex ws "data"
  let e ← kvNat ws "err"
  pure (t, id, route, data, e == 1)

def step (s : St) (line : String) : St × String :=
  -- replay of a run in which the process died: the harness runs the staged session there (= `sgo`)
  let line := if line.startsWith "<harness-exit" && (s.pend.isSome || s.pendScr.isSome) then "sgo" else line
  let ws := words line
  match ws.head? with
  | some "dict" =>
    match kvHex ws "route", kvNat ws "code" with
    | some r, some c =>
      -- SetDictionary with a single-entry map; keys may carry surrounding blanks (space, \t, \n, \r)
      match setDictionary trimWs s.dict [(r, c)] with
      | (d', true) => ({ s with dict := d' }, "ok")
      | (_, false) => (s, "dup")
    | _, _ => (s, "bad-op")
  | some "dictm" =>
    -- one SetDictionary call with several entries; the harness issues these without duplicates, so the
    -- result does not depend on Go's map iteration order (`SetDictionary_order_independent`)
    match setDictionary trimWs s.dict (parseEntries ws) with
    | (d', true) => ({ s with dict := d' }, "ok")
    | (d', false) => ({ s with dict := d' }, "dup")
  | some "dictget" =>
    -- GetDictionary(), sorted by code
    let es := s.dict.mergeSort (fun a b => a.2 ≤ b.2)
    (s, "ok" ++ String.join (es.map fun e => s!" {hexOfBytes e.1}:{e.2}"))
  | some "pdec2" =>
    -- Decode a, then b on the SAME decoder, then read a's result again: results are values
    match kvHex ws "a", kvHex ws "b" with
    | some a, some b =>
      -- on the memory model: read buffers 0 and 1 are the caller's, each is recycled after its Decode call
      let h0 : Heap := [⟨.caller, a⟩, ⟨.caller, b⟩]
      let (h1, ra) := decodeH h0 0
      let r1 := showDecR h1 ra
      let h2 := h1.step (.write 0 (recycled a))
      let (h3, rb) := decodeH h2 1
      let r2 := showDecR h3 rb
      let h4 := h3.step (.write 1 (recycled b))
      (s, r1 ++ " | " ++ r2 ++ " | " ++ showDecR h4 ra)
    | _, _ => (s, "bad-op")
  | some "pdecs" =>
    match kvHex ws "data" with
    | some bs =>
      -- the caller's read buffer is allocated, decoded, rendered, then recycled (overwritten)
      let id := s.heap.length
      let (h2, r) := decodeH (s.heap.step (.alloc bs)) id
      let out := showDecR h2 r
      ({ s with heap := h2.step (.write id (recycled bs)), winR := winPush s.winR r }, out)
    | none => (s, "bad-op")
  | some "pchk" =>
    match kvNat ws "k" with
    | some k => (s, match s.winR[k]? with | some r => showDecR s.heap r | none => "none")
    | none => (s, "bad-op")
  | some "sess" =>
    match kvHex ws "data" with
    | some bs => ({ s with pend := some (bs, parseInfl ws), pendScr := none }, "working")
    | none => (s, "bad-op")
  | some "sscr" =>
    -- a whole session as the frames the connection hands over (`sessFrames`), staged; run by `sgo`
    match kvNat ws "comp" with
    | some comp =>
      let tbl := (parseChain ws).map fun c => (c.2.2.2.1, c.2.2.2.2.2)
      match scriptFrames (tblEnv s (comp == 1) tbl) ws with
      | some frames => ({ s with pendScr := some (frames, parseHsOk ws, comp == 1, tbl), pend := none }, "working")
      | none => (s, "encerr")
    | none => (s, "bad-op")
  | some "sgo" =>
    match s.pendScr, s.pend with
    | some (frames, hsok, comp, tbl), _ =>
      ({ s with pendScr := none }, showScript (sessFrames (tblEnv s comp tbl) (fun b => hsok.contains b) .start frames))
    | none, some (bs, infl) => ({ s with pend := none }, showSess (sessionData (mkEnv s false [] infl) bs))
    | none, none => (s, "none")
  | some "srt" =>
    -- packets framed by the encoder, the byte stream cut into fragments (`cut=`), read back through
    -- GetNextMessage + packet decoder.  The cuts do not matter (`stream_fragmentation_independent`),
    -- so the model reads the unfragmented stream.
    let ps := parsePackets ws
    let enc := ps.map frame
    if enc.all (fun e => match e with | .ok _ => true | .error _ => false) then
      let bs := enc.flatMap (fun e => match e with | .ok b => b | .error _ => [])
      let r := readStream (bs.length + 1) bs
      (s, "ok" ++ String.join (r.1.map showFramePackets) ++ " end=" ++ showEnd r.2)
    else (s, "encerr")
  | some "gnm" =>
    -- raw fragments through GetNextMessage until it returns no message
    match parseFrags ws with
    | some fs =>
      let r := readStreamF (fs.flatten.length + 1) fs
      (s, "ok" ++ String.join (r.1.map fun m => " m=" ++ hexOfBytes m) ++ " end=" ++ showEnd r.2)
    | none => (s, "bad-op")
  | some "mchain" =>
    -- the whole path: Encode + frame every message, the stream through GetNextMessage (the cuts do not matter:
    -- `stream_fragmentation_independent`), packet decoder, message.Decode of every body (`chain_roundtrip`)
    match kvNat ws "comp" with
    | some comp =>
      let cs := parseChain ws
      let E := tblEnv s (comp == 1) (cs.map fun c => (c.2.2.2.1, c.2.2.2.2.2))
      match cs.mapM (fun c => (MType.ofCode c.1).map fun ty => (⟨ty, c.2.1, c.2.2.1, c.2.2.2.1, c.2.2.2.2.1⟩ : Msg)) with
      | none => (s, "encerr")
      | some ms =>
        let enc := (sendMsgs E ms).map frame
        if enc.all (fun e => match e with | .ok _ => true | .error _ => false) then
          let bs := enc.flatMap (fun e => match e with | .ok b => b | .error _ => [])
          let r := readStream (bs.length + 1) bs
          (s, "ok" ++ String.join (r.1.map (showRecv E)) ++ " end=" ++ showEnd r.2)
        else (s, "encerr")
    | none => (s, "bad-op")
  | some "rtd" =>
    -- Encode under the dictionary as it is, then one SetDictionary entry, then Decode under the grown dictionary
    match parseMsgFields ws, kvNat ws "comp", kvHex ws "defl", kvHex ws "key", kvNat ws "code" with
    | some (t, id, route, data, e), some comp, some defl, some key, some code =>
      match MType.ofCode t with
      | none => (s, "err")
      | some ty =>
        let bs := encodeMsg (mkEnv s (comp == 1) defl [(defl.length, data)]) ⟨ty, id, route, data, e⟩
        let (s', d) := match setDictionary trimWs s.dict [(key, code)] with
          | (d', true) => ({ s with dict := d' }, "ok")
          | (_, false) => (s, "dup")
        (s', "ok " ++ hexOfBytes bs ++ " | " ++ d ++ " | " ++ showOut (decodeMsg (mkEnv s' (comp == 1) defl [(defl.length, data)]) bs))
    | _, _, _, _, _ => (s, "bad-op")
  | some "enc2" =>
    -- Encode handed the same message object twice (`encodeMsgM`: the first call may replace its Data)
    match parseMsgFields ws, kvNat ws "comp", kvHex ws "defl", kvHex ws "defl2" with
    | some (t, id, route, data, e), some comp, some defl, some defl2 =>
      match MType.ofCode t with
      | none => (s, "err")
      | some ty =>
        let E := tblEnv s (comp == 1) [(data, defl), (defl, defl2)]
        let r1 := encodeMsgM E ⟨ty, id, route, data, e⟩
        let r2 := encodeMsgM E r1.2
        (s, "ok " ++ hexOfBytes r1.1 ++ " | ok " ++ hexOfBytes r2.1 ++ " | " ++ showOut (decodeMsg E r2.1))
    | _, _, _, _ => (s, "bad-op")
  | some "crl" =>
    -- encoder frames cut at the given positions, read by the client's accumulating read loop
    let ps := parsePackets ws
    let enc := ps.map frame
    if enc.all (fun e => match e with | .ok _ => true | .error _ => false) then
      let bs := enc.flatMap (fun e => match e with | .ok b => b | .error _ => [])
      let frags := (cutAt bs 0 (parseCuts ws)).filter (fun f => !f.isEmpty)
      if frags.any (fun f => f.length ≥ 1024) then (s, "bad-op") else
      let r := showPackets (clientReadLoop [] frags)
      (s, r ++ " | " ++ r)
    else (s, "encerr")
  | some "zrt" =>
    -- DeflateData then InflateData (mode=raw) / Encode with compression then Decode (mode=msg) of an
    -- n-byte payload: zlib is the abstract inverse pair of the model, for every size
    match kvNat ws "n" with
    | some n => (s, s!"ok out={n} eq=1")
    | none => (s, "bad-op")
  | some "enc" | some "rt" =>
    match parseMsgFields ws, kvNat ws "comp", kvHex ws "defl" with
    | some (t, id, route, data, e), some comp, some defl =>
      match MType.ofCode t with
      | none => (s, "err")
      | some ty =>
        let E := mkEnv s (comp == 1) defl [(defl.length, data)]
        let bs := encodeMsg E ⟨ty, id, route, data, e⟩
        if ws.head? == some "enc" then (s, "ok " ++ hexOfBytes bs)
        else
          -- when the encoder did not compress, the body is the raw data
          (s, "ok " ++ hexOfBytes bs ++ " | " ++ showOut (decodeMsg E bs))
    | _, _, _ => (s, "bad-op")
  | some "dec" =>
    match kvHex ws "data" with
    | some bs => (s, showOut (decodeMsg (mkEnv s false [] (parseInfl ws)) bs))
    | none => (s, "bad-op")
  | some "penc" =>
    match kvNat ws "typ", kvHex ws "data" with
    | some t, some b => (s, match frame ⟨t, b⟩ with | .ok bs => "ok " ++ hexOfBytes bs | .error _ => "err")
    | _, _ => (s, "bad-op")
  | some "plimit" =>
    -- 16 MB bodies: answered from the header function (frame = header ++ body, `frame_eq_header`)
    match kvNat ws "typ", kvNat ws "n" with
    | some t, some n => (s, match frameHeader t n with | .ok h => "ok hdr=" ++ hexOfBytes h ++ " rt=ok" | .error _ => "err")
    | _, _ => (s, "bad-op")
  | some "pdec" =>
    match kvHex ws "data" with
    | some bs => (s, match decodePackets bs with | .ok ps => showPackets ps | .error _ => "err")
    | none => (s, "bad-op")
  | some "prt" =>
    let ps := parsePackets ws
    let enc := ps.map frame
    if enc.all (fun e => match e with | .ok _ => true | .error _ => false) then
      let bs := enc.flatMap (fun e => match e with | .ok b => b | .error _ => [])
      (s, match decodePackets bs with | .ok qs => showPackets qs | .error _ => "err")
    else (s, "encerr")
  | _ => (s, "bad-op")

/-! ### property predicate on implementation observations -/

def isPanic (obs : String) : Bool := (obs.splitOn "panic").length > 1 || (obs.splitOn "timeout").length > 1

structure SpecSt where
  /-- what the implementation itself answered to its last `winCap` `pdecs` calls, newest first -/
  win : List String := []
  /-- the staged session op, if `sgo` has not run yet -/
  pend : Option String := none

def contains (s sub : String) : Bool := (s.splitOn sub).length > 1

def specStep (st : SpecSt) (line : String) : SpecSt × String :=
  -- split at the FIRST tab (the stack trace in a `<harness-exit>` observation contains tabs)
  match line.splitOn "\t" with
  | op :: o1 :: orest =>
    let obs := "\t".intercalate (o1 :: orest)
    let ws := words op
    -- the harness process itself died: a panic outside every recover (reader goroutine of a session),
    -- a fatal runtime error or a hang; the op it died in is the one after the last recorded op
    if op.startsWith "<harness-exit" && isPanic obs then
      (st, "VIOLATION C06/server-crash process died (last staged session: " ++ (st.pend.getD "none") ++ ") " ++ op)
    else if isPanic obs then
      match ws.head? with
      | some "sess" | some "sgo" | some "sscr" =>
        ({ st with pend := none }, "VIOLATION C06/server-crash " ++ (st.pend.getD op) ++ " got " ++ obs)
      | some "dec" | some "rt" | some "rtd" => (st, "VIOLATION C06/message-decode-crash " ++ op)
      | some "pdec" | some "prt" | some "pdec2" | some "pdecs" | some "pchk" | some "crl" => (st, "VIOLATION C06/packet-decode-crash " ++ op)
      | some "mchain" => (st, "VIOLATION C06/chain-crash " ++ op)
      | some "srt" | some "gnm" => (st, "VIOLATION C06/stream-read-crash " ++ op)
      | some "zrt" => (st, "VIOLATION C06/zlib-crash " ++ op)
      | _ => (st, "VIOLATION C06/encode-crash " ++ op)
    else match ws.head? with
    | some "rt" | some "rtd" =>
      match parseMsgFields ws with
      | some (t, id, route, data, e) =>
        match MType.ofCode t with
        | none => (st, "ok")
        | some ty =>
          if id < 2 ^ 64 ∧ route.length ≤ 255 then
            let want := " | ok " ++ showMsg (carried ⟨ty, id, route, data, e⟩)
            (st, if obs.endsWith want then "ok" else "VIOLATION C06/message-roundtrip " ++ op ++ " got " ++ obs)
          else (st, "ok")
      | none => (st, "bad-op")
    | some "plimit" =>
      (st, if contains obs "rt=bad" then "VIOLATION C06/packet-roundtrip " ++ op ++ " got " ++ obs else "ok")
    | some "prt" =>
      let ps := parsePackets ws
      if ps.all (fun p => 1 ≤ p.typ ∧ p.typ ≤ 5 ∧ p.body.length < 2 ^ 24) then
        (st, if obs == showPackets ps then "ok" else "VIOLATION C06/packet-roundtrip " ++ op ++ " got " ++ obs)
      else (st, "ok")
    | some "pdec2" =>
      -- "<a's result when returned> | <b's result> | <a's result read again after b was decoded>"
      match obs.splitOn " | " with
      | [r1, _, r1'] =>
        (st, if r1 == r1' then "ok" else "VIOLATION C06/decode-result-aliased " ++ op ++ " got " ++ obs)
      | _ => (st, "VIOLATION C06/decode-result-aliased " ++ op ++ " malformed observation " ++ obs)
    | some "pdecs" => ({ st with win := winPush st.win obs }, "ok")
    | some "pchk" =>
      match kvNat ws "k" with
      | some k =>
        match st.win[k]? with
        | some r => (st, if r == obs then "ok" else
            "VIOLATION C06/decode-result-aliased " ++ op ++ " returned earlier: " ++ r ++ " reads now: " ++ obs)
        | none => (st, "ok")
      | none => (st, "bad-op")
    | some "srt" =>
      -- valid packets, any fragmentation: the same packets come back and the stream ends cleanly
      let ps := parsePackets ws
      if ps.all (fun p => 1 ≤ p.typ ∧ p.typ ≤ 5 ∧ p.body.length < 2 ^ 24) then
        (st, if obs == showPackets ps ++ " end=closed" then "ok"
             else "VIOLATION C06/stream-reassembly " ++ (op.take 300).toString ++ " got " ++ (obs.take 300).toString)
      else (st, "ok")
    | some "gnm" =>
      -- whatever was handed over is, concatenated, a prefix of what was sent (all of it on a clean end)
      let sent := String.join ((kv ws "frag").getD "" |>.splitOn ",")
      let got := String.join ((words obs).filterMap fun w => if w.startsWith "m=" then some (w.drop 2).toString else none)
      let clean := contains obs "end=closed"
      (st, if (clean && got == sent) || (!clean && got.isPrefixOf sent) then "ok"
           else "VIOLATION C06/stream-reassembly " ++ (op.take 300).toString ++ " got " ++ (obs.take 300).toString)
    | some "mchain" =>
      -- every message within protocol limits comes out of the whole path with the fields the protocol carries,
      -- all of them read AFTER the whole stream was decoded, and the stream ends cleanly
      let cs := parseChain ws
      match cs.mapM (fun c => (MType.ofCode c.1).map fun ty => (⟨ty, c.2.1, c.2.2.1, c.2.2.2.1, c.2.2.2.2.1⟩ : Msg)) with
      | none => (st, "ok")
      | some ms =>
        if ms.all (fun m => decide (m.id < 2 ^ 64 ∧ m.route.length ≤ 255 ∧ m.data.length < 2 ^ 23)) then
          let want := "ok" ++ String.join (ms.map fun m => showChainMsg (carried m)) ++ " end=closed"
          (st, if obs == want then "ok"
               else "VIOLATION C06/chain-roundtrip " ++ (op.take 600).toString ++ " got " ++ (obs.take 600).toString)
        else (st, "ok")
    | some "crl" =>
      -- "<packets as readPackets returned them> | <the same queued packets read at the end>"
      match obs.splitOn " | " with
      | [r1, r2] =>
        let ps := parsePackets ws
        if r1 != r2 then
          (st, "VIOLATION C06/decode-result-aliased " ++ (op.take 600).toString ++ " got " ++ (obs.take 600).toString)
        else if ps.all (fun p => 1 ≤ p.typ ∧ p.typ ≤ 5 ∧ p.body.length < 2 ^ 24) && r1 != showPackets ps then
          (st, "VIOLATION C06/packet-roundtrip " ++ (op.take 600).toString ++ " got " ++ (obs.take 600).toString)
        else (st, "ok")
      | _ => (st, if obs == "bad-op" || obs == "encerr" then "ok" else "VIOLATION C06/decode-result-aliased " ++ op ++ " malformed observation " ++ obs)
    | some "zrt" =>
      match kvNat ws "n" with
      | some n => (st, if obs == s!"ok out={n} eq=1" then "ok" else "VIOLATION C06/zlib-roundtrip " ++ op ++ " got " ++ obs)
      | none => (st, "bad-op")
    | some "sess" | some "sscr" => ({ st with pend := some op }, "ok")
    | some "sgo" =>
      -- a REGULAR session (accepted handshake, ack, then messages within protocol limits only): every message is
      -- handed to the owner, in order, with the fields the protocol carries, and the session stays open
      match st.pend with
      | some sop =>
        let sw := words sop
        let toks := sw.drop 1 |>.filter fun w => !(w.startsWith "comp=" || w.startsWith "hsok=")
        let regular := sw.head? == some "sscr" && (match toks with
          | h :: "ack" :: rest => h.startsWith "hs=" && (parseHsOk sw).any (fun b => "hs=" ++ hexOfBytes b == h) &&
              rest.all (fun w => w.startsWith "m=") && (parseChain rest).length == rest.length
          | _ => false)
        if regular then
          match (parseChain sw).mapM (fun c => (MType.ofCode c.1).map fun ty => (⟨ty, c.2.1, c.2.2.1, c.2.2.2.1, c.2.2.2.2.1⟩ : Msg)) with
          | some ms =>
            if ms.all (fun m => decide (m.id < 2 ^ 64 ∧ m.route.length ≤ 255 ∧ m.data.length < 2 ^ 23)) then
              let want := " ; ".intercalate ((ms.map fun m => showSess (.delivered ((carried m).id % 2 ^ 32) (carried m).route m.data)) ++ ["open"])
              ({ st with pend := none }, if obs == want then "ok"
                else "VIOLATION C06/session-delivery " ++ (sop.take 600).toString ++ " got " ++ (obs.take 600).toString)
            else ({ st with pend := none }, "ok")
          | none => ({ st with pend := none }, "ok")
        else ({ st with pend := none }, "ok")
      | none => (st, "ok")
    | _ => (st, "ok")
  | _ => (st, "bad-line")

end Cell2v.Driver.C06

open Cell2v.Driver in
def main (args : List String) : IO Unit :=
  match args with
  | ["spec"] => runLoop Cell2v.Driver.C06.specStep {}
  | _ => runLoop Cell2v.Driver.C06.step {}
