import Cell2v.Driver.Util
import Cell2v.Model.Codec
/-!
Model driver for C06.  `modeld_c06 model` : one op line in, one observation out.
`modeld_c06 spec`  : lines `op\tobs` in, `ok` or `VIOLATION <signature> <why>` out —
the property predicate itself (round trip / no crash / earlier decode results
unchanged / the process survives a session's Data packet), applied to observations
recorded from the implementation, independent of the model's internals (it keeps
the implementation's own earlier `pdecs` answers and the staged `sess` op).
-/
namespace Cell2v.Driver.C06
open Cell2v.Driver Cell2v.Codec

structure St where
  dict : List (Bytes × Nat) := []
  /-- results of the last `winCap` calls on the long-lived packet decoder (`pdecs`), newest first -/
  win : List (Except PErr (List Packet)) := []
  /-- Data-packet body staged by `sess` (with the inflate table of the op), consumed by `sgo` -/
  pend : Option (Bytes × List (Nat × Bytes)) := none

def mkEnv (s : St) (compress : Bool) (defl : Bytes) (infl : List (Nat × Bytes)) : Env :=
  { routes := Dict.routes s.dict
    codes := Dict.codes s.dict
    deflate := fun _ => defl
    inflate := fun b => (infl.find? (fun e => e.1 == b.length)).map (·.2)
    compress := compress }

def showMsg (m : Msg) : String :=
  s!"typ={m.typ.code} id={m.id} route={hexOfBytes m.route} data={hexOfBytes m.data} err={b2n m.err}"

def showOut : Out Msg → String
  | .ok m => "ok " ++ showMsg m
  | .err _ => "err"
  | .oob => "panic"

/-- `infl=<bodylen>:<hex>,<bodylen>:<hex>` : the bodies the real zlib inflates successfully -/
def parseInfl (ws : List String) : List (Nat × Bytes) :=
  match kv ws "infl" with
  | none => []
  | some v => (v.splitOn ",").filterMap fun e =>
      match e.splitOn ":" with
      | [l, h] => match l.toNat?, bytesOfHex h with
        | some n, some b => some (n, b)
        | _, _ => none
      | _ => none

def parsePackets (ws : List String) : List Packet :=
  ws.filterMap fun w =>
    if w.startsWith "p=" then
      match ((w.drop 2).toString).splitOn ":" with
      | [t, h] => match t.toNat?, bytesOfHex h with
        | some n, some b => some ⟨n, b⟩
        | _, _ => none
      | _ => none
    else none

def showPackets (ps : List Packet) : String :=
  "ok" ++ String.join (ps.map fun p => s!" p={p.typ}:{hexOfBytes p.body}")

def showDec : Except PErr (List Packet) → String
  | .ok ps => showPackets ps
  | .error _ => "err"

def showSess : SessOut → String
  | .delivered id r d => s!"delivered id={id} route={hexOfBytes r} data={hexOfBytes d}"
  | .closed => "closed"
  | .crash => "panic"

/-- `e=<hexkey>:<code>` tokens of a multi-entry `SetDictionary` call -/
def parseEntries (ws : List String) : List (Bytes × Nat) :=
  ws.filterMap fun w =>
    if w.startsWith "e=" then
      match ((w.drop 2).toString).splitOn ":" with
      | [h, c] => match bytesOfHex h, c.toNat? with
        | some b, some n => some (b, n)
        | _, _ => none
      | _ => none
    else none

def showEnd : SEnd → String
  | .closed => "closed" | .err => "err" | .fuel => "fuel"

/-- what the packet decoder makes of one frame handed over by `GetNextMessage` -/
def showFramePackets (m : Bytes) : String :=
  match decodePackets m with
  | .ok ps => String.join (ps.map fun p => s!" p={p.typ}:{hexOfBytes p.body}")
  | .error _ => " bad"

/-- `frag=<hex>,<hex>,...` (an empty item is an empty fragment) -/
def parseFrags (ws : List String) : Option (List Bytes) :=
  match kv ws "frag" with
  | none => none
  | some v => (v.splitOn ",").mapM bytesOfHex

def parseMsgFields (ws : List String) : Option (Nat × Nat × Bytes × Bytes × Bool) := do
  let t ← kvNat ws "typ"
  let id ← kvNat ws "id"
  let route ← kvHex ws "route"
  let data ← kvHex ws "data"
  let e ← kvNat ws "err"
  pure (t, id, route, data, e == 1)

def step (s : St) (line : String) : St × String :=
  -- replay of a run in which the process died: the harness runs the staged session there (= `sgo`)
  let line := if line.startsWith "<harness-exit" && s.pend.isSome then "sgo" else line
  let ws := words line
  match ws.head? with
  | some "dict" =>
    match kvHex ws "route", kvNat ws "code" with
    | some r, some c =>
      -- SetDictionary with a single-entry map; keys may carry surrounding blanks (space, \t, \n, \r)
      match setDictionary trimWs s.dict [(r, c)] with
      | (d', true) => ({ s with dict := d' }, "ok")
      | (_, false) => (s, "dup")
    | _, _ => (s, "bad-op")
  | some "dictm" =>
    -- one SetDictionary call with several entries; the harness issues these without duplicates, so the
    -- result does not depend on Go's map iteration order (`SetDictionary_order_independent`)
    match setDictionary trimWs s.dict (parseEntries ws) with
    | (d', true) => ({ s with dict := d' }, "ok")
    | (d', false) => ({ s with dict := d' }, "dup")
  | some "dictget" =>
    -- GetDictionary(), sorted by code
    let es := s.dict.mergeSort (fun a b => a.2 ≤ b.2)
    (s, "ok" ++ String.join (es.map fun e => s!" {hexOfBytes e.1}:{e.2}"))
  | some "pdec2" =>
    -- Decode a, then b on the SAME decoder, then read a's result again: results are values
    match kvHex ws "a", kvHex ws "b" with
    | some a, some b =>
      let ra := showDec (decodePackets a)
      (s, ra ++ " | " ++ showDec (decodePackets b) ++ " | " ++ ra)
    | _, _ => (s, "bad-op")
  | some "pdecs" =>
    match kvHex ws "data" with
    | some bs =>
      let (w', r) := decodeShared s.win bs
      ({ s with win := w' }, showDec r)
    | none => (s, "bad-op")
  | some "pchk" =>
    match kvNat ws "k" with
    | some k => (s, match s.win[k]? with | some r => showDec r | none => "none")
    | none => (s, "bad-op")
  | some "sess" =>
    match kvHex ws "data" with
    | some bs => ({ s with pend := some (bs, parseInfl ws) }, "working")
    | none => (s, "bad-op")
  | some "sgo" =>
    match s.pend with
    | some (bs, infl) => ({ s with pend := none }, showSess (sessionData (mkEnv s false [] infl) bs))
    | none => (s, "none")
  | some "srt" =>
    -- packets framed by the encoder, the byte stream cut into fragments (`cut=`), read back through
    -- GetNextMessage + packet decoder.  The cuts do not matter (`stream_fragmentation_independent`),
    -- so the model reads the unfragmented stream.
    let ps := parsePackets ws
    let enc := ps.map frame
    if enc.all (fun e => match e with | .ok _ => true | .error _ => false) then
      let bs := enc.flatMap (fun e => match e with | .ok b => b | .error _ => [])
      let r := readStream (bs.length + 1) bs
      (s, "ok" ++ String.join (r.1.map showFramePackets) ++ " end=" ++ showEnd r.2)
    else (s, "encerr")
  | some "gnm" =>
    -- raw fragments through GetNextMessage until it returns no message
    match parseFrags ws with
    | some fs =>
      let r := readStreamF (fs.flatten.length + 1) fs
      (s, "ok" ++ String.join (r.1.map fun m => " m=" ++ hexOfBytes m) ++ " end=" ++ showEnd r.2)
    | none => (s, "bad-op")
  | some "zrt" =>
    -- DeflateData then InflateData (mode=raw) / Encode with compression then Decode (mode=msg) of an
    -- n-byte payload: zlib is the abstract inverse pair of the model, for every size
    match kvNat ws "n" with
    | some n => (s, s!"ok out={n} eq=1")
    | none => (s, "bad-op")
  | some "enc" | some "rt" =>
    match parseMsgFields ws, kvNat ws "comp", kvHex ws "defl" with
    | some (t, id, route, data, e), some comp, some defl =>
      match MType.ofCode t with
      | none => (s, "err")
      | some ty =>
        let E := mkEnv s (comp == 1) defl [(defl.length, data)]
        let bs := encodeMsg E ⟨ty, id, route, data, e⟩
        if ws.head? == some "enc" then (s, "ok " ++ hexOfBytes bs)
        else
          -- when the encoder did not compress, the body is the raw data
          (s, "ok " ++ hexOfBytes bs ++ " | " ++ showOut (decodeMsg E bs))
    | _, _, _ => (s, "bad-op")
  | some "dec" =>
    match kvHex ws "data" with
    | some bs => (s, showOut (decodeMsg (mkEnv s false [] (parseInfl ws)) bs))
    | none => (s, "bad-op")
  | some "penc" =>
    match kvNat ws "typ", kvHex ws "data" with
    | some t, some b => (s, match frame ⟨t, b⟩ with | .ok bs => "ok " ++ hexOfBytes bs | .error _ => "err")
    | _, _ => (s, "bad-op")
  | some "plimit" =>
    -- 16 MB bodies: answered from the header function (frame = header ++ body, `frame_eq_header`)
    match kvNat ws "typ", kvNat ws "n" with
    | some t, some n => (s, match frameHeader t n with | .ok h => "ok hdr=" ++ hexOfBytes h ++ " rt=ok" | .error _ => "err")
    | _, _ => (s, "bad-op")
  | some "pdec" =>
    match kvHex ws "data" with
    | some bs => (s, match decodePackets bs with | .ok ps => showPackets ps | .error _ => "err")
    | none => (s, "bad-op")
  | some "prt" =>
    let ps := parsePackets ws
    let enc := ps.map frame
    if enc.all (fun e => match e with | .ok _ => true | .error _ => false) then
      let bs := enc.flatMap (fun e => match e with | .ok b => b | .error _ => [])
      (s, match decodePackets bs with | .ok qs => showPackets qs | .error _ => "err")
    else (s, "encerr")
  | _ => (s, "bad-op")

/-! ### property predicate on implementation observations -/

def isPanic (obs : String) : Bool := (obs.splitOn "panic").length > 1 || (obs.splitOn "timeout").length > 1

structure SpecSt where
  /-- what the implementation itself answered to its last `winCap` `pdecs` calls, newest first -/
  win : List String := []
  /-- the staged session op, if `sgo` has not run yet -/
  pend : Option String := none

def contains (s sub : String) : Bool := (s.splitOn sub).length > 1

def specStep (st : SpecSt) (line : String) : SpecSt × String :=
  -- split at the FIRST tab (the stack trace in a `<harness-exit>` observation contains tabs)
  match line.splitOn "\t" with
  | op :: o1 :: orest =>
    let obs := "\t".intercalate (o1 :: orest)
    let ws := words op
    -- the harness process itself died: a panic outside every recover (reader goroutine of a session),
    -- a fatal runtime error or a hang; the op it died in is the one after the last recorded op
    if op.startsWith "<harness-exit" && isPanic obs then
      (st, "VIOLATION C06/server-crash process died (last staged session: " ++ (st.pend.getD "none") ++ ") " ++ op)
    else if isPanic obs then
      match ws.head? with
      | some "sess" | some "sgo" =>
        ({ st with pend := none }, "VIOLATION C06/server-crash " ++ (st.pend.getD op) ++ " got " ++ obs)
      | some "dec" | some "rt" => (st, "VIOLATION C06/message-decode-crash " ++ op)
      | some "pdec" | some "prt" | some "pdec2" | some "pdecs" | some "pchk" => (st, "VIOLATION C06/packet-decode-crash " ++ op)
      | some "srt" | some "gnm" => (st, "VIOLATION C06/stream-read-crash " ++ op)
      | some "zrt" => (st, "VIOLATION C06/zlib-crash " ++ op)
      | _ => (st, "VIOLATION C06/encode-crash " ++ op)
    else match ws.head? with
    | some "rt" =>
      match parseMsgFields ws with
      | some (t, id, route, data, e) =>
        match MType.ofCode t with
        | none => (st, "ok")
        | some ty =>
          if id < 2 ^ 64 ∧ route.length ≤ 255 then
            let want := " | ok " ++ showMsg (carried ⟨ty, id, route, data, e⟩)
            (st, if obs.endsWith want then "ok" else "VIOLATION C06/message-roundtrip " ++ op ++ " got " ++ obs)
          else (st, "ok")
      | none => (st, "bad-op")
    | some "plimit" =>
      (st, if contains obs "rt=bad" then "VIOLATION C06/packet-roundtrip " ++ op ++ " got " ++ obs else "ok")
    | some "prt" =>
      let ps := parsePackets ws
      if ps.all (fun p => 1 ≤ p.typ ∧ p.typ ≤ 5 ∧ p.body.length < 2 ^ 24) then
        (st, if obs == showPackets ps then "ok" else "VIOLATION C06/packet-roundtrip " ++ op ++ " got " ++ obs)
      else (st, "ok")
    | some "pdec2" =>
      -- "<a's result when returned> | <b's result> | <a's result read again after b was decoded>"
      match obs.splitOn " | " with
      | [r1, _, r1'] =>
        (st, if r1 == r1' then "ok" else "VIOLATION C06/decode-result-aliased " ++ op ++ " got " ++ obs)
      | _ => (st, "VIOLATION C06/decode-result-aliased " ++ op ++ " malformed observation " ++ obs)
    | some "pdecs" => ({ st with win := winPush st.win obs }, "ok")
    | some "pchk" =>
      match kvNat ws "k" with
      | some k =>
        match st.win[k]? with
        | some r => (st, if r == obs then "ok" else
            "VIOLATION C06/decode-result-aliased " ++ op ++ " returned earlier: " ++ r ++ " reads now: " ++ obs)
        | none => (st, "ok")
      | none => (st, "bad-op")
    | some "srt" =>
      -- valid packets, any fragmentation: the same packets come back and the stream ends cleanly
      let ps := parsePackets ws
      if ps.all (fun p => 1 ≤ p.typ ∧ p.typ ≤ 5 ∧ p.body.length < 2 ^ 24) then
        (st, if obs == showPackets ps ++ " end=closed" then "ok"
             else "VIOLATION C06/stream-reassembly " ++ (op.take 300).toString ++ " got " ++ (obs.take 300).toString)
      else (st, "ok")
    | some "gnm" =>
      -- whatever was handed over is, concatenated, a prefix of what was sent (all of it on a clean end)
      let sent := String.join ((kv ws "frag").getD "" |>.splitOn ",")
      let got := String.join ((words obs).filterMap fun w => if w.startsWith "m=" then some (w.drop 2).toString else none)
      let clean := contains obs "end=closed"
      (st, if (clean && got == sent) || (!clean && got.isPrefixOf sent) then "ok"
           else "VIOLATION C06/stream-reassembly " ++ (op.take 300).toString ++ " got " ++ (obs.take 300).toString)
    | some "zrt" =>
      match kvNat ws "n" with
      | some n => (st, if obs == s!"ok out={n} eq=1" then "ok" else "VIOLATION C06/zlib-roundtrip " ++ op ++ " got " ++ obs)
      | none => (st, "bad-op")
    | some "sess" => ({ st with pend := some op }, "ok")
    | some "sgo" => ({ st with pend := none }, "ok")
    | _ => (st, "ok")
  | _ => (st, "bad-line")

end Cell2v.Driver.C06

open Cell2v.Driver in
def main (args : List String) : IO Unit :=
  match args with
  | ["spec"] => runLoop Cell2v.Driver.C06.specStep {}
  | _ => runLoop Cell2v.Driver.C06.step {}
