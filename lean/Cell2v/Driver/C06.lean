import Cell2v.Driver.Util
import Cell2v.Model.Codec
/-!
Model driver for C06.  `modeld_c06 model` : one op line in, one observation out.
`modeld_c06 spec`  : lines `op\tobs` in, `ok` or `VIOLATION <signature> <why>` out —
the property predicate itself (round trip / no crash), applied to observations
recorded from the implementation, independent of the model's internals.
-/
namespace Cell2v.Driver.C06
open Cell2v.Driver Cell2v.Codec

structure St where
  dict : List (Bytes × Nat) := []

def mkEnv (s : St) (compress : Bool) (defl : Bytes) (infl : List (Nat × Bytes)) : Env :=
  { routes := Dict.routes s.dict
    codes := Dict.codes s.dict
    deflate := fun _ => defl
    inflate := fun b => (infl.find? (fun e => e.1 == b.length)).map (·.2)
    compress := compress }

def showMsg (m : Msg) : String :=
  s!"typ={m.typ.code} id={m.id} route={hexOfBytes m.route} data={hexOfBytes m.data} err={b2n m.err}"

def showOut : Out Msg → String
  | .ok m => "ok " ++ showMsg m
  | .err _ => "err"
  | .oob => "panic"

/-- `infl=<bodylen>:<hex>,<bodylen>:<hex>` : the bodies the real zlib inflates successfully -/
def parseInfl (ws : List String) : List (Nat × Bytes) :=
  match kv ws "infl" with
  | none => []
  | some v => (v.splitOn ",").filterMap fun e =>
      match e.splitOn ":" with
      | [l, h] => match l.toNat?, bytesOfHex h with
        | some n, some b => some (n, b)
        | _, _ => none
      | _ => none

def parsePackets (ws : List String) : List Packet :=
  ws.filterMap fun w =>
    if w.startsWith "p=" then
      match ((w.drop 2).toString).splitOn ":" with
      | [t, h] => match t.toNat?, bytesOfHex h with
        | some n, some b => some ⟨n, b⟩
        | _, _ => none
      | _ => none
    else none

def showPackets (ps : List Packet) : String :=
  "ok" ++ String.join (ps.map fun p => s!" p={p.typ}:{hexOfBytes p.body}")

def parseMsgFields (ws : List String) : Option (Nat × Nat × Bytes × Bytes × Bool) := do
  let t ← kvNat ws "typ"
  let id ← kvNat ws "id"
  let route ← kvHex ws "route"
  let data ← kvHex ws "data"
  let e ← kvNat ws "err"
  pure (t, id, route, data, e == 1)

def step (s : St) (line : String) : St × String :=
  let ws := words line
  match ws.head? with
  | some "dict" =>
    match kvHex ws "route", kvNat ws "code" with
    | some r, some c =>
      -- SetDictionary with a single-entry map (the harness passes routes without surrounding blanks: trim = id)
      match setDictionary id s.dict [(r, c)] with
      | (d', true) => ({ s with dict := d' }, "ok")
      | (_, false) => (s, "dup")
    | _, _ => (s, "bad-op")
  | some "enc" | some "rt" =>
    match parseMsgFields ws, kvNat ws "comp", kvHex ws "defl" with
    | some (t, id, route, data, e), some comp, some defl =>
      match MType.ofCode t with
      | none => (s, "err")
      | some ty =>
        let E := mkEnv s (comp == 1) defl [(defl.length, data)]
        let bs := encodeMsg E ⟨ty, id, route, data, e⟩
        if ws.head? == some "enc" then (s, "ok " ++ hexOfBytes bs)
        else
          -- when the encoder did not compress, the body is the raw data
          (s, "ok " ++ hexOfBytes bs ++ " | " ++ showOut (decodeMsg E bs))
    | _, _, _ => (s, "bad-op")
  | some "dec" =>
    match kvHex ws "data" with
    | some bs => (s, showOut (decodeMsg (mkEnv s false [] (parseInfl ws)) bs))
    | none => (s, "bad-op")
  | some "penc" =>
    match kvNat ws "typ", kvHex ws "data" with
    | some t, some b => (s, match frame ⟨t, b⟩ with | .ok bs => "ok " ++ hexOfBytes bs | .error _ => "err")
    | _, _ => (s, "bad-op")
  | some "plimit" =>
    -- 16 MB bodies: answered from the header function (frame = header ++ body, `frame_eq_header`)
    match kvNat ws "typ", kvNat ws "n" with
    | some t, some n => (s, match frameHeader t n with | .ok h => "ok hdr=" ++ hexOfBytes h ++ " rt=ok" | .error _ => "err")
    | _, _ => (s, "bad-op")
  | some "pdec" =>
    match kvHex ws "data" with
    | some bs => (s, match decodePackets bs with | .ok ps => showPackets ps | .error _ => "err")
    | none => (s, "bad-op")
  | some "prt" =>
    let ps := parsePackets ws
    let enc := ps.map frame
    if enc.all (fun e => match e with | .ok _ => true | .error _ => false) then
      let bs := enc.flatMap (fun e => match e with | .ok b => b | .error _ => [])
      (s, match decodePackets bs with | .ok qs => showPackets qs | .error _ => "err")
    else (s, "encerr")
  | _ => (s, "bad-op")

/-! ### property predicate on implementation observations -/

def isPanic (obs : String) : Bool := (obs.splitOn "panic").length > 1 || (obs.splitOn "timeout").length > 1

def specLine (line : String) : String :=
  match line.splitOn "\t" with
  | [op, obs] =>
    let ws := words op
    if isPanic obs then
      match ws.head? with
      | some "dec" | some "rt" => "VIOLATION C06/message-decode-crash " ++ op
      | some "pdec" | some "prt" => "VIOLATION C06/packet-decode-crash " ++ op
      | _ => "VIOLATION C06/encode-crash " ++ op
    else match ws.head? with
    | some "rt" =>
      match parseMsgFields ws with
      | some (t, id, route, data, e) =>
        match MType.ofCode t with
        | none => "ok"
        | some ty =>
          if id < 2 ^ 64 ∧ route.length ≤ 255 then
            let want := " | ok " ++ showMsg (carried ⟨ty, id, route, data, e⟩)
            if obs.endsWith want then "ok" else "VIOLATION C06/message-roundtrip " ++ op ++ " got " ++ obs
          else "ok"
      | none => "bad-op"
    | some "plimit" =>
      if (obs.splitOn "rt=bad").length > 1 then "VIOLATION C06/packet-roundtrip " ++ op ++ " got " ++ obs else "ok"
    | some "prt" =>
      let ps := parsePackets ws
      if ps.all (fun p => 1 ≤ p.typ ∧ p.typ ≤ 5 ∧ p.body.length < 2 ^ 24) then
        if obs == showPackets ps then "ok" else "VIOLATION C06/packet-roundtrip " ++ op ++ " got " ++ obs
      else "ok"
    | _ => "ok"
  | _ => "bad-line"

end Cell2v.Driver.C06

open Cell2v.Driver in
def main (args : List String) : IO Unit :=
  match args with
  | ["spec"] => runLoop (fun (_ : Unit) l => ((), Cell2v.Driver.C06.specLine l)) ()
  | _ => runLoop Cell2v.Driver.C06.step {}
