import Cell2v.Driver.Util
import Cell2v.Model.NodeCtrl
import Cell2v.Spec.C12
/-!
Model driver for C12 (node retirement controller).

`modeld_c12 model` : one op line in, the model's observation line out
`modeld_c12 spec`  : `op<TAB>implementation observation` in, `ok` or
                     `VIOLATION <signature> <text>` out (the monitor of `Spec/C12`)

Op lines (a case starts with `reset`):
  reset k=<kind,kind,...> [stop=later|inline1|inline0] [pf=<0|1,...>]
                              pf: the cluster provider refuses (1) / accepts (0) the k-th publication of the case
                              kinds: raw | nok | nno | nnl | nem | dead  (empty list: no hosted service);
                              stop: the INodeApp completes StopNode later (op stopdone) / inside the call with true / false
  cmd <name>                  stat | retire | exit | web_nodes | web_retire | web_exit | anything else
  qack i=<idx> res=<text>     scripted service s<idx> answers its pending queryretire with <text>
  retired i=<idx>|ghost       ctrl.servicecmd {s<idx>, retired}; idx beyond the set / ghost: unknown name
  svccmd i=<idx> c=<text>     ctrl.servicecmd with another command
  stopdone succ=0|1           the INodeApp completes the oldest outstanding StopNode
  tick                        40 s pass
  res i=<idx> up=0|1          s<idx> leaves / rejoins the node's member record in the cluster directory
  reflect                     the directory now shows the node state published last (no effect on the
                              controller: resolving a hosted service does not depend on the node state shown)
(reset also takes lst=<P|F|W|G|T|A|M...>: the node's service list as the real App.FilterSelfServices reads it:
configured names (P backend, F/W/G frontend, T other type, A backend with client address) interleaved with
unconfigured ones (M); the model derives the hosted services from it: `hostedOf (parseEntries ws)`)
Observation: `r=<class> pub=<states the provider accepted, in completion order> upd=<states as the node issued them> lost=<states the provider refused> stop=<n> sent=<s<i>:<cmd>,...> st=<state>`
-/
namespace Cell2v.Driver.C12
open Cell2v.Driver Cell2v.NodeCtrl

def parseKind : String → Kind
  | "raw" => .raw | "nok" => .nodeOk | "nno" => .nodeNo | "nnl" => .nodeNoListener | "nem" => .nodeEmpty
  | _ => .dead

def parseKinds (ws : List String) : List Kind :=
  match kv ws "k" with
  | none => []
  | some "" => []
  | some v => (v.splitOn ",").map parseKind

/-- `lst=` letter of a configured name → its `services:` entry (harness `svcAttrs`) -/
def cfgOfLetter : Char → Option SvcCfg
  | 'P' => some {}
  | 'F' => some { typ := 1, frontend := true, clientAddr := true }
  | 'W' => some { typ := 1, frontend := true, wsAddr := true }
  | 'G' => some { frontend := true }
  | 'T' => some { typ := 1 }
  | 'A' => some { clientAddr := true }
  | _ => none

/-- the node's `Services:` list: the letters of `lst=`, the configured ones paired with the kinds of `k=` in order -/
def zipEntries : List Char → List Kind → Option (List Entry)
  | [], [] => some []
  | [], _ :: _ => none
  | 'M' :: cs, ks => (zipEntries cs ks).map (Entry.unconfigured :: ·)
  | c :: cs, k :: ks =>
    match cfgOfLetter c, zipEntries cs ks with
    | some cfg, some r => some (.hosted cfg k :: r)
    | _, _ => none
  | _ :: _, [] => none

/-- without `lst=` (or with one that does not fit `k=`, as in the harness): every name is a plain backend -/
def parseEntries (ws : List String) : List Entry :=
  let kinds := parseKinds ws
  match (kv ws "lst").bind (fun v => zipEntries v.toList kinds) with
  | some es => es
  | none => kinds.map (Entry.hosted {} ·)

def parseMode (ws : List String) : StopMode :=
  match kv ws "stop" with
  | some "inline1" => .inlineOk
  | some "inline0" => .inlineFail
  | _ => .later

def parseCmd : String → Cmd
  | "stat" => .stat | "retire" => .retire | "exit" => .exit | "web_nodes" => .webNodes
  | "web_retire" => .webRetire | "web_exit" => .webExit | _ => .other

/-- index of a service token; `ghost` and anything unparsable is a name the node does not host -/
def parseIdx (ws : List String) : Nat :=
  match kvNat ws "i" with
  | some i => i
  | none => 1000000

def scmdName : SCmd → String
  | .queryretire => "queryretire" | .retire => "retire"

def join (sep : String) : List String → String
  | [] => ""
  | [a] => a
  | a :: rest => a ++ sep ++ join sep rest

/-- a NodeService without a listener records nothing, so commands sent to it are not observable -/
def visible (kinds : List Kind) (i : Nat) : Bool :=
  match kinds[i]? with
  | some .nodeNoListener => false
  | _ => true

/-- `pf=<0|1,...>`: the k-th provider update of the case fails (1) or succeeds (0; also beyond the list) -/
def parseScript (ws : List String) : List Bool :=
  match kv ws "pf" with
  | none => []
  | some "" => []
  | some v => (v.splitOn ",").map (· == "1")

def showObs (kinds : List Kind) (r : String) (es : List Evt) (s : St) (sc : List Bool := []) : String :=
  let upd := es.filterMap (fun e => match e with | .pub x => some x | _ => none)
  let pubs := (delivered sc upd).map NS.name
  let lost := (lostOf sc upd).map NS.name
  let upd := upd.map NS.name
  let sent := es.filterMap (fun e => match e with
    | .send i c => if visible kinds i then some s!"s{i}:{scmdName c}" else none
    | _ => none)
  s!"r={r} pub={join "," pubs} upd={join "," upd} lost={join "," lost} stop={stops es} sent={join "," sent} st={s.st.name}"

def replyOf (es : List Evt) : String :=
  let r : Option Reply := es.findSome? (fun e => match e with | .reply r => some r | _ => none)
  match r with
  | some .ok => "ok"
  | some .refused => "refused"
  | some (.info _) => "info"
  | none => "none"

structure DSt where
  kinds : List Kind := []
  st : Option St := none
  held : List Bool := []        -- scripted service still holds an unanswered queryretire
  script : List Bool := []      -- the cluster provider's remaining fault script

def step (d : DSt) (line : String) : DSt × String :=
  let ws := words line
  match ws.head? with
  | some "reset" =>
    -- what the controller hosts is computed by the model of FilterSelfServices + makeServices
    let kinds := hostedOf (parseEntries ws)
    let b := boot true kinds (parseMode ws)
    let sc := parseScript ws
    ({ kinds := kinds, st := some b.1, held := kinds.map (· == Kind.raw),
       script := scriptAfter sc (Cell2v.Spec.C12.pubsOf b.2).length }, showObs kinds "-" b.2 b.1 sc)
  | some h =>
    match d.st with
    | none => (d, "bad-op")
    | some s =>
      let fin (r : String) (res : St × List Evt) (d' : DSt := d) : DSt × String :=
        ({ d' with st := some res.1, script := scriptAfter d.script (Cell2v.Spec.C12.pubsOf res.2).length },
          showObs d.kinds r res.2 res.1 d.script)
      match h with
      | "cmd" =>
        match ws[1]? with
        | none => (d, "bad-op")
        | some c =>
          let res := NodeCtrl.step true s (.cmd (parseCmd c))
          fin (replyOf res.2) res
      | "qack" =>
        let i := parseIdx ws
        let txt := (kv ws "res").getD ""
        if d.held[i]? == some true then
          fin ("ack:" ++ txt) (NodeCtrl.step true s (.qack i (txt == "ok"))) { d with held := d.held.set i false }
        else fin "ack:none" (s, [])
      | "retired" | "svccmd" =>
        let i := parseIdx ws
        let c := if h == "retired" then "retired" else (kv ws "c").getD ""
        if c == "retired" then
          let res := NodeCtrl.step true s (.svcRetired i)
          let isNode := match d.kinds[i]? with
            | some .nodeOk | some .nodeNo | some .nodeNoListener | some .nodeEmpty => true
            | _ => false
          fin (if isNode then "na" else replyOf res.2) res
        else
          let res := NodeCtrl.step true s (.svcOther i)
          fin (replyOf res.2) res
      | "stopdone" =>
        let res := NodeCtrl.step true s (.stopDone (kvNat ws "succ" == some 1))
        fin (if s.stopPend > 0 then "called" else "none") res
      | "tick" => fin "-" (NodeCtrl.step true s .tick)
      | "res" => fin "-" (NodeCtrl.step true s (.setRes (parseIdx ws) (kvNat ws "up" == some 1)))
      | "reflect" => fin "-" (s, [])
      | _ => (d, "bad-op")
  | none => (d, "bad-op")

/-! ### spec mode: parse what the implementation showed and run the monitor -/

open Cell2v.Spec.C12

def parseNS : String → Option NS
  | "working" => some .working | "retiring" => some .retiring | "retired" => some .retired
  | "exiting" => some .exiting | "exited" => some .exited | _ => none

def parseList (v : String) : List String := if v == "" then [] else v.splitOn ","

def parseSent (v : String) : List (Nat × SCmd) :=
  (parseList v).filterMap fun e =>
    match e.splitOn ":" with
    | [n, c] =>
      match ((n.drop 1).toString).toNat?, c with
      | some i, "retire" => if n.startsWith "s" then some (i, SCmd.retire) else none
      | some i, "queryretire" => if n.startsWith "s" then some (i, SCmd.queryretire) else none
      | _, _ => none
    | _ => none

def parseReply (r : String) (st : NS) : Option Reply :=
  if r == "ok" then some .ok
  else if r == "refused" then some .refused
  else if r == "info" then some (.info st)
  else none

def parseObs (obs : String) : Option (String × Obs) := do
  let ws := words obs
  let r ← kv ws "r"
  let pubs ← (parseList (← kv ws "pub")).mapM parseNS
  let upd ← (parseList (← kv ws "upd")).mapM parseNS
  let lost ← (parseList ((kv ws "lost").getD "")).mapM parseNS
  let stops ← kvNat ws "stop"
  let sent := parseSent (← kv ws "sent")
  let st ← parseNS (← kv ws "st")
  pure (r, { reply := parseReply r st, pubs := pubs, upd := upd, stops := stops, sent := sent, st := st, lost := lost })

def specStep (m : Option Mon) (line : String) : Option Mon × String :=
  match line.splitOn "\t" with
  | [op, obs] =>
    let ws := words op
    if obs == "bad-op" then (m, "ok")
    else match parseObs obs with
    | none => (m, "VIOLATION C12/crash-or-unreadable " ++ op ++ " => " ++ obs)
    | some (r, o) =>
      let run (m : Mon) (mop : MOp) : Option Mon × String :=
        let res := m.step mop o
        (some res.1, match res.2 with
          | none => "ok"
          | some sig => "VIOLATION " ++ sig ++ " " ++ op ++ " => " ++ obs)
      match ws.head?, m with
      | some "reset", _ =>
        let res := Mon.reset (parseKinds ws) o (Cell2v.Spec.C12.inlineOf (parseMode ws))
        (some res.1, match res.2 with
          | none => "ok"
          | some sig => "VIOLATION " ++ sig ++ " " ++ op ++ " => " ++ obs)
      | some "cmd", some m => run m (.cmd (parseCmd ((ws[1]?).getD "")))
      | some "qack", some m =>
        if r == "ack:none" then run m .qnone else run m (.qack (parseIdx ws) (r == "ack:ok"))
      | some "retired", some m => run m (.svcRetired (parseIdx ws))
      | some "svccmd", some m =>
        if (kv ws "c").getD "" == "retired" then run m (.svcRetired (parseIdx ws)) else run m .svcOther
      | some "stopdone", some m => run m (.stopDone (r == "called") (kvNat ws "succ" == some 1))
      | some "tick", some m => run m .tick
      | some "res", some m => run m (.setRes (parseIdx ws) (kvNat ws "up" == some 1))
      | some "reflect", some m => run m .qnone
      | _, _ => (m, "ok")
  | _ => (m, "bad-line")

end Cell2v.Driver.C12

open Cell2v.Driver in
def main (args : List String) : IO Unit :=
  match args with
  | ["spec"] => runLoop Cell2v.Driver.C12.specStep none
  | _ => runLoop Cell2v.Driver.C12.step {}
