import Cell2v.Driver.Util
import Cell2v.Model.SessionData
/-!
Model driver for C10.

`modeld_c10 model` : one op line in, one observation line out (state threaded; a case
starts with `reset`).
`modeld_c10 spec`  : lines `op\tobs` in, `ok` or `VIOLATION C10/<reason> <text>` out — the
property itself evaluated on what the implementation did.  The monitor keeps its own flat
bookkeeping straight from the op stream, in the form the statement is worded: every
connection has a chronological LOG of key writes (initial reserved keys, front-local
sets, delivered pushes) and its map is "the latest write per key"; a back-end session has
the list of values it set (pending) and a log of what it learnt (envelope ID, queried
maps).  It shares no state or function with the model (`Cell2v.SessionData`).

Op lines (strings/keys as hex, values as `raw~nrm` tokens, see harness/c10):
  reset | open f=F | openreq f=F svc=T ntf=0|1 s=SCRIPT [cl=1] (connect while the front-end is busy, first message at once [and hang up]) | close f=F n=N | req f=F n=N svc=T ntf=0|1 s=SCRIPT |
  mk h=H at=SVC f=F n=N uid=HEX | on h=H s=SCRIPT | snap | topo m=SVC:STATE,… (members; the other services are not) |
  p.mkf f=F n=N | p.mkb h=H f=F n=N uid=HEX | p.on f=F n=N s=SCRIPT | p.on h=H s=SCRIPT | u.<anything>
  SCRIPT = statements separated by `;` :
  get/K set/K/V bind/UID id push pushnw query json keep/H clone/H kick busy pushto/F/N from/F/N updraw/HEX fromraw/HEX
  Every observation of an op during which connections were removed ends with ` closed=F#N=MAP|…`: what the
  close handler of each removed connection saw (sorted by connection).
  park f=F n=N svc=T t=TAG s=SCRIPT : the handler runs SCRIPT and suspends without answering;
  resume t=TAG s=SCRIPT : it resumes, re-reads its session from its context, runs SCRIPT and answers
-/
namespace Cell2v.Driver.C10
open Cell2v.Driver Cell2v.SessionData

def hexOfString (s : String) : String := hexOfBytes (s.toUTF8.toList.map UInt8.toNat)

def strOfHex (h : String) : String :=
  match bytesOfHex h with
  | some bs => (String.fromUTF8? (ByteArray.mk (bs.map UInt8.ofNat).toArray)).getD ("�" ++ h)
  | none => "�" ++ h

/-- the node of the harness; service names are carried as hex, like every string value -/
def cfg : Cfg :=
  { services := [(hexOfString "gate-1", "gate", true), (hexOfString "gate-2", "gate", true),
                 (hexOfString "chat-1", "chat", false), (hexOfString "chat-2", "chat", false),
                 -- `room`: a service type nobody registered a route rule for (routed by `app.defaultRoute`)
                 (hexOfString "room-1", "room", false), (hexOfString "room-2", "room", false)]
    routeKey := [("chat", "chatid")] }

/-! ### tokens -/

def dropS (s : String) (n : Nat) : String := (s.drop n).toString

def parseVal (t : String) : Tok :=
  match t.splitOn "~" with
  | [raw, nrm] =>
    if raw.startsWith "s" then .str (dropS raw 1) (if nrm.startsWith "s" then dropS nrm 1 else dropS raw 1)
    else .other raw nrm (nrm != "!")
  | _ => .other t t true

def showTok : Tok → String
  | .str r _ => "s" ++ r
  | .net n false => s!"n{n}"
  | .net n true => s!"nf{n}"
  | .other r _ _ => r

def insertKey {α : Type} (e : String × α) : List (String × α) → List (String × α)
  | [] => [e]
  | x :: l => if e.1 < x.1 then e :: x :: l else x :: insertKey e l

/-- `M{hexkey:tok,…}` sorted by hex key -/
def showMapWith {α : Type} (f : α → String) (m : List (String × α)) : String :=
  let es := (m.map fun e => (hexOfString e.1, f e.2)).foldr insertKey []
  "M{" ++ ",".intercalate (es.map fun e => e.1 ++ ":" ++ e.2) ++ "}"

def showJson : Option (AL Tok) → String
  | some m => showMapWith showTok m
  | none => "!"

def showRes : Res Tok → String
  | .absent => "-"
  | .val v => showTok v
  | .ok => "ok"
  | .err => "err"
  | .panic => "panic"
  | .json j => showJson j
  | .id s => "s" ++ s
  | .nokeep => "nokeep"
  | .nons => "nons"
  | .badop => "bad-op"

def showResp : Resp → String
  | .ok => "ok"
  | .err => "err"
  | .none => "none"

def showRs (rs : List (Res Tok)) : String := ";".intercalate (rs.map showRes)

def showObs : Obs Tok → String
  | .ok => "ok"
  | .closed => "closed"
  | .badop => "bad-op"
  | .nohandle => "nohandle"
  | .opened n => s!"n{n}"
  | .noTarget r => "at=none resp=" ++ showResp r
  | .ran a none rs r => s!"at={strOfHex a} local r={showRs rs} resp={showResp r}"
  | .ran a (some e) rs r =>
    s!"at={strOfHex a} uid=s{e.uid} front={strOfHex e.frontId} conn=n{e.sessionId} r={showRs rs} resp={showResp r}"
  | .script rs => "r=" ++ showRs rs
  | .snap l => "snap " ++ " ".intercalate (l.map fun e => s!"{strOfHex e.1.1}#{e.1.2}={showJson e.2}")

/-! ### op lines -/

def parseSOp (t : String) : Option (SOp Tok) :=
  match t.splitOn "/" with
  | ["get", k] => some (.get (strOfHex k))
  | ["set", k, v] => some (.set (strOfHex k) (parseVal v))
  | ["bind", u] => some (.bind u)
  | ["id"] => some .id
  | ["push"] => some .push
  | ["pushnw"] => some .pushNW
  | ["query"] => some .query
  | ["json"] => some .json
  | ["keep", h] => some (.keep h)
  | ["kick"] => some .kick
  | ["busy"] => some .busy
  | ["clone", h] => some (.clone h)
  | ["pushto", f, n] => n.toNat?.map fun n => .pushTo (hexOfString f, n)
  | ["from", f, n] => n.toNat?.map fun n => .fromF (hexOfString f, n)
  | ["updraw", _] => some .updRaw
  | ["fromraw", _] => some .fromRaw
  | _ => none

def parseScript (s : String) : Option (List (SOp Tok)) :=
  if s.isEmpty then some []
  else (s.splitOn ";").foldr (fun t acc => match parseSOp t, acc with
    | some o, some l => some (o :: l)
    | _, _ => none) (some [])

def kvConn (ws : List String) : Option Conn :=
  match kv ws "f", kvNat ws "n" with
  | some f, some n => some (hexOfString f, n)
  | _, _ => none

def parseOp (ws : List String) : Option (Op Tok) :=
  match ws.head? with
  | some "open" => (kv ws "f").map fun f => .openC (hexOfString f)
  | some "close" => (kvConn ws).map .closeC
  | some "req" =>
    match kvConn ws, kv ws "svc", kv ws "ntf", (kv ws "s").bind parseScript with
    | some c, some t, some ntf, some sc => some (.req c t (ntf == "1") sc)
    | _, _, _, _ => none
  | some "mk" =>
    match kv ws "h", kv ws "at", kvConn ws, kv ws "uid" with
    | some h, some a, some c, some u => some (.mk h (hexOfString a) c u)
    | _, _, _, _ => none
  | some "on" =>
    match kv ws "h", (kv ws "s").bind parseScript with
    | some h, some sc => some (.on h sc)
    | _, _ => none
  | some "snap" => some .snap
  | some "topo" =>
    let ms := ((kv ws "m").getD "").splitOn "," |>.filterMap fun e =>
      match e.splitOn ":" with
      | [n, st] => st.toNat?.map fun k => (hexOfString n, k)
      | _ => none
    some (.topo ((cfg.services.map (·.1)).filter fun n => !ms.any (·.1 == n)) ms)
  | some "p.mkf" => (kvConn ws).map .pMkf
  | some "p.mkb" =>
    match kv ws "h", kvConn ws, kv ws "uid" with
    | some h, some c, some u => some (.pMkb h c u)
    | _, _, _ => none
  | some "p.on" =>
    match kv ws "h", kvConn ws, (kv ws "s").bind parseScript with
    | some h, _, some sc => if h.isEmpty then none else some (.pOnB h sc)
    | none, some c, some sc => some (.pOnF c sc)
    | _, _, _ => none
  | _ => none

/-- driver state: the model's state and the suspended handlers (tag ↦ connection, front-local?) -/
structure DSt where
  st : State Tok := State.init
  parked : List (String × (Conn × Bool)) := []
  /-- removed at the end of the last operation, with the map the close handlers saw -/
  gone : List (Conn × AL Tok) := []
  /-- the cluster view (member order, node states) of the last topology update -/
  view : View := none

def relayOf (s : State Tok) (c : Conn) : String :=
  match lget s.fronts c with
  | some m => showJson (SData.toJson m)
  | none => "-"

def hasKeep (sc : List (SOp Tok)) : Bool := sc.any fun o => match o with | .keep _ => true | _ => false

def frontType (c : Conn) : String := (cfg.typeOf c.1).getD ""

/-- ` closed=F#N=MAP|…` for the connections removed at the end of the turn -/
def goneSuffix (gone : List (Conn × AL Tok)) : String :=
  if gone.isEmpty then ""
  else
    let es := (gone.map fun e => (s!"{strOfHex e.1.1}#{e.1.2}", showJson (SData.toJson e.2))).foldr insertKey []
    " closed=" ++ "|".intercalate (es.map fun e => e.1 ++ "=" ++ e.2)

def stepLine0 (d : DSt) (line : String) : DSt × String :=
  let ws := words line
  let d := { d with gone := [] }
  let s := d.st
  -- every operation includes the end of its turn (the queued removals run)
  let step := fun (cfg : Cfg) (s : State Tok) (op : Op Tok) => stepF cfg (defaultRoute cfg d.view) s op
  match ws.head? with
  | some "reset" => ({}, "ok")
  | some "park" =>
    match kvConn ws, kv ws "svc", kv ws "t", (kv ws "s").bind parseScript with
    | some c, some svc, some tag, some sc =>
      if hasKeep sc || d.parked.any (·.1 == tag) then (d, "bad-op")
      else
        let local_ := cfg.typeOf c.1 == some svc
        let r := step cfg s (.req c svc false (if local_ then sc else sc ++ [.keep ("@" ++ tag)]))
        match r.obs with
        | .ran a none rs _ =>
          ({ d with st := r.st, gone := r.gone, parked := (tag, (c, true)) :: d.parked }, s!"at={strOfHex a} local r={showRs rs} resp=parked")
        | .ran a (some e) rs _ =>
          ({ d with st := r.st, gone := r.gone, parked := (tag, (c, false)) :: d.parked },
            s!"at={strOfHex a} uid=s{e.uid} front={strOfHex e.frontId} conn=n{e.sessionId} r={showRs rs.dropLast} resp=parked")
        | o => ({ d with st := r.st, gone := r.gone }, showObs o)
    | _, _, _, _ => (d, "bad-op")
  | some "resume" =>
    match kv ws "t", (kv ws "s").bind parseScript with
    | some tag, some sc =>
      match d.parked.find? (·.1 == tag) with
      | none => (d, "noparked")
      | some (_, (c, isFront)) =>
        let d := { d with parked := d.parked.filter (·.1 != tag) }
        let live := (lget s.fronts c).isSome
        if hasKeep sc then (d, "bad-op")
        else if isFront then
          if !live then (d, "closed")
          else
            let r := step cfg s (.req c (frontType c) false sc)
            match r.obs with
            | .ran _ _ rs _ => ({ d with st := r.st, gone := r.gone }, s!"r={showRs rs} resp=ok relay={relayOf r.st c}")
            | o => ({ d with st := r.st, gone := r.gone }, showObs o)
        else
          let r := step cfg s (.on ("@" ++ tag) sc)
          match r.obs with
          | .script rs =>
            ({ d with st := r.st, gone := r.gone }, s!"r={showRs rs} " ++ (if live then s!"resp=ok relay={relayOf r.st c}" else "resp=gone relay=-"))
          | o => ({ d with st := r.st, gone := r.gone }, showObs o)
    | _, _ => (d, "bad-op")
  | some "openreq" =>
    -- the first message of a connection is handed over while the front-end has not yet registered it
    match kv ws "f", kv ws "svc", kv ws "ntf", (kv ws "s").bind parseScript with
    | some f, some t, some ntf, some sc =>
      let cl := kv ws "cl" == some "1"
      -- hanging up at once is only generated for front-local first messages (see harness)
      if cl && cfg.typeOf (hexOfString f) != some t then (d, "bad-op") else
      let r := stepOpenReq cfg (defaultRoute cfg d.view) s (hexOfString f) t (ntf == "1") sc cl
      match r.2 with
      | none => (d, showObs r.1.obs)
      | some c =>
        let extra := match r.1.obs with
          | .ran _ _ _ resp => " relay=" ++ (if resp == .ok then relayOf r.1.st c else "-")
          | _ => ""
        ({ d with st := r.1.st, gone := r.1.gone }, s!"n{c.2} " ++ showObs r.1.obs ++ extra)
    | _, _, _, _ => (d, "bad-op")
  | some w =>
    if w.startsWith "u." then (d, "unguarded")
    else match parseOp ws with
      | some op =>
        let r := step cfg s op
        let extra := match op, r.obs with
          | .req c _ _ _, .ran _ _ _ resp => " relay=" ++ (if resp == .ok then relayOf r.st c else "-")
          | _, _ => ""
        ({ d with st := r.st, gone := r.gone, view := nextView d.view op }, showObs r.obs ++ extra)
      | none => (d, "bad-op")
  | none => (d, "bad-op")

def stepLine (d : DSt) (line : String) : DSt × String :=
  let r := stepLine0 d line
  (r.1, r.2 ++ goneSuffix r.1.gone)

/-! ### the property predicate on implementation observations

Flat bookkeeping over tokens.  A connection's map is a LOG of writes, newest first; its
value under a key is the first log entry of that key ("later pushes win per key, untouched
keys persist").  Values: `(raw, nrm, rep)` token triples. -/

structure SV where
  raw : String
  nrm : String
  rep : Bool

/-- log of writes, newest first: key (hex) ↦ value -/
abbrev Log := List (String × SV)

def Log.find (l : Log) (k : String) : Option SV := (l.find? (fun e => e.1 == k)).map (·.2)

/-- the distinct keys of a log, each with its latest value -/
def Log.latest (l : Log) : List (String × SV) :=
  (l.foldl (fun (acc : List (String × SV)) e => if acc.any (·.1 == e.1) then acc else acc ++ [e]) [])

def svOfVal (t : String) : SV :=
  match t.splitOn "~" with
  | [raw, nrm] => ⟨raw, if nrm == "!" then raw else nrm, nrm != "!"⟩
  | _ => ⟨t, t, true⟩

def svStr (hex : String) : SV := ⟨"s" ++ hex, "s" ++ hex, true⟩

def hexKeyUId := hexOfString "_ID"
def hexKeyNetId := hexOfString "_NetId"
def hexKeyServerId := hexOfString "_ServerId"
def hexChatId := hexOfString "chatid"

/-- a back-end session object as the statement sees it -/
structure SB where
  ns : String                 -- service it lives in ("" = bare object)
  front : String
  ord : Nat
  pend : Log                  -- values set on it, newest first (never forgotten)
  dirty : Bool                -- something was set since the last push
  learnt : Log                -- envelope `_ID`, then every queried map (normalised), newest first
  risk : Bool                 -- un-pushed sets were pending when a query succeeded (D16 situation)

def allSvcs : List String := ["gate-1", "gate-2", "chat-1", "chat-2", "room-1", "room-2"]

structure Spec where
  next : List (String × Nat) := []
  conns : List ((String × Nat) × Log) := []           -- live connections
  hs : List (String × SB) := []
  away : List String := []                             -- services currently not in the cluster view (node STATES are not kept: irrelevant)
  deadTouched : Bool := false                          -- a push/query addressed a dead connection since the last snap
  alt : List ((String × Nat) × Log) := []             -- the same logs WITHOUT the pushes of sessions that had queried while
                                                       -- dirty: what the maps would be under defect D16 (only used to name it)
  parked : List (String × ((String × Nat) × Bool)) := []  -- suspended handlers: tag ↦ (connection, front-local?)
  off : Bool := false                                  -- a violation was reported: nothing more is judged until the next reset
  view : List (String × Nat) := allSvcs.map fun n => (n, 1)  -- members in the order of the last topology update, with node states
  closing : List (String × Nat) := []                  -- sockets closed during the current op (client gone, kick): still sessions
                                                       -- until the op ends; then their close handlers see their maps and they are gone

def fronts : List String := ["gate-1", "gate-2"]
def typeOfSvc (n : String) : Option String :=
  if n == "gate-1" || n == "gate-2" then some "gate"
  else if n == "chat-1" || n == "chat-2" then some "chat"
  else if n == "room-1" || n == "room-2" then some "room" else none

def Spec.conn (s : Spec) (c : String × Nat) : Option Log := (s.conns.find? (fun e => e.1 == c)).map (·.2)

def Spec.altOf (s : Spec) (c : String × Nat) : Option Log := (s.alt.find? (fun e => e.1 == c)).map (·.2)

/-- prepend writes (newest first) to the log of `c`; `both = false`: a push that defect D16 would have dropped -/
def Spec.write (s : Spec) (c : String × Nat) (ws : Log) (both : Bool := true) : Spec :=
  { s with conns := s.conns.map fun e => if e.1 == c then (c, ws ++ e.2) else e
           alt := if both then s.alt.map fun e => if e.1 == c then (c, ws ++ e.2) else e else s.alt }

def Spec.close (s : Spec) (c : String × Nat) : Spec :=
  if s.closing.contains c then s else { s with closing := c :: s.closing }

def initLog (f : String) (n : Nat) : Log :=
  [(hexKeyNetId, ⟨s!"n{n}", s!"nf{n}", true⟩), (hexKeyServerId, svStr (hexOfString f))]

def showSnapMap (l : Log) : String :=
  if l.latest.all (·.2.rep) then
    let es := (l.latest.map fun e => (e.1, e.2.nrm)).foldr insertKey []
    "M{" ++ ",".intercalate (es.map fun e => e.1 ++ ":" ++ e.2) ++ "}"
  else "!"

/-- expected results of a script, statement by statement, with the reason a mismatch is reported under -/
structure Exp where
  want : String
  sig : String

inductive SSess where
  | front (c : String × Nat)
  | back (b : SB)

structure ScSt where
  sp : Spec
  sess : SSess
  kept : Option String

def sbGet (b : SB) (k : String) : Option String :=
  match b.pend.find k with
  | some v => some v.raw
  | none => (b.learnt.find k).map (·.nrm)

def sbJson (b : SB) : String :=
  -- everything it learnt, overlaid with everything it set, as JSON
  let all : Log := b.pend ++ b.learnt
  if all.latest.all (·.2.rep) then
    let es := (all.latest.map fun e => (e.1, e.2.nrm)).foldr insertKey []
    "M{" ++ ",".intercalate (es.map fun e => e.1 ++ ":" ++ e.2) ++ "}"
  else "!"

def isStrTok (t : String) : Bool := t.startsWith "s"

def specSOp (st : ScSt) (t : String) : ScSt × Exp :=
  let f := t.splitOn "/"
  match st.sess with
  | .front c =>
    let log := (st.sp.conn c).getD []
    let isNode := fronts.contains c.1
    match f with
    | ["get", k] => (st, ⟨(match log.find k with | some v => v.raw | none => "-"), "C10/get-wrong"⟩)
    | ["set", k, v] => ({ st with sp := st.sp.write c [(k, svOfVal v)] }, ⟨"ok", "C10/set-failed"⟩)
    | ["bind", u] => ({ st with sp := st.sp.write c [(hexKeyUId, svStr u)] }, ⟨"ok", "C10/set-failed"⟩)
    | ["id"] =>
      (st, ⟨(match log.find hexKeyUId with
        | some v => if isStrTok v.raw then v.raw else "panic"
        | none => "s"), "C10/envelope-stale"⟩)
    | ["push"] | ["pushnw"] | ["query"] => (st, ⟨if isNode then "ok" else "nons", "C10/front-push-query"⟩)
    -- after `|`: what defect D16 would show instead (only used to name it)
    | ["json"] => (st, ⟨showSnapMap log, "C10/merge-wrong|" ++ showSnapMap ((st.sp.altOf c).getD log)⟩)
    | ["keep", _] => (st, ⟨"nokeep", "C10/harness"⟩)
    | ["clone", _] => (st, ⟨"nokeep", "C10/harness"⟩)
    | ["kick"] => (if isNode then { st with sp := st.sp.close c } else st, ⟨if isNode then "ok" else "nons", "C10/kick"⟩)
    | ["busy"] => (st, ⟨if isNode then "ok" else "nons", "C10/harness"⟩)
    | ["updraw", _] => (st, ⟨"ok", "C10/merge-wrong"⟩)
    | _ => (st, ⟨"bad-op", "C10/harness"⟩)
  | .back b =>
    let tgt := (b.front, b.ord)
    let upd (b' : SB) (sp : Spec) : ScSt := { st with sp := sp, sess := .back b' }
    match f with
    | ["get", k] => (st, ⟨(sbGet b k).getD "-", "C10/get-wrong"⟩)
    | ["set", k, v] => (upd { b with pend := (k, svOfVal v) :: b.pend, dirty := true } st.sp, ⟨"ok", "C10/set-failed"⟩)
    | ["bind", u] => (upd { b with pend := (hexKeyUId, svStr u) :: b.pend, dirty := true } st.sp, ⟨"ok", "C10/set-failed"⟩)
    | ["id"] =>
      (st, ⟨(match sbGet b hexKeyUId with
        | some v => if isStrTok v then v else "panic"
        | none => "s"), "C10/envelope-stale"⟩)
    | ["json"] => (st, ⟨sbJson b, if b.learnt.length > 1 then "C10/query-not-whole-map" else "C10/get-wrong"⟩)
    | ["push"] =>
      if b.ns == "" then (st, ⟨"nons", "C10/harness"⟩)
      else if !b.dirty then (st, ⟨"ok", "C10/push-result-wrong"⟩)
      else
        let b' := { b with dirty := false, risk := false }
        if !fronts.contains b.front || st.sp.away.contains b.front then
          (upd b' st.sp, ⟨"err", "C10/push-result-wrong"⟩)
        else match st.sp.conn tgt with
          | none => (upd b' { st.sp with deadTouched := true }, ⟨"ok", "C10/push-result-wrong"⟩)
          | some _ =>
            -- every value it set is merged, key by key (all representable, else nothing is sent)
            let sp := if b.pend.latest.all (·.2.rep) then
                st.sp.write tgt (b.pend.latest.map fun e => (e.1, (⟨e.2.nrm, e.2.nrm, true⟩ : SV))) (!b.risk)
              else st.sp
            (upd b' sp, ⟨"ok", "C10/push-result-wrong"⟩)
    | ["query"] =>
      if b.ns == "" then (st, ⟨"nons", "C10/harness"⟩)
      else if !fronts.contains b.front || st.sp.away.contains b.front then (st, ⟨"err", "C10/query-dead-no-error"⟩)
      else match st.sp.conn tgt with
        | none => ({ st with sp := { st.sp with deadTouched := true } }, ⟨"err", "C10/query-dead-no-error"⟩)
        | some log =>
          if log.latest.all (·.2.rep) then
            let got : Log := log.latest.map fun e => (e.1, (⟨e.2.nrm, e.2.nrm, true⟩ : SV))
            (upd { b with learnt := got ++ b.learnt, risk := b.risk || b.dirty } st.sp, ⟨"ok", "C10/member-front-unreachable"⟩)
          else
            -- the front map can not be marshalled: the answer carries nothing; outside "JSON-representable"
            (upd { b with front := if (b.pend ++ b.learnt).find hexKeyServerId |>.isSome then b.front else hexStrN } st.sp,
              ⟨"ok", "C10/query-not-whole-map"⟩)
    | ["keep", h] =>
      if b.ns == "" then (st, ⟨"nokeep", "C10/harness"⟩)
      else match st.kept with
        | some _ => (st, ⟨"nokeep", "C10/harness"⟩)
        | none => ({ st with kept := some h }, ⟨"ok", "C10/harness"⟩)
    | ["clone", h] =>
      -- a new session object for the same connection, knowing only the uid the original reports
      if b.ns == "" || st.sp.hs.any (·.1 == h) then (st, ⟨"nokeep", "C10/harness"⟩)
      else
        let uid := (sbGet b hexKeyUId).getD "s"
        if !isStrTok uid then (st, ⟨"panic", "C10/clone"⟩)
        else ({ st with sp := { st.sp with hs := (h, ⟨b.ns, b.front, b.ord, [], false, [(hexKeyUId, ⟨uid, uid, true⟩)], false⟩) :: st.sp.hs } },
              ⟨"ok", "C10/clone"⟩)
    | ["kick"] =>
      if b.ns == "" then (st, ⟨"nons", "C10/harness"⟩)
      else if fronts.contains b.front && !st.sp.away.contains b.front && (st.sp.conn tgt).isSome then
        ({ st with sp := st.sp.close tgt }, ⟨"ok", "C10/kick"⟩)
      else (st, ⟨"ok", "C10/kick"⟩)
    | ["busy"] => (st, ⟨if b.ns == "" then "nons" else "ok", "C10/harness"⟩)
    | ["pushto", fr, n] =>
      let c := (fr, n.toNat?.getD 0)
      match st.sp.conn c with
      | none => (st, ⟨"bad-op", "C10/harness"⟩)
      | some _ =>
        let sp := if b.pend.latest.all (·.2.rep) then
            st.sp.write c (b.pend.latest.map fun e => (e.1, (⟨e.2.nrm, e.2.nrm, true⟩ : SV)))
          else st.sp
        (upd b sp, ⟨"ok", "C10/merge-wrong"⟩)
    | ["from", fr, n] =>
      let c := (fr, n.toNat?.getD 0)
      match st.sp.conn c with
      | none => (st, ⟨"bad-op", "C10/harness"⟩)
      | some log =>
        if log.latest.all (·.2.rep) then
          let got : Log := log.latest.map fun e => (e.1, (⟨e.2.nrm, e.2.nrm, true⟩ : SV))
          (upd { b with learnt := got ++ b.learnt } st.sp, ⟨"ok", "C10/query-not-whole-map"⟩)
        else (st, ⟨"ok", "C10/query-not-whole-map"⟩)
    | ["fromraw", _] => (st, ⟨"ok", "C10/query-not-whole-map"⟩)
    | _ => (st, ⟨"bad-op", "C10/harness"⟩)
where hexStrN := "n"

def specScript (sp : Spec) (sess : SSess) (kept : Option String) (script : String) : ScSt × List Exp :=
  if script.isEmpty then (⟨sp, sess, kept⟩, [])
  else (script.splitOn ";").foldl (fun (acc : ScSt × List Exp) t =>
    -- `pushnw`: a push whose callback the handler does not wait for — same effect, at once; it reports nothing
    let r := if t == "pushnw" then
        (match acc.1.sess with
          | .back b => let r := specSOp acc.1 "push"; if b.ns == "" then r else (r.1, (⟨"ok", "C10/push-result-wrong"⟩ : Exp))
          | .front _ => specSOp acc.1 t)
      else specSOp acc.1 t
    (r.1, acc.2 ++ [r.2])) (⟨sp, sess, kept⟩, [])

def storeKeptS (st : ScSt) : Spec :=
  match st.kept, st.sess with
  | some h, .back b => { st.sp with hs := (h, b) :: st.sp.hs.filter (·.1 != h) }
  | _, _ => st.sp

/-- compare the statement results; first mismatch decides the signature -/
def cmpResults (exps : List Exp) (got : String) : Option (String × String) :=
  let gs := if got.isEmpty then [] else got.splitOn ";"
  let rec go : List Exp → List String → Option (String × String)
    | [], [] => none
    | [], g :: _ => some ("C10/script-extra-result", g)
    | e :: _, [] => some ((e.sig.splitOn "|").head!, "missing result, wanted " ++ e.want)
    | e :: es, g :: gs =>
      if e.want == g then go es gs
      else match e.sig.splitOn "|" with
        | [sig, alt] => some (if alt == g then "C10/set-query-push-lost" else sig, s!"wanted {e.want} got {g}")
        | _ => some (e.sig, s!"wanted {e.want} got {g}")
  go exps gs

def viol (sp : Spec) (sig : String) (op obs why : String) : Spec × String :=
  ({ sp with off := true }, s!"VIOLATION {sig} {op} => {obs} ({why})")

/-- instance and uid a forwarded message of a connection with this log gets: `chat` has a rule (the instance
the session names under `chatid`), every other type goes to the first Working member of the type in view
order, whatever the session holds -/
def routeOf (view : List (String × Nat)) (svc : String) (log : Log) : String × String :=
  (if svc != "chat" then
      match view.find? (fun e => typeOfSvc e.1 == some svc && e.2 == 1) with
      | some e => e.1
      | none => "no_service"
    else match log.find hexChatId with
    | some v => if isStrTok v.raw then strOfHex (dropS v.raw 1) else ""
    | none => "",
   match log.find hexKeyUId with
    | some v => v.raw
    | none => "s")

def obsField (ows : List String) (k : String) : String := (kv ows k).getD ""

/-- the response check of a finished handler: the answer, and the connection's map at the moment the front
relays it — everything the handler pushed before it answered must already be there -/
def checkAnswer (sp' : Spec) (c : String × Nat) (ntf : Bool) (op obs : String) (ows : List String) : Spec × String :=
  -- an answer for a connection whose socket was closed meanwhile is lost
  let lost := ntf || sp'.closing.contains c
  let wr := if lost then "none" else "ok"
  if obsField ows "resp" != wr then viol sp' "C10/response" op obs ("wanted resp=" ++ wr)
  else
    let wantRelay := if lost then "-" else match sp'.conn c with | some l => showSnapMap l | none => "-"
    if obsField ows "relay" == wantRelay then (sp', "ok")
    else viol sp' "C10/push-after-response" op obs ("at the relay of the answer the map must be " ++ wantRelay)

def specLine0 (sp : Spec) (line : String) : Spec × String :=
  match line.splitOn "\t" with
  | [op, obs] =>
    let ws := words op
    let ows := words obs
    match ws.head? with
    | some "reset" => ({}, "ok")
    | some w =>
      if w.startsWith "u." then (sp, "ok")
      else if sp.off then (sp, "ok")
      else if (obs.splitOn "STALL").length > 1 || (obs.splitOn "TWICE").length > 1 || (obs.splitOn "<no-observation").length > 1
              || (obs.splitOn "<harness-exit").length > 1 then
        viol sp "C10/handler-stalled-or-ran-twice" op obs "a push/query callback never came or came twice"
      else match w with
      | "open" =>
        match kv ws "f" with
        | some f =>
          if !fronts.contains f then (sp, "ok")
          else
            let n := ((sp.next.find? (·.1 == f)).map (·.2)).getD 0 + 1
            let sp' := { sp with next := (f, n) :: sp.next.filter (·.1 != f), conns := sp.conns ++ [((f, n), initLog f n)],
                                 alt := sp.alt ++ [((f, n), initLog f n)] }
            if obs == s!"n{n}" then (sp', "ok") else viol sp' "C10/connection-id" op obs s!"wanted n{n}"
        | none => (sp, "bad-op")
      | "close" =>
        match kv ws "f", kvNat ws "n" with
        | some f, some n =>
          let live := (sp.conn (f, n)).isSome && fronts.contains f
          let sp' := if live then sp.close (f, n) else sp
          let want := if live then "ok" else "closed"
          if obs == want then (sp', "ok") else viol sp' "C10/close" op obs ("wanted " ++ want)
        | _, _ => (sp, "bad-op")
      | "req" | "park" =>
        match kv ws "f", kvNat ws "n", kv ws "svc", kv ws "s" with
        | some f, some n, some svc, some script =>
          let c := (f, n)
          let ntf := kv ws "ntf" == some "1"
          let tag := if w == "park" then kv ws "t" else none
          -- a suspended handler has not answered yet; its session is remembered under its tag
          let finish (sp' : Spec) (isFront : Bool) : Spec × String :=
            match tag with
            | none => checkAnswer sp' c ntf op obs ows
            | some t =>
              if obsField ows "resp" == "parked" then ({ sp' with parked := (t, (c, isFront)) :: sp'.parked }, "ok")
              else viol sp' "C10/response" op obs "wanted resp=parked"
          if tag.isSome && ((script.splitOn "keep/").length > 1 || sp.parked.any (fun e => some e.1 == tag)) then (sp, "ok") else
          match sp.conn c with
          | none => if obs == "closed" then (sp, "ok") else viol sp "C10/closed-connection-served" op obs "connection is not live"
          | some log =>
            if !fronts.contains f then (if obs == "closed" then (sp, "ok") else viol sp "C10/harness" op obs "")
            else if typeOfSvc f == some svc then
              -- front-local: the handler works on the connection's own map
              let (st, exps) := specScript sp (.front c) none script
              let want := s!"at={f} local"
              if !obs.startsWith want then viol st.sp "C10/routing-ignored-pushed-data" op obs ("wanted " ++ want)
              else match cmpResults exps (obsField ows "r") with
                | some (sig, why) => viol st.sp sig op obs why
                | none => finish st.sp true
            else
              -- forwarded: the rule reads the CURRENT map of the connection, the envelope its current uid
              let (inst, uidTok) := routeOf sp.view svc log
              -- defect D16 is named when the observation is what the maps WITHOUT the dropped pushes give
              let (instA, uidA) := routeOf sp.view svc ((sp.altOf c).getD log)
              let d16 (gotAt gotUid : String) (sig : String) : String :=
                if (instA != inst || uidA != uidTok) && (gotAt == instA || (typeOfSvc instA).isNone && gotAt == "none") && (gotUid == uidA || gotAt == "none")
                then "C10/set-query-push-lost" else sig
              let noneWith (r : String) : Spec × String :=
                if obs == "at=none resp=" ++ r then (sp, "ok")
                else viol sp (d16 (obsField ows "at") (obsField ows "uid") "C10/routing-ignored-pushed-data") op obs s!"wanted at=none resp={r}"
              match (if sp.away.contains inst then none else typeOfSvc inst) with
              | none => noneWith (if ntf then "none" else "err")
              | some ty =>
                if ty != svc then noneWith "none"
                else if !isStrTok uidTok then noneWith "none"     -- outside the guard: `_ID` is not a string
                else
                  let b : SB := ⟨inst, f, n, [], false, [(hexKeyUId, ⟨uidTok, uidTok, true⟩)], false⟩
                  let (st, exps) := specScript sp (.back b) (tag.map ("@" ++ ·)) script
                  let sp' := storeKeptS st
                  if obsField ows "at" != inst then
                    viol sp' (d16 (obsField ows "at") (obsField ows "uid") "C10/routing-ignored-pushed-data") op obs ("the rule names " ++ inst)
                  else if obsField ows "uid" != uidTok || obsField ows "front" != f || obsField ows "conn" != s!"n{n}" then
                    viol sp' (d16 (obsField ows "at") (obsField ows "uid") "C10/envelope-stale") op obs s!"wanted uid={uidTok} front={f} conn=n{n}"
                  else match cmpResults exps (obsField ows "r") with
                    | some (sig, why) => viol sp' sig op obs why
                    | none => finish sp' false
        | _, _, _, _ => (sp, "bad-op")
      | "resume" =>
        match kv ws "t", kv ws "s" with
        | some t, some script =>
          match sp.parked.find? (·.1 == t) with
          | none => if obs == "noparked" then (sp, "ok") else viol sp "C10/harness" op obs "wanted noparked"
          | some (_, (c, isFront)) =>
            let sp := { sp with parked := sp.parked.filter (·.1 != t) }
            let live := (sp.conn c).isSome
            if (script.splitOn "keep/").length > 1 then (sp, "ok")
            else if isFront && !live then (if obs == "closed" then (sp, "ok") else viol sp "C10/closed-connection-served" op obs "connection is not live")
            else
              -- the resumed handler goes on with the session of ITS request
              let sess? : Option (SSess × Option String) :=
                if isFront then some (.front c, none)
                else (sp.hs.find? (·.1 == "@" ++ t)).map fun e => (.back e.2, some ("@" ++ t))
              match sess? with
              | none => (sp, "ok")
              | some (sess, kept) =>
                let (st, exps) := specScript sp sess kept script
                let sp' := storeKeptS st
                match cmpResults exps (obsField ows "r") with
                | some (sig, why) => viol sp' (if sig == "C10/get-wrong" || sig == "C10/envelope-stale" then "C10/handler-on-wrong-session" else sig) op obs why
                | none =>
                  if live then checkAnswer sp' c false op obs ows
                  else if obsField ows "resp" == "gone" then (sp', "ok") else viol sp' "C10/response" op obs "wanted resp=gone"
        | _, _ => (sp, "bad-op")
      | "mk" =>
        match kv ws "h", kv ws "at", kv ws "f", kvNat ws "n", kv ws "uid" with
        | some h, some a, some f, some n, some u =>
          if (typeOfSvc a).isNone || sp.hs.any (·.1 == h) then (sp, "ok")
          else ({ sp with hs := (h, ⟨a, f, n, [], false, [(hexKeyUId, svStr u)], false⟩) :: sp.hs }, "ok")
        | _, _, _, _, _ => (sp, "bad-op")
      | "on" | "p.on" =>
        let pure := w == "p.on"
        match kv ws "s" with
        | none => (sp, "bad-op")
        | some script =>
          let sess? : Option (SSess × Option String) :=
            match kv ws "h" with
            | some h => ((sp.hs.find? (·.1 == h)).bind fun e =>
                if (e.2.ns == "") == pure then some (.back e.2, some h) else none)
            | none =>
              if !pure then none else
              match kv ws "f", kvNat ws "n" with
              | some f, some n => if (sp.conn (f, n)).isSome && !fronts.contains f then some (.front (f, n), none) else none
              | _, _ => none
          match sess? with
          | none => if obs == "nohandle" then (sp, "ok") else viol sp "C10/harness" op obs "wanted nohandle"
          | some (sess, kept) =>
            let (st, exps) := specScript sp sess kept script
            let sp' := storeKeptS st
            match cmpResults exps (obsField ows "r") with
            | some (sig, why) => viol sp' sig op obs why
            | none => (sp', "ok")
      | "topo" =>
        let vw := ((kv ws "m").getD "").splitOn "," |>.filterMap fun e =>
          match e.splitOn ":" with
          | [n, st] => if (typeOfSvc n).isSome then st.toNat?.map fun k => (n, k) else none
          | _ => none
        ({ sp with away := allSvcs.filter (fun n => !vw.any (·.1 == n)), view := vw }, "ok")
      | "snap" =>
        let want := "snap " ++ " ".intercalate (fronts.flatMap fun f =>
          ((sp.conns.filter (·.1.1 == f)).map fun e => s!"{f}#{e.1.2}={showSnapMap e.2}"))
        let sp' := { sp with deadTouched := false }
        if obs == want then (sp', "ok")
        else
          -- which connection differs?
          let gotParts := (words obs).drop 1
          let wantParts := (words want).drop 1
          let bad := (wantParts.filter fun p => !gotParts.contains p).head?.getD ((gotParts.filter fun p => !wantParts.contains p).head?.getD "?")
          let cname := (bad.splitOn "=").head!
          let gotPart := (gotParts.find? fun p => p.startsWith (cname ++ "=")).getD ""
          let altPart := (sp.alt.find? fun e => s!"{e.1.1}#{e.1.2}" == cname).map fun e => s!"{cname}={showSnapMap e.2}"
          let sig := if altPart == some gotPart then "C10/set-query-push-lost"
            else if sp.deadTouched then "C10/dead-session-affected-others" else "C10/merge-wrong"
          viol sp' sig op obs ("wanted " ++ want)
      | "p.mkf" =>
        match kv ws "f", kvNat ws "n" with
        | some f, some n =>
          if fronts.contains f then (sp, "ok")
          else ({ sp with conns := sp.conns.filter (·.1 != (f, n)) ++ [((f, n), initLog f n)],
                          alt := sp.alt.filter (·.1 != (f, n)) ++ [((f, n), initLog f n)] }, "ok")
        | _, _ => (sp, "bad-op")
      | "p.mkb" =>
        match kv ws "h", kv ws "f", kvNat ws "n", kv ws "uid" with
        | some h, some f, some n, some u =>
          if sp.hs.any (·.1 == h) then (sp, "ok")
          else ({ sp with hs := (h, ⟨"", f, n, [], false, [(hexKeyUId, svStr u)], false⟩) :: sp.hs }, "ok")
        | _, _, _, _ => (sp, "bad-op")
      | _ => (sp, "ok")
    | none => (sp, "bad-line")
  | _ => (sp, "bad-line")

/-- `openreq` (the first message of a connection, handed over before the front-end has registered it): the
property says what it says for `open` followed by `req` on the connection just opened — the connection gets the
next id, and the message is a message of THAT connection (envelope, routing, the handler's session, the answer) -/
def specLine1 (sp : Spec) (line : String) : Spec × String :=
  match line.splitOn "\t" with
  | [op, obs] =>
    let ws := words op
    if ws.head? == some "openreq" && !sp.off then
      let f := (kv ws "f").getD ""
      if !fronts.contains f || (kv ws "cl" == some "1" && typeOfSvc f != kv ws "svc") then (sp, "ok")
      else
        let ows := words obs
        let (sp1, v1) := specLine0 sp (s!"open f={f}\t{ows.head?.getD ""}")
        if v1 != "ok" then (sp1, v1)
        else
          let n := ((sp1.next.find? (·.1 == f)).map (·.2)).getD 0
          -- `cl=1`: the client hung up right after its first message — the socket is closed, the connection is a
          -- session until the end of the operation
          let sp1 := if kv ws "cl" == some "1" then sp1.close (f, n) else sp1
          let args := (ws.drop 1).filter fun t => !t.startsWith "f=" && !t.startsWith "n=" && !t.startsWith "cl="
          let reqOp := s!"req f={f} n={n} " ++ " ".intercalate args
          let r := specLine0 sp1 (reqOp ++ "\t" ++ " ".intercalate (ows.drop 1))
          -- a violation names the operation as it was issued
          (r.1, if r.2.startsWith "VIOLATION" then r.2.replace reqOp op else r.2)
    else specLine0 sp line
  | _ => specLine0 sp line

/-- the end of the op: the queued removals run — every connection whose socket was closed during the op
is handed to its close handler with its map AS OF NOW (everything merged until then), then it is gone -/
def specLine (sp : Spec) (line : String) : Spec × String :=
  match line.splitOn "\t" with
  | [op, obs] =>
    let (core, got) := match obs.splitOn " closed=" with
      | [a, b] => (a, b)
      | _ => (obs, "")
    let (sp1, v) := specLine1 sp (op ++ "\t" ++ core)
    let gone := sp1.closing.filterMap fun c => (sp1.conn c).map fun l => (s!"{c.1}#{c.2}", showSnapMap l)
    let want := "|".intercalate ((gone.foldr insertKey []).map fun e => e.1 ++ "=" ++ e.2)
    let sp2 := { sp1 with conns := sp1.conns.filter (fun e => !sp1.closing.contains e.1),
                          alt := sp1.alt.filter (fun e => !sp1.closing.contains e.1), closing := [] }
    if v != "ok" || sp1.off || (words op).head?.any (·.startsWith "u.") then (sp2, v)
    else if got == want then (sp2, "ok")
    else viol sp2 "C10/close-handler-saw-stale-data" op obs
      ("the close handlers must be handed " ++ (if want.isEmpty then "nothing" else want))
  | _ => (sp, "bad-line")

end Cell2v.Driver.C10

open Cell2v.Driver in
def main (args : List String) : IO Unit :=
  match args with
  | ["spec"] => runLoop Cell2v.Driver.C10.specLine {}
  | _ => runLoop Cell2v.Driver.C10.stepLine {}
