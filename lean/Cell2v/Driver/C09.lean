import Cell2v.Driver.Util
import Cell2v.Model.Mailbox
import Cell2v.Driver.C09Ring
import Cell2v.Driver.C09Mpsc
import Cell2v.Driver.C09Sched
/-!
Model driver for C09.  The hooked real mailbox is driven one atomic step at a
time by a controlling scheduler; every granted step is an op line
  `step k=<u|s|h|c> pt=<yield point> [msg=<id>] [sk=<n|s|r>] [over=<0|1>]`
and the observation is the mailbox's shared words after the step.  `model`
replays the same schedule on `Fine.fire`.  `spec` evaluates the property itself
(exactly once, per-sender order, system first, one runner, nothing left
undelivered at quiescence) on the implementation's observations.
-/
namespace Cell2v.Driver.C09
open Cell2v.Driver Cell2v.Mailbox Cell2v.Mailbox.Fine

def pcName : Pc → String
  | .wait => "wait" | .iter => "iter" | .bpcas => "bpcas" | .pops => "pops" | .lsusp => "lsusp" | .popu => "popu"
  | .a1 => "a1" | .r0 => "r0" | .r1 => "r1" | .r2 => "r2" | .r3 => "r3" | .cl => "cl" | .ck => "ck" | .cd => "cd"

def b01 (b : Bool) : String := if b then "1" else "0"

def showIds (l : List Nat) : String := ",".intercalate (l.map toString)
def showSIds (l : List (SK × Nat)) : String := ",".intercalate (l.map fun p => toString p.2)

def parseSK : Option String → SK
  | some "s" => .suspend
  | some "r" => .resume
  | _ => .normal

/-- (thread kind, yield point) ↦ model label -/
def labelOf (ws : List String) : Option Lbl :=
  let k := kv ws "k"
  let pt := kv ws "pt"
  let msg := (kvNat ws "msg").getD 0
  match k, pt with
  | some "u", some "pu.push" => some (.pushU msg)
  | some "u", some "pu.incr" => some .incrU
  | some "s", some "ps.push" => some (.pushS (parseSK (kv ws "sk")) msg)
  | some "s", some "ps.incr" => some .incrS
  | some "h", some "hp.sleep" => some .helperSleep
  | some "h", some "hp.cas" => some .helperWake
  | some "c", some "cons.take" => some .take
  | some "c", some "run.iter" => if kv ws "over" == some "1" then some .iterOver else some .iterOk
  | some "c", some "bp.cas" => some .bpCas
  | some "c", some "run.pops" => some .popS
  | some "c", some "run.lsusp" => some .lsusp
  | some "c", some "run.popu" => some .popU
  | some "c", some "pm.idle" => some .storeIdle
  | some "c", some "pm.lsys" => some .loadS
  | some "c", some "pm.luser" => some .loadU
  | some "c", some "pm.lpaused" => some .loadP2
  | some "c", some "pm.decide" => some .decide
  | some "c", some "sc.loadp" => some .cLoadP
  | some "c", some "sc.cas" => some .cCas
  | some "c", some "sc.disp" => some .cDisp
  | some _, some "sc.loadp" => some .loadP
  | some _, some "sc.cas" => some .casP
  | some _, some "sc.disp" => some .dispP
  | _, _ => none

def showState (s : St) (inv : String) : String :=
  s!"st={b01 s.run} um={s.um} sm={s.sm} susp={b01 s.susp} paused={b01 s.paused} cpc={pcName s.c} dq={s.dq} runners={if s.c == .wait then 0 else 1} inv={inv}"

def quietB (s : St) : Bool :=
  s.nUp == 0 && s.nSp == 0 && s.nL == 0 && s.nK == 0 && s.nD == 0 && s.dq == 0 && s.c == .wait && !s.hs

def step (s : St) (line : String) : St × String :=
  let ws := words line
  match ws.head? with
  | some "reset" => (init, "ok")
  | some "step" =>
    match labelOf ws with
    | none => (s, "bad-op")
    | some l =>
      match fire s l with
      | none => (s, "not-enabled")
      | some s' =>
        let inv :=
          if s'.dlvU.length > s.dlvU.length then "u:" ++ toString (s'.dlvU.getLast?.getD 0)
          else if s'.dlvS.length > s.dlvS.length then "s:" ++ toString ((s'.dlvS.getLast?.map (·.2)).getD 0)
          else "-"
        (s', showState s' inv)
  | some "bystander" => (s, "ok")   -- a second mailbox of the same producer is unaffected (and does not affect this one)
  | some "quiesce" =>
    (s, s!"quiet={b01 (quietB s)} st={b01 s.run} um={s.um} sm={s.sm} susp={b01 s.susp} paused={b01 s.paused} du={showIds s.dlvU} ds={showSIds s.dlvS}")
  | _ => (s, "bad-op")

/-! ### property predicate on implementation observations -/

structure Sp where
  pushedU : List Nat := []          -- in push order
  pushedS : List Nat := []
  dlvU : List Nat := []
  dlvS : List Nat := []
  idx : Nat := 0
  pushIdxS : List (Nat × Nat) := [] -- (id, step index of its push)
  lastEmptyPops : Nat := 0          -- step index of the consumer's latest system pop ATTEMPT (empty or not)
  deriving Inhabited

def sender (id : Nat) : Nat := id / 1000

/-- ids of one sender must be delivered in increasing order (they are posted in increasing order) -/
def orderOk (dlv : List Nat) (id : Nat) : Bool :=
  dlv.all fun d => sender d != sender id || d < id

def parseIds (s : String) : List Nat := (s.splitOn ",").filterMap String.toNat?

def specStep (sp : Sp) (line : String) : Sp × String :=
  match line.splitOn "\t" with
  | [op, obs] =>
    let ws := words op
    let ows := words obs
    if (obs.splitOn "panic").length > 1 then (sp, "VIOLATION C09/crash " ++ op ++ " -> " ++ obs) else
    match ws.head? with
    | some "reset" => ({}, "ok")
    | some "bystander" =>
      if obs == "ok" then (sp, "ok") else (sp, "VIOLATION C09/foreign-mailbox-interference " ++ obs)
    | some "step" =>
      let sp := { sp with idx := sp.idx + 1 }
      let msg := (kvNat ws "msg").getD 0
      let sp := match kv ws "pt" with
        | some "pu.push" => { sp with pushedU := sp.pushedU ++ [msg] }
        | some "ps.push" => { sp with pushedS := sp.pushedS ++ [msg], pushIdxS := sp.pushIdxS ++ [(msg, sp.idx)] }
        | _ => sp
      if (kvNat ows "runners").getD 0 > 1 then (sp, "VIOLATION C09/two-runners " ++ op ++ " -> " ++ obs) else
      match kv ows "inv" with
      | some inv =>
        if inv.startsWith "u:" then
          let id := ((inv.drop 2).toString.toNat?).getD 0
          if sp.dlvU.contains id then (sp, s!"VIOLATION C09/delivered-twice user message {id}")
          else if !sp.pushedU.contains id then (sp, s!"VIOLATION C09/delivered-unposted user message {id}")
          else if !orderOk sp.dlvU id then (sp, s!"VIOLATION C09/sender-order user message {id} delivered after a later one of the same sender")
          else
            -- system first: a system message whose push completed before the consumer's latest system pop
            -- attempt would have been popped then or earlier; none may still be waiting now
            let waiting := sp.pushIdxS.filter fun p => !sp.dlvS.contains p.1 && p.2 < sp.lastEmptyPops
            if !waiting.isEmpty then (sp, s!"VIOLATION C09/user-before-system user message {id} delivered while system message {waiting.head!.1} was queued")
            else ({ sp with dlvU := sp.dlvU ++ [id] }, "ok")
        else if inv.startsWith "s:" then
          let id := ((inv.drop 2).toString.toNat?).getD 0
          if sp.dlvS.contains id then (sp, s!"VIOLATION C09/delivered-twice system message {id}")
          else if !sp.pushedS.contains id then (sp, s!"VIOLATION C09/delivered-unposted system message {id}")
          else if !orderOk sp.dlvS id then (sp, s!"VIOLATION C09/sender-order system message {id}")
          else ({ sp with dlvS := sp.dlvS ++ [id], lastEmptyPops := if kv ws "pt" == some "run.pops" then sp.idx else sp.lastEmptyPops }, "ok")
        else
          -- an empty system pop moves the consumer from run.pops to run.lsusp
          if kv ws "pt" == some "run.pops" then ({ sp with lastEmptyPops := sp.idx }, "ok")
          else (sp, "ok")
      | none => (sp, "ok")
    | some "quiesce" =>
      let du := parseIds ((kv ows "du").getD "")
      let ds := parseIds ((kv ows "ds").getD "")
      let susp := kv ows "susp" == some "1"
      if ds != sp.pushedS then (sp, s!"VIOLATION C09/stalled-with-undelivered system messages: pushed {sp.pushedS} delivered {ds} at quiescence")
      else if !susp && du != sp.pushedU then (sp, s!"VIOLATION C09/stalled-with-undelivered user messages: pushed {sp.pushedU} delivered {du} at quiescence (not suspended)")
      else if susp && !(du.isPrefixOf sp.pushedU) then (sp, s!"VIOLATION C09/sender-order delivered {du} is not a prefix of pushed {sp.pushedU}")
      else (sp, "ok")
    | _ => (sp, "ok")
  | _ => (sp, "bad-line")

/-! ### queue component (`ring …` / `mpsc …` lines, see `Driver/C09Ring.lean`): its state rides next to the mailbox state -/

def stepQ (s : St × C09Ring.RS) (line : String) : (St × C09Ring.RS) × String :=
  if C09Ring.isQueueOp line then
    let (r, o) := C09Ring.ringStep s.2 (words line)
    ((s.1, r), o)
  else
    let (m, o) := step s.1 line
    ((m, if (words line).head? == some "reset" then {} else s.2), o)

def specStepQ (s : Sp × C09Ring.SpQ) (line : String) : (Sp × C09Ring.SpQ) × String :=
  match line.splitOn "\t" with
  | [op, obs] =>
    if C09Ring.isQueueOp op then
      let (r, o) := C09Ring.specRing s.2 op obs
      ((s.1, r), o)
    else
      let (m, o) := specStep s.1 line
      ((m, if (words op).head? == some "reset" then {} else s.2), o)
  | _ => let (m, o) := specStep s.1 line; ((m, s.2), o)

/-! ### concurrent mpsc component (`mq …` lines, see `Driver/C09Mpsc.lean`): one more state next to the others -/

def stepQM (s : (St × C09Ring.RS) × Cell2v.MpscConc.St) (line : String) : ((St × C09Ring.RS) × Cell2v.MpscConc.St) × String :=
  if C09Mpsc.isMqOp line then
    let (m, o) := C09Mpsc.mqStep s.2 (words line)
    ((s.1, m), o)
  else
    let (r, o) := stepQ s.1 line
    ((r, if (words line).head? == some "reset" then Cell2v.MpscConc.init else s.2), o)

def specStepQM (s : (Sp × C09Ring.SpQ) × C09Mpsc.SpM) (line : String) : ((Sp × C09Ring.SpQ) × C09Mpsc.SpM) × String :=
  match line.splitOn "\t" with
  | [op, obs] =>
    if C09Mpsc.isMqOp op then
      let (m, o) := C09Mpsc.specMq s.2 op obs
      ((s.1, m), o)
    else
      let (r, o) := specStepQ s.1 line
      ((r, if (words op).head? == some "reset" then {} else s.2), o)
  | _ => let (r, o) := specStepQ s.1 line; ((r, s.2), o)

/-! ### dispatcher component (`sd …` lines, see `Driver/C09Sched.lean`) -/

abbrev MS := ((St × C09Ring.RS) × Cell2v.MpscConc.St) × Cell2v.SchedDisp.St
abbrev SS := ((Sp × C09Ring.SpQ) × C09Mpsc.SpM) × C09Sched.SpS

def stepAll (s : MS) (line : String) : MS × String :=
  if C09Sched.isSdOp line then
    let (d, o) := C09Sched.sdStep s.2 (words line)
    ((s.1, d), o)
  else
    let (r, o) := stepQM s.1 line
    ((r, s.2), o)

def specAll (s : SS) (line : String) : SS × String :=
  match line.splitOn "\t" with
  | [op, obs] =>
    if C09Sched.isSdOp op then
      let (d, o) := C09Sched.specSd s.2 op obs
      ((s.1, d), o)
    else
      let (r, o) := specStepQM s.1 line
      ((r, s.2), o)
  | _ => let (r, o) := specStepQM s.1 line; ((r, s.2), o)

end Cell2v.Driver.C09

open Cell2v.Driver in
def main (args : List String) : IO Unit :=
  match args with
  | ["spec"] => runLoop Cell2v.Driver.C09.specAll ((({}, {}), {}), {})
  | _ => runLoop Cell2v.Driver.C09.stepAll (((Cell2v.Mailbox.Fine.init, {}), Cell2v.MpscConc.init), Cell2v.SchedDisp.init)
