import Cell2v.Driver.Util
import Cell2v.Model.MailboxT
import Cell2v.Driver.C09Ring
import Cell2v.Driver.C09Mpsc
import Cell2v.Driver.C09Sched
/-!
Model driver for C09.  The hooked real mailbox is driven one atomic step at a
time by a controlling scheduler; every granted step is an op line
  `step k=<u|s|h|c> pt=<yield point> [msg=<id>] [sk=<n|s|r>] [now=<ns>]`
and the observation is the mailbox's shared words after the step.  `model`
replays the same schedule on `FineT.fire` (`Fine` + throughput counter + panicking handlers + the clock and
the frame budget; a case starts with `reset t=<dispatcher throughput> b=<argument of mailbox.Producer, ms>`, a push op
carries `pan=1` if the handler of that message will panic; the consumer's "cons.take" and "run.iter" ops carry what the
clock reads, `now=` ns since the case began, and the MODEL decides from it — `now - beginTime > Producer(b)'s budget` —
whether run() carries on, begins a pause or takes the Gosched branch).  `spec` evaluates the property itself
(exactly once, per-sender order, system first, one runner, nothing left
undelivered at quiescence) on the implementation's observations.
-/
namespace Cell2v.Driver.C09
open Cell2v.Driver Cell2v.Mailbox Cell2v.Mailbox.Fine

def pcName : Pc → String
  | .wait => "wait" | .iter => "iter" | .bpcas => "bpcas" | .pops => "pops" | .lsusp => "lsusp" | .popu => "popu"
  | .a1 => "a1" | .r0 => "r0" | .r1 => "r1" | .r2 => "r2" | .r3 => "r3" | .cl => "cl" | .ck => "ck" | .cd => "cd"

def b01 (b : Bool) : String := if b then "1" else "0"

def showIds (l : List Nat) : String := ",".intercalate (l.map toString)
def showSIds (l : List (SK × Nat)) : String := ",".intercalate (l.map fun p => toString p.2)

def parseSK : Option String → SK
  | some "s" => .suspend
  | some "r" => .resume
  | _ => .normal

/-- driver state: the extended model plus what the ops announced about the handlers (environment input) -/
structure DS where
  t : FineT.St := FineT.init 99 10
  panU : List Nat := []   -- user ids whose handler will panic
  panS : List Nat := []   -- system ids (normal kind) whose handler will panic

/-- (thread kind, yield point) ↦ model label -/
def DS.x (d : DS) : FineX.St := d.t.x

def labelOf (d : DS) (ws : List String) : Option FineX.Lbl :=
  let k := kv ws "k"
  let pt := kv ws "pt"
  let msg := (kvNat ws "msg").getD 0
  let b : Lbl → Option FineX.Lbl := fun l => some (.base l)
  match k, pt with
  | some "u", some "pu.push" => b (.pushU msg)
  | some "u", some "pu.incr" => b .incrU
  | some "s", some "ps.push" => b (.pushS (parseSK (kv ws "sk")) msg)
  | some "s", some "ps.incr" => b .incrS
  | some "h", some "hp.sleep" => b .helperSleep
  | some "h", some "hp.cas" => b .helperWake
  | some "c", some "cons.take" => b .take
  | some "c", some "run.iter" =>
    -- the clock was advanced to the op's `now=` (see `step`): cost > maxProcessCost is the MODEL's computation, not what the
    -- implementation did: below 100000 counted messages an exhausted budget starts a pause, at or above it run() yields and goes on
    if FineT.over d.t then (if d.x.s.um ≥ FineX.maxMsgNumToSmooth then some .iterGosched else b .iterOver) else b .iterOk
  | some "c", some "bp.cas" => b .bpCas
  | some "c", some "run.pops" =>
    match d.x.s.sq with
    | (.normal, id) :: _ => if d.panS.contains id then some .popSPanic else b .popS
    | _ => b .popS
  | some "c", some "run.lsusp" => b .lsusp
  | some "c", some "run.popu" =>
    match d.x.s.uq with
    | id :: _ => if d.panU.contains id then some .popUPanic else b .popU
    | _ => b .popU
  | some "c", some "pm.idle" => b .storeIdle
  | some "c", some "pm.lsys" => b .loadS
  | some "c", some "pm.luser" => b .loadU
  | some "c", some "pm.lpaused" => b .loadP2
  | some "c", some "pm.decide" => b .decide
  | some "c", some "sc.loadp" => b .cLoadP
  | some "c", some "sc.cas" => b .cCas
  | some "c", some "sc.disp" => b .cDisp
  | some _, some "sc.loadp" => b .loadP
  | some _, some "sc.cas" => b .casP
  | some _, some "sc.disp" => b .dispP
  | _, _ => none

/-- `processMessages` runs queued or executing: callers of `schedule()` that won the CAS and are about to call
`dispatcher.Schedule`, entries of the dispatcher queue, and the consumer inside `run()` / before "store idle" -/
def runnersOf (s : St) : Nat := Abs.runners (Fine.abs s)   -- the quantity `single_runner` bounds by 1

def showState (s : St) (inv esc : String) (ret : Bool := false) : String :=
  s!"st={b01 s.run} um={s.um} sm={s.sm} susp={b01 s.susp} paused={b01 s.paused} cpc={if ret then "ret" else pcName s.c} dq={s.dq} runners={runnersOf s} inv={inv} esc={esc}"

def quietB (s : St) : Bool :=
  s.nUp == 0 && s.nSp == 0 && s.nL == 0 && s.nK == 0 && s.nD == 0 && s.dq == 0 && s.c == .wait && !s.hs

def step (d : DS) (line : String) : DS × String :=
  let ws := words line
  let s := d.x.s
  match ws.head? with
  | some "reset" => ({ t := FineT.init ((kvNat ws "t").getD 99) ((kvNat ws "b").getD 10) }, "ok")
  | some "step" =>
    -- time passes: the ops that read the clock say what it reads
    let d : DS := match kvNat ws "now" with
      | some n => { d with t := (FineT.fire d.t (.tick (n - d.t.now))).getD d.t }
      | none => d
    let tl : Option FineT.Lbl :=
      if kv ws "k" == some "c" && kv ws "pt" == some "uq.empty" then some .retEmpty else (labelOf d ws).map .x
    match tl with
    | none => (d, "bad-op")
    | some l =>
      match FineT.fire d.t l with
      | none => (d, "not-enabled")
      | some t' =>
        let x' := t'.x
        let s' := x'.s
        let inv :=
          if s'.dlvU.length > s.dlvU.length then "u:" ++ toString (s'.dlvU.getLast?.getD 0)
          else if s'.dlvS.length > s.dlvS.length then "s:" ++ toString ((s'.dlvS.getLast?.map (·.2)).getD 0)
          else "-"
        let esc :=
          if x'.escU.length > d.x.escU.length then toString (x'.escU.getLast?.getD 0)
          else if x'.escS.length > d.x.escS.length then toString ((x'.escS.getLast?.map (·.2)).getD 0)
          else "-"
        let pan := kv ws "pan" == some "1"
        let msg := (kvNat ws "msg").getD 0
        let d' : DS := { d with t := t' }
        let d' := if pan && kv ws "pt" == some "pu.push" then { d' with panU := d'.panU ++ [msg] }
                  else if pan && kv ws "pt" == some "ps.push" then { d' with panS := d'.panS ++ [msg] } else d'
        (d', showState s' inv esc t'.ret)
  | some "bystander" => (d, "ok")   -- a second mailbox of the same producer is unaffected (and does not affect this one)
  | some "quiesce" =>
    (d, s!"quiet={b01 (quietB s)} st={b01 s.run} um={s.um} sm={s.sm} susp={b01 s.susp} paused={b01 s.paused} du={showIds s.dlvU} ds={showSIds s.dlvS} esc={showIds (d.x.escU ++ d.x.escS.map (·.2))}")
  | _ => (d, "bad-op")

/-! ### property predicate on implementation observations -/

structure Sp where
  pushedU : List Nat := []          -- in push order
  pushedS : List Nat := []
  dlvU : List Nat := []
  dlvS : List Nat := []
  idx : Nat := 0
  pushIdxS : List (Nat × Nat) := [] -- (id, step index of its push)
  lastEmptyPops : Nat := 0          -- step index of the consumer's latest system pop ATTEMPT (empty or not)
  deriving Inhabited

def sender (id : Nat) : Nat := id / 1000

/-- ids of one sender must be delivered in increasing order (they are posted in increasing order) -/
def orderOk (dlv : List Nat) (id : Nat) : Bool :=
  dlv.all fun d => sender d != sender id || d < id

def parseIds (s : String) : List Nat := (s.splitOn ",").filterMap String.toNat?

def specStep (sp : Sp) (line : String) : Sp × String :=
  match line.splitOn "\t" with
  | [op, obs] =>
    let ws := words op
    let ows := words obs
    if (obs.splitOn "panic").length > 1 then (sp, "VIOLATION C09/crash " ++ op ++ " -> " ++ obs) else
    match ws.head? with
    | some "reset" => ({}, "ok")
    | some "bystander" =>
      if obs == "ok" then (sp, "ok") else (sp, "VIOLATION C09/foreign-mailbox-interference " ++ obs)
    | some "step" =>
      let sp := { sp with idx := sp.idx + 1 }
      let msg := (kvNat ws "msg").getD 0
      let sp := match kv ws "pt" with
        | some "pu.push" => { sp with pushedU := sp.pushedU ++ [msg] }
        | some "ps.push" => { sp with pushedS := sp.pushedS ++ [msg], pushIdxS := sp.pushIdxS ++ [(msg, sp.idx)] }
        | _ => sp
      if (kvNat ows "runners").getD 0 > 1 then (sp, "VIOLATION C09/two-runners " ++ op ++ " -> " ++ obs) else
      -- what is handed to EscalateFailure is the message whose handler was just invoked
      let esc := (kv ows "esc").getD "-"
      if esc != "-" && esc != "" && kv ows "inv" != some ("u:" ++ esc) && kv ows "inv" != some ("s:" ++ esc) then
        (sp, "VIOLATION C09/escalated-wrong-message " ++ op ++ " -> " ++ obs) else
      match kv ows "inv" with
      | some inv =>
        if inv.startsWith "u:" then
          let id := ((inv.drop 2).toString.toNat?).getD 0
          if sp.dlvU.contains id then (sp, s!"VIOLATION C09/delivered-twice user message {id}")
          else if !sp.pushedU.contains id then (sp, s!"VIOLATION C09/delivered-unposted user message {id}")
          else if !orderOk sp.dlvU id then (sp, s!"VIOLATION C09/sender-order user message {id} delivered after a later one of the same sender")
          else
            -- system first: a system message whose push completed before the consumer's latest system pop
            -- attempt would have been popped then or earlier; none may still be waiting now
            let waiting := sp.pushIdxS.filter fun p => !sp.dlvS.contains p.1 && p.2 < sp.lastEmptyPops
            if !waiting.isEmpty then (sp, s!"VIOLATION C09/user-before-system user message {id} delivered while system message {waiting.head!.1} was queued")
            else ({ sp with dlvU := sp.dlvU ++ [id] }, "ok")
        else if inv.startsWith "s:" then
          let id := ((inv.drop 2).toString.toNat?).getD 0
          if sp.dlvS.contains id then (sp, s!"VIOLATION C09/delivered-twice system message {id}")
          else if !sp.pushedS.contains id then (sp, s!"VIOLATION C09/delivered-unposted system message {id}")
          else if !orderOk sp.dlvS id then (sp, s!"VIOLATION C09/sender-order system message {id}")
          else ({ sp with dlvS := sp.dlvS ++ [id], lastEmptyPops := if kv ws "pt" == some "run.pops" then sp.idx else sp.lastEmptyPops }, "ok")
        else
          -- an empty system pop moves the consumer from run.pops to run.lsusp
          if kv ws "pt" == some "run.pops" then ({ sp with lastEmptyPops := sp.idx }, "ok")
          else (sp, "ok")
      | none => (sp, "ok")
    | some "quiesce" =>
      let du := parseIds ((kv ows "du").getD "")
      let ds := parseIds ((kv ows "ds").getD "")
      let susp := kv ows "susp" == some "1"
      if ds != sp.pushedS then (sp, s!"VIOLATION C09/stalled-with-undelivered system messages: pushed {sp.pushedS} delivered {ds} at quiescence")
      else if !susp && du != sp.pushedU then (sp, s!"VIOLATION C09/stalled-with-undelivered user messages: pushed {sp.pushedU} delivered {du} at quiescence (not suspended)")
      else if susp && !(du.isPrefixOf sp.pushedU) then (sp, s!"VIOLATION C09/sender-order delivered {du} is not a prefix of pushed {sp.pushedU}")
      -- the existing threads finish (x_every_schedule_drains bounds every schedule): a case that is still busy when the
      -- controller gives up (20000 granted steps for at most ~150 messages) re-schedules itself for ever
      else if kv ows "quiet" == some "0" then (sp, s!"VIOLATION C09/never-quiescent the mailbox still has runnable threads after the step limit: {obs}")
      else (sp, "ok")
    | _ => (sp, "ok")
  | _ => (sp, "bad-line")

/-! ### queue component (`ring …` / `mpsc …` lines, see `Driver/C09Ring.lean`): its state rides next to the mailbox state -/

def stepQ (s : DS × C09Ring.RS) (line : String) : (DS × C09Ring.RS) × String :=
  if C09Ring.isQueueOp line then
    let (r, o) := C09Ring.ringStep s.2 (words line)
    ((s.1, r), o)
  else
    let (m, o) := step s.1 line
    ((m, if (words line).head? == some "reset" then {} else s.2), o)

def specStepQ (s : Sp × C09Ring.SpQ) (line : String) : (Sp × C09Ring.SpQ) × String :=
  match line.splitOn "\t" with
  | [op, obs] =>
    if C09Ring.isQueueOp op then
      let (r, o) := C09Ring.specRing s.2 op obs
      ((s.1, r), o)
    else
      let (m, o) := specStep s.1 line
      ((m, if (words op).head? == some "reset" then {} else s.2), o)
  | _ => let (m, o) := specStep s.1 line; ((m, s.2), o)

/-! ### concurrent mpsc component (`mq …` lines, see `Driver/C09Mpsc.lean`): one more state next to the others -/

def stepQM (s : (DS × C09Ring.RS) × Cell2v.MpscConc.St) (line : String) : ((DS × C09Ring.RS) × Cell2v.MpscConc.St) × String :=
  if C09Mpsc.isMqOp line then
    let (m, o) := C09Mpsc.mqStep s.2 (words line)
    ((s.1, m), o)
  else
    let (r, o) := stepQ s.1 line
    ((r, if (words line).head? == some "reset" then Cell2v.MpscConc.init else s.2), o)

def specStepQM (s : (Sp × C09Ring.SpQ) × C09Mpsc.SpM) (line : String) : ((Sp × C09Ring.SpQ) × C09Mpsc.SpM) × String :=
  match line.splitOn "\t" with
  | [op, obs] =>
    if C09Mpsc.isMqOp op then
      let (m, o) := C09Mpsc.specMq s.2 op obs
      ((s.1, m), o)
    else
      let (r, o) := specStepQ s.1 line
      ((r, if (words op).head? == some "reset" then {} else s.2), o)
  | _ => let (r, o) := specStepQ s.1 line; ((r, s.2), o)

/-! ### dispatcher component (`sd …` lines, see `Driver/C09Sched.lean`) -/

abbrev MS := ((DS × C09Ring.RS) × Cell2v.MpscConc.St) × Cell2v.SchedDisp.St
abbrev SS := ((Sp × C09Ring.SpQ) × C09Mpsc.SpM) × C09Sched.SpS

def stepAll (s : MS) (line : String) : MS × String :=
  if C09Sched.isSdOp line then
    let (d, o) := C09Sched.sdStep s.2 (words line)
    ((s.1, d), o)
  else
    let (r, o) := stepQM s.1 line
    ((r, s.2), o)

def specAll (s : SS) (line : String) : SS × String :=
  match line.splitOn "\t" with
  | [op, obs] =>
    if C09Sched.isSdOp op then
      let (d, o) := C09Sched.specSd s.2 op obs
      ((s.1, d), o)
    else
      let (r, o) := specStepQM s.1 line
      ((r, s.2), o)
  | _ => let (r, o) := specStepQM s.1 line; ((r, s.2), o)

end Cell2v.Driver.C09

open Cell2v.Driver in
def main (args : List String) : IO Unit :=
  match args with
  | ["spec"] => runLoop Cell2v.Driver.C09.specAll ((({}, {}), {}), {})
  | _ => runLoop Cell2v.Driver.C09.stepAll ((({}, {}), Cell2v.MpscConc.init), Cell2v.SchedDisp.init)
