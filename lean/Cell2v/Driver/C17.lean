import Cell2v.Driver.Util
import Cell2v.Model.Events
import Cell2v.Model.EventsOwner
/-!
Model driver for C17 (event centres).

* `modeld_c17 model`  : op line in → observation out; Go map iteration order is resolved
  canonically (oldest subscription first, later insertions not produced).
* `modeld_c17 accept` : `op<TAB>implObs` in → `ok` / `REJECT …`.  The implementation's
  own iteration order (the sequence of invocations and loop ends in its observation) is
  fed to the model as the *guide*; the model then has to reproduce the observation
  exactly.  Everything except the iteration order is deterministic.
* `modeld_c17 spec`   : `op<TAB>implObs` in → `ok` / `VIOLATION C17/<reason> …`: the property
  itself, evaluated by an independent monitor that follows the implementation's
  invocations (it never decides which listener runs; it only checks).

Line protocol
  reset cs=L,C,T              centres: L local, C local with useChan, T light
  def t=5 b=1.2 f=3 s=<ops>   listener template (bound args, code pointer, script)
  do ops=<ops>                top-level caller performs the operations
  drain c=1 n=3               owner of centre 1 receives ≤ 3 events and DoEvent()s them
  gfill e=2 a=7 n=1005        n global publications
  q c=1                       queue length
  n c=0 e=1                   subscriber count of name 1 as centre 0 reports it (light: GetSubscribeNum, HasSubscribers → `n=2 h=1`; local: `n=-`)
  rs n=5 burst=3 | conc pubs=3 n=20 cs=2 | concsub cs=2 rounds=200   run-service / concurrent-publisher / concurrent-subscriber cases
     (rs: n publications delivered by a real StandardRunService; burst>0: Stop from outside while the owner is stuck in a
      listener and `burst` publications are still queued.  The model's answer is computed by `Model/EventsOwner.lean`.)
  concfull pubs=4 free=2      `pubs` goroutines publish one global event each to a centre with `free` free queue slots
  ops: `;`-separated  s.c.e.t.g | u.c.e.t | f.c.e.fn | p.c.e.args | g.e.args | c.c | gs.e.c | gu.e.c | gsh.e.c.t
       | sr.c.e.t.r | ur.c.e.fn.r   (light centre SubscribeWithReceiver / UnsubscribeWithReceiver, receiver r ≥ 1)
       (args `_`-separated; gs/gu = direct Subscribe/Unsubscribe(name, centre) on the exported global centre;
        gsh = direct Subscribe through a wrapper centre whose GetId() performs template t's script, i.e. between the
        global centre's list lookup and its store)
Observation tokens: s+ s0 dup bad x q u c [ ] i<id>:<args> g:<centres> gs gu blocked, and m<id>:<args> when a listener
  finds its arguments changed after its script ran (never produced by the model)
-/
namespace Cell2v.Driver.C17
open Cell2v.Driver Cell2v.Events

def parseNats (sep : String) (s : String) : List Nat :=
  if s.isEmpty then [] else (s.splitOn sep).filterMap String.toNat?

def parseOp (s : String) : Option SOp :=
  match s.splitOn "." with
  | ["s", c, e, t, g] => do pure (.sub (← c.toNat?) (← e.toNat?) (← t.toNat?) (g == "1"))
  | ["u", c, e, t] => do pure (.unsub (← c.toNat?) (← e.toNat?) (← t.toNat?))
  | ["f", c, e, f] => do pure (.unsubfn (← c.toNat?) (← e.toNat?) (← f.toNat?))
  | ["p", c, e, a] => do pure (.pub (← c.toNat?) (← e.toNat?) (parseNats "_" a))
  | ["g", e, a] => do pure (.gpub (← e.toNat?) (parseNats "_" a))
  | ["c", c] => do pure (.clear (← c.toNat?))
  | ["gs", e, c] => do pure (.gsub (← e.toNat?) (← c.toNat?))
  | ["gu", e, c] => do pure (.gunsub (← e.toNat?) (← c.toNat?))
  | ["sr", c, e, t, r] => do pure (.subr (← c.toNat?) (← e.toNat?) (← t.toNat?) (← r.toNat?))
  | ["ur", c, e, f, r] => do pure (.unsubr (← c.toNat?) (← e.toNat?) (← f.toNat?) (← r.toNat?))
  | ["gsh", e, c, t] => do pure (.gsubh (← e.toNat?) (← c.toNat?) (← t.toNat?))
  | _ => none

def parseOps (s : String) : Option (List SOp) :=
  if s.isEmpty then some [] else (s.splitOn ";").mapM parseOp

def joinNats (sep : String) (l : List Nat) : String := sep.intercalate (l.map toString)

def showTok : Tok → String
  | .sub _ _ _ _ true => "s+"
  | .sub _ _ _ _ false => "s0"
  | .dup => "dup"
  | .bad => "bad"
  | .deep => "x"
  | .pubq .. => "q"
  | .unsub .. => "u"
  | .clear .. => "c"
  | .opn .. => "["
  | .cls _ => "]"
  | .inv _ _ _ id args _ => s!"i{id}:{joinNats "." args}"
  | .gpub _ _ grew => s!"g:{joinNats "." grew}"
  | .blocked => "blocked"
  | .gsub .. => "gs"
  | .gunsub .. => "gu"

def showOut (toks : List Tok) : String := " ".intercalate (toks.reverse.map showTok)

/-- iteration order taken from an implementation observation -/
def guideOf (obs : String) : List GTok :=
  (words obs).filterMap fun t =>
    if t == "]" then some .cls
    else if t.startsWith "i" then
      match ((t.drop 1).toString.splitOn ":") with
      | idS :: _ => idS.toNat?.map .inv
      | _ => none
    else none

def parseKinds (s : String) : List (Bool × Bool) :=
  (s.splitOn ",").filterMap fun k =>
    if k == "L" then some (false, false) else if k == "C" then some (false, true)
    else if k == "T" then some (true, false) else none

def fuel : Nat := 200000

structure St where
  w : World := init Cfg.fixed [] []

def runCall (w : World) (ops : List SOp) (g : List GTok) : World × String :=
  let w' := runFuel fuel (call { w with out := [] } ops g)
  (w', if w'.out.isEmpty then "-" else showOut w'.out)

/-- the model's answer for `rs`: the scenario is played through `EventsOwner.run` -/
def rsObs (n burst : Nat) : String :=
  let s := EventsOwner.run {} (EventsOwner.rsActs n burst)
  let s2 := EventsOwner.act s (.gpub (.ext 0) (Int.ofNat n))
  let got := EventsOwner.countUp (EventsOwner.delivered s)
  let owner := s.log.all (fun p => p.1 == EventsOwner.G.owner)
  let dereg := s2.queue.length ≤ s.queue.length && s2.log.length == s.log.length
  let late := (s.log.filter (fun p => p.2 ≤ -2)).length
  s!"got={got} owner={if owner then 1 else 0} dereg={if dereg then 1 else 0}" ++ (if burst > 0 then s!" late={late}" else "")

/-- the model's answer for `concfull` -/
def fullObs (pubs free : Nat) : String :=
  let s := EventsOwner.run { queue := List.replicate (EventsOwner.cap - free) (-1), listening := true } (EventsOwner.fullActs pubs)
  let o := EventsOwner.run { listening := true } (EventsOwner.fullActs pubs)
  s!"q={s.queue.length} blocked=0 other={o.queue.length}"
def concObs (pubs n cs : Nat) : String :=
  " ".intercalate ((List.range cs).map (fun i => s!"c{i}={pubs * n}")) ++ " fifo=1"

/-- one op line; `g` = iteration guide (empty in `model` mode) -/
def stepLine (s : St) (line : String) (g : List GTok) : St × String :=
  let ws := words line
  match ws.head? with
  | some "reset" =>
    ({ w := init Cfg.fixed (parseKinds ((kv ws "cs").getD "")) [] }, "ok")
  | some "def" =>
    match kvNat ws "t", kvNat ws "f", (kv ws "s").bind parseOps with
    | some t, some f, some sc =>
      let tm : Tmpl := ⟨parseNats "." ((kv ws "b").getD ""), f, sc⟩
      if s.w.tmpls.any (fun x => x.1 == t) then (s, "dup")
      else ({ w := { s.w with tmpls := s.w.tmpls ++ [(t, tm)] } }, "ok")
    | _, _, _ => (s, "bad-op")
  | some "do" =>
    if s.w.blocked.isSome then (s, "aborted") else
    match (kv ws "ops").bind parseOps with
    | some ops => let (w', o) := runCall s.w ops g; ({ w := w' }, o)
    | none => (s, "bad-op")
  | some "gfill" =>
    if s.w.blocked.isSome then (s, "aborted") else
    match kvNat ws "e", kvNat ws "n" with
    | some e, some n =>
      let a := parseNats "_" ((kv ws "a").getD "")
      let (w', o) := runCall s.w (List.replicate n (.gpub e a)) g; ({ w := w' }, o)
    | _, _ => (s, "bad-op")
  | some "drain" =>
    if s.w.blocked.isSome then (s, "aborted") else
    match kvNat ws "c", kvNat ws "n" with
    | some c, some n =>
      let w' := runFuel fuel (callDrain { s.w with out := [] } c n g)
      ({ w := w' }, if w'.out.isEmpty then "-" else showOut w'.out)
    | _, _ => (s, "bad-op")
  | some "q" =>
    match kvNat ws "c" with
    | some c => (s, match s.w.cs[c]? with | some ct => s!"q={ct.queue.length}" | none => "bad")
    | none => (s, "bad-op")
  | some "n" =>
    match kvNat ws "c", kvNat ws "e" with
    | some c, some e =>
      (s, match s.w.cs[c]? with
          | some ct => if ct.light then s!"n={subNum s.w c e} h={if subNum s.w c e > 0 then 1 else 0}" else "n=-"
          | none => "bad")
    | _, _ => (s, "bad-op")
  | some "rs" => (s, rsObs ((kvNat ws "n").getD 0) ((kvNat ws "burst").getD 0))
  | some "concfull" =>
    let pubs := (kvNat ws "pubs").getD 0
    let free := (kvNat ws "free").getD 0
    if pubs < 1 || pubs > 16 || free > 999 then (s, "bad-op") else (s, fullObs pubs free)
  | some "conc" => (s, concObs ((kvNat ws "pubs").getD 0) ((kvNat ws "n").getD 0) ((kvNat ws "cs").getD 0))
  | some "concsub" => (s, "lost=0")
  | some "concreg" => (s, "missed=0")
  | _ => (s, "bad-op")

def modelLine (s : St) (line : String) : St × String := stepLine s line []

def acceptLine (s : St) (line : String) : St × String :=
  match line.splitOn "\t" with
  | [op, obs] =>
    let (s', m) := stepLine s op (guideOf obs)
    (s', if m == obs then "ok" else "REJECT model=" ++ m)
  | _ => (s, "REJECT bad-line")

/-! ### the property monitor (independent of the model) -/

structure MSub where
  c : Nat
  e : Nat
  id : Nat
  bound : List Nat
  fn : Nat
  glob : Bool
  recv : Nat := 0            -- light centre: receiver the listener was subscribed with (0 = none)
  fuzzy : Bool := false      -- removal by code pointer was ambiguous: may or may not still be subscribed

structure MCentre where
  light : Bool
  useChan : Bool
  running : Bool := true
  queue : List (Nat × List Nat) := []

inductive MFrame where
  | script (ops : List SOp)
  | disp (c e : Nat) (a : List Nat) (snap called : List Nat)
  | drain (c n : Nat)

structure Mon where
  cs : List MCentre := []
  tmpls : List (Nat × Tmpl) := []
  subs : List MSub := []
  used : List Nat := []
  unsubbed : List Nat := []
  cleared : List Nat := []
  stack : List MFrame := []
  reg : List (Nat × Nat) := []      -- (name, centre): who is registered with the global centre, per the API's contract
  flag : List (Nat × Nat) := []     -- (centre, name): lists that registered themselves (first GSubscribe … last listener gone)
  touched : List (Nat × Nat) := []  -- (name, centre) pairs somebody (un)registered by hand
  hooked : List Nat := []
  dead : Bool := false         -- the case was abandoned after a hang

def Mon.tm (m : Mon) (t : Nat) : Option Tmpl := (m.tmpls.find? (fun x => x.1 == t)).map (·.2)
def Mon.lis (m : Mon) (c e : Nat) : List MSub := m.subs.filter (fun l => l.c == c && l.e == e)
def Mon.depth (m : Mon) : Nat := (m.stack.filter (fun f => match f with | .disp .. => true | _ => false)).length

abbrev R := Except String Mon

def viol (sig why : String) : R := .error s!"VIOLATION C17/{sig} {why}"

def opName : SOp → String
  | .sub c e t g => s!"s.{c}.{e}.{t}.{if g then 1 else 0}"
  | .unsub c e t => s!"u.{c}.{e}.{t}"
  | .unsubfn c e f => s!"f.{c}.{e}.{f}"
  | .pub c e a => s!"p.{c}.{e}.{joinNats "_" a}"
  | .gpub e a => s!"g.{e}.{joinNats "_" a}"
  | .clear c => s!"c.{c}"
  | .gsub e c => s!"gs.{e}.{c}"
  | .gunsub e c => s!"gu.{e}.{c}"
  | .gsubh e c t => s!"gsh.{e}.{c}.{t}"
  | .subr c e t r => s!"sr.{c}.{e}.{t}.{r}"
  | .unsubr c e f r => s!"ur.{c}.{e}.{f}.{r}"

/-- effect of a completed script operation, as the API documents it; `tok` = what the implementation did -/
def monOp (m : Mon) (op : SOp) (tok : String) : R :=
  if tok == "blocked" then
    match op with
    | .pub c _ _ =>
      match m.cs[c]? with
      | some ct => if ct.useChan && ct.queue.length ≥ 999 then .ok { m with dead := true }   -- blocking send on a full channel
                   else viol "reentrant-blocked" s!"{opName op} never returned"
      | none => viol "reentrant-blocked" s!"{opName op} never returned"
    | _ => viol "reentrant-blocked" s!"{opName op} never returned"
  else
  match op with
  | .sub c e t g =>
    if tok == "s+" then
      match m.cs[c]?, m.tm t with
      | some ct, some tm =>
        if !ct.running then viol "subscribed-on-cleared-centre" (opName op)
        else if ct.light && !g && (m.lis c e).any (fun l => l.fn == tm.fn && !l.fuzzy) then
          viol "callback-registered-twice" s!"{opName op}: the callback is already registered for that name"
        else
          let m := { m with used := t :: m.used, subs := m.subs ++ [{ c, e, id := t, bound := tm.bound, fn := tm.fn, glob := g && !ct.light }] }
          -- GSubscribe registers the centre when its list is not registered yet
          if g && !ct.light && !m.flag.contains (c, e) then
            .ok { m with flag := (c, e) :: m.flag, reg := if m.reg.contains (e, c) then m.reg else (e, c) :: m.reg }
          else .ok m
      | _, _ => viol "trace-shape" s!"{opName op} answered {tok}"
    else if tok == "s0" then
      match m.cs[c]?, m.tm t with
      | some ct, some tm =>
        -- a refusal is legitimate on a cleared centre, or (light, checked) for a known code pointer
        if !ct.running || (ct.light && !g && (m.lis c e).any (fun l => l.fn == tm.fn)) then .ok { m with used := t :: m.used }
        else viol "subscribe-refused" (opName op)
      | _, _ => viol "trace-shape" s!"{opName op} answered {tok}"
    else if tok == "dup" || tok == "bad" then .ok m
    else viol "trace-shape" s!"{opName op} answered {tok}"
  | .unsub c e t =>
    if tok == "u" then
      let m := { m with subs := m.subs.filter (fun l => !(l.c == c && l.e == e && l.id == t)),
                        unsubbed := if (m.lis c e).any (fun l => l.id == t) then t :: m.unsubbed else m.unsubbed }
      -- the last listener of a registered list deregisters the centre
      if m.flag.contains (c, e) && (m.lis c e).isEmpty then
        .ok { m with flag := m.flag.filter (· != (c, e)), reg := m.reg.filter (· != (e, c)) }
      else .ok m
    else if tok == "bad" then .ok m else viol "trace-shape" s!"{opName op} answered {tok}"
  | .unsubfn c e f =>
    if tok == "u" then
      match (m.lis c e).filter (fun l => l.fn == f) with
      | [l] => .ok { m with subs := m.subs.filter (fun x => !(x.id == l.id)), unsubbed := l.id :: m.unsubbed }
      | [] => .ok m
      | _ => .ok { m with subs := m.subs.map (fun x => if x.c == c && x.e == e && x.fn == f then { x with fuzzy := true } else x) }
    else if tok == "bad" then .ok m else viol "trace-shape" s!"{opName op} answered {tok}"
  | .clear c =>
    if tok == "c" then
      .ok { m with cleared := (m.subs.filter (fun l => l.c == c)).map (·.id) ++ m.cleared,
                   subs := m.subs.filter (fun l => !(l.c == c)),
                   reg := m.reg.filter (fun x => !(m.flag.contains (x.2, x.1) && x.2 == c)),
                   flag := m.flag.filter (fun x => !(x.1 == c)),
                   cs := match m.cs[c]? with | some ct => m.cs.set c { ct with running := false } | none => m.cs }
    else if tok == "bad" then .ok m else viol "trace-shape" s!"{opName op} answered {tok}"
  | .gpub e a =>
    if tok.startsWith "g:" then
      let grew := parseNats "." (tok.drop 2).toString
      let idx := List.range m.cs.length
      -- every centre with a live global subscription and room in its queue receives it …
      -- (registered = live global subscription whose registration nobody removed by hand, or registered by hand / per the API contract)
      let missed := idx.filter (fun i => match m.cs[i]? with
        | some ct => ((m.subs.any (fun l => l.c == i && l.e == e && l.glob && !l.fuzzy) && !m.touched.contains (e, i))
                      || m.reg.contains (e, i)) && ct.queue.length < 999 && !grew.contains i
        | none => false)
      -- … exactly once, and no centre that is not registered for that name does
      let extra := grew.filter (fun i => !(m.reg.contains (e, i)))
      let full := grew.filter (fun i => match m.cs[i]? with | some ct => ct.queue.length ≥ 999 | none => true)
      if !missed.isEmpty then viol "global-missed-centre" s!"{opName op} centres {missed} got {tok}"
      else if !extra.isEmpty then viol "global-delivered-to-unsubscribed-centre" s!"{opName op} centres {extra}"
      else if !full.isEmpty then viol "queue-overfull" s!"{opName op} centres {full}"
      else if grew.eraseDups.length != grew.length then viol "global-delivered-twice" s!"{opName op} {tok}"
      else .ok { m with cs := m.cs.mapIdx (fun i ct => if grew.contains i then { ct with queue := ct.queue ++ [(e, a)] } else ct) }
    else viol "trace-shape" s!"{opName op} answered {tok}"
  | .gsub e c =>
    if tok == "gs" then .ok { m with reg := if m.reg.contains (e, c) then m.reg else (e, c) :: m.reg, touched := (e, c) :: m.touched }
    else if tok == "bad" then .ok m else viol "trace-shape" s!"{opName op} answered {tok}"
  | .gsubh .. => viol "trace-shape" s!"{opName op} answered {tok}"
  | .subr c e t r =>
    match m.cs[c]?, m.tm t with
    | some ct, some tm =>
      -- a listener matches (receiver r, callback) when it has that callback and either no receiver or receiver r
      let dup := (m.lis c e).filter (fun l => l.fn == tm.fn && (l.recv == 0 || l.recv == r))
      if tok == "s+" then
        if !ct.light || r == 0 then viol "trace-shape" s!"{opName op} answered {tok}"
        else if !ct.running then viol "subscribed-on-cleared-centre" (opName op)
        else if dup.any (fun l => !l.fuzzy) then
          viol "callback-registered-twice" s!"{opName op}: the callback is already registered for that name (listener {dup.map (·.id)})"
        else .ok { m with used := t :: m.used, subs := m.subs ++ [{ c, e, id := t, bound := tm.bound, fn := tm.fn, glob := false, recv := r }] }
      else if tok == "s0" then
        if !ct.running || !dup.isEmpty then .ok { m with used := t :: m.used } else viol "subscribe-refused" (opName op)
      else if tok == "dup" || tok == "bad" then .ok m
      else viol "trace-shape" s!"{opName op} answered {tok}"
    | _, _ => if tok == "bad" then .ok m else viol "trace-shape" s!"{opName op} answered {tok}"
  | .unsubr c e f r =>
    if tok == "u" then
      match (m.lis c e).filter (fun l => l.fn == f && (l.recv == 0 || l.recv == r)) with
      | [l] => .ok { m with subs := m.subs.filter (fun x => !(x.id == l.id)), unsubbed := l.id :: m.unsubbed }
      | [] => .ok m
      | _ => .ok { m with subs := m.subs.map (fun x => if x.c == c && x.e == e && x.fn == f && (x.recv == 0 || x.recv == r) then { x with fuzzy := true } else x) }
    else if tok == "bad" then .ok m else viol "trace-shape" s!"{opName op} answered {tok}"
  | .gunsub e c =>
    if tok == "gu" then .ok { m with reg := m.reg.filter (· != (e, c)), touched := (e, c) :: m.touched }
    else if tok == "bad" then .ok m else viol "trace-shape" s!"{opName op} answered {tok}"
  | .pub c e a =>
    match m.cs[c]? with
    | none => if tok == "bad" then .ok m else viol "trace-shape" s!"{opName op} answered {tok}"
    | some ct =>
      if tok == "q" then
        if ct.useChan && !ct.light then .ok { m with cs := m.cs.set c { ct with queue := ct.queue ++ [(e, a)] } }
        else viol "trace-shape" s!"{opName op} answered {tok}"
      else if tok == "x" then .ok m
      else if tok == "[" then
        .ok { m with stack := .disp c e a ((m.lis c e).map (·.id)) [] :: m.stack }
      else viol "trace-shape" s!"{opName op} answered {tok}"

/-- a listener invocation reported by the implementation inside the dispatch frame on top -/
def monInv (m : Mon) (c e : Nat) (a snap called : List Nat) (rest : List MFrame) (id : Nat) (args : List Nat) : R :=
  let light := match m.cs[c]? with | some ct => ct.light | none => false
  let running := match m.cs[c]? with | some ct => ct.running | none => false
  match m.subs.find? (fun l => l.id == id) with
  | none =>
    if m.cleared.contains id then
      viol (if light then "light-invoked-after-clear" else "invoked-after-clear") s!"listener {id} centre {c} event {e}"
    else if m.unsubbed.contains id then viol "invoked-after-unsubscribe" s!"listener {id} centre {c} event {e}"
    else viol "unknown-listener" s!"listener {id} centre {c} event {e}"
  | some l =>
    if !(l.c == c && l.e == e) then viol "wrong-event-name" s!"listener {id} of ({l.c},{l.e}) invoked for ({c},{e})"
    else if !running then viol (if light then "light-invoked-after-clear" else "invoked-after-clear") s!"listener {id} centre {c}"
    else if called.contains id then viol "invoked-twice" s!"listener {id} centre {c} event {e}"
    else if !light && !snap.contains id then viol "invoked-late-subscriber" s!"listener {id} centre {c} event {e}"
    else if args != l.bound ++ a then viol "wrong-args" s!"listener {id} got {args} want {l.bound ++ a}"
    else
      let sc := match m.tm id with | some tm => tm.script | none => []
      .ok { m with stack := .script sc :: .disp c e a snap (id :: called) :: rest }

def monClose (m : Mon) (c e : Nat) (snap called : List Nat) (rest : List MFrame) : R :=
  let running := match m.cs[c]? with | some ct => ct.running | none => false
  let missed := snap.filter (fun id => !called.contains id && (m.lis c e).any (fun l => l.id == id && !l.fuzzy))
  if running && !missed.isEmpty then viol "listener-missed" s!"centre {c} event {e} listeners {missed} not invoked"
  else .ok { m with stack := rest }

def parseInv (tok : String) : Option (Nat × List Nat) :=
  if tok.startsWith "i" then
    match (tok.drop 1).toString.splitOn ":" with
    | [idS, argS] => idS.toNat?.map (fun id => (id, parseNats "." argS))
    | _ => none
  else none

/-- consume one token -/
def monTok : Nat → Mon → String → R
  | 0, _, tok => viol "trace-shape" s!"stack too deep at {tok}"
  | k + 1, m, tok =>
    match m.stack with
    | [] => viol "trace-shape" s!"unexpected {tok}"
    | .script [] :: rest => monTok k { m with stack := rest } tok
    | .script (.gsubh e c t :: ops) :: rest =>
      -- racing subscribe: the racing script's observations come first, then the subscribe's own
      let okCentre := match m.cs[c]? with | some ct => !ct.light | none => false
      if !okCentre then
        if tok == "bad" then .ok { m with stack := .script ops :: rest } else viol "trace-shape" s!"gsh.{e}.{c}.{t} answered {tok}"
      else if m.hooked.contains t then
        if tok == "dup" then .ok { m with stack := .script ops :: rest } else viol "trace-shape" s!"gsh.{e}.{c}.{t} answered {tok}"
      else
        let sc := match m.tm t with | some tm => tm.script | none => []
        monTok k { m with hooked := t :: m.hooked, stack := .script (sc ++ [.gsub e c]) :: .script ops :: rest } tok
    | .script (op :: ops) :: rest =>
      if tok.startsWith "m" then viol "args-overwritten" s!"listener sees {tok} after its script ran: the arguments of a running invocation changed"
      else monOp { m with stack := .script ops :: rest } op tok
    | .disp c e a snap called :: rest =>
      if tok.startsWith "m" then viol "args-overwritten" s!"listener sees {tok} after its script ran: the arguments of a running invocation changed"
      else if tok == "]" then monClose m c e snap called rest
      else if tok == "blocked" then viol "reentrant-blocked" s!"dispatch of ({c},{e}) never returned"
      else match parseInv tok with
        | some (id, args) => monInv m c e a snap called rest id args
        | none => viol "trace-shape" s!"unexpected {tok} inside dispatch"
    | .drain c n :: rest =>
      if tok == "[" then
        match n, m.cs[c]? with
        | n + 1, some ct =>
          match ct.queue with
          | (e, a) :: q =>
            let m := { m with cs := m.cs.set c { ct with queue := q } }
            .ok { m with stack := .disp c e a ((m.lis c e).map (·.id)) [] :: .drain c n :: rest }
          | [] => viol "delivery-without-publication" s!"centre {c}"
        | _, _ => viol "trace-shape" s!"unexpected {tok} in drain"
      else viol "trace-shape" s!"unexpected {tok} in drain"

def monToks (m : Mon) : List String → R
  | [] => .ok m
  | t :: ts => do
    let m ← monTok (m.stack.length + 2) m t
    if m.dead then pure m else monToks m ts

/-- after the last token every frame must have finished -/
def monEnd (m : Mon) : R :=
  if m.dead then .ok { m with stack := [] } else
  let pending := m.stack.filter (fun f => match f with
    | .script [] => false
    | .drain c n => n > 0 && (match m.cs[c]? with | some ct => !ct.queue.isEmpty | none => false)
    | _ => true)
  match pending with
  | [] => .ok { m with stack := [] }
  | .drain c _ :: _ => viol "queued-event-not-delivered" s!"centre {c}"
  | _ => viol "trace-shape" "operations without observation"

def monRun (m : Mon) (fr : MFrame) (obs : String) : Mon × String :=
  if m.dead then (m, "ok") else
  let toks := (words obs).filter (· != "-")
  match monToks { m with stack := [fr] } toks >>= monEnd with
  | .ok m' => (m', "ok")
  | .error e => ({ m with stack := [], dead := true }, e)

def specLine (m : Mon) (line : String) : Mon × String :=
  match line.splitOn "\t" with
  | [op, obs] =>
    let ws := words op
    match ws.head? with
    | some "reset" =>
      ({ cs := (parseKinds ((kv ws "cs").getD "")).map (fun k => { light := k.1, useChan := k.2 }) }, "ok")
    | some "def" =>
      match kvNat ws "t", kvNat ws "f", (kv ws "s").bind parseOps with
      | some t, some f, some sc =>
        if obs == "ok" then ({ m with tmpls := m.tmpls ++ [(t, ⟨parseNats "." ((kv ws "b").getD ""), f, sc⟩)] }, "ok") else (m, "ok")
      | _, _, _ => (m, "ok")
    | some "do" =>
      if obs == "aborted" then (m, "ok") else
      match (kv ws "ops").bind parseOps with
      | some ops => monRun m (.script ops) obs
      | none => (m, "ok")
    | some "gfill" =>
      if obs == "aborted" then (m, "ok") else
      match kvNat ws "e", kvNat ws "n" with
      | some e, some n => monRun m (.script (List.replicate n (.gpub e (parseNats "_" ((kv ws "a").getD ""))))) obs
      | _, _ => (m, "ok")
    | some "drain" =>
      if obs == "aborted" then (m, "ok") else
      match kvNat ws "c", kvNat ws "n" with
      | some c, some n => monRun m (.drain c n) obs
      | _, _ => (m, "ok")
    | some "q" =>
      if m.dead then (m, "ok") else
      match kvNat ws "c" with
      | some c =>
        match m.cs[c]? with
        | some ct => if obs == s!"q={ct.queue.length}" then (m, "ok")
                     else (m, s!"VIOLATION C17/queue-length centre {c} holds {obs}, published and undelivered {ct.queue.length}")
        | none => (m, "ok")
      | none => (m, "ok")
    | some "n" =>
      -- the centre's own count of a name's subscribers = those who subscribed (successfully) and have not been removed since
      if m.dead then (m, "ok") else
      match kvNat ws "c", kvNat ws "e" with
      | some c, some e =>
        match m.cs[c]? with
        | some ct =>
          if !ct.light then (m, "ok") else
          let ow := words obs
          let hi := (m.lis c e).length
          let lo := ((m.lis c e).filter (fun l => !l.fuzzy)).length
          match kvNat ow "n", kvNat ow "h" with
          | some n, some h =>
            if n < lo || n > hi then
              (m, s!"VIOLATION C17/subscriber-count centre {c} event {e} reports {obs}, listeners subscribed and not removed: {((m.lis c e).map (·.id))}")
            else if (h == 1) != (n > 0) then (m, s!"VIOLATION C17/subscriber-count centre {c} event {e} reports {obs}")
            else (m, "ok")
          | _, _ => (m, s!"VIOLATION C17/trace-shape {op} answered {obs}")
        | none => (m, "ok")
      | _, _ => (m, "ok")
    | some "rs" =>
      -- the property, on the implementation's own report: all n publications delivered in order, every invocation on the
      -- loop goroutine, nothing delivered once Stop was called (queued events included), deregistered by Stop
      let n := (kvNat ws "n").getD 0
      let burst := (kvNat ws "burst").getD 0
      let ow := words obs
      if (kv ow "stopwait").isSome then
        (m, s!"VIOLATION C17/reentrant-blocked {op}: Stop (Clear) called from outside did not return while a listener of the centre was running, {obs}")
      else if kvNat ow "owner" != some 1 then
        (m, s!"VIOLATION C17/listener-off-owner-goroutine {op}: a listener of a run-service centre ran on a goroutine other than the service's loop, {obs}")
      else if burst > 0 && kvNat ow "late" != some 0 then
        (m, s!"VIOLATION C17/delivered-after-stop {op}: events still queued when Stop was called reached the listener, {obs}")
      else if kvNat ow "got" != some n || kvNat ow "dereg" != some 1 || ow.length != (if burst > 0 then 4 else 3) then
        (m, s!"VIOLATION C17/runservice-delivery {op} got {obs}")
      else (m, "ok")
    | some "concfull" =>
      let pubs := (kvNat ws "pubs").getD 0
      let free := (kvNat ws "free").getD 0
      let ow := words obs
      if obs == "bad-op" then (m, "ok")
      else if kvNat ow "blocked" != some 0 then
        (m, s!"VIOLATION C17/global-publish-blocked {op}: a global publication did not return although the queue was merely full, {obs}")
      else if kvNat ow "q" != some (min 999 (999 - free + pubs)) then
        (m, s!"VIOLATION C17/queue-length {op}: {obs}, expected q={min 999 (999 - free + pubs)}")
      else if kvNat ow "other" != some pubs then
        (m, s!"VIOLATION C17/global-missed-centre {op}: the second centre received {obs} of {pubs} publications")
      else (m, "ok")
    | some "concreg" =>
      if obs == "missed=0" then (m, "ok")
      else (m, s!"VIOLATION C17/global-missed-centre {op}: a centre whose GSubscribe had returned did not receive the next global publication, {obs}")
    | some "concsub" =>
      if obs == "lost=0" then (m, "ok")
      else (m, s!"VIOLATION C17/concurrent-subscribe-lost {op}: centres that subscribed a new global name concurrently never received its publication, {obs}")
    | some "conc" =>
      if obs == concObs ((kvNat ws "pubs").getD 0) ((kvNat ws "n").getD 0) ((kvNat ws "cs").getD 0) then (m, "ok")
      else (m, s!"VIOLATION C17/concurrent-global-delivery {op} got {obs}")
    | _ => (m, "ok")
  | _ => (m, "bad-line")

end Cell2v.Driver.C17

open Cell2v.Driver in
def main (args : List String) : IO Unit :=
  match args with
  | ["spec"] => runLoop Cell2v.Driver.C17.specLine {}
  | ["accept"] => runLoop Cell2v.Driver.C17.acceptLine {}
  | _ => runLoop Cell2v.Driver.C17.modelLine {}
