import Cell2v.Driver.Util
import Cell2v.Model.Ring
/-!
C09 component driver: op lines starting with `ring` / `mpsc` (harness/c09/ring_test.go
drives the real `goring.Queue` and, single-threaded, `mpsc.Queue`).

  ring new cap=<n>        -> ok
  ring push v=<n>         -> ok len=<Length()>          (panic when cap = 0: `% 0`)
  ring pop                -> v=<n> len=<l> | nil len=<l> | none len=<l>
  ring popmany n=<k>      -> vs=<a,b,..> len=<l> | none len=<l>
  ring len                -> len=<l>
  mpsc new | mpsc push v=<n> -> ok ; mpsc pop -> v=<n> | nil ; mpsc empty -> empty=<0|1>

`model`: answered by `Cell2v.Ring` / `Cell2v.Mpsc` (the verified models).
`spec`: the FIFO property itself, checked on the implementation's observations
against a plain list kept by the monitor.
-/
namespace Cell2v.Driver.C09Ring
open Cell2v.Driver

structure RS where
  ring : Option Cell2v.Ring.Ring := none     -- none: no queue yet / dead after a panic
  mq : Cell2v.Mpsc.Q := Cell2v.Mpsc.new
  deriving Inhabited

def showSlot : Option Nat → String
  | some v => toString v
  | none => "nil"

def isQueueOp (line : String) : Bool := line.startsWith "ring" || line.startsWith "mpsc"

def ringStep (s : RS) (ws : List String) : RS × String :=
  match ws with
  | "ring" :: "new" :: _ =>
    match kvNat ws "cap" with
    | some n => ({ s with ring := some (Cell2v.Ring.new n) }, "ok")
    | none => (s, "bad-op")
  | "ring" :: rest =>
    match s.ring with
    | none => (s, "noq")
    | some q =>
      match rest with
      | "push" :: _ =>
        match kvNat ws "v" with
        | none => (s, "bad-op")
        | some v =>
          if q.mod == 0 then ({ s with ring := none }, "panic")   -- Go: integer divide by zero in `% c.mod`
          else
            let q' := Cell2v.Ring.push q v
            ({ s with ring := some q' }, s!"ok len={q'.len}")
      | "pop" :: _ =>
        let (r, q') := Cell2v.Ring.pop q
        let o := match r with
          | none => "none"
          | some v => (match v with | some x => s!"v={x}" | none => "nil")
        ({ s with ring := some q' }, s!"{o} len={q'.len}")
      | "popmany" :: _ =>
        match kvNat ws "n" with
        | none => (s, "bad-op")
        | some k =>
          let (r, q') := Cell2v.Ring.popMany q k
          let o := match r with
            | none => "none"
            | some vs => "vs=" ++ ",".intercalate (vs.map showSlot)
          ({ s with ring := some q' }, s!"{o} len={q'.len}")
      | "len" :: _ => (s, s!"len={q.len}")
      | _ => (s, "bad-op")
  | "mpsc" :: "new" :: _ => ({ s with mq := Cell2v.Mpsc.new }, "ok")
  | "mpsc" :: "push" :: _ =>
    match kvNat ws "v" with
    | none => (s, "bad-op")
    | some v => ({ s with mq := Cell2v.Mpsc.push s.mq v }, "ok")
  | "mpsc" :: "pop" :: _ =>
    let (r, q') := Cell2v.Mpsc.pop s.mq
    ({ s with mq := q' }, match r with | some x => s!"v={x}" | none => "nil")
  | "mpsc" :: "empty" :: _ => (s, if Cell2v.Mpsc.empty s.mq then "empty=1" else "empty=0")
  | _ => (s, "bad-op")

/-! ### FIFO predicate on the implementation's observations -/

structure SpQ where
  ring : List Nat := []
  ringDead : Bool := false
  mq : List Nat := []
  deriving Inhabited

def showL (l : List Nat) : String := ",".intercalate (l.map toString)

def specRing (sp : SpQ) (op obs : String) : SpQ × String :=
  let ws := words op
  let ows := words obs
  let bad (sig why : String) : SpQ × String := (sp, s!"VIOLATION C09/{sig} {op} -> {obs}: {why}")
  let lenOk (l : List Nat) : Bool := kvNat ows "len" == some l.length
  match ws with
  | "ring" :: "new" :: _ =>
    ({ sp with ring := [], ringDead := (kvNat ws "cap").getD 0 == 0 }, "ok")
  | "ring" :: rest =>
    if sp.ringDead then (sp, "ok") else      -- New(0): outside the property's domain (capacity >= 1)
    if (obs.splitOn "panic").length > 1 then bad "ring-not-fifo" "panic" else
    match rest with
    | "push" :: _ =>
      let l := sp.ring ++ [(kvNat ws "v").getD 0]
      if lenOk l then ({ sp with ring := l }, "ok") else bad "ring-not-fifo" s!"Length() after the push should be {l.length}"
    | "pop" :: _ =>
      match sp.ring with
      | [] => if ows.head? == some "none" && lenOk [] then (sp, "ok") else bad "ring-not-fifo" "Pop on an empty queue must return (nil,false)"
      | x :: r =>
        if kvNat ows "v" == some x && lenOk r then ({ sp with ring := r }, "ok")
        else bad "ring-not-fifo" s!"oldest queued element is {x}, queue was [{showL sp.ring}]"
    | "popmany" :: _ =>
      let k := (kvNat ws "n").getD 0
      match sp.ring with
      | [] => if ows.head? == some "none" && lenOk [] then (sp, "ok") else bad "ring-not-fifo" "PopMany on an empty queue must return (nil,false)"
      | _ :: _ =>
        if kv ows "vs" == some (showL (sp.ring.take k)) && lenOk (sp.ring.drop k) then ({ sp with ring := sp.ring.drop k }, "ok")
        else bad "ring-not-fifo" s!"expected the {min k sp.ring.length} oldest of [{showL sp.ring}] in order"
    | "len" :: _ => if lenOk sp.ring then (sp, "ok") else bad "ring-not-fifo" s!"{sp.ring.length} elements are queued"
    | _ => (sp, "ok")
  | "mpsc" :: "new" :: _ => ({ sp with mq := [] }, "ok")
  | "mpsc" :: rest =>
    if (obs.splitOn "panic").length > 1 then bad "mpsc-not-fifo" "panic" else
    match rest with
    | "push" :: _ => ({ sp with mq := sp.mq ++ [(kvNat ws "v").getD 0] }, "ok")
    | "pop" :: _ =>
      match sp.mq with
      | [] => if obs == "nil" then (sp, "ok") else bad "mpsc-not-fifo" "Pop on an empty queue must return nil"
      | x :: r =>
        if kvNat ows "v" == some x then ({ sp with mq := r }, "ok")
        else bad "mpsc-not-fifo" s!"oldest queued element is {x}, queue was [{showL sp.mq}]"
    | "empty" :: _ =>
      if kvNat ows "empty" == some (if sp.mq.isEmpty then 1 else 0) then (sp, "ok")
      else bad "mpsc-not-fifo" s!"{sp.mq.length} elements are queued"
    | _ => (sp, "ok")
  | _ => (sp, "ok")

end Cell2v.Driver.C09Ring
