import Cell2v.Driver.Util
import Cell2v.Model.Modules
/-!
Model driver for C11.

ops
  reset n=<n> app=<0|1|2> kind=<gen|neg|shipped> start=<s0,s1,..> stop=<s0,s1,..> [cbS=<none|stop|gostop|panic|nil>] [cbX=<none|start|stop|panic|nil>] [name=..]
        app: 0 plain ModList, 1 baseapp.App, 2 node/app.App (StartNode / StopNode through a launch mode: `Node.step`
        of the model); node only: svc=<P|M per service> mode=<reg|empty|unreg> (the node's StartMode: registered /
        empty / not registered) nodefault=1 (no default launch mode has been set) prep=0 (StartNode without Prepare)
        readd=1 (the launch mode registers n fresh modules, scripts T, every time it runs; default: only the first time)
        cbS / cbX: what the start- / stop-completion callback does when invoked: issue Stop (directly, or on
        another goroutine that it waits for) / Start — logged as RX / RS, followed by what that call did;
        nil (app=1 both phases, app=2 stop phase: where the code tests `finish != nil`): no callback is passed at all —
        no fs / fx token can be logged, what the phase did to the App's state shows in what the next begin does
        scripts: what module i does synchronously inside Start / Stop, a string over
        T (next(true)), F (next(false)), ! (panic); empty = completes later (see `fire`);
        A / a: AddModule(a new module with scripts T,T / with delayed completion) -> token A<id>;
        X / S: the module itself issues Stop / Start (tokens RX / RS, then what that call did);
        G: it hands a Stop to another goroutine and waits briefly for it (token RG)
  begin ph=<S|X> [node=bad]      app=1: App.Start / Stop;  app=2: StartNode / StopNode (node=bad: with a node id that is
                                 not in the nodes table);  app=0: ModList.Start / Stop
  fire ph=<S|X> i=<i> b=<T|F> [pre=<A|a>]   module i invokes the `next` it was handed in that phase (later, other
                                 goroutine), after registering a further module when pre= is given
  wait ms=<n>                    (cases with clock=v in the reset: virtual clock) the modules do nothing for n ms;
                                 nothing in ModList / App is driven by time, so nothing happens: `-`
observation: the log segment produced by the op, tokens
  S<i> X<i>  Start/Stop of module i entered      c<i><b> d<i><b>  module i calls next(b) (start / stop phase)
  p<i> q<i>  module i panics (recovered by ModList)   fs<b> fx<b>  finish callback of the start / stop phase
  P  (node) the launch mode's PrepareModules ran (a second time: it registers its n modules again, scripts T)
  V<i>  (node) StartServices created the node's i-th service
  ModList.Start/Stop wrap the callback they hand to a module (`Wrap.step` of the model): a panic before the
  module reported makes the wrapper call next(false) itself (no c/d token: the module reported nothing), a
  report of that module arriving later is dropped (its c/d token stands alone), a panic after a report is only logged
  `-` nothing happened, `noop` the module holds no `next` of that phase,
  `undelivered` a completion handed to the application's own run service timer (via=apptimer) never ran,
  `over` (app>=1 only) the stop phase has reported success twice: the log of an App case ends with its second fxT

`modeld_c11 model`: op line in, predicted observation out (uses `App.step` of the model; a plain
ModList is an App whose guard is open).  `modeld_c11 spec`: `op<TAB>obs` in, `ok` / `VIOLATION <sig> ..`
out: the property predicate (`canonB`, `sublistB`, exactly-once of shipped modules, state guard)
evaluated on the implementation's own log, independent of the model's state machine.
-/
namespace Cell2v.Driver.C11
open Cell2v.Driver Cell2v.Modules

def bch (b : Bool) : String := if b then "T" else "F"

def scriptsOf (ws : List String) (key : String) (n : Nat) : List (List Char) :=
  let parts := ((kv ws key).getD "").splitOn ","
  (List.range n).map fun i => (parts.getD i "").toList

def phaseOf (ws : List String) : Option Bool :=
  match kv ws "ph" with
  | some "S" => some true
  | some "X" => some false
  | _ => none

/-! ### model mode -/

structure Case where
  n : Nat := 0
  isApp : Bool := false      -- app=1 (baseapp.App) or app=2 (node/app.App.StartNode/StopNode): guarded
  isNode : Bool := false     -- app=2
  env : NodeEnv := {}        -- app=2: what StartNode finds
  prepared : Bool := false   -- app=2: the launch mode's PrepareModules has run before
  n0 : Nat := 0              -- app=2: modules of the reset line
  readd : Bool := false      -- app=2: the launch mode registers n0 fresh modules every time it runs
  app : App := App.init 0
  startS : List (List Char) := []
  stopS : List (List Char) := []
  hasS : List Nat := []      -- modules holding the start phase's callback
  hasX : List Nat := []
  wS : Wrap := {}            -- flags of ModList.Start's wrappers (current start phase instance)
  wX : Wrap := {}
  cbS : String := "none"     -- what the start-finish callback does: none | stop | gostop
  cbX : String := "none"     -- what the stop-finish callback does: none | start | stop
  fxT : Nat := 0             -- app: number of success reports of the stop phase
  over : Bool := false       -- app: the stop phase reported success twice; the case is over
  pan : Bool := false        -- a panic of the completion callback (cbS / cbX = panic) is unwinding the Go stack
  simple : Bool := false     -- the case fits the `Chain` machine of the model (scripts over T F ! only, callbacks none / panic,
                             --   fixed list): every begin / fire is replayed on it as well and the two logs are compared
  chS : Option Chain := none -- the `Chain` of the current start-phase instance
  chX : Option Chain := none

/-- AddModule(new scripted module): it gets the next index; `sync`: its scripts are T / T -/
def Case.addMod (c : Case) (sync : Bool) : Case × String :=
  let scr : List Char := if sync then ['T'] else []
  ({ c with n := c.n + 1, app := c.app.addModule, startS := c.startS ++ [scr], stopS := c.stopS ++ [scr] },
   "A" ++ toString c.n)

/-- (phase, module, rest of its synchronous script) -/
abbrev Frame := Bool × Nat × List Char

def Case.script (c : Case) (ph : Bool) (i : Nat) : List Char :=
  (if ph then c.startS else c.stopS).getD i []

def tokOfEv (ph : Bool) : Ev → String
  | .enter i => (if ph then "S" else "X") ++ toString i
  | .call w b => (if ph then "c" else "d") ++ toString w ++ bch b
  | .finish b => (if ph then "fs" else "fx") ++ bch b
  | .oob => "panic"

/-- is the completion callback of that phase absent (cbS / cbX = nil)?  Only where the code allows it: App.Start / App.Stop
and StopNode test `finish != nil`.  StartNode calls it unconditionally (a nil function call: handled in `absorb.finish` as a
callback that panics without logging); ModList.Start / Stop take a mandatory callback (nil = none there) -/
def Case.absent (c : Case) (ph : Bool) : Bool :=
  (if ph then c.cbS else c.cbX) == "nil" && c.isApp && (!c.isNode || !ph)

/-- one operation on the object under test: `Node.step` for a node, `App.step` otherwise; the caller's callbacks
are invoked only when there are any (`dropAbsent` of the model) -/
def Case.stepOp (c : Case) (op : NOp) : Case × List NEv :=
  if c.isNode then
    let r := (Node.mk c.env c.app).step op
    ({ c with app := r.1.app }, dropAbsent (!c.absent true) (!c.absent false) r.2)
  else
    let r := c.app.step op.toAOp
    ({ c with app := r.1 }, dropAbsent (!c.absent true) (!c.absent false) (plainLog r.2))

/-- App.Start/Stop (guarded), StartNode/StopNode, or ModList.Start/Stop (a plain ModList is an App
whose guard is open); `none` = refused -/
def beginPhase (c : Case) (ph : Bool) (known : Bool := true) : Option (Case × List NEv) :=
  let c0 := if c.isApp then c else { c with app := { c.app with st := if ph then .prepared else .normal } }
  -- what the harness's launch mode registers this time
  let adds := if !c.prepared || c.readd then c.n0 else 0
  let r := c0.stepOp (if ph then .startNode known adds else .stopNode)
  if r.2.isEmpty then none
  else
    -- a phase instance was begun (not just PrepareModules run again): the callbacks handed out before are stale
    let begun := r.2.any fun e => match e with | .app (.begin _) => true | _ => false
    let c1 := r.1
    let c1 := if !begun then c1 else if ph then { c1 with hasS := [], wS := {} } else { c1 with hasX := [], wX := {} }
    some (c1, r.2)

/-- log the events of model steps in order.  An entered module gets the closure and a script
frame.  A `finish` invokes the scripted completion callback *with the state the model has after
the step* (the wrapper sets the state before calling `finish`): the callback may issue Stop /
Start itself (tokens RX / RS), whose events follow inline.  For an App the log of a case ends
with the second `fxT` (the second `Cleanup` closes a closed channel; outside the property). -/
def absorb : Nat → Case → List NEv → List String → List Frame → Case × List String × List Frame
  | 0, c, _, log, frames => (c, log ++ ["fuel"], frames)
  | _ + 1, c, [], log, frames => (c, log, frames)
  | fuel + 1, c, e :: es, log, frames =>
    match e with
    | .prepare =>
      -- (node) PrepareModules: the first time it registers the case's modules; again: n fresh ones, scripts T
      if !c.prepared then absorb fuel { c with prepared := true } es (log ++ ["P"]) frames
      else
        let k := if c.readd then c.n0 else 0
        let scr : List (List Char) := List.replicate k ['T']
        absorb fuel { c with n := c.n + k, startS := c.startS ++ scr, stopS := c.stopS ++ scr } es (log ++ ["P"]) frames
    | .service i => absorb fuel c es (log ++ ["V" ++ toString i]) frames
    | .nodeCtrl => absorb fuel c es log frames
    | .app (.begin _) => absorb fuel c es log frames
    | .app (.ev ph (.enter i)) =>
      let c := if ph then { c with hasS := i :: c.hasS } else { c with hasX := i :: c.hasX }
      absorb fuel c es (log ++ [tokOfEv ph (.enter i)]) (frames ++ [(ph, i, c.script ph i)])
    | .app (.ev _ (.finish _)) => absorb fuel c es log frames     -- reported through the caller's callback: fin / finX
    | .app (.ev ph x) => absorb fuel c es (log ++ [tokOfEv ph x]) frames
    | .fin b => finish fuel c true b es log frames
    | .finX b => finish fuel c false b es log frames
where
  /-- the caller's completion callback of a phase runs (scripted: it may issue Stop / Start itself) -/
  finish (fuel : Nat) (c : Case) (ph b : Bool) (es : List NEv) (log : List String) (frames : List Frame) :
      Case × List String × List Frame :=
    -- StartNode(id, nil): the closure calls the nil callback unconditionally - a callback that panics before it can log anything
    let nilCall := (if ph then c.cbS else c.cbX) == "nil" && c.isNode && ph
    let log := if nilCall then log else log ++ [tokOfEv ph (.finish b)]
    let stopOK := c.isApp && !ph && b
    let c := if stopOK then { c with fxT := c.fxT + 1 } else c
    if stopOK && c.fxT ≥ 2 then ({ c with over := true }, log, [])
    else
      let cb := if ph then c.cbS else c.cbX
      if cb == "none" || (cb == "nil" && !nilCall) then absorb fuel c es log frames
      else if cb == "panic" || nilCall then
        -- the callback panics: nothing else of this `next` call runs (`finish` is its last action anyway)
        ({ c with pan := true }, log, [])
      else
        let tgt := cb == "start"
        let log := log ++ [if tgt then "RS" else "RX"]
        match beginPhase c tgt with
        | none => absorb fuel c es log frames
        | some (c', evs') => absorb fuel c' (evs' ++ es) log frames

/-- run the synchronous scripts depth-first (a nested Start runs inside the caller's `next`) -/
def drain : Nat → Case → List Frame → List String → Case × List String
  | 0, c, _, log => (c, log ++ ["fuel"])
  | _ + 1, c, [], log => (c, log)
  | fuel + 1, c, (_, _, []) :: fs, log => drain fuel c fs log
  | fuel + 1, c, (ph, w, ch :: rest) :: fs, log =>
    if ch == '!' || ch == '^' then
      -- the module's Start/Stop panics (`^`: a panic of the completion callback unwinds through it — same thing to the
      -- wrapper, but the module logs nothing): recovered by the wrapper, which reports failure unless the module had reported
      let log := if ch == '!' then log ++ [(if ph then "p" else "q") ++ toString w] else log
      let r := (if ph then c.wS else c.wX).step (.panic w)
      let c := if ph then { c with wS := r.1 } else { c with wX := r.1 }
      match r.2 with
      | none => drain fuel c fs log
      | some (w', b') =>
        let st := c.stepOp (.call ph w' b')
        let (c', log', frames) := absorb 1000 st.1 (st.2.drop 1) log []
        if c'.over then (c', log')
        else if c'.pan then
          -- the callback panicked inside the wrapper's deferred handler: the panic leaves this module's doFunc and
          -- unwinds into whatever called it — the enclosing module's Start/Stop, or nobody's (it escapes)
          match fs with
          | [] => ({ c' with pan := false }, log' ++ ["panic"])
          | (ph', w', _) :: fs' => drain fuel { c' with pan := false } ((ph', w', ['^']) :: fs') log'
        else drain fuel c' (frames ++ fs) log'
    else if ch == 'A' || ch == 'a' then
      let (c', tok) := c.addMod (ch == 'A')
      drain fuel c' ((ph, w, rest) :: fs) (log ++ [tok])
    else if ch == 'X' || ch == 'G' || ch == 'S' then
      -- the module issues Stop / Start itself, with the state the model has right now
      let tgt := ch == 'S'
      let log := log ++ [if ch == 'X' then "RX" else if ch == 'G' then "RG" else "RS"]
      match beginPhase c tgt with
      | none => drain fuel c ((ph, w, rest) :: fs) log
      | some (c1, evs) =>
        let (c', log', frames) := absorb 1000 c1 evs log []
        if c'.over then (c', log')
        else if c'.pan then drain fuel { c' with pan := false } ((ph, w, ['^']) :: fs) log'
        else drain fuel c' (frames ++ (ph, w, rest) :: fs) log'
    else
      -- the module invokes the callback it was handed: the wrapper forwards it unless it has already reported a panic
      let wr := (if ph then c.wS else c.wX).step (.report w (ch == 'T'))
      let c := if ph then { c with wS := wr.1 } else { c with wX := wr.1 }
      match wr.2 with
      | none => drain fuel c ((ph, w, rest) :: fs) (log ++ [tokOfEv ph (.call w (ch == 'T'))])
      | some (w', b') =>
        let r := c.stepOp (.call ph w' b')
        let (c', log', frames) := absorb 1000 r.1 r.2 log []
        if c'.over then (c', log')
        else if c'.pan then
          -- the callback panicked inside this module's report: the rest of its Start/Stop is cut off, its wrapper recovers
          drain fuel { c' with pan := false } ((ph, w, ['^']) :: fs) log'
        else drain fuel c' (frames ++ (ph, w, rest) :: fs) log'

/-! ### the same ops on the model's `Chain` machine (nested Start/Stop calls, panicking callback)

`drain` above interprets the scripts with an explicit frame stack of its own (it also has to cope with AddModule,
re-entrant callbacks, the App guard).  For the cases that `Chain` covers the driver replays every op on `Chain.step`
too and demands the same `Filter` events and the same escape of a panic; a difference is printed as the token
`chain-mismatch`, which the implementation never produces.  That ties `Chain` (and the theorems about it) to the Go code. -/

def simpleScript (s : List Char) : Bool := s.all fun ch => ch == 'T' || ch == 'F' || ch == '!'

/-- run the scripts of the active modules on `Chain.step` until no Start/Stop is active; `rem` = what is left of
the script of each active module (parallel to the stack) -/
def shadowDrive : Nat → Bool → (Nat → List Char) → Chain → List (List Char) → Chain
  | 0, _, _, c, _ => c
  | fuel + 1, fp, scr, c, rem =>
    match c.stack, rem with
    | [], _ => c
    | _ :: _, [] => c
    | _ :: _, r :: rems =>
      let (op, r') : COp × List Char := match r with
        | [] => (.ret, [])
        | ch :: t => if ch == '!' then (.panic, []) else (.report (ch == 'T'), t)
      let c' := c.step fp op
      let old := c.stack.length
      let new := c'.stack.length
      let rem' := if new == old + 1 then scr (c'.stack.headD 0) :: r' :: rems else (r' :: rems).drop (old - new)
      shadowDrive fuel fp scr c' rem'

def isFilterTok (t : String) : Bool :=
  t.startsWith "S" || t.startsWith "X" || t.startsWith "c" || t.startsWith "d" || t.startsWith "fs" || t.startsWith "fx"

def isModPanicTok (t : String) : Bool := (t.startsWith "p" || t.startsWith "q") && t != "panic"

/-- the harness logs no token for the `next(false)` that a wrapper makes after a panic of its module (the module
reported nothing); `Filter` sees it all the same: it is the call between `p<w>` and the `finish` that follows directly -/
def expandPanics (ph : Bool) : List String → List String
  | [] => []
  | t :: r =>
    if isModPanicTok t then
      (match r with
       | n :: _ => if n.startsWith "f" then [(if ph then "c" else "d") ++ (t.drop 1).toString ++ "F"] else []
       | [] => []) ++ expandPanics ph r
    else t :: expandPanics ph r

/-- compare what `drain` logged for an op with what the `Chain` machine did -/
def shadowCheck (ph : Bool) (before after : Chain) (lead : List String) (log : List String) : List String :=
  let want := lead ++ ((after.log.drop before.log.length).drop lead.length).map (tokOfEv ph)
  let got := expandPanics ph (log.filter fun t => isFilterTok t || isModPanicTok t)
  if got == want && log.contains "panic" == (after.escaped && !before.escaped) then log else log ++ ["chain-mismatch"]

def showLog (log : List String) : String := if log.isEmpty then "-" else " ".intercalate log

def step (c : Case) (line : String) : Case × String :=
  let ws := words line
  match ws.head? with
  | some "reset" =>
    match kvNat ws "n", kvNat ws "app" with
    | some n, some a =>
      let mode := (kv ws "mode").getD "reg"
      let env : NodeEnv := { nodesLoaded := (kv ws "prep") != some "0", modeNamed := mode != "empty", modeRegistered := mode == "reg",
                             hasDefault := (kv ws "nodefault") != some "1",
                             svc := ((kv ws "svc").getD "").toList.map (· == 'P') }
      -- a node starts without modules: its launch mode registers them inside StartNode
      ({ n := n, n0 := n, readd := (kv ws "readd") == some "1", isApp := a ≥ 1, isNode := a == 2, env := env, app := App.init (if a == 2 then 0 else n),
         startS := scriptsOf ws "start" n, stopS := scriptsOf ws "stop" n,
         cbS := (kv ws "cbS").getD "none", cbX := (kv ws "cbX").getD "none",
         simple := (scriptsOf ws "start" n).all simpleScript && (scriptsOf ws "stop" n).all simpleScript &&
           ["none", "panic"].contains ((kv ws "cbS").getD "none") && ["none", "panic"].contains ((kv ws "cbX").getD "none") &&
           (kv ws "readd") != some "1" }, "ok")
    | _, _ => (c, "bad-op")
  | some "begin" =>
    match phaseOf ws with
    | none => (c, "bad-op")
    | some ph =>
      match beginPhase c ph ((kv ws "node") != some "bad") with
      | none => (c, "-")
      | some (c, evs) =>
        let (c', toks, frames) := absorb 1000 c evs [] []
        if c'.over then (c', showLog toks)
        else if c'.pan then ({ c' with pan := false }, showLog (toks ++ ["panic"]))   -- empty list: finish(true) called by Filter itself
        else
          let (c'', log) := drain 100000 c' frames toks
          let begun := evs.any fun e => match e with | .app (.begin _) => true | _ => false
          if !c''.simple || !begun || c''.over then (c'', showLog log)
          else
            -- the same on the `Chain` machine: a fresh phase instance over the list as it is now
            let fp := (if ph then c''.cbS else c''.cbX) == "panic"
            let ch0 := Chain.init fp c'.app.n ph
            let ch := shadowDrive 100000 fp (c''.script ph) ch0 (ch0.stack.map (c''.script ph))
            let c3 := if ph then { c'' with chS := some ch } else { c'' with chX := some ch }
            (c3, showLog (shadowCheck ph { ch0 with log := [], escaped := false } ch [] log))
  | some "fire" =>
    match phaseOf ws, kvNat ws "i", kv ws "b" with
    | some ph, some i, some b =>
      if c.over then (c, "over")
      else if !((if ph then c.hasS else c.hasX).contains i) then (c, "noop")
      else
        let (c, pre) := match kv ws "pre" with
          | some "A" => let r := c.addMod true; (r.1, [r.2])
          | some "a" => let r := c.addMod false; (r.1, [r.2])
          | _ => (c, [])
        -- the delayed report runs on a goroutine of its own: no module (and no wrapper's recover) underneath it
        let bb := b == "T"
        let wr := (if ph then c.wS else c.wX).step (.report i bb)
        let c := if ph then { c with wS := wr.1 } else { c with wX := wr.1 }
        let log := pre
        let c := if pre.isEmpty then c else { c with simple := false }   -- the list grows: outside `Chain`
        let res : Case × List String :=
          match wr.2 with
          | none => (c, log ++ [tokOfEv ph (.call i bb)])
          | some (w', b') =>
            let r := c.stepOp (.call ph w' b')
            let (c', log', frames) := absorb 1000 r.1 r.2 log []
            if c'.over then (c', log')
            else if c'.pan then ({ c' with pan := false }, log' ++ ["panic"])
            else drain 100000 c' frames log'
        let c2 := res.1
        match (if c2.simple && !c2.over then (if ph then c2.chS else c2.chX) else none) with
        | none => (c2, showLog res.2)
        | some ch0 =>
          -- the same on the `Chain` machine: a report from a goroutine of its own, then whatever it sets off
          let fp := (if ph then c2.cbS else c2.cbX) == "panic"
          let ch0 := { ch0 with escaped := false }   -- `escaped` is about one goroutine; this report runs on a new one
          let ch1 := ch0.step fp (.late i bb)
          let ch := shadowDrive 100000 fp (c2.script ph) ch1 (ch1.stack.map (c2.script ph))
          let c3 := if ph then { c2 with chS := some ch } else { c2 with chX := some ch }
          (c3, showLog (shadowCheck ph ch0 ch [tokOfEv ph (.call i bb)] res.2))
    | _, _, _ => (c, "bad-op")
  | some "wait" => (c, "-")
  | _ => (c, "bad-op")

/-! ### spec mode: the property predicate on the implementation's log -/

structure Spec where
  n : Nat := 0
  isApp : Bool := false
  kind : String := ""
  trS : List Ev := []       -- log of the current start-phase instance, as `Filter` sees it: a panic of a module that
  trX : List Ev := []       --   had not reported counts as its `next(false)`; reports after that and panics after a report are dropped
  repS : List Nat := []     -- modules that reported in the current start-phase instance
  repX : List Nat := []
  deadS : List Nat := []    -- modules that panicked before reporting
  deadX : List Nat := []
  begunS : Bool := false
  begunX : Bool := false
  broken : Bool := false    -- some phase log was undisciplined (the scripted modules broke the hypothesis)
  nNow : Nat := 0           -- modules registered so far (n + the A<id> tokens seen)
  nS : Nat := 0             -- registered when the start phase last made progress (`doNow` reads the length live)
  nX : Nat := 0             -- registered when the current stop phase was begun (its index starts at len-1)
  isNode : Bool := false    -- app=2
  svcToks : List String := []   -- node: the V<i> tokens StartServices must produce (services with a configuration entry)
  seenP : Bool := false     -- node: the launch mode's PrepareModules has run
  readd : Bool := false     -- node: the launch mode registers n fresh modules every time it runs
  launchable : Bool := true -- node: Prepare was called and LaunchApp finds a launch mode (named and registered, or the default)
  cbPanicS : Bool := false  -- the start-completion callback panics when invoked (cbS=panic)
  cbPanicX : Bool := false
  cbNilS : Bool := false    -- no start-completion callback is passed (cbS=nil on an App): the phase's report cannot be observed,
  cbNilX : Bool := false    --   only what the App does afterwards
  cbNilCallS : Bool := false  -- node: StartNode(id, nil) - the closure calls the nil callback all the same: a panic, no token
  mustFail : Option Nat := none   -- a real shipped module runs at this position with a fault injected that makes its Start fail
  realPos : Option Nat := none    -- a real shipped module runs at this position (real=<pos>:<name>)
  realPanicS : Bool := false      -- ... and is known to panic in its Start in this scenario (its script says `!`)
  realPanicX : Bool := false
  realSilent : Bool := false      -- the real module panicked without having reported where it is expected to report itself

def parseTok (t : String) : Option (Bool × Ev) :=
  let cs := t.toList
  let num (l : List Char) : Option Nat := (String.ofList l).toNat?
  let bool (ch : Char) : Option Bool := if ch == 'T' then some true else if ch == 'F' then some false else none
  match cs with
  | 'f' :: 's' :: [b] => (bool b).map fun b => (true, .finish b)
  | 'f' :: 'x' :: [b] => (bool b).map fun b => (false, .finish b)
  | 'S' :: r => (num r).map fun i => (true, .enter i)
  | 'X' :: r => (num r).map fun i => (false, .enter i)
  | 'c' :: r => match r.getLast?, num r.dropLast with
    | some b, some i => (bool b).map fun b => (true, .call i b)
    | _, _ => none
  | 'd' :: r => match r.getLast?, num r.dropLast with
    | some b, some i => (bool b).map fun b => (false, .call i b)
    | _, _ => none
  | _ => none

def isPanicTok (t : String) : Bool := t.startsWith "p" || t.startsWith "q"

/-- p<i> / q<i>: (start phase?, module) -/
def parsePanic (t : String) : Option (Bool × Nat) :=
  match t.toList with
  | 'p' :: r => ((String.ofList r).toNat?).map fun i => (true, i)
  | 'q' :: r => ((String.ofList r).toNat?).map fun i => (false, i)
  | _ => none

def firstFailer : List Ev → Option Nat
  | [] => none
  | .call w false :: _ => some w
  | _ :: r => firstFailer r

def countCalls (tr : List Ev) (m : Nat) : Nat := ((calls tr).filter fun c => c.1 == m).length

def afterFirstFailure : List Ev → Option (List Ev)
  | [] => none
  | .call _ false :: r => some r
  | _ :: r => afterFirstFailure r

def badAfterFailure (tr : List Ev) : Bool :=
  match afterFirstFailure tr with
  | some r => r != [.finish false]
  | none => false

/-- why a disciplined log is not canonical (only used to name the violation) -/
def classify (ph : Bool) (order : List Nat) (dead : List Nat) (tr : List Ev) : String :=
  if (finishes tr).length > 1 then "C11/finish-twice"
  else if afterFirstFailure tr == some [] then
    -- the failure is a module that panicked before reporting, and the phase never reported (D21)
    (match firstFailer tr with
     | some w => if dead.contains w then "C11/panicking-module-never-completes" else "C11/finish-missing"
     | none => "C11/finish-missing")
  else if badAfterFailure tr then "C11/continues-after-failure"
  else if !(enters tr).isPrefixOf order then (if ph then "C11/start-order" else "C11/stop-order")
  else if (finishes tr).contains true && (enters tr != order || (calls tr).any fun c => !c.2) then "C11/wrong-outcome"
  else if completeB tr && (finishes tr).isEmpty then "C11/finish-missing"
  else "C11/phase-log-not-canonical"

/-- A phase whose completion callback is absent logs no fs / fx token.  What it has to have reported to the App is read
off the modules' reports: `false` at the first failure report, `true` once every module of the order was entered and has
reported success — the App's state (what a later Start / Stop does) must be the one that report leads to. -/
def impliedFinish (order : List Nat) (tr : List Ev) : Option Bool :=
  if (calls tr).any (fun c => !c.2) then some false
  else if enters tr == order && (enters tr).all (fun m => countCalls tr m ≥ 1) then some true
  else none

/-- the phase log with the report an absent callback would have been given -/
def effTr (absent : Bool) (order : List Nat) (tr : List Ev) : List Ev :=
  if absent && (finishes tr).isEmpty then tr ++ ((impliedFinish order tr).toList.map Ev.finish) else tr

/-- the checks on one phase log; `none` = fine -/
def checkPhase (s : Spec) (ph : Bool) (tr : List Ev) : Option String :=
  let order := ord (if ph then s.nS else s.nX) ph
  if !sublistB order (enters tr) then some (if ph then "C11/start-order" else "C11/stop-order")
  else if tr.contains .oob then some "C11/index-out-of-range"
  else
    let twice := (enters tr).any fun m => countCalls tr m > 1
    let never := (enters tr).any fun m => countCalls tr m == 0
    if s.kind == "shipped" && twice then some "C11/module-completes-twice"
    else if s.kind == "shipped" && never then some "C11/module-never-completes"
    else if disciplinedB tr then
      if canonB order tr then none else some (classify ph order (if ph then s.deadS else s.deadX) tr)
    else none

/-- a `panic` token (a panic reached the caller of Start / Stop / next) is legitimate only as the completion callback's
own panic: directly after the callback's token, when the case says that this callback panics -/
def panicsExplained (cbS cbX : Bool) : String → List String → Bool
  | _, [] => true
  | prev, t :: r =>
    (t != "panic" || (cbS && prev.startsWith "fs") || (cbX && prev.startsWith "fx")) && panicsExplained cbS cbX t r

/-- a shipped module whose Start was made to fail (position `p`): start-up must end there -/
def builtinFailureIgnored (p : Nat) (tr : List Ev) : Bool :=
  (finishes tr).contains true || (enters tr).any fun m => m > p

def isAddTok (t : String) : Bool := t.startsWith "A" && ((t.drop 1).toString.toNat?).isSome

def isSvcTok (t : String) : Bool := t.startsWith "V" && ((t.drop 1).toString.toNat?).isSome

/-- node: every report of the start phase to the caller comes directly after StartServices has created exactly
the configured services, in order — and services are created nowhere else -/
def servicesOK (want : List String) : List String → List String → Bool
  | run, [] => run.isEmpty
  | run, t :: r =>
    if isSvcTok t then servicesOK want (run ++ [t]) r
    else if t.startsWith "fs" then run == want && servicesOK want [] r
    else run.isEmpty && servicesOK want [] r

/-- does this token show that a phase of the given kind (true = start) was begun? -/
def showsBegin (tgt : Bool) (t : String) : Bool :=
  if tgt then t.startsWith "S" || t.startsWith "fs" else t.startsWith "X" || t.startsWith "fx"

/-- sequential reading of the tokens of one op: phase events are appended to the phase logs; a
callback marker RX / RS (Stop / Start issued from inside a completion callback) is checked
against the state guard — in particular a Stop issued by the start-completion callback that was
told `true` must be accepted — and starts a new phase instance when the call was accepted -/
def procToks (s : Spec) (prev : String) : List String → Spec × Option String
  | [] => (s, none)
  | t :: rest =>
    if t == "RX" || t == "RS" || t == "RG" then
      let tgt := t == "RS"
      let accepted := match rest with
        | n :: _ => showsBegin tgt n
        | [] => false
      let expected : Option Bool :=
        if !s.isApp || s.broken then none
        else if prev == "fsT" && !tgt then some true
        else some false
      let s' := if accepted then (if tgt then { s with trS := [], repS := [], deadS := [], begunS := true } else { s with trX := [], repX := [], deadX := [], begunX := true, nX := s.nNow }) else s
      match expected with
      | some true => if accepted then procToks s' t rest else (s', some "C11/stop-dropped-in-start-callback")
      | some false =>
        if accepted then (s', some (if tgt then "C11/start-outside-prepared" else "C11/stop-outside-normal"))
        else procToks s' t rest
      | none => procToks s' t rest
    else
      let s' := match parseTok t with
        | some (true, .call w b) =>
          if s.deadS.contains w then s   -- reported as failed already: a late report must have no effect
          else { s with trS := s.trS ++ [.call w b], repS := w :: s.repS, nS := s.nNow }
        | some (false, .call w b) =>
          if s.deadX.contains w then s
          else { s with trX := s.trX ++ [.call w b], repX := w :: s.repX }
        | some (true, e) => { s with trS := s.trS ++ [e], nS := s.nNow }
        | some (false, e) => { s with trX := s.trX ++ [e] }
        | none =>
          if isAddTok t then { s with nNow := s.nNow + 1 }
          else if t == "P" then (if s.seenP then { s with nNow := s.nNow + (if s.readd then s.n else 0) } else { s with seenP := true })
          else match parsePanic t with
            | some (true, w) =>
              if s.repS.contains w then s   -- panic after the report: nothing to demand
              else if s.realPos == some w && !s.realPanicS then
                -- a shipped module must report its failure itself; that ModList's wrapper stands in for it does not count
                { s with realSilent := true, trS := s.trS ++ [.call w false], deadS := w :: s.deadS, nS := s.nNow }
              else { s with trS := s.trS ++ [.call w false], deadS := w :: s.deadS, nS := s.nNow }   -- a panic before reporting is a failure report
            | some (false, w) =>
              if s.repX.contains w then s
              else if s.realPos == some w && !s.realPanicX then
                { s with realSilent := true, trX := s.trX ++ [.call w false], deadX := w :: s.deadX }
              else { s with trX := s.trX ++ [.call w false], deadX := w :: s.deadX }
            | none => s
      procToks s' t rest

def specLine (s : Spec) (line : String) : Spec × String :=
  match line.splitOn "\t" with
  | [op, obs] =>
    let ws := words op
    let toks := words obs
    if obs.startsWith "panic" || toks.contains "blocked" then (s, "VIOLATION C11/harness-crash-or-blocked " ++ op ++ " => " ++ obs)
    else match ws.head? with
    | some "reset" =>
      let svc := ((kv ws "svc").getD "").toList
      ({ n := (kvNat ws "n").getD 0, nNow := (kvNat ws "n").getD 0, nS := (kvNat ws "n").getD 0, nX := (kvNat ws "n").getD 0, isApp := (kvNat ws "app").getD 0 ≥ 1, kind := (kv ws "kind").getD "",
         isNode := (kvNat ws "app").getD 0 == 2, readd := (kv ws "readd") == some "1",
         cbPanicS := (kv ws "cbS") == some "panic", cbPanicX := (kv ws "cbX") == some "panic",
         cbNilS := (kv ws "cbS") == some "nil" && (kvNat ws "app").getD 0 ≥ 1,
         cbNilCallS := (kv ws "cbS") == some "nil" && (kvNat ws "app").getD 0 == 2,
         cbNilX := (kv ws "cbX") == some "nil" && (kvNat ws "app").getD 0 ≥ 1,
         realPos := (match ((kv ws "real").getD "").splitOn ":" with | [pos, _] => pos.toNat? | _ => none),
         realPanicS := (match ((kv ws "real").getD "").splitOn ":" with
           | [pos, _] => (((((kv ws "start").getD "").splitOn ",").getD (pos.toNat?.getD 0) "").startsWith "!") | _ => false),
         realPanicX := (match ((kv ws "real").getD "").splitOn ":" with
           | [pos, _] => (((((kv ws "stop").getD "").splitOn ",").getD (pos.toNat?.getD 0) "").startsWith "!") | _ => false),
         mustFail :=
           (match ((kv ws "real").getD "").splitOn ":" with
            | [pos, name] =>
              if (name == "cluster" && (kv ws "cluster") == some "badaddr") ||
                 (name == "actor" && ((kv ws "addr") == some "inuse" || (kv ws "addr") == some "foreign")) then pos.toNat? else none
            | _ => none),
         launchable := (kv ws "prep") != some "0" &&
           (((kv ws "mode").getD "reg") == "reg" || (kv ws "nodefault") != some "1"),
         svcToks := ((List.range svc.length).filter fun i => svc.getD i 'M' == 'P').map fun i => "V" ++ toString i }, "ok")
    | some h =>
      if h == "wait" then
        -- while no module reports or panics nothing may happen: no module entered, no completion reported
        if obs == "-" then (s, "ok") else (s, "VIOLATION C11/progress-without-completion " ++ op ++ " => " ++ obs)
      else if h != "begin" && h != "fire" then (s, "ok")
      else
        -- (a node's second StartNode runs PrepareModules again — `P` — before the App's guard refuses it)
        let effective := obs != "-" && obs != "noop" && obs != "over" && obs != "P"
        -- what the start phase reported to the App (read off the modules' reports when there is no callback to log it)
        let trSeff := effTr s.cbNilS (ord s.nS true) s.trS
        let normal := s.begunS && (finishes trSeff).contains true && !s.begunX
        -- an empty list whose phase has no callback: nothing at all can be observed of an accepted call; it counts as
        -- accepted exactly when the guard has to accept it
        let effective := if h == "begin" && s.isApp && !s.broken && s.nNow == 0 then
            (match phaseOf ws with
             | some true => if s.cbNilS then !s.begunS else effective
             | some false => if s.cbNilX then normal else effective
             | none => effective)
          else effective
        -- state guard (only meaningful while the scripted modules kept the discipline)
        let guard : Option String :=
          if h == "begin" && s.isApp && !s.broken then
            match phaseOf ws with
            | some true =>
              -- a node cannot be started under an id that is not in its nodes table, before Prepare, or without a launch mode
              let nodeOK := !s.isNode || (s.launchable && (kv ws "node") != some "bad")
              if effective && !nodeOK then some "C11/startnode-not-refused"
              else if effective && s.begunS then some "C11/start-outside-prepared"
              else if !effective && !s.begunS && nodeOK then some "C11/start-ignored" else none
            | some false =>
              if effective && !normal then some "C11/stop-outside-normal"
              else if !effective && normal then some "C11/stop-ignored" else none
            | none => none
          else none
        let s := if h == "begin" && effective then
            match phaseOf ws with
            | some true => { s with trS := [], repS := [], deadS := [], begunS := true }
            | some false => { s with trX := [], repX := [], deadX := [], begunX := true, nX := s.nNow }
            | none => s
          else s
        let unknown := toks.any fun t => (parseTok t).isNone && !isPanicTok t && t != "-" && t != "noop" && t != "over" && t != "panic" && t != "RX" && t != "RS" && t != "RG" && t != "undelivered" && !isAddTok t && t != "P" && !isSvcTok t
        let endedBefore := !(h == "begin" && effective && phaseOf ws == some true) && s.begunS && (impliedFinish (ord s.nS true) s.trS).isSome
        let (s, cbViolation) := procToks s "" toks
        -- node, StartNode(id, nil): did the start phase end in this op?  Then (and only then) StartServices ran and the
        -- nil callback was called: one panic, which may reach the caller
        let nilEnded := s.cbNilCallS && s.begunS && !endedBefore && (impliedFinish (ord s.nS true) s.trS).isSome
        let nowBroken := s.broken || !disciplinedB s.trS || !disciplinedB s.trX
        let r := match guard, cbViolation with
          | some g, _ => some g
          | none, some v => some v
          | none, none =>
            if toks.contains "undelivered" && !nowBroken then some "C11/finish-missing"
            else if toks.contains "panic" && !nowBroken && !(if s.cbNilCallS then nilEnded && (toks.filter (· == "panic")).length ≤ 1 else panicsExplained s.cbPanicS s.cbPanicX "" toks) then some "C11/panic-escapes"
            else if s.realSilent then some "C11/module-never-completes"
            else if (match s.mustFail with | some p => s.begunS && builtinFailureIgnored p s.trS | none => false) then
              some "C11/builtin-module-failure-not-reported"
            else if unknown then some "C11/unreadable-log"
            else if s.isNode && !nowBroken && !(if s.cbNilCallS then toks.filter isSvcTok == (if nilEnded then s.svcToks else []) else servicesOK s.svcToks [] toks) then some "C11/services-not-started-before-report"
            else match (if s.begunS then checkPhase s true (effTr s.cbNilS (ord s.nS true) s.trS) else none) with
              | some v => some v
              | none => if s.begunX then checkPhase s false (effTr s.cbNilX (ord s.nX false) s.trX) else none
        let s := { s with broken := nowBroken }
        match r with
        | some v => (s, "VIOLATION " ++ v ++ " " ++ op ++ " => " ++ obs)
        | none => (s, "ok")
    | none => (s, "ok")
  | _ => (s, "bad-line")

end Cell2v.Driver.C11

open Cell2v.Driver in
def main (args : List String) : IO Unit :=
  match args with
  | ["spec"] => runLoop Cell2v.Driver.C11.specLine {}
  | _ => runLoop Cell2v.Driver.C11.step {}
