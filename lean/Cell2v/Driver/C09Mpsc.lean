import Cell2v.Driver.Util
import Cell2v.Model.MpscConc
/-!
C09 component driver: op lines starting with `mq` (harness/c09/mpsc_test.go
drives the real `mpsc.Queue` with 2-4 producer goroutines and one consumer, one
granted shared-memory step per line).

  mq reset                              -> ok
  mq step th=p<k> pt=mp.swap v=<n>      -> ok            (producer k: swap of head)
  mq step th=p<k> pt=mp.link            -> ok            (producer k: prev.next = n)
  mq step th=c pt=mp.pop                -> v=<n> | -
  mq step th=c pt=mp.empty              -> empty=<0|1>

`model`: answered by `Cell2v.MpscConc.fire` (the verified concurrent model).
`spec`: the property itself on the implementation's observations — values arrive
in swap order, each exactly once; `Pop` answers nil (and `Empty` true) only when
nothing is pending or the oldest pending value's producer is still between its
swap and its link.  The monitor keeps only the swap log, the number of delivered
values and which thread is in flight with which value (all read off the op lines).
-/
namespace Cell2v.Driver.C09Mpsc
open Cell2v.Driver Cell2v.MpscConc

def isMqOp (line : String) : Bool := line.startsWith "mq " || line == "mq"

/-- `p<k>` ↦ k -/
def prodId (ws : List String) : Option Nat :=
  match kv ws "th" with
  | some t => if t.startsWith "p" then (t.drop 1).toString.toNat? else none
  | none => none

def labelOf (ws : List String) : Option Lbl :=
  match kv ws "th", kv ws "pt" with
  | some "c", some "mp.pop" => some .pop
  | some "c", some "mp.empty" => some .empty
  | some _, some "mp.swap" =>
    match prodId ws, kvNat ws "v" with
    | some p, some v => some (.swap p v)
    | _, _ => none
  | some _, some "mp.link" => (prodId ws).map .link
  | _, _ => none

def showObs : Obs → String
  | .done => "ok"
  | .popped (some v) => s!"v={v}"
  | .popped none => "-"
  | .isEmpty b => if b then "empty=1" else "empty=0"

def mqStep (s : St) (ws : List String) : St × String :=
  match ws with
  | "mq" :: "reset" :: _ => (init, "ok")
  | "mq" :: "step" :: _ =>
    match labelOf ws with
    | none => (s, "bad-op")
    | some l =>
      match fire s l with
      | none => (s, "not-enabled")
      | some (s', o) => (s', showObs o)
  | _ => (s, "bad-op")

/-! ### the property on the implementation's observations -/

structure SpM where
  swapped : List Nat := []            -- values in the order of the granted swaps
  ndlv : Nat := 0                     -- number of values the consumer has received
  fl : List (String × Nat) := []      -- thread ↦ index (in `swapped`) of the value it has swapped but not linked
  deriving Inhabited

def showL (l : List Nat) : String := ",".intercalate (l.map toString)

def specMq (sp : SpM) (op obs : String) : SpM × String :=
  let ws := words op
  let ows := words obs
  let bad (sig why : String) : SpM × String := (sp, s!"VIOLATION C09/{sig} {op} -> {obs}: {why}")
  if (obs.splitOn "panic").length > 1 then bad "mpsc-concurrent-not-fifo" "panic" else
  match ws with
  | "mq" :: "reset" :: _ => ({}, "ok")
  | "mq" :: "step" :: _ =>
    let th := (kv ws "th").getD "?"
    -- is the oldest undelivered value still unlinked?
    let blocked : Bool := sp.fl.any fun e => e.2 == sp.ndlv
    let pending : List Nat := sp.swapped.drop sp.ndlv
    match kv ws "pt" with
    | some "mp.swap" =>
      ({ sp with swapped := sp.swapped ++ [(kvNat ws "v").getD 0], fl := sp.fl ++ [(th, sp.swapped.length)] }, "ok")
    | some "mp.link" => ({ sp with fl := sp.fl.filter fun e => e.1 != th }, "ok")
    | some "mp.pop" =>
      if obs == "-" then
        match pending with
        | [] => (sp, "ok")
        | x :: _ =>
          if blocked then (sp, "ok")
          else bad "mpsc-lost" s!"Pop returned nil although value {x} is pending and linked (swapped [{showL sp.swapped}], {sp.ndlv} delivered, no producer holds it between swap and link)"
      else
        match kvNat ows "v" with
        | none => bad "mpsc-concurrent-not-fifo" "unreadable Pop result"
        | some v =>
          match pending with
          | [] => bad "mpsc-concurrent-not-fifo" s!"Pop returned {v} although every swapped value was already delivered (duplicate or invented); swapped [{showL sp.swapped}]"
          | x :: _ =>
            if v == x then ({ sp with ndlv := sp.ndlv + 1 }, "ok")
            else if (sp.swapped.take sp.ndlv).contains v then
              bad "mpsc-concurrent-not-fifo" s!"value {v} delivered twice; swapped [{showL sp.swapped}], {sp.ndlv} delivered"
            else bad "mpsc-concurrent-not-fifo" s!"Pop returned {v} but the oldest pending value (swap order) is {x}; swapped [{showL sp.swapped}], {sp.ndlv} delivered"
    | some "mp.empty" =>
      match kvNat ows "empty" with
      | some 1 =>
        if pending.isEmpty || blocked then (sp, "ok")
        else bad "mpsc-lost" s!"Empty() = true although value {pending.head!} is pending and linked"
      | some 0 =>
        if pending.isEmpty then bad "mpsc-concurrent-not-fifo" "Empty() = false although every swapped value was delivered"
        else (sp, "ok")      -- (a value visible before its producer's link would be harmless)
      | _ => bad "mpsc-concurrent-not-fifo" "unreadable Empty result"
    | _ => (sp, "ok")
  | _ => (sp, "ok")

end Cell2v.Driver.C09Mpsc
