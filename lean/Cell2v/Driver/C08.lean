import Cell2v.Driver.Util
import Cell2v.Model.Directory
/-!
Model driver for C08.

`modeld_c08 model` : op line in → observation line out (provider machine + directory).
`modeld_c08 spec`  : `op<TAB>implObs` in → `ok` / `VIOLATION <signature> <why>`: the property
predicate evaluated on what the implementation published / answered.  The monitor
keeps its own state (the member set the events imply, applied one event at a time;
the last member list the implementation published) and never calls the batch fold
or `makeMembers` of the model.

Line protocol (tokens separated by single spaces)
  reset name=c id=n0 host=h0 port=7000 state=1 svcs=gate.g0,chat.c0
  list  <node> ...                 node  = id;host;addr;port;state;alive;svc,svc
  watch <ev> ... | <ev> ... | E    ev    = P~key~<node> | B~key~variant | D~key | X~key ; E = failed response
  state s=2
  dir types=gate,chat names=g0,c0
  start <node> ... | <ev> ...      the real StartMember on an in-memory etcd: listing, then one response right
                                   after the watch opened, the first directory store being slow (obs stores=k final=<members>)
  sys mode=member|client <node> ... | <step> ...   the real StartMember / StartClient on an in-memory etcd store holding the
                                   nodes; steps: G~P~key~<node> / G~D~key (write between the listing and the creation of the watch),
                                   W~P~key~<node> / W~D~key (write by some node / lease expiry), V (the watch hands over what is pending),
                                   F (the watch fails; the loop opens a fresh one), S~st (UpdateClusterState), K (a keep-alive answer arrives)
                                   (obs watches=k pubs=n final=<members>); mode=regfail: StartMember whose registerService
                                   is refused by the store (obs regerr watches=k pubs=n final=<members>)
  selfcluster name=c id=n0 host=h0 port=7000 svcs=g1,c1 cfg=g1:gate,c1:chat types=.. names=..
                                   cluster disabled: InitSelf + BuildSelfClusterTopology + UpdateClusterTopology (obs pub=.. + dump)
  stress n=3000                    reader/updater smoke run (obs ok | mixed:<query> | panic)
  stress big=20000 swaps=16        the same with a view of `big` working services alternating with a one-service view, the
                                   small view published while a reader is inside a query (obs ok | mixed:<getter>[fingerprint] | panic:<getter>)
  mk  types=.. names=.. M~<member> ...   member = id;host;port;state;svc,svc
-/
namespace Cell2v.Driver.C08
open Cell2v.Driver Cell2v.Directory

/-! ### rendering / parsing -/

def sortStrings (l : List String) : List String := l.mergeSort (fun a b => decide (a ≤ b))

def joinWith (sep : String) (l : List String) : String := sep.intercalate l

def splitList (sep : String) (s : String) : List String :=
  if s = "" then [] else s.splitOn sep

def showMember (m : Member) : String :=
  s!"{m.id};{m.host};{m.port};{m.state};{joinWith "," m.services}"

def showPub (ms : List Member) : String :=
  "pub=" ++ joinWith "&" (sortStrings (ms.map showMember))

def showItem (it : Item) : String :=
  match it.pid with
  | some (a, i) => s!"{it.name};{it.node};{it.state};{a};{i}"
  | none => s!"{it.name};{it.node};{it.state};-;-"

def parseNode (tok : String) : Option Node :=
  match tok.splitOn ";" with
  | [id, host, addr, port, state, alive, svcs] =>
    match port.toInt?, state.toInt? with
    | some p, some st => some { id := id, host := host, addr := addr, port := p, services := splitList "," svcs,
                                alive := alive == "1", state := st }
    | _, _ => none
  | _ => none

def parseMember (tok : String) : Option Member :=
  match tok.splitOn ";" with
  | [id, host, port, state, svcs] =>
    match port.toInt?, state.toInt? with
    | some p, some st => some { id := id, host := host, port := p, services := splitList "," svcs, state := st }
    | _, _ => none
  | _ => none

inductive Tok
  | ev (e : Ev) (key : String)
  | failed
  | junk

def parseEv (tok : String) : Tok :=
  if tok == "E" then .failed else
  match tok.splitOn "~" with
  | ["P", key, node] =>
    match parseNode node with
    | some n => .ev (.put (keyId key) n) key
    | none => .junk
  | ["B", key, _] => .ev (.bad (keyId key)) key
  | ["D", key] => .ev (.del (keyId key)) key
  | ["X", key] => .ev (.unk (keyId key)) key
  | _ => .junk

/-- split the tokens after `watch` at the `|` tokens -/
def splitBatches (ws : List String) : List (List String) :=
  let r := ws.foldl (fun (acc : List (List String) × List String) w =>
    if w == "|" then (acc.2.reverse :: acc.1, []) else (acc.1, w :: acc.2)) ([], [])
  (r.2.reverse :: r.1).reverse

/-- a batch: `none` = failed response (`resp.Err() != nil`), else its events -/
def parseBatch (toks : List String) : Option (List Ev) × Bool :=
  let ps := toks.map parseEv
  let failed := ps.any (fun t => match t with | .failed => true | _ => false)
  let evs := ps.filterMap (fun t => match t with | .ev e _ => some e | _ => none)
  (if failed then none else some evs, ps.any (fun t => match t with | .junk => true | _ => false))

def selfOfReset (ws : List String) : Option Node := do
  let name ← kv ws "name"
  let id ← kv ws "id"
  let host ← kv ws "host"
  let port ← (kv ws "port").bind String.toInt?
  let st ← (kv ws "state").bind String.toInt?
  let svcs ← kv ws "svcs"
  -- `splitHostPort`: the address "nonhost" gives host "nonhost", port -1
  let port := if host == "nonhost" then -1 else port
  pure { id := s!"{name}@{id}", host := host, addr := host, port := port, services := splitList "," svcs,
         alive := true, state := st }

def hasDupIds (ms : List Member) : Bool :=
  let ids := ms.map (·.id)
  ids.eraseDups.length != ids.length

/-! ### directory dump (shared shape of the `dir` / `mk` observations) -/

def showList (tag t : String) (l : Option (List Item)) : String :=
  match l with
  | none => s!"{tag}:{t}=nil"
  | some is => s!"{tag}:{t}=" ++ joinWith "&" (sortStrings (is.map showItem))

def dump (d : Dir) (types names : List String) : String :=
  let mem := "mem=" ++ joinWith "," (sortStrings (d.getMembers.map (·.1)))
  let ts := types.map (fun t => showList "T" t (d.getServiceList t))
  let wsl := types.map (fun t => showList "W" t (d.getWorkServiceList t))
  let cands (n : String) : List Item :=
    types.flatMap (fun t => ((d.getServiceList t).getD []).filter (fun it => it.name == n))
  let ss := names.map (fun n =>
    let c := cands n
    let r := d.getService n
    if c.length > 1 then
      let inside := match r with | some it => c.contains it | none => false
      s!"S:{n}=dup{c.length};" ++ (if inside then "in" else "out")
    else match r with
      | some it => s!"S:{n}=" ++ showItem it
      | none => s!"S:{n}=none")
  let wn := "WN=" ++ joinWith "," (sortStrings d.getWorkServiceNames)
  joinWith " " ([mem] ++ ts ++ wsl ++ ss ++ [wn])


/-! ### the `sys` op: the provider in front of a store -/

inductive Step
  | gap (w : Wr) | write (w : Wr) | fail | deliver | state (st : Int) | ka | junk

def parseWr : List String → Option Wr
  | ["P", key, node] => (parseNode node).map (fun n => Wr.put (keyId key) n)
  | ["D", key] => some (.del (keyId key))
  | _ => none

def parseStep (tok : String) : Step :=
  if tok == "F" then .fail else if tok == "V" then .deliver else if tok == "K" then .ka else
  match tok.splitOn "~" with
  | "G" :: r => match parseWr r with | some w => .gap w | none => .junk
  | "W" :: r => match parseWr r with | some w => .write w | none => .junk
  | ["S", st] => match st.toInt? with | some n => .state n | none => .junk
  | _ => .junk

structure SysOp where
  client : Bool
  /-- `mode=regfail`: `StartMember` whose `registerService` fails (the Put is refused): it returns the
  error after `startWatching()`, so the watcher lives on; nothing is registered, no keep-alive loop -/
  regfail : Bool := false
  nodes : List Node
  gaps : List Wr
  steps : List Step

def parseSys (ws : List String) (rest : List String) : Option SysOp :=
  match kv ws "mode" with
  | some mode =>
    if mode != "member" && mode != "client" && mode != "regfail" then none else
    match splitBatches (rest.filter (fun w => !w.startsWith "mode=")) with
    | [l, b] =>
      match l.mapM parseNode with
      | none => none
      | some ns =>
        let st := b.map parseStep
        if st.any (fun x => match x with | .junk => true | _ => false) then none else
        some { client := mode == "client", regfail := mode == "regfail", nodes := ns,
               gaps := st.filterMap (fun x => match x with | .gap w => some w | _ => none),
               steps := st.filter (fun x => match x with | .gap _ => false | _ => true) }
    | _ => none
  | none => none

/-- run the model of the whole sequence; publications in order -/
def sysModel (self : Node) (o : SysOp) : Sys × List (List Member) :=
  let store0 := o.nodes.foldl (fun (st : AL Node) n => (storeStep st (.put n.id n)).1) []
  let start : List SOp :=
    [.fetch o.client] ++ o.gaps.map .write ++ [.openWatch] ++
    -- StartMember: registerService, then keepAliveForever's own Put
    (if o.client || o.regfail then [] else [.register])
  -- (no keep-alive loop after a failed registration: `kaTick` is a no-op of the model while `registered` is false)
  -- `V` = everything pending: needs the state, so the run is folded here
  let all : List (Option SOp) := start.map some ++ o.steps.map (fun x => match x with
    | .write w => some (.write w) | .fail => some .fail | .state st => some (.setState st) | .ka => some .kaTick
    | _ => none)
  all.foldl (fun (acc : Sys × List (List Member)) op =>
    let op' := match op with | some op => op | none => SOp.deliver acc.1.pending.length
    let r := sstep acc.1 op'
    (r.1, match r.2 with | some p => acc.2 ++ [p] | none => acc.2)) ({ store := store0, p := { self := self } }, [])


/-- `InitSelf` for the `selfcluster` op: the node as `BuildSelfClusterTopology` describes it -/
def selfOfSelfCluster (ws : List String) : Option Node := do
  let name ← kv ws "name"
  let id ← kv ws "id"
  let host ← kv ws "host"
  let port ← (kv ws "port").bind String.toInt?
  let svcs ← kv ws "svcs"
  let cfgs ← kv ws "cfg"
  let cfg : AL String := (splitList "," cfgs).foldl (fun (m : AL String) e =>
    match e.splitOn ":" with
    | [n, t] => AL.set m n t
    | _ => m) []
  let port := if host == "nonhost" then -1 else port
  pure { id := s!"{name}@{id}", host := host, addr := host, port := port,
         services := makeFullNameServices (splitList "," svcs) cfg, alive := true, state := 0 }

/-! ### mode `model` -/

structure St where
  p : Option PState := none
  /-- the node as `reset` described it (what `ICluster` tells `StartMember`) -/
  self0 : Option Node := none
  view : List Member := []
  ordered : Bool := true

def parseMk (ws : List String) : List Member :=
  ws.filterMap (fun w => if w.startsWith "M~" then parseMember ((w.drop 2).toString) else none)

def step (s : St) (line : String) : St × String :=
  let ws := words line
  match ws with
  | "reset" :: _ =>
    match selfOfReset ws with
    | some self => ({ p := some { self := self }, self0 := some self, view := [], ordered := true }, "self=" ++ showMember self.member)
    | none => ({}, "bad-op")
  | "stress" :: _ => (s, "ok")   -- reader/updater smoke run: every answer came from a whole view
  | "start" :: rest =>
    -- the whole `StartMember` sequence on a fresh provider: listing ∪ self published, then the
    -- first watch response; the observation is what the directory holds in the end
    match s.self0 with
    | none => (s, "noinit")
    | some self =>
      match splitBatches rest with
      | [l, b] =>
        match l.mapM parseNode, parseBatch b with
        | some ns, (some evs, false) =>
          let r1 := pstep { self := self } (.listing ns)
          let r2 := pstep r1.1 (.response evs)
          let final := match r2.2 with | some pub => pub | none => (r1.2.getD [])
          let n := if r2.2.isSome then 2 else 1
          (s, s!"stores={n} final=" ++ ((showPub final).drop 4).toString)
        | _, _ => (s, "bad-op")
      | _ => (s, "bad-op")
  | "selfcluster" :: _ =>
    match selfOfSelfCluster ws with
    | none => (s, "bad-op")
    | some self =>
      let ms := selfTopology self
      (s, showPub ms ++ " " ++ dump (makeMembers ms) (splitList "," ((kv ws "types").getD "")) (splitList "," ((kv ws "names").getD "")))
  | "sys" :: rest =>
    match s.self0 with
    | none => (s, "noinit")
    | some self =>
      match parseSys ws rest with
      | none => (s, "bad-op")
      | some o =>
        let r := sysModel self o
        (s, (if o.regfail then "regerr " else "") ++ s!"watches={r.1.watches} pubs={r.2.length} final=" ++ ((showPub (r.2.getLast?.getD [])).drop 4).toString)
  | "mk" :: rest =>
    let ms := parseMk rest
    let s' := { s with view := ms, ordered := true }
    (s', dump (makeMembers ms) (splitList "," ((kv ws "types").getD "")) (splitList "," ((kv ws "names").getD "")))
  | "dir" :: _ =>
    if !s.ordered && hasDupIds s.view then (s, "dupids")
    else (s, dump (makeMembers s.view) (splitList "," ((kv ws "types").getD "")) (splitList "," ((kv ws "names").getD "")))
  | op :: rest =>
    match s.p with
    | none => (s, "noinit")
    | some p =>
      match op with
      | "list" =>
        match rest.mapM parseNode with
        | none => (s, "bad-op")
        | some ns =>
          match pstep p (.listing ns) with
          | (p', some pub) => ({ s with p := some p', view := pub, ordered := false }, showPub pub)
          | (p', none) => ({ s with p := some p' }, "none")
      | "state" =>
        match (kv ws "s").bind String.toInt? with
        | some st => ({ s with p := some (pstep p (.setState st)).1 }, "ok")
        | none => (s, "bad-op")
      | "watch" =>
        let batches := (splitBatches rest).map parseBatch
        if batches.any (·.2) then (s, "bad-op") else
        -- `_keepWatching`: stop at the first failed response
        let rec go (p : PState) (view : Option (List Member)) (out : List String) : List (Option (List Ev) × Bool) → PState × Option (List Member) × List String
          | [] => (p, view, ("ret=ok" :: out).reverse)
          | (none, _) :: _ => (p, view, ("ret=err" :: out).reverse)
          | (some evs, _) :: bs =>
            match pstep p (.response evs) with
            | (p', some pub) => go p' (some pub) (showPub pub :: out) bs
            | (p', none) => go p' view out bs
        let (p', view, out) := go p none [] batches
        let s' := match view with
          | some v => { s with p := some p', view := v, ordered := false }
          | none => { s with p := some p' }
        (s', joinWith " " out)
      | _ => (s, "bad-op")
  | [] => (s, "bad-op")

/-! ### mode `spec`: the property predicate on the implementation's observations -/

/-- sequential ("implied") semantics on a concrete map; written against the prose of the
property, one event at a time -/
def seqApply (selfId : String) (m : AL Node) : Ev → AL Node
  | .put k n => if n.id = selfId then m else if n.alive then AL.set m k n else AL.erase m k
  | .del k =>
    match AL.get m k with
    | none => m
    | some v => if v.id = selfId then m else AL.erase m k
  | .bad _ => m
  | .unk _ => m

structure Mon where
  self : Option Node := none
  self0 : Option Node := none
  m : AL Node := []
  listed : Bool := false
  /-- every registration seen so far is stored under its own node id -/
  wf : Bool := true
  view : List Member := []
  ordered : Bool := true

def obsPubs (obs : String) : List String :=
  (words obs).filterMap (fun w => if w.startsWith "pub=" then some ((w.drop 4).toString) else none)

def parsePub (p : String) : List Member := (splitList "&" p).filterMap parseMember

def selfListed (self : Node) (pub : String) : Bool :=
  (splitList "&" pub).contains (showMember self.member)

def evWf : Tok → Bool
  | .ev (.put k n) _ => k == n.id
  | _ => true

/-- what a type's list must be, rendered -/
def wantList (tag t : String) (l : List Item) : String :=
  if l.isEmpty then s!"{tag}:{t}=nil" else s!"{tag}:{t}=" ++ joinWith "&" (sortStrings (l.map showItem))

def allTypes (ms : List Member) : List String :=
  (ms.flatMap (fun m => m.services.filterMap (fun s => (splitName s).map (·.1)))).eraseDups

def checkDump (ms : List Member) (types names : List String) (obs : String) : Option String :=
  let toks := words obs
  let get (key : String) : Option String :=
    toks.findSome? (fun w => if w.startsWith (key ++ "=") then some ((w.drop (key.length + 1)).toString) else none)
  let mem := joinWith "," (sortStrings (ms.map (·.id)).eraseDups)
  if get "mem" != some mem then some s!"members {mem}" else
  let badT := types.find? (fun t => !toks.contains (wantList "T" t (specTypeList ms t)))
  let badW := types.find? (fun t => !toks.contains (wantList "W" t (specWorkList ms t)))
  let every := (allTypes ms).flatMap (fun t => specTypeList ms t)
  let badS := names.find? (fun n =>
    let c := every.filter (fun it => it.name == n)
    match get s!"S:{n}" with
    | none => true
    | some r =>
      match c with
      | [] => r != "none"
      | [it] => r != showItem it
      | _ => !(r.startsWith "dup" && r.endsWith ";in") && !(c.map showItem).contains r)
  let wn := joinWith "," (sortStrings (((allTypes ms).flatMap (fun t => specWorkList ms t)).map (·.name)))
  match badT, badW, badS with
  | some t, _, _ => some s!"type-list {t}"
  | _, some t, _ => some s!"working-list {t}"
  | _, _, some n => some s!"service {n}"
  | _, _, _ => if get "WN" != some wn then some "working-names" else none

def specStep (s : Mon) (line : String) : Mon × String :=
  match line.splitOn "\t" with
  | [op, obs] =>
    let ws := words op
    if ws.head? == some "stress" then
      (if obs == "ok" then (s, "ok") else (s, s!"VIOLATION C08/read-saw-partial-view {obs} | {op}")) else
    if obs.startsWith "panic" || obs.startsWith "<no-observation" then (s, "VIOLATION C08/crash " ++ op) else
    match ws with
    | "reset" :: _ => ({ self := selfOfReset ws, self0 := selfOfReset ws }, "ok")
    | "start" :: rest =>
      -- StartMember as a whole: whatever the interleaving of the initial publication with the
      -- watcher, the directory must end up with listing ∪ self folded with the delivered events
      match s.self0, splitBatches rest with
      | some self, [l, b] =>
        match l.mapM parseNode with
        | none => (s, "ok")
        | some ns =>
          let toks := b.map parseEv
          let evs := toks.filterMap (fun t => match t with | .ev e _ => some e | _ => none)
          let m0 := AL.set (ns.foldl (fun (m : AL Node) n => AL.set m n.id n) []) self.id self
          let m := evs.foldl (seqApply self.id) m0
          let want := ((showPub (publish m)).drop 4).toString
          if !toks.all evWf then (s, "ok")
          else if (kv (words obs) "final") == some want then (s, "ok")
          else if (kv (words obs) "final") == some ((showPub (publish m0)).drop 4).toString then
            (s, s!"VIOLATION C08/stale-initial-view the directory ends with {obs} (the listing alone), the listing and the delivered events imply final={want} | {op}")
          else (s, s!"VIOLATION C08/fold-differs-from-implied StartMember: the directory ends with {obs}, the listing and the delivered events imply final={want} | {op}")
      | _, _ => (s, "ok")
    | "selfcluster" :: _ =>
      -- cluster disabled: one member (the node, working), and the directory of exactly that list
      match obsPubs obs with
      | [p] =>
        let ms := parsePub p
        match ms with
        | [m] =>
          let idOk := (do let name ← kv ws "name"; let id ← kv ws "id"; pure (m.id == s!"{name}@{id}")).getD false
          -- its services: `type.name` for every local service with a config entry (last entry of a name counts)
          let cfg := (splitList "," ((kv ws "cfg").getD "")).filterMap (fun e =>
            match e.splitOn ":" with | [n, t] => some (n, t) | _ => none)
          let want := (splitList "," ((kv ws "svcs").getD "")).filterMap (fun n =>
            (cfg.reverse.find? (fun e => e.1 == n)).map (fun e => s!"{e.2}.{n}"))
          if !idOk || m.state != workingState || m.services != want then (s, s!"VIOLATION C08/self-cluster-wrong {p} | {op}")
          else match checkDump ms (splitList "," ((kv ws "types").getD "")) (splitList "," ((kv ws "names").getD "")) obs with
            | some why => (s, s!"VIOLATION C08/directory-differs-from-members {why} | {op}")
            | none => (s, "ok")
        | _ => (s, s!"VIOLATION C08/self-cluster-wrong {p} | {op}")
      | _ => (s, s!"VIOLATION C08/self-cluster-wrong no publication | {op}")
    | "sys" :: rest =>
      -- the provider in front of the store: (1) whatever was lost on the way, the last publication is
      -- the listing ∪ self folded one event at a time with the events the watches handed over;
      -- (2) when nothing was lost and nothing is pending, it is the store itself (∪ self)
      match s.self0, parseSys ws rest with
      | some self0, some o =>
        let wrOk : Wr → Bool := fun w => match w with | .put k n => k == n.id && n.alive | .del _ => true
        let wf := o.nodes.all (fun n => n.alive) && (o.nodes.map (·.id)).eraseDups.length == o.nodes.length &&
          o.gaps.all wrOk && o.steps.all (fun x => match x with | .write w => wrOk w | _ => true)
        let store0 := o.nodes.foldl (fun (st : AL Node) n => AL.set st n.id n) []
        let listed := o.nodes.foldl (fun (m : AL Node) n => AL.set m n.id n) []
        let m0 := if o.client then listed else AL.set listed self0.id self0
        -- (store, lost something?) after the writes that fall between the listing and the watch
        let g := o.gaps.foldl (fun (acc : AL Node × Bool) w =>
          let r := storeStep acc.1 w; (r.1, acc.2 || r.2.isSome)) (store0, false)
        -- StartMember registers the node (twice: registerService, keepAliveForever)
        let reg : List Step := if o.client || o.regfail then [] else [.write (.put self0.id self0), .write (.put self0.id self0)]
        -- `shown`: the member set at the last publication (the listing, every non-empty response)
        -- a keep-alive answer with a dirty own state: the lease is revoked (etcd deletes the own key) and
        -- the node registers again with its current state
        let kaWrites (store : AL Node) (self : Node) : AL Node × List Ev :=
          let r1 := storeStep store (.del self.id)
          let r2 := storeStep r1.1 (.put self.id self)
          (r2.1, r1.2.toList ++ r2.2.toList)
        let fin := (reg ++ o.steps).foldl (fun (acc : AL Node × AL Node × List Ev × Node × Bool × AL Node × Bool) x =>
          let (store, m, pend, self, lost, shown, dirt) := acc
          match x with
          | .write w => let r := storeStep store w; (r.1, m, pend ++ r.2.toList, self, lost, shown, dirt)
          | .fail => (store, m, [], self, lost || !pend.isEmpty, shown, dirt)
          | .deliver =>
            let m' := pend.foldl (seqApply self.id) m
            (store, m', [], self, lost, if pend.isEmpty then shown else m', dirt)
          | .state st =>
            let self' := { self with state := st }
            (store, if o.client then m else AL.set m self.id self', pend, self', lost, shown, true)
          | .ka =>
            if o.client || o.regfail || !dirt then acc else
            let r := kaWrites store self
            (r.1, m, pend ++ r.2, self, lost, shown, false)
          | _ => acc) (g.1, m0, [], self0, g.2, m0, false)
        let (store, _, pend, self, lost, m, _) := fin
        let want := ((showPub (publish m)).drop 4).toString
        let got := kv (words obs) "final"
        -- a provider that resumes its watches at the revision it has seen (losing nothing) is as good:
        -- the same fold with the events of the gap handed over first and nothing dropped by a failure
        let gapEvs := (o.gaps.foldl (fun (acc : AL Node × List Ev) w =>
          let r := storeStep acc.1 w; (r.1, acc.2 ++ r.2.toList)) (store0, [])).2
        let ideal := (reg ++ o.steps).foldl (fun (acc : AL Node × AL Node × List Ev × Node × AL Node × Bool) x =>
          let (store, m, pend, self, shown, dirt) := acc
          match x with
          | .write w => let r := storeStep store w; (r.1, m, pend ++ r.2.toList, self, shown, dirt)
          | .deliver =>
            let m' := pend.foldl (seqApply self.id) m
            (store, m', [], self, if pend.isEmpty then shown else m', dirt)
          | .state st =>
            let self' := { self with state := st }
            (store, if o.client then m else AL.set m self.id self', pend, self', shown, true)
          | .ka =>
            if o.client || o.regfail || !dirt then acc else
            let r := kaWrites store self
            (r.1, m, pend ++ r.2, self, shown, false)
          | _ => acc) (g.1, m0, gapEvs, self0, m0, false)
        let wantIdeal := ((showPub (publish ideal.2.2.2.2.1)).drop 4).toString
        if !wf then (s, "ok")
        else if got == some wantIdeal then (s, "ok")
        else if got != some want then
          (s, s!"VIOLATION C08/fold-differs-from-implied the directory ends with {obs}, the listing and the events handed over imply final={want} | {op}")
        else if !lost && pend.isEmpty then
          let others (ms : List Member) := ms.filter (fun x => x.id != self.id)
          let wantStore := ((showPub (others (publish store))).drop 4).toString
          if ((showPub (others (publish m))).drop 4).toString != wantStore then
            (s, s!"VIOLATION C08/directory-differs-from-store no event was lost and none is pending, the store holds {wantStore}, the directory {obs} | {op}")
          else (s, "ok")
        else (s, "ok")
      | _, _ => (s, "ok")
    | "mk" :: rest =>
      let ms := parseMk rest
      let s' := { s with view := ms, ordered := true }
      if hasDupIds ms then (s', "ok") else
      match checkDump ms (splitList "," ((kv ws "types").getD "")) (splitList "," ((kv ws "names").getD "")) obs with
      | some why => (s', s!"VIOLATION C08/directory-differs-from-members {why} | {op}")
      | none => (s', "ok")
    | "dir" :: _ =>
      if hasDupIds s.view then (s, "ok") else
      match checkDump s.view (splitList "," ((kv ws "types").getD "")) (splitList "," ((kv ws "names").getD "")) obs with
      | some why => (s, s!"VIOLATION C08/directory-differs-from-members {why} | members {(showPub s.view)} | {op}")
      | none => (s, "ok")
    | opn :: rest =>
      match s.self with
      | none => (s, "ok")
      | some self =>
        match opn with
        | "state" =>
          match (kv ws "s").bind String.toInt? with
          | some st =>
            let self' := { self with state := st }
            ({ s with self := some self', m := if s.listed then AL.set s.m self.id self' else s.m }, "ok")
          | none => (s, "ok")
        | "list" =>
          match rest.mapM parseNode with
          | none => (s, "ok")
          | some ns =>
            let m := AL.set (ns.foldl (fun (m : AL Node) n => AL.set m n.id n) s.m) self.id self
            let s' := { s with m := m, listed := true }
            match obsPubs obs with
            | [p] =>
              let s' := { s' with view := parsePub p, ordered := false }
              if s.wf && !selfListed self p then (s', s!"VIOLATION C08/self-missing listing | {op}")
              else if s.wf && "pub=" ++ p != showPub (publish m) then
                (s', s!"VIOLATION C08/listing-differs-from-implied want {showPub (publish m)} | {op}")
              else (s', "ok")
            | _ => (s', s!"VIOLATION C08/publication-count listing | {op}")
        | "watch" =>
          let toks := (splitBatches rest).map (fun b => b.map parseEv)
          let rec go (s : Mon) (self : Node) (pubs : List String) (nb : Nat) : List (List Tok) → Mon × String
            | [] => if pubs.isEmpty then (s, "ok") else (s, s!"VIOLATION C08/publication-count extra publication | {op}")
            | b :: bs =>
              if b.any (fun t => match t with | .failed => true | _ => false) then
                if pubs.isEmpty then (s, "ok") else (s, s!"VIOLATION C08/publication-count publication after a failed response | {op}")
              else
                let evs := b.filterMap (fun t => match t with | .ev e _ => some e | _ => none)
                if evs.isEmpty then go s self pubs (nb + 1) bs else
                let wf := s.wf && s.listed && b.all evWf
                let m := evs.foldl (seqApply self.id) s.m
                let s := { s with m := m, wf := wf }
                match pubs with
                | [] => (s, s!"VIOLATION C08/publication-count response {nb} not published | {op}")
                | p :: ps =>
                  if wf && !selfListed self p then (s, s!"VIOLATION C08/self-missing response {nb} | {op}")
                  else if wf && "pub=" ++ p != showPub (publish m) then
                    (s, s!"VIOLATION C08/fold-differs-from-implied response {nb}: implied {showPub (publish m)} published pub={p} | {op}")
                  else go s self ps (nb + 1) bs
          -- the directory is rebuilt from every publication: later `dir` ops refer to the last one
          let s := match (obsPubs obs).getLast? with
            | some p => { s with view := parsePub p, ordered := false }
            | none => s
          go s self (obsPubs obs) 0 toks
        | _ => (s, "ok")
    | [] => (s, "ok")
  | _ => (s, "bad-line")

end Cell2v.Driver.C08

open Cell2v.Driver in
def main (args : List String) : IO Unit :=
  match args with
  | ["spec"] => runLoop Cell2v.Driver.C08.specStep {}
  | _ => runLoop Cell2v.Driver.C08.step {}
