import Cell2v.Lemmas.Directory
import Cell2v.Gen.C08Facts
/-!
C08 — the service directory always equals the current cluster membership.

Only property statements, non-vacuity examples and defect witnesses.
Vocabulary (Model/Directory.lean):
* `foldBatch`  — one watch response through `handleWatchResponse` + `updateNodesWithChanges`
                 (the code as it is now); `foldBatchD9` the code before commit 8aff80e;
* `implied`    — the events applied one at a time with set semantics (the specification);
* `look`       — the member map as a function `node id → Option Node`;
* `pstep/prun` — the provider as a machine (listing, watch responses, own state changes);
* `makeMembers`— `MakeMembers` statement by statement; `specTypeList/specWorkList` the
                 declarative content of the directory;
* `readAt`     — a getter's single field load interleaved with the updater's field stores.
-/
namespace Cell2v.Props.C08
open Cell2v.Directory
set_option linter.unusedSimpArgs false

/-! ## 1. the fold of any batched history equals what the events imply -/

/-- **Batching independence.**  For every member map, every event history and *every*
way the watch delivers it in responses (including empty ones), folding the responses
with the code's batch algorithm gives exactly the events applied one at a time. -/
theorem fold_eq_implied (selfId : String) (m : AL Node) (bs : List (List Ev)) :
    look (bs.foldl (foldBatch selfId) m) = implied selfId (look m) bs.flatten :=
  look_foldBatches selfId bs m

/-- two deliveries of the same history end in the same member set, and the member lists
published from them are equal up to order (Go map iteration order) -/
theorem batching_independent (selfId : String) (m : AL Node) (hm : NoDupKeys m)
    (bs bs' : List (List Ev)) (h : bs.flatten = bs'.flatten) :
    look (bs.foldl (foldBatch selfId) m) = look (bs'.foldl (foldBatch selfId) m) ∧
    (publish (bs.foldl (foldBatch selfId) m)).Perm (publish (bs'.foldl (foldBatch selfId) m)) := by
  have e : look (bs.foldl (foldBatch selfId) m) = look (bs'.foldl (foldBatch selfId) m) := by
    rw [fold_eq_implied, fold_eq_implied, h]
  exact ⟨e, publish_perm _ _ (foldBatches_nodup selfId bs m hm) (foldBatches_nodup selfId bs' m hm) e⟩

example : ([[Ev.put "a" default, .del "a"], []] : List (List Ev)).flatten = [[.put "a" default], [.del "a"]].flatten := rfl

/-- the published list is a function of the implied member set: the map never holds a node twice -/
theorem published_once_per_member (selfId : String) (m : AL Node) (hm : NoDupKeys m) (bs : List (List Ev)) :
    NoDupKeys (bs.foldl (foldBatch selfId) m) ∧
    ∀ k n, (k, n) ∈ bs.foldl (foldBatch selfId) m ↔ implied selfId (look m) bs.flatten k = some n := by
  have hn := foldBatches_nodup selfId bs m hm
  refine ⟨hn, fun k n => ?_⟩
  rw [← fold_eq_implied]
  exact ⟨AL.get_of_mem _ hn k n, AL.mem_of_get _ k n⟩

/-- what the machine does with one response: an empty response publishes nothing and changes
nothing; a non-empty one publishes exactly the member set its events imply -/
theorem response_publishes_implied (s : PState) (evs : List Ev) :
    (evs = [] → pstep s (.response evs) = (s, none)) ∧
    (evs ≠ [] → ∃ s', pstep s (.response evs) = (s', some (publish s'.members)) ∧
        look s'.members = implied s.self.id (look s.members) evs ∧ s'.self = s.self) := by
  constructor
  · intro h; subst h; rfl
  · intro h
    have he : ¬ evs.isEmpty = true := by simpa using h
    refine ⟨respond s evs, ?_, ?_, rfl⟩
    · simp only [pstep]; rw [if_neg he]
    · simpa [respond, foldBatch] using look_foldBatch s.self.id s.members evs

/-- **Initial listing**: the member map after `StartMember`'s listing step holds the node's own
object under its id (whatever the listing said about it), one of the fetched nodes for every
fetched id, and nothing else new. -/
theorem listing_is_fetched_plus_self (self : Node) (m : AL Node) (ns : List Node) :
    AL.get (updateNodesWithSelf self m ns) self.id = some self ∧
    (∀ n ∈ ns, n.id ≠ self.id → ∃ n' ∈ ns, n'.id = n.id ∧ AL.get (updateNodesWithSelf self m ns) n.id = some n') ∧
    (∀ k, k ≠ self.id → k ∉ ns.map (·.id) → AL.get (updateNodesWithSelf self m ns) k = AL.get m k) := by
  refine ⟨AL.get_set_same _ _ _, ?_, ?_⟩
  · intro n hn hne
    obtain ⟨n', hn', hid, hg⟩ := updateNodes_get_mem ns n hn m
    exact ⟨n', hn', hid, by simp only [updateNodesWithSelf]; rw [AL.get_set_ne _ _ hne]; exact hg⟩
  · intro k hk hnot
    simp only [updateNodesWithSelf]
    rw [AL.get_set_ne _ _ hk, updateNodes_get_not_mem ns k hnot]

/-! ### the sequential semantics has the clauses the property names -/

/-- a duplicate of any event (re-delivered PUT, second DELETE, …) changes nothing -/
theorem duplicate_event_idempotent (selfId : String) (m : FM) (h t : List Ev) (e : Ev) :
    implied selfId m (h ++ e :: e :: t) = implied selfId m (h ++ e :: t) := by
  simp only [implied, List.foldl_append, List.foldl_cons, seqStep_idem]

/-- … hence so does the code, however the two histories are batched -/
theorem duplicate_event_idempotent_code (selfId : String) (m : AL Node) (h t : List Ev) (e : Ev)
    (bs bs' : List (List Ev)) (hb : bs.flatten = h ++ e :: e :: t) (hb' : bs'.flatten = h ++ e :: t) :
    look (bs.foldl (foldBatch selfId) m) = look (bs'.foldl (foldBatch selfId) m) := by
  rw [fold_eq_implied, fold_eq_implied, hb, hb', duplicate_event_idempotent]

/-- deleting an unknown node is a no-op -/
theorem delete_unknown_noop (selfId : String) (m : AL Node) (k : String) (h : look m k = none) :
    look (foldBatch selfId m [.del k]) = look m := by
  rw [look_foldBatch]; simp [implied, seqStep, h]

/-- a re-registration (changed state, services, address) replaces the member -/
theorem reregistration_replaces (selfId : String) (m : AL Node) (h : List Ev) (k : String) (n : Node)
    (hs : n.id ≠ selfId) (ha : n.alive = true) (bs : List (List Ev)) (hb : bs.flatten = h ++ [.put k n]) :
    look (bs.foldl (foldBatch selfId) m) k = some n := by
  rw [fold_eq_implied, hb, implied_append]
  simp [implied, seqStep, hs, ha, FM.upd]

/-- a registration that says `alive=false`, and a DELETE of another node, remove the member -/
theorem dead_or_deleted_is_removed (selfId : String) (m : AL Node) (h : List Ev) (k : String)
    (bs : List (List Ev)) :
    (∀ n : Node, n.id ≠ selfId → n.alive = false → bs.flatten = h ++ [.put k n] →
        look (bs.foldl (foldBatch selfId) m) k = none) ∧
    (bs.flatten = h ++ [.del k] →
        (∀ v, implied selfId (look m) h k = some v → v.id ≠ selfId) →
        look (bs.foldl (foldBatch selfId) m) k = none) := by
  constructor
  · intro n hs ha hb
    rw [fold_eq_implied, hb, implied_append]
    simp [implied, seqStep, hs, ha, FM.upd]
  · intro hb hv
    rw [fold_eq_implied, hb, implied_append]
    simp only [implied, List.foldl_cons, List.foldl_nil, seqStep]
    cases hk : List.foldl (seqStep selfId) (look m) h k with
    | none => simpa using hk
    | some v =>
      have := hv v hk
      simp [this, FM.upd]

/-- events whose value does not parse, and events of an unknown type, are ignored -/
theorem invalid_events_ignored (selfId : String) (m : AL Node) (k : String) :
    look (foldBatch selfId m [.bad k]) = look m ∧ look (foldBatch selfId m [.unk k]) = look m := by
  constructor <;> (rw [look_foldBatch]; rfl)

/-- events about the node itself (its own registration echoed back, the expiry of its
own lease) never change the map -/
theorem self_events_ignored (selfId : String) (m : AL Node) (hk : Keyed m) (k : String) (n : Node)
    (hn : n.id = selfId) :
    look (foldBatch selfId m [.put k n]) = look m ∧ look (foldBatch selfId m [.del selfId]) = look m := by
  constructor
  · rw [look_foldBatch]; simp [implied, seqStep, hn]
  · rw [look_foldBatch]
    simp only [implied, List.foldl_cons, List.foldl_nil, seqStep]
    cases h : look m selfId with
    | none => rfl
    | some v => simp [hk selfId v h]

/-! ### D9: the code before commit 8aff80e -/

def wNode : Node := { id := "x", host := "h", addr := "h", port := 1, services := [], alive := true, state := 1 }

/-- **D9 witness**: the response `[PUT x (new), DELETE x]` left `x` in the directory although
the events imply its absence; the repaired fold removes it. -/
theorem d9_prefix_fold_differs_from_implied :
    look (foldBatchD9 "self" [] [.put "x" wNode, .del "x"]) "x" = some wNode ∧
    implied "self" (look []) [.put "x" wNode, .del "x"] "x" = none ∧
    look (foldBatch "self" [] [.put "x" wNode, .del "x"]) "x" = none := by
  refine ⟨?_, ?_, ?_⟩
  · simp [foldBatchD9, chStepD9, updateNodesWithChanges, applyChange, look, wNode, AL.set, AL.erase, AL.get]
  · simp [implied, seqStep, look, wNode, FM.upd, AL.get]
  · rw [look_foldBatch]; simp [implied, seqStep, look, wNode, FM.upd, AL.get]

/-! ## 2. the node itself is always present -/

/-- **Self is always present.**  After the initial listing (whatever it contained — stale
copies of the node itself, duplicates, dead nodes), over every history of well-formed
responses (every registration stored under its node's own id, as cell2 writes them),
empty responses and own state changes, every published list contains the node itself
with its own address and services. -/
theorem self_always_present (self : Node) (ns : List Node) (ops : List POp) (hw : ∀ op ∈ ops, OpWf op) :
    ∀ pub ∈ (prun { self := self } (.listing ns :: ops)).2,
      ∃ m ∈ pub, m.id = self.id ∧ m.host = self.member.host ∧ m.port = self.port ∧ m.services = self.services := by
  have key : ∀ (ops : List POp) (s : PState), PInv s → s.selfIn = true → (∀ op ∈ ops, OpWf op) →
      ∀ pub ∈ (prun s ops).2, ∃ m ∈ pub, m.id = s.self.id ∧ m.host = s.self.member.host ∧
        m.port = s.self.port ∧ m.services = s.self.services := by
    intro ops
    induction ops with
    | nil => intro s _ _ _ pub hp; simp [prun] at hp
    | cons op ops ih =>
      intro s hi hl hw pub hp
      have hi' := pstep_inv s op hi (hw op List.mem_cons_self)
      have hl' := pstep_listed s op hi (hw op List.mem_cons_self) hl
      have hid : (pstep s op).1.self.id = s.self.id ∧ (pstep s op).1.self.member.host = s.self.member.host ∧
          (pstep s op).1.self.port = s.self.port ∧ (pstep s op).1.self.services = s.self.services := by
        cases op with
        | listing ns => exact ⟨rfl, rfl, rfl, rfl⟩
        | setState st => exact ⟨rfl, rfl, rfl, rfl⟩
        | response evs => simp only [pstep]; split <;> exact ⟨rfl, rfl, rfl, rfl⟩
      simp only [prun, List.mem_append] at hp
      rcases hp with hp | hp
      · cases ho : (pstep s op).2 with
        | none => rw [ho] at hp; simp at hp
        | some p =>
          rw [ho] at hp
          simp at hp
          subst hp
          rw [pstep_pub s op pub ho]
          exact ⟨_, self_in_pub _ hi' hl', hid.1, hid.2.1, hid.2.2.1, hid.2.2.2⟩
      · obtain ⟨m, hm, h1, h2, h3, h4⟩ := ih _ hi' hl' (fun o ho => hw o (List.mem_cons_of_mem _ ho)) pub hp
        exact ⟨m, hm, h1.trans hid.1, h2.trans hid.2.1, h3.trans hid.2.2.1, h4.trans hid.2.2.2⟩
  intro pub hp
  simp only [prun, List.mem_append] at hp
  have hi := pstep_inv { self := self } (.listing ns) (PInv.init self) trivial
  rcases hp with hp | hp
  · simp [pstep] at hp
    subst hp
    exact ⟨self.member, self_in_pub _ hi rfl, rfl, rfl, rfl, rfl⟩
  · exact key ops _ hi rfl hw pub hp

/-- non-vacuity: a well-formed history that deletes the node's own key and echoes its registration -/
example : ∀ op ∈ [POp.response [.del "c@n0", .put "c@n0" { (default : Node) with id := "c@n0" }], .setState 2, .response []],
    OpWf op := by
  intro op h
  simp at h
  rcases h with h | h | h <;> subst h <;> simp [OpWf, EvWf]

/-- … and it is published with its *current* state: a step that publishes shows the node's own
object, whose state `UpdateClusterState` has changed in place -/
theorem self_published_with_current_state (s : PState) (op : POp) (hi : PInv s) (hl : s.selfIn = true)
    (hw : OpWf op) (pub : List Member) (h : (pstep s op).2 = some pub) :
    (pstep s op).1.self.member ∈ pub ∧
    (∀ st, op = .setState st → (pstep s op).1.self.state = st) := by
  constructor
  · rw [pstep_pub s op pub h]
    exact self_in_pub _ (pstep_inv s op hi hw) (pstep_listed s op hi hw hl)
  · intro st e; subst e; rfl

/-- the invariant behind it holds from the start and is kept by every well-formed step:
no node twice, every node under its own id, the node's own object in place -/
theorem provider_invariant (self : Node) (ops : List POp) (hw : ∀ op ∈ ops, OpWf op) :
    PInv (prun { self := self } ops).1 := by
  have key : ∀ (ops : List POp) (s : PState), PInv s → (∀ op ∈ ops, OpWf op) → PInv (prun s ops).1 := by
    intro ops
    induction ops with
    | nil => intro s hi _; exact hi
    | cons op ops ih =>
      intro s hi hw
      exact ih _ (pstep_inv s op hi (hw op List.mem_cons_self)) (fun o ho => hw o (List.mem_cons_of_mem _ ho))
  exact key ops _ (PInv.init self) hw

/-! ## 3. the directory is a function of the member list -/

/-- ids of a member list are pairwise different (true of every published list, see
`published_ids_distinct`) -/
def DistinctIds (ms : List Member) : Prop := (ms.map (·.id)).Nodup

theorem published_ids_distinct (m : AL Node) (hn : NoDupKeys m) (hk : Keyed m) : DistinctIds (publish m) := by
  unfold DistinctIds publish
  have : (m.map (·.2.member)).map (·.id) = AL.keys m := by
    simp only [List.map_map, AL.keys]
    apply List.map_congr_left
    intro p hp
    obtain ⟨k, v⟩ := p
    have := hk k v (AL.get_of_mem m hn k v hp)
    simpa [Node.member] using this
  rw [this]; exact hn

/-- **Per-type lists**: `GetServiceList t` holds exactly the well-formed services `t.name` of all
members, each resolved to `host:port` of the member that lists it — in member order then
service order; it is nil exactly when there is none. -/
theorem typeList_eq_spec (ms : List Member) (hd : DistinctIds ms) (t : String) :
    ((makeMembers ms).getServiceList t).getD [] = specTypeList ms t ∧
    ((makeMembers ms).getServiceList t = none ↔ specTypeList ms t = []) := by
  have hget : ∀ m ∈ ms, AL.get (membersOf ms []) m.id = some m := fun m hm => membersOf_get ms hd m hm []
  have hl := foldl_addServices t ms []
  have hinv := foldl_addServices_inv ms [] NEL.nil NoDupKeys.nil
  have hmap := map_makePID_raw (membersOf ms []) t ms hget
  simp only [lst, AL.get_nil, Option.getD_none, List.nil_append] at hl
  have e : (makeMembers ms).getServiceList t = (AL.get (ms.foldl addServices []) t).map (List.map (makePID (membersOf ms []))) := by
    simp only [makeMembers, Dir.getServiceList]
    exact get_mapVal _ _ t
  constructor
  · rw [e]
    cases hc : AL.get (ms.foldl addServices []) t with
    | none => rw [hc] at hl; simp at hl; rw [← hmap, hl]; rfl
    | some l => rw [hc] at hl; simp at hl; rw [← hmap, ← hl]; rfl
  · rw [e]
    cases hc : AL.get (ms.foldl addServices []) t with
    | none => rw [hc] at hl; simp at hl; rw [← hmap, hl]; simp
    | some l =>
      rw [hc] at hl; simp at hl
      have : l ≠ [] := hinv.1 t l hc
      rw [← hmap, ← hl]; simp [this]

/-- **Working lists**: `GetWorkServiceList t` holds exactly the services of type `t` on members
whose state is Working.  (Their `PID` field is nil in the code — only the per-type list is
passed through `makePID` — which the specification `specWorkList` records.) -/
theorem workList_eq_spec (ms : List Member) (t : String) :
    ((makeMembers ms).getWorkServiceList t).getD [] = specWorkList ms t ∧
    ((makeMembers ms).getWorkServiceList t = none ↔ specWorkList ms t = []) := by
  have hl := foldl_addWorking t ms []
  have hinv := foldl_addWorking_inv ms [] NEL.nil NoDupKeys.nil
  simp only [lst, AL.get_nil, Option.getD_none, List.nil_append] at hl
  have hs : specWorkList ms t = rawTypeList (ms.filter (fun m => isWork m.state)) t := strip_spec t _
  have e : (makeMembers ms).getWorkServiceList t = AL.get (ms.foldl addWorking []) t := rfl
  rw [e, hs, ← hl]
  constructor
  · rfl
  · exact hinv.1.get_none_iff t

/-- membership in the specification lists, spelled out -/
theorem mem_specTypeList (ms : List Member) (t : String) (it : Item) :
    it ∈ specTypeList ms t ↔ ∃ m ∈ ms, ∃ s ∈ m.services, ∃ n, splitName s = some (t, n) ∧
      it = { name := n, node := m.id, state := m.state, pid := some (address m, n) } := by
  simp only [specTypeList, List.mem_flatMap, List.mem_filterMap]
  constructor
  · rintro ⟨m, hm, s, hs, h⟩
    refine ⟨m, hm, s, hs, ?_⟩
    unfold specItem at h
    cases hsp : splitName s with
    | none => rw [hsp] at h; simp at h
    | some p =>
      obtain ⟨t', n⟩ := p
      rw [hsp] at h
      by_cases e : t' = t
      · subst e; simp at h; exact ⟨n, rfl, h.symm⟩
      · simp [e] at h
  · rintro ⟨m, hm, s, hs, n, hsp, rfl⟩
    exact ⟨m, hm, s, hs, by simp [specItem, hsp]⟩

/-- a service whose full name is not `type.name` (no dot, two dots, empty part) is skipped -/
theorem malformed_name_skipped (c : AL (List Item)) (node : String) (st : Int) (s : String)
    (h : splitName s = none) : addService c node st s = c := by
  simp [addService, h]

/-- **Name resolution, soundness**: whatever `GetService n` returns is an item of some type list,
named `n` — hence it carries the address of the member listing it. -/
theorem getService_sound (ms : List Member) (hd : DistinctIds ms) (n : String) (it : Item)
    (h : (makeMembers ms).getService n = some it) : it.name = n ∧ ∃ t, it ∈ specTypeList ms t := by
  have hs := allNames_sound (makeMembers ms).types [] n it (by simpa [makeMembers, Dir.getService, allNames] using h)
  rcases hs with hs | ⟨kv, hk, hx, hn⟩
  · simp [AL.get_nil] at hs
  · refine ⟨hn, kv.1, ?_⟩
    have hnd : NoDupKeys (makeMembers ms).types := by
      unfold NoDupKeys
      simp only [makeMembers]
      rw [keys_mapVal]
      exact (foldl_addServices_inv ms [] NEL.nil NoDupKeys.nil).2
    have := AL.get_of_mem _ hnd kv.1 kv.2 hk
    have h1 := (typeList_eq_spec ms hd kv.1).1
    simp only [Dir.getServiceList] at h1
    rw [this] at h1
    simp at h1
    rw [← h1]; exact hx

/-- **Name resolution, completeness**: every listed service name resolves to something -/
theorem getService_complete (ms : List Member) (hd : DistinctIds ms) (t : String) (it : Item)
    (h : it ∈ specTypeList ms t) : ∃ it', (makeMembers ms).getService it.name = some it' := by
  have h1 := typeList_eq_spec ms hd t
  simp only [Dir.getServiceList] at h1
  cases hc : AL.get (makeMembers ms).types t with
  | none => rw [hc] at h1; simp at h1; rw [h1] at h; simp at h
  | some l =>
    rw [hc] at h1; simp at h1
    have hm := AL.mem_of_get _ t l hc
    have := allNames_complete (makeMembers ms).types [] (t, l) it hm (by rw [h1.1]; exact h)
    obtain ⟨x, hx⟩ := Option.isSome_iff_exists.mp this
    exact ⟨x, by simpa [makeMembers, Dir.getService, allNames] using hx⟩

/-- service names are unique across the cluster (the deployment convention; the code logs
"duplicate service name" and keeps an arbitrary one otherwise) -/
def UniqueNames (ms : List Member) : Prop :=
  ∀ t t' a b, a ∈ specTypeList ms t → b ∈ specTypeList ms t' → a.name = b.name → a = b

/-- non-vacuity: a member with one well-formed service has unique names -/
example (s t n : String) (h : splitName s = some (t, n)) :
    UniqueNames [⟨"a", "h", 1, [s], 1⟩] := by
  intro t1 t2 a b ha hb _
  simp only [specTypeList, List.flatMap_cons, List.flatMap_nil, List.append_nil, List.filterMap_cons, List.filterMap_nil, specItem, h] at ha hb
  by_cases e1 : t = t1
  · by_cases e2 : t = t2
    · subst e1; subst e2; simp at ha hb; rw [ha, hb]
    · simp [e2] at hb
  · simp [e1] at ha

/-- **Every listed service resolves to its node's address**: with unique names, `GetService n`
for a service `t.n` listed by member `m` is the item `(n, m.id, m.state, PID m.host:m.port/n)`;
a name nobody lists resolves to nil. -/
theorem getService_resolves (ms : List Member) (hd : DistinctIds ms) (hu : UniqueNames ms)
    (m : Member) (hm : m ∈ ms) (s t n : String) (hs : s ∈ m.services) (hsp : splitName s = some (t, n)) :
    (makeMembers ms).getService n =
      some { name := n, node := m.id, state := m.state, pid := some (address m, n) } := by
  have hit : ({ name := n, node := m.id, state := m.state, pid := some (address m, n) } : Item) ∈ specTypeList ms t :=
    (mem_specTypeList ms t _).mpr ⟨m, hm, s, hs, n, hsp, rfl⟩
  obtain ⟨it', h'⟩ := getService_complete ms hd t _ hit
  obtain ⟨hn, t', ht'⟩ := getService_sound ms hd _ it' h'
  have := hu t' t it' _ ht' hit hn
  simp only at h'
  rw [h', this]

theorem getService_none (ms : List Member) (hd : DistinctIds ms) (n : String)
    (h : ∀ t, ∀ it ∈ specTypeList ms t, it.name ≠ n) : (makeMembers ms).getService n = none := by
  cases hg : (makeMembers ms).getService n with
  | none => rfl
  | some it =>
    obtain ⟨hn, t, ht⟩ := getService_sound ms hd n it hg
    exact absurd hn (h t it ht)

/-- non-vacuity of `UniqueNames` / `DistinctIds`: a two-node cluster -/
example : DistinctIds [⟨"a", "h", 1, ["gate.g1"], 1⟩, ⟨"b", "k", 2, ["gate.g2", "bad"], 0⟩] := by
  simp [DistinctIds]

/-- the member map of the directory is the member list -/
theorem members_eq (ms : List Member) (hd : DistinctIds ms) (id : String) (m : Member) :
    AL.get (makeMembers ms).getMembers id = some m ↔ (m ∈ ms ∧ m.id = id) := by
  constructor
  · intro h
    rcases membersOf_sound ms [] id m (by simpa [makeMembers, Dir.getMembers, membersOf] using h) with h' | h'
    · exact h'
    · simp [AL.get_nil] at h'
  · rintro ⟨hm, rfl⟩
    simpa [makeMembers, Dir.getMembers, membersOf] using membersOf_get ms hd m hm []

/-- **The directory is a function of the member *set***: the order in which the provider's Go map
yields the members does not matter — per-type and working lists of two orderings are
permutations of each other, and (with unique names) every name resolves identically. -/
theorem directory_is_function_of_member_set (ms ms' : List Member) (hp : ms.Perm ms')
    (hd : DistinctIds ms) (t : String) :
    (((makeMembers ms).getServiceList t).getD []).Perm (((makeMembers ms').getServiceList t).getD []) ∧
    (((makeMembers ms).getWorkServiceList t).getD []).Perm (((makeMembers ms').getWorkServiceList t).getD []) ∧
    (UniqueNames ms → ∀ n, (∃ it, (makeMembers ms).getService n = some it) →
        (makeMembers ms').getService n = (makeMembers ms).getService n) := by
  have hd' : DistinctIds ms' := (List.Perm.nodup_iff (hp.map (fun m : Member => m.id))).mp hd
  have hperm : ∀ t, (specTypeList ms t).Perm (specTypeList ms' t) := fun t => hp.flatMap_right _
  refine ⟨?_, ?_, ?_⟩
  · rw [(typeList_eq_spec ms hd t).1, (typeList_eq_spec ms' hd' t).1]; exact hperm t
  · rw [(workList_eq_spec ms t).1, (workList_eq_spec ms' t).1]
    exact ((hp.filter _).flatMap_right _).map _
  · intro hu n ⟨it, hit⟩
    obtain ⟨hn, t0, ht0⟩ := getService_sound ms hd n it hit
    have ht0' := (hperm t0).mem_iff.mp ht0
    obtain ⟨it', hit'⟩ := getService_complete ms' hd' t0 it ht0'
    obtain ⟨hn', t1, ht1⟩ := getService_sound ms' hd' _ it' hit'
    have ht1' := (hperm t1).mem_iff.mpr ht1
    have := hu t1 t0 it' it ht1' ht0 hn'
    rw [hit, ← hn, hit', this]

/-- **Directory equals membership, end to end**: two deliveries of the same history (any
batching) give directories with the same per-type lists (up to order) -/
theorem directory_is_function_of_history (selfId : String) (m : AL Node) (hm : NoDupKeys m)
    (bs bs' : List (List Ev)) (h : bs.flatten = bs'.flatten)
    (hk : Keyed (bs.foldl (foldBatch selfId) m)) (t : String) :
    (((makeMembers (publish (bs.foldl (foldBatch selfId) m))).getServiceList t).getD []).Perm
      (((makeMembers (publish (bs'.foldl (foldBatch selfId) m))).getServiceList t).getD []) ∧
    (((makeMembers (publish (bs.foldl (foldBatch selfId) m))).getWorkServiceList t).getD []).Perm
      (((makeMembers (publish (bs'.foldl (foldBatch selfId) m))).getWorkServiceList t).getD []) := by
  have hb := batching_independent selfId m hm bs bs' h
  have hd := published_ids_distinct _ (foldBatches_nodup selfId bs m hm) hk
  have := directory_is_function_of_member_set _ _ hb.2 hd t
  exact ⟨this.1, this.2.1⟩

/-! ## 4. a concurrent read sees one completely built view -/

/-- every field of the shared `ClusterServices` holds, at any moment, that field of one of the
views built so far -/
theorem field_of_some_view (vs : List Dir) (sts : List (Ref × Dir)) (hs : ∀ st ∈ sts, st.2 ∈ vs) :
    ∀ cur : Dir, (∀ f, ∃ v ∈ vs, cur.only f = v.only f) →
      ∀ f, ∃ v ∈ vs, (runStores cur sts).only f = v.only f := by
  induction sts with
  | nil => intro cur h; exact h
  | cons st sts ih =>
    intro cur h
    apply ih (fun s hs' => hs s (List.mem_cons_of_mem _ hs'))
    intro f
    obtain ⟨g, d⟩ := st
    have hd : d ∈ vs := hs (g, d) List.mem_cons_self
    by_cases e : f = g
    · subst e
      exact ⟨d, hd, by cases f <;> rfl⟩
    · obtain ⟨v, hv, hveq⟩ := h f
      refine ⟨v, hv, ?_⟩
      rw [← hveq]
      cases f <;> cases g <;> first | exact absurd rfl e | rfl

/-- **A read sees a whole view.**  Let the updater publish any sequence of views `pubs`
(each built completely by the pure `MakeMembers` before its first field store) on top of
`v0`, and let a getter perform its single field load after any number `k` of the updater's
field stores (any interleaving): its answer is the answer on `v0` or on one of the published
views — never a mixture. -/
theorem read_sees_whole_view (v0 : Dir) (pubs : List Dir) (k : Nat) (q : Query) :
    ∃ v ∈ v0 :: pubs, readAt v0 pubs k q = q.answer v := by
  have hs : ∀ st ∈ (storesOf pubs).take k, st.2 ∈ v0 :: pubs := by
    intro st hst
    have := List.mem_of_mem_take hst
    simp only [storesOf, List.mem_flatMap, List.mem_map] at this
    obtain ⟨d, hd, f, _, rfl⟩ := this
    exact List.mem_cons_of_mem _ hd
  obtain ⟨v, hv, e⟩ := field_of_some_view (v0 :: pubs) _ hs v0
    (fun f => ⟨v0, List.mem_cons_self, rfl⟩) q.field
  refine ⟨v, hv, ?_⟩
  unfold readAt
  rw [e]
  cases q <;> rfl

/-- the getters the model knows (`Query.goName`) -/
def getterNames : List String :=
  ["GetServiceList", "GetWorkServiceList", "GetWorkServices", "GetWorkServiceNames", "GetService", "GetMembers"]

/-- the premise of `read_sees_whole_view`, tied to the source: every getter of
`clusterservices.go` loads exactly the one field the model's query reads, exactly once
(transitively), stores nothing; `MakeMembers` stores the four fields after the pure builder
(whatever it and its helpers are called) returned, and that builder cannot touch a directory object; `Cluster`'s getters call one directory getter once and never replace the directory
object.  The facts are regenerated from /repo on every run. -/
theorem getter_facts_match_source :
    (∀ q : Query, (q.goName, [q.field.goName]) ∈ Cell2v.Gen.C08.methodLoads) ∧
    (∀ e ∈ Cell2v.Gen.C08.methodLoads, e.1 = "MakeMembers" ∨ (e.1 ∈ getterNames ∧ e.2.length = 1)) ∧
    (∀ e ∈ Cell2v.Gen.C08.methodStores, e.1 ≠ "MakeMembers" → e.2 = []) ∧
    ("MakeMembers", storeOrder.map Ref.goName) ∈ Cell2v.Gen.C08.methodStores ∧
    Cell2v.Gen.C08.buildBeforeStores = true ∧ Cell2v.Gen.C08.builderPure = true ∧
    (∀ e ∈ Cell2v.Gen.C08.clusterDelegates, e.1 = e.2 ∨ e = ("UpdateClusterTopology", "MakeMembers")) ∧
    (Cell2v.Gen.C08.clusterDelegates.map (·.1)).Nodup ∧
    Cell2v.Gen.C08.clusterServicesAssignedIn = [] := by
  refine ⟨?_, ?_, ?_, ?_, ?_, ?_, ?_, ?_, ?_⟩
  · intro q; cases q <;> simp [Query.goName, Query.field, Ref.goName, Cell2v.Gen.C08.methodLoads]
  · decide
  · decide
  · simp [storeOrder, Ref.goName, Cell2v.Gen.C08.methodStores]
  · rfl
  · rfl
  · decide
  · decide
  · rfl

def wItem : Item := { name := "g", node := "n", state := 1, pid := none }
def wNew : Dir := { services := [("g", wItem)], working := [("gate", [wItem])] }

/-- why the single load matters: a reader that loaded `services` and `workingServices` at two
different moments could see a name that resolves but is in no working list — an answer that
neither the old view (`{}`) nor the new one (`wNew`) gives -/
theorem two_loads_can_mix :
    let ans (dS dW : Dir) : Bool := (dS.getService "g").isSome && !(dW.getWorkServiceNames.contains "g")
    ans ({} : Dir) ({} : Dir) = false ∧ ans wNew wNew = false ∧
    ans (runStores {} ((storesOf [wNew]).take 4)) (runStores {} ((storesOf [wNew]).take 2)) = true := by
  simp [runStores, storesOf, storeOrder, Dir.store, wNew, wItem, Dir.getService, Dir.getWorkServiceNames,
    Dir.getWorkServices, AL.get]

/-! ## 5. start-up: the initial publication cannot be overtaken -/

/-- publications stored one after the other leave the directory at the last one -/
theorem sequential_publications_end_in_last (pubs : List Dir) : ∀ v0 : Dir,
    runStores v0 (storesOf pubs) = pubs.getLast?.getD v0 := by
  induction pubs with
  | nil => intro v0; rfl
  | cons d ps ih =>
    intro v0
    have h4 : runStores v0 (storeOrder.map (fun f => (f, d))) = d := rfl
    have : storesOf (d :: ps) = storeOrder.map (fun f => (f, d)) ++ storesOf ps := by
      simp [storesOf]
    rw [this]
    simp only [runStores, List.foldl_append] at h4 ⊢
    rw [h4]
    have := ih d
    simp only [runStores] at this
    rw [this]
    cases ps with
    | nil => rfl
    | cons a t =>
      cases h : (a :: t).getLast? with
      | none => simp at h
      | some x => simp [h]

/-- … so a publication computed *earlier* but stored *later* (the initial one, if a watcher
goroutine could already publish while it is under way) leaves the directory stale: it ends with
the older view `p1` although `p2` was computed from more events -/
theorem overtaken_initial_store_is_stale (v0 p1 p2 : Dir) : runStores v0 (storesOf [p2, p1]) = p1 :=
  sequential_publications_end_in_last [p2, p1] v0

/-- that cannot happen in the code: in `StartMember` and `StartClient` (calls on the receiver
expanded in place, whatever the helpers are called) the initial publication is complete before
the first goroutine that can publish is started.  Facts regenerated from /repo on every run. -/
theorem initial_publish_before_watch :
    Cell2v.Gen.C08.startFlow.map (·.1) = ["StartClient", "StartMember"] ∧
    ∀ e ∈ Cell2v.Gen.C08.startFlow,
      (e.2.takeWhile (· != "spawn-publisher")).contains "publish" = true ∧
      e.2.contains "spawn-publisher" = true := by
  decide

end Cell2v.Props.C08
