import Cell2v.Lemmas.Directory
import Cell2v.Lemmas.DirectorySys
import Cell2v.Gen.C08Facts
/-!
C08 — the service directory always equals the current cluster membership.

Only property statements, non-vacuity examples and defect witnesses.
Vocabulary (Model/Directory.lean):
* `foldBatch`  — one watch response through `handleWatchResponse` + `updateNodesWithChanges`
                 (the code as it is now); `foldBatchD9` the code before commit 8aff80e;
* `implied`    — the events applied one at a time with set semantics (the specification);
* `look`       — the member map as a function `node id → Option Node`;
* `pstep/prun` — the provider as a machine (listing, watch responses, own state changes);
* `makeMembers`— `MakeMembers` statement by statement; `specTypeList/specWorkList` the
                 declarative content of the directory;
* `readAt`     — a getter's single field load interleaved with the updater's field stores.
-/
namespace Cell2v.Props.C08
open Cell2v.Directory
set_option linter.unusedSimpArgs false

/-! ## 1. the fold of any batched history equals what the events imply -/

/-- **Batching independence.**  For every member map, every event history and *every*
way the watch delivers it in responses (including empty ones), folding the responses
with the code's batch algorithm gives exactly the events applied one at a time. -/
theorem fold_eq_implied (selfId : String) (m : AL Node) (bs : List (List Ev)) :
    look (bs.foldl (foldBatch selfId) m) = implied selfId (look m) bs.flatten :=
  look_foldBatches selfId bs m

/-- two deliveries of the same history end in the same member set, and the member lists
published from them are equal up to order (Go map iteration order) -/
theorem batching_independent (selfId : String) (m : AL Node) (hm : NoDupKeys m)
    (bs bs' : List (List Ev)) (h : bs.flatten = bs'.flatten) :
    look (bs.foldl (foldBatch selfId) m) = look (bs'.foldl (foldBatch selfId) m) ∧
    (publish (bs.foldl (foldBatch selfId) m)).Perm (publish (bs'.foldl (foldBatch selfId) m)) := by
  have e : look (bs.foldl (foldBatch selfId) m) = look (bs'.foldl (foldBatch selfId) m) := by
    rw [fold_eq_implied, fold_eq_implied, h]
  exact ⟨e, publish_perm _ _ (foldBatches_nodup selfId bs m hm) (foldBatches_nodup selfId bs' m hm) e⟩

example : ([[Ev.put "a" default, .del "a"], []] : List (List Ev)).flatten = [[.put "a" default], [.del "a"]].flatten := rfl

/-- the published list is a function of the implied member set: the map never holds a node twice -/
theorem published_once_per_member (selfId : String) (m : AL Node) (hm : NoDupKeys m) (bs : List (List Ev)) :
    NoDupKeys (bs.foldl (foldBatch selfId) m) ∧
    ∀ k n, (k, n) ∈ bs.foldl (foldBatch selfId) m ↔ implied selfId (look m) bs.flatten k = some n := by
  have hn := foldBatches_nodup selfId bs m hm
  refine ⟨hn, fun k n => ?_⟩
  rw [← fold_eq_implied]
  exact ⟨AL.get_of_mem _ hn k n, AL.mem_of_get _ k n⟩

/-- what the machine does with one response: an empty response publishes nothing and changes
nothing; a non-empty one publishes exactly the member set its events imply -/
theorem response_publishes_implied (s : PState) (evs : List Ev) :
    (evs = [] → pstep s (.response evs) = (s, none)) ∧
    (evs ≠ [] → ∃ s', pstep s (.response evs) = (s', some (publish s'.members)) ∧
        look s'.members = implied s.self.id (look s.members) evs ∧ s'.self = s.self) := by
  constructor
  · intro h; subst h; rfl
  · intro h
    have he : ¬ evs.isEmpty = true := by simpa using h
    refine ⟨respond s evs, ?_, ?_, rfl⟩
    · simp only [pstep]; rw [if_neg he]
    · simpa [respond, foldBatch] using look_foldBatch s.self.id s.members evs

/-- **Initial listing**: the member map after `StartMember`'s listing step holds the node's own
object under its id (whatever the listing said about it), one of the fetched nodes for every
fetched id, and nothing else new. -/
theorem listing_is_fetched_plus_self (self : Node) (m : AL Node) (ns : List Node) :
    AL.get (updateNodesWithSelf self m ns) self.id = some self ∧
    (∀ n ∈ ns, n.id ≠ self.id → ∃ n' ∈ ns, n'.id = n.id ∧ AL.get (updateNodesWithSelf self m ns) n.id = some n') ∧
    (∀ k, k ≠ self.id → k ∉ ns.map (·.id) → AL.get (updateNodesWithSelf self m ns) k = AL.get m k) := by
  refine ⟨AL.get_set_same _ _ _, ?_, ?_⟩
  · intro n hn hne
    obtain ⟨n', hn', hid, hg⟩ := updateNodes_get_mem ns n hn m
    exact ⟨n', hn', hid, by simp only [updateNodesWithSelf]; rw [AL.get_set_ne _ _ hne]; exact hg⟩
  · intro k hk hnot
    simp only [updateNodesWithSelf]
    rw [AL.get_set_ne _ _ hk, updateNodes_get_not_mem ns k hnot]

/-! ### the sequential semantics has the clauses the property names -/

/-- a duplicate of any event (re-delivered PUT, second DELETE, …) changes nothing -/
theorem duplicate_event_idempotent (selfId : String) (m : FM) (h t : List Ev) (e : Ev) :
    implied selfId m (h ++ e :: e :: t) = implied selfId m (h ++ e :: t) := by
  simp only [implied, List.foldl_append, List.foldl_cons, seqStep_idem]

/-- … hence so does the code, however the two histories are batched -/
theorem duplicate_event_idempotent_code (selfId : String) (m : AL Node) (h t : List Ev) (e : Ev)
    (bs bs' : List (List Ev)) (hb : bs.flatten = h ++ e :: e :: t) (hb' : bs'.flatten = h ++ e :: t) :
    look (bs.foldl (foldBatch selfId) m) = look (bs'.foldl (foldBatch selfId) m) := by
  rw [fold_eq_implied, fold_eq_implied, hb, hb', duplicate_event_idempotent]

/-- deleting an unknown node is a no-op -/
theorem delete_unknown_noop (selfId : String) (m : AL Node) (k : String) (h : look m k = none) :
    look (foldBatch selfId m [.del k]) = look m := by
  rw [look_foldBatch]; simp [implied, seqStep, h]

/-- a re-registration (changed state, services, address) replaces the member -/
theorem reregistration_replaces (selfId : String) (m : AL Node) (h : List Ev) (k : String) (n : Node)
    (hs : n.id ≠ selfId) (ha : n.alive = true) (bs : List (List Ev)) (hb : bs.flatten = h ++ [.put k n]) :
    look (bs.foldl (foldBatch selfId) m) k = some n := by
  rw [fold_eq_implied, hb, implied_append]
  simp [implied, seqStep, hs, ha, FM.upd]

/-- a registration that says `alive=false`, and a DELETE of another node, remove the member -/
theorem dead_or_deleted_is_removed (selfId : String) (m : AL Node) (h : List Ev) (k : String)
    (bs : List (List Ev)) :
    (∀ n : Node, n.id ≠ selfId → n.alive = false → bs.flatten = h ++ [.put k n] →
        look (bs.foldl (foldBatch selfId) m) k = none) ∧
    (bs.flatten = h ++ [.del k] →
        (∀ v, implied selfId (look m) h k = some v → v.id ≠ selfId) →
        look (bs.foldl (foldBatch selfId) m) k = none) := by
  constructor
  · intro n hs ha hb
    rw [fold_eq_implied, hb, implied_append]
    simp [implied, seqStep, hs, ha, FM.upd]
  · intro hb hv
    rw [fold_eq_implied, hb, implied_append]
    simp only [implied, List.foldl_cons, List.foldl_nil, seqStep]
    cases hk : List.foldl (seqStep selfId) (look m) h k with
    | none => simpa using hk
    | some v =>
      have := hv v hk
      simp [this, FM.upd]

/-- events whose value does not parse, and events of an unknown type, are ignored -/
theorem invalid_events_ignored (selfId : String) (m : AL Node) (k : String) :
    look (foldBatch selfId m [.bad k]) = look m ∧ look (foldBatch selfId m [.unk k]) = look m := by
  constructor <;> (rw [look_foldBatch]; rfl)

/-- events about the node itself (its own registration echoed back, the expiry of its
own lease) never change the map -/
theorem self_events_ignored (selfId : String) (m : AL Node) (hk : Keyed m) (k : String) (n : Node)
    (hn : n.id = selfId) :
    look (foldBatch selfId m [.put k n]) = look m ∧ look (foldBatch selfId m [.del selfId]) = look m := by
  constructor
  · rw [look_foldBatch]; simp [implied, seqStep, hn]
  · rw [look_foldBatch]
    simp only [implied, List.foldl_cons, List.foldl_nil, seqStep]
    cases h : look m selfId with
    | none => rfl
    | some v => simp [hk selfId v h]

/-! ### D9: the code before commit 8aff80e -/

def wNode : Node := { id := "x", host := "h", addr := "h", port := 1, services := [], alive := true, state := 1 }

/-- **D9 witness**: the response `[PUT x (new), DELETE x]` left `x` in the directory although
the events imply its absence; the repaired fold removes it. -/
theorem d9_prefix_fold_differs_from_implied :
    look (foldBatchD9 "self" [] [.put "x" wNode, .del "x"]) "x" = some wNode ∧
    implied "self" (look []) [.put "x" wNode, .del "x"] "x" = none ∧
    look (foldBatch "self" [] [.put "x" wNode, .del "x"]) "x" = none := by
  refine ⟨?_, ?_, ?_⟩
  · simp [foldBatchD9, chStepD9, updateNodesWithChanges, applyChange, look, wNode, AL.set, AL.erase, AL.get]
  · simp [implied, seqStep, look, wNode, FM.upd, AL.get]
  · rw [look_foldBatch]; simp [implied, seqStep, look, wNode, FM.upd, AL.get]

/-! ## 2. the node itself is always present -/

/-- **Self is always present.**  After the initial listing (whatever it contained — stale
copies of the node itself, duplicates, dead nodes), over every history of well-formed
responses (every registration stored under its node's own id, as cell2 writes them),
empty responses and own state changes, every published list contains the node itself
with its own address and services. -/
theorem self_always_present (self : Node) (ns : List Node) (ops : List POp) (hw : ∀ op ∈ ops, OpWf op) :
    ∀ pub ∈ (prun { self := self } (.listing ns :: ops)).2,
      ∃ m ∈ pub, m.id = self.id ∧ m.host = self.member.host ∧ m.port = toInt32 self.port ∧ m.services = self.services := by
  have key : ∀ (ops : List POp) (s : PState), PInv s → s.selfIn = true → (∀ op ∈ ops, OpWf op) →
      ∀ pub ∈ (prun s ops).2, ∃ m ∈ pub, m.id = s.self.id ∧ m.host = s.self.member.host ∧
        m.port = toInt32 s.self.port ∧ m.services = s.self.services := by
    intro ops
    induction ops with
    | nil => intro s _ _ _ pub hp; simp [prun] at hp
    | cons op ops ih =>
      intro s hi hl hw pub hp
      have hi' := pstep_inv s op hi (hw op List.mem_cons_self)
      have hl' := pstep_listed s op hi (hw op List.mem_cons_self) hl
      have hid : (pstep s op).1.self.id = s.self.id ∧ (pstep s op).1.self.member.host = s.self.member.host ∧
          (pstep s op).1.self.port = s.self.port ∧ (pstep s op).1.self.services = s.self.services := by
        cases op with
        | listing ns => exact ⟨rfl, rfl, rfl, rfl⟩
        | setState st => exact ⟨rfl, rfl, rfl, rfl⟩
        | response evs => simp only [pstep]; split <;> exact ⟨rfl, rfl, rfl, rfl⟩
      simp only [prun, List.mem_append] at hp
      rcases hp with hp | hp
      · cases ho : (pstep s op).2 with
        | none => rw [ho] at hp; simp at hp
        | some p =>
          rw [ho] at hp
          simp at hp
          subst hp
          rw [pstep_pub s op pub ho]
          exact ⟨_, self_in_pub _ hi' hl', hid.1, hid.2.1, congrArg toInt32 hid.2.2.1, hid.2.2.2⟩
      · obtain ⟨m, hm, h1, h2, h3, h4⟩ := ih _ hi' hl' (fun o ho => hw o (List.mem_cons_of_mem _ ho)) pub hp
        exact ⟨m, hm, h1.trans hid.1, h2.trans hid.2.1, h3.trans (congrArg toInt32 hid.2.2.1), h4.trans hid.2.2.2⟩
  intro pub hp
  simp only [prun, List.mem_append] at hp
  have hi := pstep_inv { self := self } (.listing ns) (PInv.init self) trivial
  rcases hp with hp | hp
  · simp [pstep] at hp
    subst hp
    exact ⟨self.member, self_in_pub _ hi rfl, rfl, rfl, rfl, rfl⟩
  · exact key ops _ hi rfl hw pub hp

/-- a port that fits `int32` is published as it is (`Member.Port` is `int32(port)`) -/
theorem port_in_range_unchanged (x : Int) (h : -2147483648 ≤ x ∧ x < 2147483648) : toInt32 x = x := by
  unfold toInt32; omega

/-- non-vacuity: a well-formed history that deletes the node's own key and echoes its registration -/
example : ∀ op ∈ [POp.response [.del "c@n0", .put "c@n0" { (default : Node) with id := "c@n0" }], .setState 2, .response []],
    OpWf op := by
  intro op h
  simp at h
  rcases h with h | h | h <;> subst h <;> simp [OpWf, EvWf]

/-- … and it is published with its *current* state: a step that publishes shows the node's own
object, whose state `UpdateClusterState` has changed in place -/
theorem self_published_with_current_state (s : PState) (op : POp) (hi : PInv s) (hl : s.selfIn = true)
    (hw : OpWf op) (pub : List Member) (h : (pstep s op).2 = some pub) :
    (pstep s op).1.self.member ∈ pub ∧
    (∀ st, op = .setState st → (pstep s op).1.self.state = st) := by
  constructor
  · rw [pstep_pub s op pub h]
    exact self_in_pub _ (pstep_inv s op hi hw) (pstep_listed s op hi hw hl)
  · intro st e; subst e; rfl

/-- the invariant behind it holds from the start and is kept by every well-formed step:
no node twice, every node under its own id, the node's own object in place -/
theorem provider_invariant (self : Node) (ops : List POp) (hw : ∀ op ∈ ops, OpWf op) :
    PInv (prun { self := self } ops).1 := by
  have key : ∀ (ops : List POp) (s : PState), PInv s → (∀ op ∈ ops, OpWf op) → PInv (prun s ops).1 := by
    intro ops
    induction ops with
    | nil => intro s hi _; exact hi
    | cons op ops ih =>
      intro s hi hw
      exact ih _ (pstep_inv s op hi (hw op List.mem_cons_self)) (fun o ho => hw o (List.mem_cons_of_mem _ ho))
  exact key ops _ (PInv.init self) hw

/-! ## 3. the directory is a function of the member list -/

/-- ids of a member list are pairwise different (true of every published list, see
`published_ids_distinct`) -/
def DistinctIds (ms : List Member) : Prop := (ms.map (·.id)).Nodup

theorem published_ids_distinct (m : AL Node) (hn : NoDupKeys m) (hk : Keyed m) : DistinctIds (publish m) := by
  unfold DistinctIds publish
  have : (m.map (·.2.member)).map (·.id) = AL.keys m := by
    simp only [List.map_map, AL.keys]
    apply List.map_congr_left
    intro p hp
    obtain ⟨k, v⟩ := p
    have := hk k v (AL.get_of_mem m hn k v hp)
    simpa [Node.member] using this
  rw [this]; exact hn

/-- **Per-type lists**: `GetServiceList t` holds exactly the well-formed services `t.name` of all
members, each resolved to `host:port` of the member that lists it — in member order then
service order; it is nil exactly when there is none. -/
theorem typeList_eq_spec (ms : List Member) (hd : DistinctIds ms) (t : String) :
    ((makeMembers ms).getServiceList t).getD [] = specTypeList ms t ∧
    ((makeMembers ms).getServiceList t = none ↔ specTypeList ms t = []) := by
  have hget : ∀ m ∈ ms, AL.get (membersOf ms []) m.id = some m := fun m hm => membersOf_get ms hd m hm []
  have hl := foldl_addServices t ms []
  have hinv := foldl_addServices_inv ms [] NEL.nil NoDupKeys.nil
  have hmap := map_makePID_raw (membersOf ms []) t ms hget
  simp only [lst, AL.get_nil, Option.getD_none, List.nil_append] at hl
  have e : (makeMembers ms).getServiceList t = (AL.get (ms.foldl addServices []) t).map (List.map (makePID (membersOf ms []))) := by
    simp only [makeMembers, Dir.getServiceList]
    exact get_mapVal _ _ t
  constructor
  · rw [e]
    cases hc : AL.get (ms.foldl addServices []) t with
    | none => rw [hc] at hl; simp at hl; rw [← hmap, hl]; rfl
    | some l => rw [hc] at hl; simp at hl; rw [← hmap, ← hl]; rfl
  · rw [e]
    cases hc : AL.get (ms.foldl addServices []) t with
    | none => rw [hc] at hl; simp at hl; rw [← hmap, hl]; simp
    | some l =>
      rw [hc] at hl; simp at hl
      have : l ≠ [] := hinv.1 t l hc
      rw [← hmap, ← hl]; simp [this]

/-- **Working lists**: `GetWorkServiceList t` holds exactly the services of type `t` on members
whose state is Working.  (Their `PID` field is nil in the code — only the per-type list is
passed through `makePID` — which the specification `specWorkList` records.) -/
theorem workList_eq_spec (ms : List Member) (t : String) :
    ((makeMembers ms).getWorkServiceList t).getD [] = specWorkList ms t ∧
    ((makeMembers ms).getWorkServiceList t = none ↔ specWorkList ms t = []) := by
  have hl := foldl_addWorking t ms []
  have hinv := foldl_addWorking_inv ms [] NEL.nil NoDupKeys.nil
  simp only [lst, AL.get_nil, Option.getD_none, List.nil_append] at hl
  have hs : specWorkList ms t = rawTypeList (ms.filter (fun m => isWork m.state)) t := strip_spec t _
  have e : (makeMembers ms).getWorkServiceList t = AL.get (ms.foldl addWorking []) t := rfl
  rw [e, hs, ← hl]
  constructor
  · rfl
  · exact hinv.1.get_none_iff t

/-- membership in the specification lists, spelled out -/
theorem mem_specTypeList (ms : List Member) (t : String) (it : Item) :
    it ∈ specTypeList ms t ↔ ∃ m ∈ ms, ∃ s ∈ m.services, ∃ n, splitName s = some (t, n) ∧
      it = { name := n, node := m.id, state := m.state, pid := some (address m, n) } := by
  simp only [specTypeList, List.mem_flatMap, List.mem_filterMap]
  constructor
  · rintro ⟨m, hm, s, hs, h⟩
    refine ⟨m, hm, s, hs, ?_⟩
    unfold specItem at h
    cases hsp : splitName s with
    | none => rw [hsp] at h; simp at h
    | some p =>
      obtain ⟨t', n⟩ := p
      rw [hsp] at h
      by_cases e : t' = t
      · subst e; simp at h; exact ⟨n, rfl, h.symm⟩
      · simp [e] at h
  · rintro ⟨m, hm, s, hs, n, hsp, rfl⟩
    exact ⟨m, hm, s, hs, by simp [specItem, hsp]⟩

/-- a service whose full name is not `type.name` (no dot, two dots, empty part) is skipped -/
theorem malformed_name_skipped (c : AL (List Item)) (node : String) (st : Int) (s : String)
    (h : splitName s = none) : addService c node st s = c := by
  simp [addService, h]

/-- **Name resolution, soundness**: whatever `GetService n` returns is an item of some type list,
named `n` — hence it carries the address of the member listing it. -/
theorem getService_sound (ms : List Member) (hd : DistinctIds ms) (n : String) (it : Item)
    (h : (makeMembers ms).getService n = some it) : it.name = n ∧ ∃ t, it ∈ specTypeList ms t := by
  have hs := allNames_sound (makeMembers ms).types [] n it (by simpa [makeMembers, Dir.getService, allNames] using h)
  rcases hs with hs | ⟨kv, hk, hx, hn⟩
  · simp [AL.get_nil] at hs
  · refine ⟨hn, kv.1, ?_⟩
    have hnd : NoDupKeys (makeMembers ms).types := by
      unfold NoDupKeys
      simp only [makeMembers]
      rw [keys_mapVal]
      exact (foldl_addServices_inv ms [] NEL.nil NoDupKeys.nil).2
    have := AL.get_of_mem _ hnd kv.1 kv.2 hk
    have h1 := (typeList_eq_spec ms hd kv.1).1
    simp only [Dir.getServiceList] at h1
    rw [this] at h1
    simp at h1
    rw [← h1]; exact hx

/-- **Name resolution, completeness**: every listed service name resolves to something -/
theorem getService_complete (ms : List Member) (hd : DistinctIds ms) (t : String) (it : Item)
    (h : it ∈ specTypeList ms t) : ∃ it', (makeMembers ms).getService it.name = some it' := by
  have h1 := typeList_eq_spec ms hd t
  simp only [Dir.getServiceList] at h1
  cases hc : AL.get (makeMembers ms).types t with
  | none => rw [hc] at h1; simp at h1; rw [h1] at h; simp at h
  | some l =>
    rw [hc] at h1; simp at h1
    have hm := AL.mem_of_get _ t l hc
    have := allNames_complete (makeMembers ms).types [] (t, l) it hm (by rw [h1.1]; exact h)
    obtain ⟨x, hx⟩ := Option.isSome_iff_exists.mp this
    exact ⟨x, by simpa [makeMembers, Dir.getService, allNames] using hx⟩

/-- service names are unique across the cluster (the deployment convention; the code logs
"duplicate service name" and keeps an arbitrary one otherwise) -/
def UniqueNames (ms : List Member) : Prop :=
  ∀ t t' a b, a ∈ specTypeList ms t → b ∈ specTypeList ms t' → a.name = b.name → a = b

/-- non-vacuity: a member with one well-formed service has unique names -/
example (s t n : String) (h : splitName s = some (t, n)) :
    UniqueNames [⟨"a", "h", 1, [s], 1⟩] := by
  intro t1 t2 a b ha hb _
  simp only [specTypeList, List.flatMap_cons, List.flatMap_nil, List.append_nil, List.filterMap_cons, List.filterMap_nil, specItem, h] at ha hb
  by_cases e1 : t = t1
  · by_cases e2 : t = t2
    · subst e1; subst e2; simp at ha hb; rw [ha, hb]
    · simp [e2] at hb
  · simp [e1] at ha

/-- **Every listed service resolves to its node's address**: with unique names, `GetService n`
for a service `t.n` listed by member `m` is the item `(n, m.id, m.state, PID m.host:m.port/n)`;
a name nobody lists resolves to nil. -/
theorem getService_resolves (ms : List Member) (hd : DistinctIds ms) (hu : UniqueNames ms)
    (m : Member) (hm : m ∈ ms) (s t n : String) (hs : s ∈ m.services) (hsp : splitName s = some (t, n)) :
    (makeMembers ms).getService n =
      some { name := n, node := m.id, state := m.state, pid := some (address m, n) } := by
  have hit : ({ name := n, node := m.id, state := m.state, pid := some (address m, n) } : Item) ∈ specTypeList ms t :=
    (mem_specTypeList ms t _).mpr ⟨m, hm, s, hs, n, hsp, rfl⟩
  obtain ⟨it', h'⟩ := getService_complete ms hd t _ hit
  obtain ⟨hn, t', ht'⟩ := getService_sound ms hd _ it' h'
  have := hu t' t it' _ ht' hit hn
  simp only at h'
  rw [h', this]

theorem getService_none (ms : List Member) (hd : DistinctIds ms) (n : String)
    (h : ∀ t, ∀ it ∈ specTypeList ms t, it.name ≠ n) : (makeMembers ms).getService n = none := by
  cases hg : (makeMembers ms).getService n with
  | none => rfl
  | some it =>
    obtain ⟨hn, t, ht⟩ := getService_sound ms hd n it hg
    exact absurd hn (h t it ht)

/-- non-vacuity of `UniqueNames` / `DistinctIds`: a two-node cluster -/
example : DistinctIds [⟨"a", "h", 1, ["gate.g1"], 1⟩, ⟨"b", "k", 2, ["gate.g2", "bad"], 0⟩] := by
  simp [DistinctIds]

/-- the member map of the directory is the member list -/
theorem members_eq (ms : List Member) (hd : DistinctIds ms) (id : String) (m : Member) :
    AL.get (makeMembers ms).getMembers id = some m ↔ (m ∈ ms ∧ m.id = id) := by
  constructor
  · intro h
    rcases membersOf_sound ms [] id m (by simpa [makeMembers, Dir.getMembers, membersOf] using h) with h' | h'
    · exact h'
    · simp [AL.get_nil] at h'
  · rintro ⟨hm, rfl⟩
    simpa [makeMembers, Dir.getMembers, membersOf] using membersOf_get ms hd m hm []

/-- **The directory is a function of the member *set***: the order in which the provider's Go map
yields the members does not matter — per-type and working lists of two orderings are
permutations of each other, and (with unique names) every name resolves identically. -/
theorem directory_is_function_of_member_set (ms ms' : List Member) (hp : ms.Perm ms')
    (hd : DistinctIds ms) (t : String) :
    (((makeMembers ms).getServiceList t).getD []).Perm (((makeMembers ms').getServiceList t).getD []) ∧
    (((makeMembers ms).getWorkServiceList t).getD []).Perm (((makeMembers ms').getWorkServiceList t).getD []) ∧
    (UniqueNames ms → ∀ n, (∃ it, (makeMembers ms).getService n = some it) →
        (makeMembers ms').getService n = (makeMembers ms).getService n) := by
  have hd' : DistinctIds ms' := (List.Perm.nodup_iff (hp.map (fun m : Member => m.id))).mp hd
  have hperm : ∀ t, (specTypeList ms t).Perm (specTypeList ms' t) := fun t => hp.flatMap_right _
  refine ⟨?_, ?_, ?_⟩
  · rw [(typeList_eq_spec ms hd t).1, (typeList_eq_spec ms' hd' t).1]; exact hperm t
  · rw [(workList_eq_spec ms t).1, (workList_eq_spec ms' t).1]
    exact ((hp.filter _).flatMap_right _).map _
  · intro hu n ⟨it, hit⟩
    obtain ⟨hn, t0, ht0⟩ := getService_sound ms hd n it hit
    have ht0' := (hperm t0).mem_iff.mp ht0
    obtain ⟨it', hit'⟩ := getService_complete ms' hd' t0 it ht0'
    obtain ⟨hn', t1, ht1⟩ := getService_sound ms' hd' _ it' hit'
    have ht1' := (hperm t1).mem_iff.mpr ht1
    have := hu t1 t0 it' it ht1' ht0 hn'
    rw [hit, ← hn, hit', this]

/-- **Directory equals membership, end to end**: two deliveries of the same history (any
batching) give directories with the same per-type lists (up to order) -/
theorem directory_is_function_of_history (selfId : String) (m : AL Node) (hm : NoDupKeys m)
    (bs bs' : List (List Ev)) (h : bs.flatten = bs'.flatten)
    (hk : Keyed (bs.foldl (foldBatch selfId) m)) (t : String) :
    (((makeMembers (publish (bs.foldl (foldBatch selfId) m))).getServiceList t).getD []).Perm
      (((makeMembers (publish (bs'.foldl (foldBatch selfId) m))).getServiceList t).getD []) ∧
    (((makeMembers (publish (bs.foldl (foldBatch selfId) m))).getWorkServiceList t).getD []).Perm
      (((makeMembers (publish (bs'.foldl (foldBatch selfId) m))).getWorkServiceList t).getD []) := by
  have hb := batching_independent selfId m hm bs bs' h
  have hd := published_ids_distinct _ (foldBatches_nodup selfId bs m hm) hk
  have := directory_is_function_of_member_set _ _ hb.2 hd t
  exact ⟨this.1, this.2.1⟩

/-! ## 4. a concurrent read sees one completely built view -/

/-- every field of the shared `ClusterServices` holds, at any moment, that field of one of the
views built so far -/
theorem field_of_some_view (vs : List Dir) (sts : List (Ref × Dir)) (hs : ∀ st ∈ sts, st.2 ∈ vs) :
    ∀ cur : Dir, (∀ f, ∃ v ∈ vs, cur.only f = v.only f) →
      ∀ f, ∃ v ∈ vs, (runStores cur sts).only f = v.only f := by
  induction sts with
  | nil => intro cur h; exact h
  | cons st sts ih =>
    intro cur h
    apply ih (fun s hs' => hs s (List.mem_cons_of_mem _ hs'))
    intro f
    obtain ⟨g, d⟩ := st
    have hd : d ∈ vs := hs (g, d) List.mem_cons_self
    by_cases e : f = g
    · subst e
      exact ⟨d, hd, by cases f <;> rfl⟩
    · obtain ⟨v, hv, hveq⟩ := h f
      refine ⟨v, hv, ?_⟩
      rw [← hveq]
      cases f <;> cases g <;> first | exact absurd rfl e | rfl

/-- **A read sees a whole view.**  Let the updater publish any sequence of views `pubs`
(each built completely by the pure `MakeMembers` before its first field store) on top of
`v0`, and let a getter perform its single field load after any number `k` of the updater's
field stores (any interleaving): its answer is the answer on `v0` or on one of the published
views — never a mixture. -/
theorem read_sees_whole_view (v0 : Dir) (pubs : List Dir) (k : Nat) (q : Query) :
    ∃ v ∈ v0 :: pubs, readAt v0 pubs k q = q.answer v := by
  have hs : ∀ st ∈ (storesOf pubs).take k, st.2 ∈ v0 :: pubs := by
    intro st hst
    have := List.mem_of_mem_take hst
    simp only [storesOf, List.mem_flatMap, List.mem_map] at this
    obtain ⟨d, hd, f, _, rfl⟩ := this
    exact List.mem_cons_of_mem _ hd
  obtain ⟨v, hv, e⟩ := field_of_some_view (v0 :: pubs) _ hs v0
    (fun f => ⟨v0, List.mem_cons_self, rfl⟩) q.field
  refine ⟨v, hv, ?_⟩
  unfold readAt
  rw [e]
  cases q <;> rfl

/-- the getters the model knows (`Query.goName`) -/
def getterNames : List String :=
  ["GetServiceList", "GetWorkServiceList", "GetWorkServices", "GetWorkServiceNames", "GetService", "GetMembers"]

/-- the premise of `read_sees_whole_view`, tied to the source: every getter of
`clusterservices.go` loads exactly the one field the model's query reads, exactly once
(transitively), stores nothing; `MakeMembers` stores the four fields after the pure builder
(whatever it and its helpers are called) returned, and that builder cannot touch a directory object; `Cluster`'s getters call one directory getter once and never replace the directory
object.  The facts are regenerated from /repo on every run. -/
theorem getter_facts_match_source :
    (∀ q : Query, (q.goName, [q.field.goName]) ∈ Cell2v.Gen.C08.methodLoads) ∧
    (∀ e ∈ Cell2v.Gen.C08.methodLoads, e.1 = "MakeMembers" ∨ (e.1 ∈ getterNames ∧ e.2.length = 1)) ∧
    (∀ e ∈ Cell2v.Gen.C08.methodStores, e.1 ≠ "MakeMembers" → e.2 = []) ∧
    ("MakeMembers", storeOrder.map Ref.goName) ∈ Cell2v.Gen.C08.methodStores ∧
    Cell2v.Gen.C08.buildBeforeStores = true ∧ Cell2v.Gen.C08.builderPure = true ∧
    (∀ e ∈ Cell2v.Gen.C08.clusterDelegates, e.1 = e.2 ∨ e = ("UpdateClusterTopology", "MakeMembers")) ∧
    (Cell2v.Gen.C08.clusterDelegates.map (·.1)).Nodup ∧
    Cell2v.Gen.C08.clusterServicesAssignedIn = [] := by
  refine ⟨?_, ?_, ?_, ?_, ?_, ?_, ?_, ?_, ?_⟩
  · intro q; cases q <;> simp [Query.goName, Query.field, Ref.goName, Cell2v.Gen.C08.methodLoads]
  · decide
  · decide
  · simp [storeOrder, Ref.goName, Cell2v.Gen.C08.methodStores]
  · rfl
  · rfl
  · decide
  · decide
  · rfl

/-- the queries applications actually issue — the helper functions of package app
(`GetServicePID`, `GetWorkServicePID`, `GetFirstWorkService`, `RandGetWorkService`, `defaultRoute`,
`Request`, `Notify`, …, whatever they are called) — each call exactly one directory getter,
exactly once (transitively), outside any loop or function literal.  Facts regenerated from
/repo on every run. -/
theorem helper_queries_single_getter :
    Cell2v.Gen.C08.helperQueries ≠ [] ∧
    ∀ e ∈ Cell2v.Gen.C08.helperQueries, ∃ g ∈ getterNames, e.2 = [g] := by
  decide

/-- … hence whatever a helper computes from its getter's answer (first item, random item, the
PID of the item, nil unless working, …) it computes from one completely built view -/
theorem helper_query_sees_whole_view {β : Type} (f : Answer → β) (v0 : Dir) (pubs : List Dir) (k : Nat) (q : Query) :
    ∃ v ∈ v0 :: pubs, f (readAt v0 pubs k q) = f (q.answer v) := by
  obtain ⟨v, hv, e⟩ := read_sees_whole_view v0 pubs k q
  exact ⟨v, hv, by rw [e]⟩

def wItem : Item := { name := "g", node := "n", state := 1, pid := none }
def wNew : Dir := { services := [("g", wItem)], working := [("gate", [wItem])] }

/-- why the single load matters: a reader that loaded `services` and `workingServices` at two
different moments could see a name that resolves but is in no working list — an answer that
neither the old view (`{}`) nor the new one (`wNew`) gives -/
theorem two_loads_can_mix :
    let ans (dS dW : Dir) : Bool := (dS.getService "g").isSome && !(dW.getWorkServiceNames.contains "g")
    ans ({} : Dir) ({} : Dir) = false ∧ ans wNew wNew = false ∧
    ans (runStores {} ((storesOf [wNew]).take 4)) (runStores {} ((storesOf [wNew]).take 2)) = true := by
  simp [runStores, storesOf, storeOrder, Dir.store, wNew, wItem, Dir.getService, Dir.getWorkServiceNames,
    Dir.getWorkServices, AL.get]

/-- a getter that loads its field twice is still whole **if nothing is stored between the two
loads** (both loads see the same field): it answers like the single-load getter -/
theorem double_load_without_store_between_is_whole (v0 : Dir) (pubs : List Dir) (k : Nat) :
    (readNamesAt2 v0 pubs k k).map Answer.names = some (readAt v0 pubs k .workServiceNames) := by
  simp [readNamesAt2, namesTwoLoads, readAt, Query.answer, Query.field, Dir.getWorkServiceNames]

/-- more generally: whole whenever the field holds the same value at the two loads (no store of
`workingServices` with a different view in between), whatever else the updater stored meanwhile -/
theorem double_load_equal_field_is_whole (v0 : Dir) (pubs : List Dir) (k1 k2 : Nat)
    (h : (runStores v0 ((storesOf pubs).take k1)).working = (runStores v0 ((storesOf pubs).take k2)).working) :
    (readNamesAt2 v0 pubs k1 k2).map Answer.names = some (readAt v0 pubs k2 .workServiceNames) ∧
    ∃ v ∈ v0 :: pubs, (readNamesAt2 v0 pubs k1 k2).map Answer.names = some (Query.workServiceNames.answer v) := by
  have e : (readNamesAt2 v0 pubs k1 k2).map Answer.names = some (readAt v0 pubs k2 .workServiceNames) := by
    simp [readNamesAt2, namesTwoLoads, readAt, Query.answer, Query.field, Dir.getWorkServiceNames, Dir.getWorkServices,
      Dir.only, Dir.store, h]
  refine ⟨e, ?_⟩
  obtain ⟨v, hv, e2⟩ := read_sees_whole_view v0 pubs k2 .workServiceNames
  exact ⟨v, hv, by rw [e, e2]⟩

/-- non-vacuity: the first two stores of a publication (`members`, `typeServices`) do not touch the field -/
example : (runStores wNew ((storesOf [({} : Dir)]).take 0)).working = (runStores wNew ((storesOf [({} : Dir)]).take 2)).working := rfl

def wItem2 : Item := { name := "h", node := "n", state := 1, pid := none }
/-- two working services -/
def wBig : Dir := { working := [("gate", [wItem, wItem2])] }

/-- **… and mixes views otherwise, although both loads are of the SAME field** (the class of
seeded change C08-ind-m2; `two_loads_can_mix` is about two different fields): with one
publication landing between the loads the answer is sized by one view and filled from the other —
an empty trailing name that no view holds when the directory shrank, a panic (`none`) when it
grew.  This is why `getter_facts_match_source` demands `length = 1` and not merely "one field". -/
theorem double_load_of_one_field_can_mix :
    readNamesAt2 wBig [wNew] 0 4 = some ["g", ""] ∧
    (∀ v ∈ [wBig, wNew], some ["g", ""] ≠ some v.getWorkServiceNames) ∧
    readNamesAt2 wNew [wBig] 0 4 = none ∧
    (∀ v ∈ [wBig, wNew], (readNamesAt2 v [] 0 0) = some v.getWorkServiceNames) := by
  simp [readNamesAt2, namesTwoLoads, runStores, storesOf, storeOrder, Dir.store, Dir.only, wNew, wBig, wItem, wItem2,
    Dir.getWorkServiceNames, Dir.getWorkServices]

/-! ## 5. start-up: the initial publication cannot be overtaken -/

/-- publications stored one after the other leave the directory at the last one -/
theorem sequential_publications_end_in_last (pubs : List Dir) : ∀ v0 : Dir,
    runStores v0 (storesOf pubs) = pubs.getLast?.getD v0 := by
  induction pubs with
  | nil => intro v0; rfl
  | cons d ps ih =>
    intro v0
    have h4 : runStores v0 (storeOrder.map (fun f => (f, d))) = d := rfl
    have : storesOf (d :: ps) = storeOrder.map (fun f => (f, d)) ++ storesOf ps := by
      simp [storesOf]
    rw [this]
    simp only [runStores, List.foldl_append] at h4 ⊢
    rw [h4]
    have := ih d
    simp only [runStores] at this
    rw [this]
    cases ps with
    | nil => rfl
    | cons a t =>
      cases h : (a :: t).getLast? with
      | none => simp at h
      | some x => simp [h]

/-- … so a publication computed *earlier* but stored *later* (the initial one, if a watcher
goroutine could already publish while it is under way) leaves the directory stale: it ends with
the older view `p1` although `p2` was computed from more events -/
theorem overtaken_initial_store_is_stale (v0 p1 p2 : Dir) : runStores v0 (storesOf [p2, p1]) = p1 :=
  sequential_publications_end_in_last [p2, p1] v0

/-- that cannot happen in the code: in `StartMember` and `StartClient` (calls on the receiver
expanded in place, whatever the helpers are called) the initial publication is complete before
the first goroutine that can publish is started.  Facts regenerated from /repo on every run. -/
theorem initial_publish_before_watch :
    Cell2v.Gen.C08.startFlow.map (·.1) = ["StartClient", "StartMember"] ∧
    ∀ e ∈ Cell2v.Gen.C08.startFlow,
      (e.2.takeWhile (· != "spawn-publisher")).contains "publish" = true ∧
      e.2.contains "spawn-publisher" = true := by
  decide

/-! ## 6. the directory against the etcd store: the *current* membership

`Sys` (Model/Directory.lean) puts the provider in front of the store it watches: writes by
other nodes (and by etcd: lease expiry), the initial `Get`, the creation of the watch "from
now" (the code passes no start revision), deliveries in arbitrary batches, a failed watch
followed by a fresh one, own state changes. -/

/-- **The directory is the current membership as long as no event is lost.**  Start
(`StartMember` or `StartClient`) on any well-formed store with nothing written between the
listing and the creation of the watch; then let the cluster do anything (registrations,
re-registrations, deletions and lease expiries of any node including the node itself, the node's
own registration and the revoke/re-PUT by which its keep-alive loop announces a state change),
let the watch deliver in any batching, let the node change its own state.  At every moment
the member map with the not yet delivered events applied is exactly the store (away from
the node's own key), and once the watch has handed over everything the member map *is* the store; a member (not a
client) holds its own object under its own id and publishes it. -/
theorem directory_eq_store_when_no_event_lost (self : Node) (ha : self.alive = true) (st : AL Node) (hs : StoreWf st) (client : Bool)
    (ops : List SOp) (hl : ∀ op ∈ ops, Lossless op) :
    let s := srun { store := st, p := { self := self } } (.fetch client :: .openWatch :: ops)
    (∀ k, k ≠ self.id → implied self.id (look s.p.members) s.pending k = look s.store k) ∧
    (∀ k, k ≠ self.id → look (sstep s (.deliver s.pending.length)).1.p.members k = look s.store k) ∧
    (s.pending = [] → ∀ k, k ≠ self.id → look s.p.members k = look s.store k) ∧
    (client = false → look s.p.members self.id = some s.p.self ∧ s.p.self.member ∈ publish s.p.members) := by
  intro s
  have e : s = srun (srun { store := st, p := { self := self } } [.fetch client, .openWatch]) ops :=
    srun_append _ [.fetch client, .openWatch] ops
  have hi : SInv s := by rw [e]; exact srun_inv ops _ (start_inv self ha st hs client) hl
  have hid : s.p.self.id = self.id := srun_self_id _ _
  have h1 : ∀ k, k ≠ self.id → implied self.id (look s.p.members) s.pending k = look s.store k := by
    intro k hk
    have := hi.sync k (by rw [hid]; exact hk)
    rwa [hid] at this
  refine ⟨h1, ?_, ?_, ?_⟩
  · intro k hk
    simp only [sstep, hi.watching, if_true, List.take_length]
    rw [pstep_response_look, hid]
    exact h1 k hk
  · intro hp k hk
    have := h1 k hk
    rwa [hp] at this
  · intro hc
    subst hc
    have hin : s.p.selfIn = true := by rw [e]; exact srun_selfIn ops _ (start_inv self ha st hs false) rfl hl
    have := hi.pinv.selfAt hin
    rw [hid] at this
    exact ⟨this, self_in_pub _ hi.pinv hin⟩

/-- **The directory equals the current cluster membership** (end to end): under the hypotheses of
`directory_eq_store_when_no_event_lost`, once the watch has handed over everything, the per-type
and working lists of the directory a member builds from its publication are exactly (up to the
order of Go's map iteration) the services of the nodes registered in the store right now plus
its own, each resolved to its node's address. -/
theorem directory_lists_current_membership (self : Node) (ha : self.alive = true) (st : AL Node) (hs : StoreWf st)
    (ops : List SOp) (hl : ∀ op ∈ ops, Lossless op) (t : String) :
    let s := srun { store := st, p := { self := self } } (.fetch false :: .openWatch :: ops)
    s.pending = [] →
    (((makeMembers (publish s.p.members)).getServiceList t).getD []).Perm
      (specTypeList (publish (AL.set s.store self.id s.p.self)) t) ∧
    (((makeMembers (publish s.p.members)).getWorkServiceList t).getD []).Perm
      (specWorkList (publish (AL.set s.store self.id s.p.self)) t) := by
  intro s hp
  have e : s = srun (srun { store := st, p := { self := self } } [.fetch false, .openWatch]) ops :=
    srun_append _ [.fetch false, .openWatch] ops
  have hi : SInv s := by rw [e]; exact srun_inv ops _ (start_inv self ha st hs false) hl
  have hid : s.p.self.id = self.id := srun_self_id _ _
  obtain ⟨_, _, h3, h4⟩ := directory_eq_store_when_no_event_lost self ha st hs false ops hl
  have hself := (h4 rfl).1
  have hlook : look s.p.members = look (AL.set s.store self.id s.p.self) := by
    funext k
    by_cases hk : k = self.id
    · subst hk; simp only [look]; rw [AL.get_set_same]; exact hself
    · simp only [look]; rw [AL.get_set_ne _ _ hk]; exact h3 hp k hk
  have hn2 : NoDupKeys (AL.set s.store self.id s.p.self) := hi.store.nodup.set _ _
  have hk2 : Keyed (AL.set s.store self.id s.p.self) := by rw [← hid]; exact hi.store.keyed.set s.p.self
  have hperm := publish_perm _ _ hi.pinv.nodup hn2 hlook
  have hd1 := published_ids_distinct _ hi.pinv.nodup hi.pinv.keyed
  have hd2 := published_ids_distinct _ hn2 hk2
  have hf := directory_is_function_of_member_set _ _ hperm hd1 t
  constructor
  · rw [← (typeList_eq_spec _ hd2 t).1]; exact hf.1
  · rw [← (workList_eq_spec _ t).1]; exact hf.2.1

/-- non-vacuity: a store with one peer; the peer re-registers, expires, the node's own
registration is echoed, delivered in two batches, the node changes its state -/
example : StoreWf [("x", { (default : Node) with id := "x", alive := true })] ∧
    ∀ op ∈ [SOp.write (.put "x" { (default : Node) with id := "x", alive := true }), .write (.del "x"),
        .write (.put "self" { (default : Node) with id := "self", alive := true }), .deliver 1, .setState 2, .deliver 5,
        .register, .kaTick],
      Lossless op := by
  constructor
  · refine ⟨by simp [NoDupKeys, AL.keys], ?_, ?_⟩
    · intro k v h
      simp only [AL.get_cons, AL.get_nil] at h
      split at h
      · rename_i e; simp at h; subst h; exact e
      · simp at h
    · intro k v h
      simp only [AL.get_cons, AL.get_nil] at h
      split at h
      · simp at h; subst h; rfl
      · simp at h
  · intro op h
    simp at h
    rcases h with h | h | h | h | h | h | h | h <;> subst h <;> simp [Lossless, WrWf]

/-- **A lost event is never repaired.**  If the member map and the store disagree about a
key (other than the node's own) and no event about that key is pending, they disagree for
ever — through every delivery, failed watch, fresh watch and state change — until some node
writes that very key again.  (Nothing in the provider re-lists.) -/
theorem lost_event_is_never_repaired (s : Sys) (k : String) (hk : k ≠ s.p.self.id)
    (hp : ∀ e ∈ s.pending, e.key ≠ k) (hd : look s.p.members k ≠ look s.store k)
    (ops : List SOp) (ho : ∀ op ∈ ops, ¬ Touches k op) :
    look (srun s ops).p.members k = look s.p.members k ∧ look (srun s ops).store k = look s.store k ∧
    look (srun s ops).p.members k ≠ look (srun s ops).store k := by
  obtain ⟨h1, h2⟩ := srun_frozen ops k s hk hp ho
  exact ⟨h1, h2, by rw [h1, h2]; exact hd⟩

def wSelf : Node := { id := "self", host := "h0", addr := "h0", port := 0, services := [], alive := true, state := 1 }

/-- **Suspected defect (start-up gap).**  `StartMember`: `Get`, *then* a peer registers, then
`client.Watch` without a start revision, own registration, everything delivered: the peer is in
the store but not in the directory, and no event is pending that would add it. -/
theorem registration_between_listing_and_watch_is_lost :
    let s := srun { store := [], p := { self := wSelf } }
      [.fetch false, .write (.put "x" wNode), .openWatch, .register, .deliver 2]
    look s.p.members "x" = none ∧ look s.store "x" = some wNode ∧ s.pending = [] := by
  simp [srun, sstep, writeSys, storeStep, pstep, respond, handleWatchResponse, chStep, updateNodesWithChanges,
    updateNodesWithSelf, updateNodes, fetched, look, wNode, wSelf, AL.set, AL.erase, AL.get]

/-- the same history with the watch created at the listing's revision (no write in between)
shows the peer -/
theorem registration_after_watch_is_seen :
    let s := srun { store := [], p := { self := wSelf } }
      [.fetch false, .openWatch, .write (.put "x" wNode), .register, .deliver 3]
    look s.p.members "x" = some wNode ∧ look s.store "x" = some wNode := by
  simp [srun, sstep, writeSys, storeStep, pstep, respond, handleWatchResponse, chStep, updateNodesWithChanges, applyChange,
    updateNodesWithSelf, updateNodes, fetched, look, wNode, wSelf, AL.set, AL.erase, AL.get]

/-- **Suspected defect (failed watch).**  A peer's lease expires while the watch fails
(compaction / cancelled stream): `_keepWatching` returns, the loop opens a fresh watch "from
now", the DELETE is never delivered and the dead peer stays in the directory. -/
theorem failed_watch_loses_pending_delete :
    let s := srun { store := [("x", wNode)], p := { self := wSelf } }
      [.fetch false, .openWatch, .write (.del "x"), .fail, .deliver 0]
    look s.p.members "x" = some wNode ∧ look s.store "x" = none ∧ s.pending = [] ∧ s.watches = 2 := by
  simp [srun, sstep, writeSys, storeStep, pstep, respond, updateNodesWithSelf, updateNodes, fetched, look, wNode, wSelf,
    AL.set, AL.erase, AL.get]

/-- **A failed registration leaves a live watcher** (`StartMember` returns the error of
`registerService` *after* `startWatching()`; nothing stops the watch goroutine): the run is the
member run without `.register` — the general theorems above quantify over such runs too, so the
directory of the node that reported a start-up failure keeps following the store.  Witness: the
peer `x` registers afterwards and is published next to the node itself, which the store never
held; an own state change is then never announced (`kaTick` does nothing without a registration). -/
theorem failed_registration_leaves_live_watcher :
    let s := srun { store := [], p := { self := wSelf } }
      [.fetch false, .openWatch, .write (.put "x" wNode), .deliver 1, .setState 2, .kaTick, .deliver 0]
    look s.p.members "x" = some wNode ∧ look s.p.members "self" = some { wSelf with state := 2 } ∧
    look s.store "self" = none ∧ s.registered = false ∧ s.pending = [] ∧
    (∀ op ∈ [SOp.write (.put "x" wNode), .deliver 1, .setState 2, .kaTick, .deliver 0], Lossless op) := by
  refine ⟨?_, ?_, ?_, ?_, ?_, ?_⟩
  all_goals
    simp [srun, sstep, writeSys, storeStep, pstep, respond, handleWatchResponse, chStep, updateNodesWithChanges, applyChange,
      updateNodesWithSelf, updateNodes, fetched, look, wNode, wSelf, AL.set, AL.erase, AL.get, Lossless, WrWf, setSelfState]

/-- **An own state change reaches the node's own directory and the store** (hence every other
node): `UpdateClusterState` publishes nothing by itself; the next keep-alive answer makes the
loop revoke the lease and PUT the registration again; the echo of that — events about the node
itself, all skipped — is a non-empty response, and its publication shows the new state. -/
theorem own_state_change_is_published (s : Sys) (hi : SInv s) (hin : s.p.selfIn = true)
    (hr : s.registered = true) (st : Int) :
    let s1 := srun s [.setState st, .kaTick]
    look s1.store s.p.self.id = some { s.p.self with state := st } ∧
    ∃ pub, (sstep s1 (.deliver s1.pending.length)).2 = some pub ∧ ({ s.p.self with state := st } : Node).member ∈ pub := by
  intro s1
  have hl : ∀ op ∈ [SOp.setState st, .kaTick], Lossless op := by
    intro op h; simp at h; rcases h with h | h <;> subst h <;> trivial
  have hi1 : SInv s1 := srun_inv _ s hi hl
  have hin1 : s1.p.selfIn = true := srun_selfIn _ s hi hin hl
  have hself : s1.p.self = { s.p.self with state := st } := by
    simp [s1, srun, sstep, hr, pstep, setSelfState, writeSys]
  have hstore : look s1.store s.p.self.id = some { s.p.self with state := st } := by
    simp [s1, srun, sstep, hr, pstep, setSelfState, writeSys, storeStep, look, AL.get_set_same]
  have hne : s1.pending ≠ [] := by
    simp [s1, srun, sstep, hr, pstep, setSelfState, writeSys, storeStep, hi.watching]
  refine ⟨hstore, ?_⟩
  have hwf : OpWf (.response (s1.pending.take s1.pending.length)) := fun e he => hi1.pend e (List.mem_of_mem_take he)
  have hnb : ¬ (s1.pending.take s1.pending.length).isEmpty = true := by simpa using hne
  have hp : (pstep s1.p (.response (s1.pending.take s1.pending.length))).2 =
      some (publish (pstep s1.p (.response (s1.pending.take s1.pending.length))).1.members) := by
    simp only [pstep]; rw [if_neg hnb]
  refine ⟨publish (pstep s1.p (.response (s1.pending.take s1.pending.length))).1.members, ?_, ?_⟩
  · simp only [sstep, hi1.watching, if_true]; exact hp
  · have := (self_published_with_current_state s1.p _ hi1.pinv hin1 hwf _ hp).1
    have hs : (pstep s1.p (.response (s1.pending.take s1.pending.length))).1.self = s1.p.self := by
      simp only [pstep]; split <;> rfl
    rw [hs, hself] at this
    exact this

/-- **The node itself is always present — through lost events too.**  After `StartMember`'s
listing, in every state the system can reach by writes of any node (registrations stored under
their own ids), gaps, deliveries in any batching, failed and re-opened watches, state changes,
keep-alive revokes and re-listings, every publication contains the node's own current entry. -/
theorem self_present_through_lost_events (self : Node) (st : AL Node) (ops : List SOp)
    (hk : ∀ op ∈ ops, OpKeyed op) (op : SOp) (ho : OpKeyed op) (pub : List Member) :
    let s := srun { store := st, p := { self := self } } (.fetch false :: ops)
    (sstep s op).2 = some pub → (sstep s op).1.p.self.member ∈ pub ∧ (sstep s op).1.p.self.id = self.id := by
  intro s h
  have h0 : SelfInv (sstep { store := st, p := { self := self } } (.fetch false)).1 := by
    simp only [sstep, Bool.false_eq_true, if_false]
    exact ⟨pstep_inv _ _ (PInv.init self) trivial, rfl, fun e he => by simp at he⟩
  have hi : SelfInv s := srun_selfInv ops _ h0 hk
  have hi' := sstep_selfInv s op hi ho
  refine ⟨?_, ?_⟩
  · rw [sstep_pub s op pub h ho]
    exact self_in_pub _ hi'.pinv hi'.selfIn
  · rw [sstep_self_id]; exact srun_self_id _ _

/-- non-vacuity: a run that loses events on both ways and still publishes -/
example : ∀ op ∈ [SOp.write (.put "x" wNode), .openWatch, .register, .write (.del "x"), .fail, .setState 2, .kaTick, .deliver 3],
    OpKeyed op := by
  intro op h
  simp at h
  rcases h with h | h | h | h | h | h | h | h <;> subst h <;> simp [OpKeyed, wNode]

/-- the declared exclusion, as a witness: a *foreign* registration stored under the node's own
key but carrying another id (never written by cell2) replaces the node's own entry -/
theorem foreign_registration_under_own_key_evicts_self :
    look (foldBatch "self" [("self", wSelf)] [.put "self" wNode]) "self" = some wNode := by
  rw [look_foldBatch]; simp [implied, seqStep, look, wNode, FM.upd, AL.get]

/-! ## 7. further consequences -/

/-- `directory_is_function_of_history` with its hypothesis on the outcome discharged: a keyed
start map and well-formed events suffice -/
theorem directory_is_function_of_history_wf (selfId : String) (m : AL Node) (hm : NoDupKeys m) (hk : Keyed m)
    (bs bs' : List (List Ev)) (h : bs.flatten = bs'.flatten) (hw : ∀ e ∈ bs.flatten, EvWf e) (t : String) :
    (((makeMembers (publish (bs.foldl (foldBatch selfId) m))).getServiceList t).getD []).Perm
      (((makeMembers (publish (bs'.foldl (foldBatch selfId) m))).getServiceList t).getD []) ∧
    (((makeMembers (publish (bs.foldl (foldBatch selfId) m))).getWorkServiceList t).getD []).Perm
      (((makeMembers (publish (bs'.foldl (foldBatch selfId) m))).getWorkServiceList t).getD []) := by
  have hk' : KeyedF (look (bs.foldl (foldBatch selfId) m)) := by
    rw [fold_eq_implied]; exact implied_keyedF selfId _ hw (look m) hk
  exact directory_is_function_of_history selfId m hm bs bs' h hk' t

/-- **The initial listing is the same function of registrations as the watch fold**: listing
live registrations of other nodes is applying their PUT events one at a time -/
theorem listing_eq_implied_registrations (selfId : String) (ns : List Node)
    (ha : ∀ n ∈ ns, n.alive = true ∧ n.id ≠ selfId) : ∀ m : AL Node,
    look (updateNodes m ns) = implied selfId (look m) (ns.map (fun n => Ev.put n.id n)) := by
  induction ns with
  | nil => intro m; rfl
  | cons n ns ih =>
    intro m
    have h1 : look (AL.set m n.id n) = seqStep selfId (look m) (.put n.id n) := by
      obtain ⟨hal, hid⟩ := ha n List.mem_cons_self
      funext j
      simp [look, AL.get_set, seqStep, hal, hid, FM.upd]
    simp only [updateNodes, List.foldl_cons, List.map_cons, implied] at ih ⊢
    rw [ih (fun x hx => ha x (List.mem_cons_of_mem _ hx)), h1]

/-- … except for a registration that says `alive=false` (never written by cell2 itself:
`Serialize` always writes `Alive=true`): the listing keeps it, the watch fold drops it -/
theorem dead_listed_registration_stays :
    look (updateNodes [] [{ wNode with alive := false }]) "x" = some { wNode with alive := false } ∧
    implied "self" (look []) [.put "x" { wNode with alive := false }] "x" = none := by
  simp [updateNodes, look, implied, seqStep, wNode, FM.upd, AL.set, AL.erase, AL.get]

/-- **What happens to a key depends only on the events of that key**, in order -/
theorem implied_depends_only_on_own_key_events (selfId : String) (m : FM) (evs : List Ev) (k : String) :
    implied selfId m evs k = implied selfId m (evs.filter (fun e => e.key == k)) k := by
  rw [implied_pointwise, implied_pointwise, foldl_ptStep_filter]

/-- **The last event of a key decides**, whatever follows about other keys and however the
history is batched: a live registration of another node is listed, a dead one or a DELETE is not -/
theorem key_last_event_decides (selfId : String) (m : AL Node) (h t : List Ev) (k : String)
    (ht : ∀ e ∈ t, e.key ≠ k) (bs : List (List Ev)) :
    (∀ n : Node, n.id ≠ selfId → bs.flatten = h ++ .put k n :: t →
        look (bs.foldl (foldBatch selfId) m) k = if n.alive then some n else none) ∧
    (bs.flatten = h ++ .del k :: t → (∀ v, implied selfId (look m) h k = some v → v.id ≠ selfId) →
        look (bs.foldl (foldBatch selfId) m) k = none) := by
  constructor
  · intro n hn hb
    rw [fold_eq_implied, hb, implied_append, show (Ev.put k n :: t) = [Ev.put k n] ++ t from rfl, implied_append,
      implied_untouched selfId t k ht]
    cases ha : n.alive <;> simp [implied, seqStep, hn, ha, FM.upd]
  · intro hb hv
    rw [fold_eq_implied, hb, implied_append, show (Ev.del k :: t) = [Ev.del k] ++ t from rfl, implied_append,
      implied_untouched selfId t k ht]
    simp only [implied, List.foldl_cons, List.foldl_nil, seqStep]
    cases hk : List.foldl (seqStep selfId) (look m) h k with
    | none => simpa using hk
    | some v =>
      have := hv v hk
      simp [this, FM.upd]

/-- **Every listed service resolves to the address of a node that lists it** — without the
uniqueness convention: when a name is listed by several members (e.g. while a service moves
and the old node's lease is still alive) `GetService` answers with one of them -/
theorem getService_resolves_to_a_lister (ms : List Member) (hd : DistinctIds ms)
    (m : Member) (hm : m ∈ ms) (s t n : String) (hs : s ∈ m.services) (hsp : splitName s = some (t, n)) :
    ∃ m' ∈ ms, ∃ s' ∈ m'.services, ∃ t', splitName s' = some (t', n) ∧
      (makeMembers ms).getService n = some { name := n, node := m'.id, state := m'.state, pid := some (address m', n) } := by
  have hit : ({ name := n, node := m.id, state := m.state, pid := some (address m, n) } : Item) ∈ specTypeList ms t :=
    (mem_specTypeList ms t _).mpr ⟨m, hm, s, hs, n, hsp, rfl⟩
  obtain ⟨it', h'⟩ := getService_complete ms hd t _ hit
  obtain ⟨hn, t', ht'⟩ := getService_sound ms hd _ it' h'
  obtain ⟨m', hm', s', hs', n', hsp', rfl⟩ := (mem_specTypeList ms t' it').mp ht'
  simp only at hn h'
  subst hn
  exact ⟨m', hm', s', hs', t', hsp', h'⟩

/-- **Cluster disabled** (`makeSelfCluster`): the directory built from `BuildSelfClusterTopology`
lists exactly the node's own well-formed services, all of them working, at the node's address -/
theorem self_cluster_lists_own_services (self : Node) (t : String) :
    ((makeMembers (selfTopology self)).getServiceList t).getD [] = specTypeList (selfTopology self) t ∧
    ((makeMembers (selfTopology self)).getWorkServiceList t).getD [] =
      (specTypeList (selfTopology self) t).map (fun it => { it with pid := none }) := by
  refine ⟨(typeList_eq_spec _ (by simp [DistinctIds, selfTopology]) t).1, ?_⟩
  rw [(workList_eq_spec _ t).1]
  simp [specWorkList, selfTopology, isWork, workingState]

/-- the suspected defect recorded in the check's assumptions, as a theorem of the model: every
item of every working list has a nil PID, so `GetFirstWorkService` / `RandGetWorkService`
(which return `Items[i].PID` of `GetWorkServiceList`) can only return nil -/
theorem working_items_have_no_pid (ms : List Member) (t : String) :
    ∀ it ∈ ((makeMembers ms).getWorkServiceList t).getD [], it.pid = none := by
  rw [(workList_eq_spec ms t).1]
  intro it hit
  simp only [specWorkList, List.mem_map] at hit
  obtain ⟨x, _, rfl⟩ := hit
  rfl

end Cell2v.Props.C08
