import Cell2v.Lemmas.Ring
/-!
C09 — the queues under the mailbox are FIFO lists (sequential behaviour).

`Model/Mailbox.lean` treats the user queue (`goring.Queue`) and the system queue
(`mpsc.Queue`) as lists.  Here that assumption is discharged for the sequential
behaviour of the two data structures: the ring-buffer model (`Model/Ring.lean`,
statement by statement after actorex/queue/goring/queue.go, including the
doubling copy loop) refines the list queue for EVERY initial capacity `n ≥ 1`,
every fill level (growth included) and every sequence of `Push`/`Pop`/`PopMany`/
`Length`.  `n = 0` is excluded because `goring.New(0)` makes `Push` divide by
zero (`% c.mod`); see `ring_new_zero_degenerate`.
-/
namespace Cell2v.Props.C09
open Cell2v.Ring

/-- `goring.New(n)`, `n ≥ 1`: well-formed and empty -/
theorem ring_wf_init (n : Nat) (hn : 1 ≤ n) : WF (new n) ∧ abs (new n) = [] :=
  ⟨rep_wf (rep_new n hn), rep_abs (rep_new n hn)⟩

/-- `Push` appends — at every fill level, in particular across a growth step -/
theorem ring_push_refines (q : Ring) (x : Nat) (h : WF q) :
    WF (push q x) ∧ abs (push q x) = abs q ++ [x] :=
  have r := push_rep x (wf_rep h)
  ⟨rep_wf r, rep_abs r⟩

/-- `Pop`: `(nil,false)` on the empty queue (unchanged), otherwise exactly the oldest element -/
theorem ring_pop_refines (q : Ring) (h : WF q) :
    (abs q = [] ∧ pop q = (none, q)) ∨
    (∃ x rest, abs q = x :: rest ∧ (pop q).1 = some (some x) ∧ WF (pop q).2 ∧ abs (pop q).2 = rest) := by
  have r := wf_rep h
  cases hl : abs q with
  | nil => rw [hl] at r; exact .inl ⟨rfl, pop_rep_nil r⟩
  | cons x rest =>
    rw [hl] at r
    obtain ⟨a, b⟩ := pop_rep_cons r
    exact .inr ⟨x, rest, rfl, a, rep_wf b, rep_abs b⟩

/-- `PopMany(k)`: `(nil,false)` on the empty queue, otherwise the `min k len` oldest
elements in order (all non-nil) and the rest stays queued — for counts below, at and above the length -/
theorem ring_popMany_refines (q : Ring) (k : Nat) (h : WF q) :
    (abs q = [] ∧ popMany q k = (none, q)) ∨
    (abs q ≠ [] ∧ (popMany q k).1 = some (((abs q).take k).map some) ∧
      WF (popMany q k).2 ∧ abs (popMany q k).2 = (abs q).drop k) := by
  have r := wf_rep h
  by_cases hl : abs q = []
  · rw [hl] at r; exact .inl ⟨hl, popMany_rep_nil k r⟩
  · obtain ⟨a, b⟩ := popMany_rep k r hl
    exact .inr ⟨hl, a, rep_wf b, rep_abs b⟩

/-- `Length()` is the number of queued elements -/
theorem ring_len (q : Ring) : q.len = (abs q).length := by simp [abs]

/-- capacity: a ring of size `mod` holds `mod - 1` elements; `Push` keeps the buffer
while there is room and doubles it exactly when the `mod`-th slot would be needed;
`Pop`/`PopMany` never change the capacity -/
theorem ring_capacity (q : Ring) (x k : Nat) (h : WF q) :
    q.len + 1 ≤ q.mod ∧
    (q.len + 1 < q.mod → (push q x).mod = q.mod) ∧
    (q.len + 1 = q.mod → (push q x).mod = 2 * q.mod) ∧
    (pop q).2.mod = q.mod ∧ (popMany q k).2.mod = q.mod := by
  obtain ⟨h1, h2, h3, h4, h5, _⟩ := h
  have htl : (q.tail + 1) % q.mod = (q.head + 1 + q.len) % q.mod := by rw [h5]; exact tail_succ _ _ _ h3 h4
  have hf := full_iff q.head q.mod q.len h3 h4
  refine ⟨by omega, ?_, ?_, ?_, ?_⟩
  · intro c
    have : ¬ (q.head + 1 + q.len) % q.mod = q.head := fun e => by have := hf.mp e; omega
    simp [push, htl, this]
  · intro c
    simp [push, htl, hf.mpr c, Nat.mul_comm]
  · unfold pop; split <;> rfl
  · unfold popMany; split <;> rfl

/-- **the ring is the list queue**: from `goring.New(n)` (`n ≥ 1`), every sequence of
operations produces exactly the observations of the plain FIFO list, and the final
ring is well-formed and holds the final list -/
theorem ring_refines_fifo (n : Nat) (hn : 1 ≤ n) (ops : List Op) :
    (run step (new n) ops).2 = (run specStep [] ops).2 ∧
    WF (run step (new n) ops).1 ∧ abs (run step (new n) ops).1 = (run specStep [] ops).1 :=
  have r := run_rep ops (new n) [] (rep_new n hn)
  ⟨r.1, rep_wf r.2, rep_abs r.2⟩

/-- same from any well-formed ring (e.g. mid-life of a mailbox) -/
theorem ring_refines_fifo_from (q : Ring) (h : WF q) (ops : List Op) :
    (run step q ops).2 = (run specStep (abs q) ops).2 ∧
    WF (run step q ops).1 ∧ abs (run step q ops).1 = (run specStep (abs q) ops).1 :=
  have r := run_rep ops q (abs q) (wf_rep h)
  ⟨r.1, rep_wf r.2, rep_abs r.2⟩

/-- pushes (each one atomic: `Push` holds the mutex from its first to its last statement) keep the ring well-formed and append -/
theorem ring_pushes_refine (xs : List Nat) : ∀ (q : Ring), WF q →
    WF (xs.foldl push q) ∧ abs (xs.foldl push q) = abs q ++ xs := by
  induction xs with
  | nil => intro q h; exact ⟨h, by simp⟩
  | cons x xs ih =>
    intro q h
    obtain ⟨h1, h2⟩ := ring_push_refines q x h
    obtain ⟨h3, h4⟩ := ih (push q x) h1
    exact ⟨h3, by rw [List.foldl_cons, h4, h2, List.append_assoc]; rfl⟩

/-- **`Pop`'s lock-free `Empty()` pre-check is sound for the single consumer** (queue.go:72-74: `len` is loaded without
the mutex, the mutex is taken only if it was non-zero).  If the queue was non-empty at the load, then whatever pushes
`xs` other goroutines complete between the load and the locked section, the locked section returns the element that was
oldest AT THE LOAD and leaves the rest followed by the new pushes: the two-step `Pop` equals the atomic pop of the list
model taken at the locked section (and an "empty" answer equals the atomic pop taken at the load), which is what
`Fine.popU` uses.  Only the consumer removes, so non-emptiness persists. -/
theorem ring_pop_precheck_sound (q : Ring) (xs : List Nat) (h : WF q) (hne : abs q ≠ []) :
    ∃ x rest, abs q = x :: rest ∧ (pop (xs.foldl push q)).1 = some (some x) ∧
      WF (pop (xs.foldl push q)).2 ∧ abs (pop (xs.foldl push q)).2 = rest ++ xs := by
  obtain ⟨h1, h2⟩ := ring_pushes_refine xs q h
  cases hl : abs q with
  | nil => exact absurd hl hne
  | cons x rest =>
    rcases ring_pop_refines (xs.foldl push q) h1 with ⟨he, _⟩ | ⟨y, r, hy, hp, hw, ha⟩
    · rw [h2, hl] at he; simp at he
    · rw [h2, hl] at hy
      simp only [List.cons_append, List.cons.injEq] at hy
      obtain ⟨hy1, hy2⟩ := hy
      exact ⟨x, rest, rfl, by rw [hp, hy1], hw, by rw [ha, hy2]⟩

/-- the guard `n ≥ 1` is needed: with `mod = 0` the model is not well-formed (and the Go
code panics with a division by zero inside `Push`, holding the lock) -/
theorem ring_new_zero_degenerate : ¬ WF (new 0) := by
  intro h; have := h.1; simp [new] at this

/-! non-vacuity: growth really happens and wraps (capacity 3, head rotated) -/
example : (run step (new 3) [.push 1, .pop, .push 2, .push 3, .push 4, .pop, .popMany 5]).2
    = [.done, .popped (some (some 1)), .done, .done, .done, .popped (some (some 2)), .many (some [some 3, some 4])] := by decide
example : (run step (new 3) [.push 1, .pop, .push 2, .push 3, .push 4]).1.mod = 6 := by decide
example : (run step (new 1) [.push 1, .push 2, .push 3, .push 4]).1.mod = 8 := by decide

/-! ### mpsc (sequential) -/

theorem mpsc_wf_init : Cell2v.Mpsc.WF Cell2v.Mpsc.new ∧ Cell2v.Mpsc.abs Cell2v.Mpsc.new = [] :=
  ⟨Cell2v.Mpsc.rep_wf Cell2v.Mpsc.rep_new, Cell2v.Mpsc.rep_abs Cell2v.Mpsc.rep_new⟩

theorem mpsc_push_refines (q : Cell2v.Mpsc.Q) (x : Nat) (h : Cell2v.Mpsc.WF q) :
    Cell2v.Mpsc.WF (Cell2v.Mpsc.push q x) ∧ Cell2v.Mpsc.abs (Cell2v.Mpsc.push q x) = Cell2v.Mpsc.abs q ++ [x] :=
  have r := Cell2v.Mpsc.push_rep x (Cell2v.Mpsc.wf_rep h)
  ⟨Cell2v.Mpsc.rep_wf r, Cell2v.Mpsc.rep_abs r⟩

/-- `Pop` returns nil on the empty queue (and `Empty()` is true), else the oldest value (and `Empty()` is false) -/
theorem mpsc_pop_refines (q : Cell2v.Mpsc.Q) (h : Cell2v.Mpsc.WF q) :
    (Cell2v.Mpsc.abs q = [] ∧ Cell2v.Mpsc.pop q = (none, q) ∧ Cell2v.Mpsc.empty q = true) ∨
    (∃ x rest, Cell2v.Mpsc.abs q = x :: rest ∧ (Cell2v.Mpsc.pop q).1 = some x ∧ Cell2v.Mpsc.empty q = false ∧
      Cell2v.Mpsc.WF (Cell2v.Mpsc.pop q).2 ∧ Cell2v.Mpsc.abs (Cell2v.Mpsc.pop q).2 = rest) := by
  have r := Cell2v.Mpsc.wf_rep h
  cases hl : Cell2v.Mpsc.abs q with
  | nil => rw [hl] at r; exact .inl ⟨rfl, Cell2v.Mpsc.pop_rep_nil r⟩
  | cons x rest =>
    rw [hl] at r
    obtain ⟨a, b, c⟩ := Cell2v.Mpsc.pop_rep_cons r
    exact .inr ⟨x, rest, rfl, a, c, Cell2v.Mpsc.rep_wf b, Cell2v.Mpsc.rep_abs b⟩

end Cell2v.Props.C09
