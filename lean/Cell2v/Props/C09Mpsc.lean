import Cell2v.Lemmas.MpscConc
import Cell2v.Lemmas.MpscMailbox
/-!
C09 — the system queue under the mailbox (`mpsc.Queue`) as a CONCURRENT object.

`Model/MpscConc.lean` splits `Push` into its two shared-memory accesses (`swap`,
then `link`) and lets any number of producers interleave arbitrarily with each
other and with the single consumer.  All statements below quantify over every
schedule `ls : List Lbl` from the empty queue (`Reachable`), i.e. over every
interleaving, including those in which a producer stays between its swap and its
link for arbitrarily long while others complete pushes and the consumer pops.

The swap is the linearisation point: values are delivered in swap order.
-/
namespace Cell2v.Props.C09
open Cell2v.MpscConc

/-- a queue state reachable from `New()` under some schedule -/
def MReachable (s : St) : Prop := ∃ ls os, runL init ls = some (s, os)

/-- the chain invariant holds in every reachable state: pending nodes `tail+1 … head`
in swap order, `a.next = a+1` iff the producer of `a+1` has linked, `head` is the
last swapped node, `delivered = swapped.take tail` -/
theorem mpsc_chain_invariant (s : St) (h : MReachable s) : CInv s := by
  obtain ⟨ls, os, hr⟩ := h
  exact cinv_run ls _ _ _ cinv_init hr

/-- **swap order = delivery order** (exactly once, no loss, no duplication, global
FIFO): under every schedule the values the consumer has received are, position by
position, the first `k` values that were swapped in (`k = ` number of successful pops). -/
theorem mpsc_delivers_swap_order (ls : List Lbl) (s : St) (os : List Obs) (hr : runL init ls = some (s, os)) :
    deliveredOf os = ((swapsOf ls).take s.tail).map (·.2) ∧
    deliveredOf os <+: (swapsOf ls).map (·.2) := by
  have hi := cinv_run ls _ _ _ cinv_init hr
  obtain ⟨h1, h2⟩ := run_logs ls _ _ _ hr
  simp only [init, List.nil_append] at h1 h2
  have e : deliveredOf os = ((swapsOf ls).take s.tail).map (·.2) := by
    rw [← h2, hi.dl, h1, List.map_take]
  refine ⟨e, ?_⟩
  rw [e, List.map_take]
  exact List.take_prefix _ _

/-- **per-producer FIFO**: what the consumer has received from producer `p` is a
prefix of what `p` swapped in, in `p`'s own order (a producer's swaps are sequential:
`fire` refuses a second swap of `p` before its link) -/
theorem mpsc_per_producer_fifo (ls : List Lbl) (s : St) (os : List Obs) (hr : runL init ls = some (s, os)) (p : Nat) :
    ∃ got : List (Nat × Nat), deliveredOf os = got.map (·.2) ∧ got <+: swapsOf ls ∧
      got.filter (·.1 == p) <+: (swapsOf ls).filter (·.1 == p) :=
  ⟨(swapsOf ls).take s.tail, (mpsc_delivers_swap_order ls s os hr).1, List.take_prefix _ _,
   (List.take_prefix _ _).filter _⟩

/-- a producer never has two pushes in flight -/
theorem mpsc_producer_sequential (s : St) (p x : Nat) (hp : hasP s.fl p = true) : fire s (.swap p x) = none := by
  simp [fire, hp]

/-- **a pop is blocked only by a missing link**: if `Pop` returns nil then the state is
unchanged and either nothing is pending (everything swapped in has been delivered), or
the OLDEST pending node is not linked to its predecessor `tail` yet — its producer is
between swap and link.  (`Empty()` answers the same question.) -/
theorem mpsc_pop_blocked_only_by_unlinked (s s' : St) (h : MReachable s) (hf : fire s .pop = some (s', .popped none)) :
    s' = s ∧
    ((s.tail = s.head ∧ s.dlv = s.swapped) ∨
     (s.tail < s.head ∧ ∃ f ∈ s.fl, f.n = s.tail + 1 ∧ f.prev = s.tail ∧ (node s.heap s.tail).next = none)) := by
  have hi := mpsc_chain_invariant s h
  rcases pop_cases s hi with ⟨hn, hc⟩ | ⟨x, hn, _, _, hv, _⟩
  · simp only [fire, hn, Option.some.injEq, Prod.mk.injEq] at hf
    refine ⟨hf.1.symm, ?_⟩
    rcases hc with hc | ⟨hlt, hin⟩
    · left; refine ⟨hc, ?_⟩
      rw [hi.dl, hc, ← hi.sw, List.take_length]
    · right
      obtain ⟨f, hfm, hfn⟩ := (inFl_iff _ _).mp hin
      have := (hi.flw f hfm).1
      exact ⟨hlt, f, hfm, hfn, by omega, hn⟩
  · simp [fire, hn, hv] at hf

/-- conversely: whenever something is pending and the oldest pending node has been
linked, `Pop` delivers exactly the oldest pending value and `Empty()` is false -/
theorem mpsc_pop_delivers_oldest (s : St) (h : MReachable s) (hlt : s.tail < s.head) (hl : inFl s.fl (s.tail + 1) = false) :
    ∃ x s', s.swapped[s.dlv.length]? = some x ∧ fire s .pop = some (s', .popped (some x)) ∧
      s'.dlv = s.dlv ++ [x] ∧ fire s .empty = some (s, .isEmpty false) := by
  have hi := mpsc_chain_invariant s h
  obtain ⟨x, hx, hf⟩ := fire_pop_some s hi hlt hl
  have hlen : s.dlv.length = s.tail := by
    rw [hi.dl, List.length_take, hi.sw]; have := hi.tl; omega
  refine ⟨x, _, by rw [hlen]; exact hx, hf, rfl, ?_⟩
  have hn := hi.nxt s.tail hlt
  rw [hl] at hn
  simp [fire, hn]

/-- what the consumer can reach from `tail` without any further producer step is a
prefix of the pending values; the rest is hidden behind a missing link whose
producer is in flight -/
theorem mpsc_visible_prefix (s : St) (h : MReachable s) :
    ∃ m, visible s = ((s.swapped.drop s.tail).take m) ∧ s.dlv ++ visible s <+: s.swapped ∧
      (s.tail + m = s.head ∨ inFl s.fl (s.tail + m + 1) = true) := by
  have hi := mpsc_chain_invariant s h
  obtain ⟨m, _, hm2, _, hm4⟩ := walk_spec s hi s.heap.length s.tail (Nat.le_refl _) hi.tl (by rw [hi.len]; omega)
  refine ⟨m, hm2, ?_, hm4⟩
  unfold visible
  rw [hm2, hi.dl]
  have : s.swapped = s.swapped.take s.tail ++ s.swapped.drop s.tail := (List.take_append_drop _ _).symm
  conv => rhs; rw [this]
  exact List.prefix_append_right_inj _ |>.mpr (List.take_prefix _ _)

/-- **quiescence ⇒ everything visible**: when no producer is between swap and link,
every swapped value has been delivered or is reachable from `tail`, in swap order;
so `Pop` succeeds whenever anything is pending -/
theorem mpsc_quiescent_all_visible (s : St) (h : MReachable s) (hq : s.fl = []) :
    s.dlv ++ visible s = s.swapped ∧ visible s = s.swapped.drop s.tail ∧
    (s.tail < s.head → ∃ x s', fire s .pop = some (s', .popped (some x))) := by
  have hi := mpsc_chain_invariant s h
  obtain ⟨m, hm1, hm2, _, hm4⟩ := walk_spec s hi s.heap.length s.tail (Nat.le_refl _) hi.tl (by rw [hi.len]; omega)
  have hm : s.tail + m = s.head := by
    rcases hm4 with e | e
    · exact e
    · simp [hq, inFl] at e
  have hv : visible s = s.swapped.drop s.tail := by
    unfold visible
    rw [hm2]
    apply List.take_of_length_le
    rw [List.length_drop, hi.sw]; omega
  refine ⟨?_, hv, ?_⟩
  · rw [hv, hi.dl, List.take_append_drop]
  · intro hlt
    obtain ⟨x, s', _, hf, _⟩ := mpsc_pop_delivers_oldest s h hlt (by simp [hq, inFl])
    exact ⟨x, s', hf⟩

/-- **progress / the link reveals**: from ANY reachable state, once the producers that
are in flight execute their link (no new pushes needed), `head - tail` pops deliver
every value that was swapped in and not yet delivered, in swap order -/
theorem mpsc_link_reveals (s : St) (h : MReachable s) :
    ∃ s' os, runL s ((s.fl.map fun f => Lbl.link f.p) ++ List.replicate (s.head - s.tail) Lbl.pop) = some (s', os) ∧
      deliveredOf os = s.swapped.drop s.tail ∧ s'.dlv = s.swapped ∧ s'.swapped = s.swapped ∧ s'.fl = [] ∧ visible s' = [] := by
  have hi := mpsc_chain_invariant s h
  obtain ⟨s1, o1, r1, c1, f1, h1, t1, w1, d1, e1⟩ := links_all s.fl.length s hi rfl
  obtain ⟨s2, o2, r2, c2, f2, t2, h2, w2, e2⟩ := pops_all (s.head - s.tail) s1 c1 f1 (by rw [h1, t1])
  have hrun := runL_append _ _ _ _ _ _ _ r1 r2
  have hdel : deliveredOf (o1 ++ o2) = s.swapped.drop s.tail := by
    have : ∀ a b : List Obs, deliveredOf (a ++ b) = deliveredOf a ++ deliveredOf b := by
      intro a b
      induction a with
      | nil => simp [deliveredOf]
      | cons x xs ih => rw [List.cons_append, deliveredOf_cons, deliveredOf_cons x xs, ih, List.append_assoc]
    rw [this, e1, e2, w1, t1]; rfl
  have hreach : MReachable s2 := by
    obtain ⟨ls, os, hr⟩ := h
    exact ⟨_, _, runL_append _ _ _ _ _ _ _ hr hrun⟩
  refine ⟨s2, o1 ++ o2, hrun, hdel, ?_, by rw [w2, w1], f2, ?_⟩
  · rw [c2.dl, t2, h1, w2, w1, ← hi.sw, List.take_length]
  · have := (mpsc_quiescent_all_visible s2 hreach f2).2.1
    rw [this, t2, h1, w2, w1, ← hi.sw, List.drop_length]

/-! ### non-vacuity: the window is real and observable -/

/-- producer 1 swaps and stalls; producer 2 completes a push; the consumer sees NOTHING
(`Pop` = nil, `Empty` = true) although a fully pushed value exists; after producer 1's
link both values arrive, in swap order -/
def stallSchedule : List Lbl := [.swap 1 11, .swap 2 22, .link 2, .pop, .empty, .link 1, .empty, .pop, .pop, .pop]
example : (runL init stallSchedule).map (·.2) =
    some [.done, .done, .done, .popped none, .isEmpty true, .done, .isEmpty false, .popped (some 11), .popped (some 22), .popped none] := by
  decide
example : ∃ s os, runL init [.swap 1 11, .swap 2 22, .link 2] = some (s, os) ∧ s.fl ≠ [] ∧ visible s = [] ∧ s.swapped = [11, 22] := by
  refine ⟨_, _, rfl, ?_⟩; decide

/-- defect witness (what the `swap`-then-`link` order buys): with link BEFORE swap
(`fireLinkFirst`) two producers that read the same `head` overwrite each other's
link — value 11 is lost for good and 22 overtakes it -/
theorem mpsc_link_before_swap_loses :
    (runLinkFirst init [.swap 1 11, .swap 2 22, .link 1, .link 2, .pop, .pop, .pop]).map (fun r => deliveredOf r.2) = some [22] := by
  decide


/-! ### relation to the mailbox model (`Model/Mailbox.lean`)

The mailbox models treat `systemMailbox.Push` as ONE step `pushS` that appends to a
list `sq`, and `Pop` as a list pop.  What is PROVED here:

1. `mailbox_pushS_is_swap_link` / `mailbox_popS_is_list_pop`: with no producer in
   flight, `swap p x; link p` executed back to back is exactly the list append, and
   `pop` is exactly the list pop, on the list `visible` (what is reachable from
   `tail`).  So the atomic `pushS`/`popS` of `Mailbox.Fine` are the concurrent queue
   restricted to schedules that do not interrupt a `Push` — which is what the mailbox
   run exercises (its `ps.push` yield point is before `Push`, none inside).
2. `mailbox_sysqueue_invariant` / `mailbox_no_lost_wakeup_split_push`: the wake-up
   protocol (`Mailbox.Abs`, any number of posters) composed with the CONCURRENT queue
   — `Push` split into `swapS`/`linkS`, the `sysMessages` increment `incrS` only after
   BOTH, `Pop` allowed to answer nil because of a missing link although messages are
   pending (`Lemmas/MpscMailbox.lean`, `Sys`) — keeps `Abs.MInv` with `sq` read as
   "swapped, not yet popped" (`sq = sm + nSp` included: a producer between swap and
   link, or between link and increment, is one of the `nSp`), and at mailbox
   quiescence no producer is in flight, nothing is hidden and every system message
   that was swapped in has been popped.  `single_runner` is a statement about `MInv`
   and carries over the same way.

What is ARGUED, not proved: that `Mailbox.Fine` with `pushS` split refines `Sys` for
the user-queue/pc details too.  The only new Fine-level behaviour is a `run.pops` step
that finds nothing although `sq ≠ []`; it moves the consumer `pops → lsusp` exactly
like the existing empty-queue case, both of which `absPc` maps to `.run`
(`mailbox_blocked_pop_is_stutter`), i.e. it is a stutter of `Abs`, where `run()` may
in any case return at any point (`endRun`). -/

/-- **atomic `pushS` = `swap; link`**: from a state without producers in flight, the two
steps of one `Push` executed back to back append `x` to the list the consumer sees
(and leave no producer in flight) -/
theorem mailbox_pushS_is_swap_link (s : St) (h : MReachable s) (hq : s.fl = []) (p x : Nat) :
    ∃ s' os, runL s [.swap p x, .link p] = some (s', os) ∧ s'.fl = [] ∧
      visible s' = visible s ++ [x] ∧ s'.dlv = s.dlv ∧ s'.tail = s.tail := by
  have hi := mpsc_chain_invariant s h
  let f : Flight := { p := p, n := s.heap.length, prev := s.head }
  let s1 : St := { s with heap := s.heap ++ [{ val := some x, next := none }], head := s.heap.length, fl := s.fl ++ [f], swapped := s.swapped ++ [x] }
  let s2 : St := { s1 with heap := setNext s1.heap s.head s.heap.length, fl := [] }
  have hf1 : fire s (.swap p x) = some (s1, .done) := by
    simp [fire, hq, hasP, s1, f]
  have hc1 := cinv_step _ _ _ _ hi hf1
  have hf2 : fire s1 (.link p) = some (s2, .done) :=
    link_first s1 f [] hc1 (by simp [s1, hq])
  have hrun : runL s [.swap p x, .link p] = some (s2, [.done, .done]) := by
    simp only [runL, hf1, hf2]
  have hreach : MReachable s2 := by
    obtain ⟨ls, os, hr⟩ := h
    exact ⟨_, _, runL_append _ _ _ _ _ _ _ hr hrun⟩
  refine ⟨s2, _, hrun, rfl, ?_, rfl, rfl⟩
  rw [(mpsc_quiescent_all_visible _ hreach rfl).2.1, (mpsc_quiescent_all_visible s h hq).2.1]
  show (s.swapped ++ [x]).drop s.tail = _
  rw [List.drop_append_of_le_length (by rw [hi.sw]; exact hi.tl)]

/-- **`popS` = list pop** while no producer is in flight: nil iff the visible list is empty,
otherwise its head comes out and its tail stays -/
theorem mailbox_popS_is_list_pop (s : St) (h : MReachable s) (hq : s.fl = []) :
    (visible s = [] ∧ fire s .pop = some (s, .popped none)) ∨
    (∃ x rest s', visible s = x :: rest ∧ fire s .pop = some (s', .popped (some x)) ∧ s'.fl = [] ∧ visible s' = rest) := by
  have hi := mpsc_chain_invariant s h
  have hv := (mpsc_quiescent_all_visible s h hq).2.1
  by_cases ht : s.tail = s.head
  · left
    refine ⟨?_, (fire_pop_none s hi (.inl ht)).1⟩
    rw [hv, ht, ← hi.sw, List.drop_length]
  · right
    have hlt : s.tail < s.head := by have := hi.tl; omega
    obtain ⟨x, hx, hf⟩ := fire_pop_some s hi hlt (by simp [hq, inFl])
    let s' : St := { s with tail := s.tail + 1, heap := clearVal s.heap (s.tail + 1), dlv := s.dlv ++ [x] }
    have hreach : MReachable s' := by
      obtain ⟨ls, os, hr⟩ := h
      exact ⟨_, _, runL_append _ [.pop] _ s s' _ _ hr (by simp only [runL, hf]; rfl)⟩
    have hxl : s.tail < s.swapped.length := by rw [hi.sw]; exact hlt
    refine ⟨x, s.swapped.drop (s.tail + 1), s', ?_, hf, hq, ?_⟩
    · rw [hv, List.drop_eq_getElem_cons hxl]
      rw [List.getElem?_eq_getElem hxl] at hx
      simp only [Option.some.injEq] at hx
      rw [hx]
    · exact (mpsc_quiescent_all_visible s' hreach hq).2.1

open Cell2v.Mailbox Cell2v.MpscMailbox in
/-- a state of the composed system (wake-up protocol × concurrent system queue) reachable under some schedule -/
def SysReachable (s : Sys) : Prop := ∃ ls, Cell2v.MpscMailbox.runL Cell2v.MpscMailbox.init ls = some s

open Cell2v.Mailbox Cell2v.MpscMailbox in
/-- with `Push` split into swap and link and the counter incremented after both, the
wake-up invariant (`sq = sm + nSp`, one runner, …) still holds in every reachable state,
`sq` being the number of messages swapped in and not yet popped; every producer between
its swap and its increment is one of the `nSp` -/
theorem mailbox_sysqueue_invariant (s : Sys) (h : SysReachable s) :
    Abs.MInv s.a ∧ s.a.sq = s.a.sm + s.a.nSp ∧ s.a.sq = ((s.q.head - s.q.tail : Nat) : Int) ∧
    s.q.fl.length + s.ret.length ≤ s.a.nSp ∧ Abs.runners s.a ≤ 1 := by
  obtain ⟨ls, hr⟩ := h
  have hi := sinv_run ls _ _ sinv_init hr
  exact ⟨hi.m, hi.m.1.2, hi.sq, hi.np, Abs.runners_le_one _ hi.m⟩

open Cell2v.Mailbox Cell2v.MpscMailbox in
/-- **no lost wake-up with the split `Push`**: at mailbox quiescence no producer is
between swap and link (nor between link and increment), nothing is hidden from the
consumer, and every system message that was swapped in has been popped -/
theorem mailbox_no_lost_wakeup_split_push (s : Sys) (h : SysReachable s) (hq : Abs.Quiescent s.a) :
    s.q.fl = [] ∧ s.ret = [] ∧ s.q.tail = s.q.head ∧ s.q.dlv = s.q.swapped := by
  obtain ⟨ls, hr⟩ := h
  have hi := sinv_run ls _ _ sinv_init hr
  have hw := Abs.quiescent_no_work _ hi.m hq
  have hnp := hi.np
  rw [hq.2.1] at hnp
  have hsq : ¬ s.a.sq > 0 := fun e => hw (.inl e)
  have ht : s.q.tail = s.q.head := by
    have := hi.sq; have := hi.c.tl; omega
  refine ⟨List.eq_nil_of_length_eq_zero (by omega), List.eq_nil_of_length_eq_zero (by omega), ht, ?_⟩
  rw [hi.c.dl, ht, ← hi.c.sw, List.take_length]

open Cell2v.Mailbox in
/-- a `run.pops` step that finds nothing — whether the queue is empty or its oldest
message is still unlinked — is invisible to the counter abstraction -/
theorem mailbox_blocked_pop_is_stutter (s : Fine.St) (hc : s.c = .pops) :
    Fine.abs { s with c := .lsusp } = Fine.abs s := by
  simp [Fine.abs, Fine.absPc, hc]

/-- non-vacuity of the composed system: a system poster is parked between swap and link
while the consumer's `Pop` answers nil with `sq = 1`; after link, increment and the
protocol's steps the message is popped and the mailbox is quiescent -/
example : ∃ s, Cell2v.MpscMailbox.runL Cell2v.MpscMailbox.init
    [.swapS 1 7, .swapS 2 8, .linkS 2, .incrS 2, .other .loadP, .other .casP, .other .dispP, .other .take, .popS .normal] = some s ∧
    s.q.fl.length = 1 ∧ s.q.dlv = [] ∧ s.a.sq = 2 ∧ s.a.c = .run := by
  refine ⟨_, rfl, ?_⟩; decide
example : ∃ s, Cell2v.MpscMailbox.runL Cell2v.MpscMailbox.init
    [.swapS 1 7, .linkS 1, .incrS 1, .other .loadP, .other .casP, .other .dispP, .other .take, .popS .normal, .popS .normal,
     .other .endRun, .other .storeIdle, .other .loadS, .other .loadU, .other .loadP2, .other .decide] = some s ∧
    Cell2v.Mailbox.Abs.Quiescent s.a ∧ s.q.dlv = [7] := by
  refine ⟨_, rfl, ?_⟩; simp only [Cell2v.Mailbox.Abs.Quiescent]; decide

end Cell2v.Props.C09
