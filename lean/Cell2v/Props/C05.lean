import Cell2v.Lemmas.SessionOwner
/-!
C05 — property theorems (one connection: one session-add, its messages in
order, one session-remove).  All statements quantify over every schedule
`ls : List Lbl` of the session model: an arbitrary interleaving of the reader,
the writer, the heartbeat, any number of external `Close` callers (kick), pushes,
clock advances, and every possible input (frames, undecodable data, read errors)
and write result.  `fx = true` is the reader as it is now, `fx = false` the reader
before the D6 repair.
-/
namespace Cell2v.Props.C05
open Cell2v.Session

/-- a state reachable from a connection freshly accepted at some time `t`, under some schedule -/
def Reachable (fx : Bool) (s : St) : Prop := ∃ t ls, runL fx (initAt t) ls = some s

/-- **close once** (either reader): whatever the interleaving of read error, kick,
heartbeat expiry and write failure, the session-add was posted exactly once, the
session-remove at most once, `conn.Close()` was called exactly as often as the remove
was posted (≤ 1), and at most one thread is inside the critical section of `Close`. -/
theorem close_once (fx : Bool) (s : St) (h : Reachable fx s) :
    adds s.posted = 1 ∧ removes s.posted ≤ 1 ∧ s.connCloses = removes s.posted ∧
    csN s.rdC + csN s.wrC + csN s.hbC + csN s.kC ≤ 1 := by
  obtain ⟨t, ls, hr⟩ := h
  obtain ⟨h1, h2, h3, h4, _⟩ := cinv_run fx ls _ _ (cinv_init t) hr
  have := b2n_le s.closed
  have := b2n_le s.mutex
  refine ⟨h4, by omega, h3.symm, by omega⟩

/-- **owner sequence** (either reader, owner as repaired by 6c4aee4): whatever prefix `p` of the
posted events the owning service has consumed, its handler has seen nothing, or
`add · msg* `, or `add · msg* · remove` — one add first, nothing after the
remove, every message with a live session — and the messages it saw are a
subsequence, in arrival order, of the data packets that arrived on the connection. -/
theorem owner_sequence (fx : Bool) (s : St) (h : Reachable fx s) (p : List Ev) (hp : p <+: s.posted) :
    p = [] ∨ ∃ ks, (view true false p = .add :: ks.map OEv.msg ∨
                    view true false p = .add :: (ks.map OEv.msg ++ [.remove])) ∧
                   List.Sublist ks s.arrived := by
  obtain ⟨t, ls, hr⟩ := h
  obtain ⟨hj, ⟨r, hh⟩⟩ := jh_run fx ls _ _ (jinv_init t) (hinv_init t) hr
  obtain ⟨_, _, _, h4, _⟩ := cinv_run fx ls _ _ (cinv_init t) hr
  have hr0 : adds r = 0 := by rw [hh] at h4; simp only [adds] at h4; omega
  rw [hh] at hp
  cases p with
  | nil => left; rfl
  | cons e p' =>
    right
    have he : e = .add ∧ p' <+: r := by
      obtain ⟨t, ht⟩ := hp
      simp only [List.cons_append, List.cons.injEq] at ht
      exact ⟨ht.1, ⟨t, ht.2⟩⟩
    obtain ⟨rfl, hp'⟩ := he
    obtain ⟨ks, hv, hs⟩ := view_live p' (adds_prefix hp' hr0)
    refine ⟨ks, ?_, ?_⟩
    · rcases hv with hv | hv
      · left; simp [view, hv]
      · right; simp [view, hv]
    · have h1 : List.Sublist (msgsOf s.posted) s.arrived := (List.sublist_append_left _ _).trans hj
      have h2 : msgsOf s.posted = msgsOf r := by rw [hh]; simp [msgsOf]
      rw [h2] at h1
      exact (hs.trans (msgsOf_prefix hp')).trans h1

/-- once everything posted has been consumed the owner has seen the remove iff it was posted -/
theorem owner_sees_remove (fx : Bool) (s : St) (h : Reachable fx s) (hrm : removes s.posted = 1) :
    ∃ ks : List Nat, view true false s.posted = .add :: (ks.map OEv.msg ++ [.remove]) := by
  obtain ⟨t, ls, hr⟩ := h
  obtain ⟨_, ⟨r, hh⟩⟩ := jh_run fx ls _ _ (jinv_init t) (hinv_init t) hr
  obtain ⟨_, _, _, h4, _⟩ := cinv_run fx ls _ _ (cinv_init t) hr
  have hr0 : adds r = 0 := by rw [hh] at h4; simp only [adds] at h4; omega
  have hr1 : removes r = 1 := by rw [hh] at hrm; simpa [removes] using hrm
  rw [hh]
  obtain ⟨ks, hk⟩ := view_live_remove r hr0 hr1
  exact ⟨ks, by simp [view, hk]⟩

/-- **the reader never ends without the session being closed** (current reader): when the read
goroutine has returned, `chanClose` is closed, `conn.Close()` was called once and the
session-remove was posted once. -/
theorem reader_end_closes (s : St) (h : Reachable true s) (hd : s.rd = .done) :
    s.closed = true ∧ s.connCloses = 1 ∧ removes s.posted = 1 := by
  obtain ⟨t, ls, hr⟩ := h
  have hc := cinv_run true ls _ _ (cinv_init t) hr
  have he := einv_run ls _ _ (cinv_init t) (einv_init t) hr
  have h1 := he.1 (Or.inl hd)
  obtain ⟨_, c2, c3, _, _⟩ := hc
  have := b2n_le s.closed
  refine ⟨?_, h1, by omega⟩
  cases hcl : s.closed with
  | true => rfl
  | false => rw [hcl] at c2; simp at c2; omega

/-- **every ending closes** (current reader): in a reachable state in which no thread can move
either nothing has happened to the connection yet (not closed; reader blocked in
`GetNextMessage`, writer and heartbeat blocked in their `select`, no tick due), or
the session is completely finished: remove posted exactly once, `conn.Close()`
called exactly once, and all three goroutines have returned.  No `Close` caller is
left waiting and the mutex is free. -/
theorem every_ending_closes (s : St) (h : Reachable true s) (hs : stuck true s = true) :
    (OpenIdle s ∨ AllDone s) ∧ s.mutex = false ∧ s.kWant = 0 := by
  obtain ⟨t, ls, hr⟩ := h
  exact stuck_shape s (cinv_run true ls _ _ (cinv_init t) hr) (einv_run ls _ _ (cinv_init t) (einv_init t) hr) hs

/-- so: once any of the three goroutines has left its waiting point for good — client
close, malformed input, bad handshake, kick, heartbeat expiry, write failure, or
several at once — every state in which nothing can move is the finished one -/
theorem any_thread_gone_all_released (s : St) (h : Reachable true s) (hs : stuck true s = true)
    (hg : s.rd ≠ .wait ∨ s.wr ≠ .sel ∨ s.hb ≠ .sel ∨ s.closed = true) : AllDone s := by
  rcases (every_ending_closes s h hs).1 with ho | hd
  · obtain ⟨o1, _, o3, o4, _, o6, _⟩ := ho
    rcases hg with hg | hg | hg | hg
    · exact absurd o3 hg
    · exact absurd o4 hg
    · exact absurd o6 hg
    · rw [o1] at hg; cases hg
  · exact hd

/-- **pushes after the close are dropped harmlessly**: `Push`/`ResponseMID` on a closed session
change nothing (either `closed` is returned or the send on the closed channel is recovered) -/
theorem push_after_close_dropped (fx : Bool) (s : St) (hc : s.closed = true) : fire fx s .push = some s := by
  simp [fire, hc]

/-- **a sender parked on the full send queue is released harmlessly by the close**: the heartbeat
goroutine blocked in `s.chSend <- p` (non-reading client, 9999 queued writes) simply goes back to
its loop when `Close` closes the channel (the panic is recovered inside `pushToSend`); nothing else
changes, and from there `every_ending_closes` applies. -/
theorem parked_sender_released (fx : Bool) (s : St) (hb : s.hb = .blk) (hc : s.hbC = .out) (hcl : s.closed = true) :
    fire fx s .hbUnblk = some { s with hb := .sel } := by
  simp [fire, hb, hc, hcl]

/-- **unique live id**: two sessions whose `AllocId` calls are fewer than `M - 1` apart
(`M = 2^32`) get different ids, and no id is 0.  Hence the id of a new session differs
from the id of every live session as long as fewer than `2^32 - 2` sessions were
accepted during the lifetime of any live one (the allocator guard of DESIGN §5). -/
theorem unique_live_id (M : Nat) (hM : 3 ≤ M) (i j : Nat) (hij : i < j) (hw : j - i < M - 1) :
    idAt M i ≠ idAt M j ∧ idAt M i ≠ 0 := by
  rw [idAt_eq M hM, idAt_eq M hM]
  refine ⟨?_, by omega⟩
  intro he
  have he' : (j + 1) % (M - 1) = (i + 1) % (M - 1) := by omega
  have h0 := Nat.sub_mod_eq_zero_of_mod_eq he'
  have h1 : j + 1 - (i + 1) = j - i := by omega
  rw [h1, Nat.mod_eq_of_lt hw] at h0
  omega

/-- the guard is necessary: the allocator is periodic with period `M - 1` -/
theorem id_wraps (M : Nat) (hM : 3 ≤ M) (n : Nat) : idAt M (n + (M - 1)) = idAt M n := by
  rw [idAt_eq M hM, idAt_eq M hM]
  have : n + (M - 1) + 1 = (n + 1) + (M - 1) := by omega
  rw [this, Nat.add_mod_right]

/-! ### witnesses and non-vacuity -/

/-- a complete handshake followed by one request -/
def hsSchedule : List Lbl :=
  [.rdTop, .rdTake (.frame [.hs true, .ack]), .rdRet, .rdPkt true, .rdPkt true, .rdPkt true]

/-- **D6** (reader before bde80b5): a handshake whose JSON does not parse ends the read
goroutine with the latch open; nothing can move any more, yet nothing was closed and no
remove was posted: the connection, the writer and the heartbeat goroutine leak. -/
theorem d6_old_reader_leaks :
    ∃ s, runL false init [.rdTop, .rdTake (.frame [.hs false]), .rdRet, .rdPkt true] = some s ∧
      s.rd = .done ∧ stuck false s = true ∧ s.closed = false ∧ s.connCloses = 0 ∧ removes s.posted = 0 :=
  ⟨_, rfl, by decide⟩

/-- the same schedule with the current reader ends closed -/
example : ∃ s, runL true init [.rdTop, .rdTake (.frame [.hs false]), .rdRet, .rdPkt true,
      .cLock .rd, .cCheck .rd, .cFin .rd, .rdEnd, .wrExit, .cLock .wr, .cCheck .wr, .wrEnd, .hbExit] = some s ∧
      stuck true s = true ∧ AllDone s := by
  refine ⟨_, rfl, by decide, ?_⟩
  simp only [AllDone]; decide

/-- **D15** (owner before 6c4aee4): the reader holds a frame when a kick closes the session;
the message is posted after the remove; the unguarded owner hands it to the handler with a
nil session, the guarded owner drops it. -/
def raceSchedule : List Lbl :=
  hsSchedule ++ [.rdTop, .rdTake (.frame [.data true 7]), .kick, .cLock .kk, .cCheck .kk, .cFin .kk, .rdRet, .rdPkt true]

theorem d15_message_after_remove :
    ∃ s, runL true init raceSchedule = some s ∧ s.posted = [.add, .remove, .msg 7] ∧
      view false false s.posted = [.add, .remove, .msgNil 7] ∧ view true false s.posted = [.add, .remove] :=
  ⟨_, rfl, by decide⟩

/-- a HandshakeAck processed after the close overwrites `StatusClosed` with `StatusWorking`
(the code's behaviour, harmless: the latch, not the status, guards everything) -/
example : ∃ s, runL true init ([.rdTop, .rdTake (.frame [.hs true]), .rdRet, .rdPkt true, .rdPkt true, .rdTop,
      .rdTake (.frame [.ack]), .kick, .cLock .kk, .cCheck .kk, .cFin .kk, .rdRet, .rdPkt true]) = some s ∧
      s.closed = true ∧ s.status = .working :=
  ⟨_, rfl, by decide⟩

/-- non-vacuity of `every_ending_closes`, open side: handshake done, everything parked -/
example : ∃ s, runL true init (hsSchedule ++ [.rdTop]) = some s ∧ stuck true s = true ∧ OpenIdle s := by
  refine ⟨_, rfl, by decide, ?_⟩
  simp only [OpenIdle]; decide

/-- … finished side, one schedule per way of ending (all reach `AllDone` with nothing able to move) -/
def finishAll : List Lbl :=
  [.wrExit, .cLock .wr, .cCheck .wr, .wrEnd, .hbExit]
/-- client closes the socket -/
example : ∃ s, runL true init (hsSchedule ++ [.rdTop, .rdTake .rerr, .rdRet, .cLock .rd, .cCheck .rd, .cFin .rd,
      .rdErrRet, .cLock .rd, .cCheck .rd, .rdEnd] ++ finishAll) = some s ∧ stuck true s = true ∧ AllDone s := by
  refine ⟨_, rfl, by decide, ?_⟩
  simp only [AllDone]; decide
/-- heartbeat expiry (silent for 20 s), the reader then fails on the closed conn -/
example : ∃ s, runL true init (hsSchedule ++ [.rdTop, .advance 10000, .hbTick, .hbChk, .hbSnd, .wrTake, .wrRet true,
      .advance 10000, .hbTick, .hbChk, .cLock .hb, .cCheck .hb, .cFin .hb, .hbSnd, .hbExit,
      .rdTake .rerr, .rdRet, .cLock .rd, .cCheck .rd, .rdErrRet, .cLock .rd, .cCheck .rd, .rdEnd,
      .wrExit, .cLock .wr, .cCheck .wr, .wrEnd]) = some s ∧ stuck true s = true ∧ AllDone s := by
  refine ⟨_, rfl, by decide, ?_⟩
  simp only [AllDone]; decide
/-- write failure racing a kick: the kicker takes the mutex first, the writer's Close finds the latch closed -/
example : ∃ s, runL true init (hsSchedule ++ [.rdTop, .push, .wrTake, .kick, .wrRet false, .cLock .kk, .cCheck .kk,
      .cFin .kk, .cLock .wr, .cCheck .wr, .wrEnd, .hbExit,
      .rdTake .rerr, .rdRet, .cLock .rd, .cCheck .rd, .rdErrRet, .cLock .rd, .cCheck .rd, .rdEnd]) = some s ∧
      stuck true s = true ∧ AllDone s ∧ removes s.posted = 1 := by
  refine ⟨_, rfl, by decide, ?_, by decide⟩
  simp only [AllDone]; decide

/-- non-vacuity of `owner_sequence`: the owner has consumed add, two messages and the remove -/
example : ∃ s, runL true init (hsSchedule ++ [.rdTop, .rdTake (.frame [.data true 1, .data true 2]), .rdRet,
      .rdPkt true, .rdPkt true, .kick, .cLock .kk, .cCheck .kk, .cFin .kk]) = some s ∧
      view true false s.posted = [.add, .msg 1, .msg 2, .remove] ∧ s.arrived = [1, 2] :=
  ⟨_, rfl, by decide⟩

/-- non-vacuity of `unique_live_id` at the real modulus: the ids just before and after the wrap -/
example : idAt (2^32) 0 = 2 ∧ idAt (2^32) 4294967293 = 4294967295 ∧ idAt (2^32) 4294967294 = 1 ∧
    idAt (2^32) 4294967295 = 2 := by
  rw [idAt_eq _ (by decide), idAt_eq _ (by decide), idAt_eq _ (by decide), idAt_eq _ (by decide)]
  decide

end Cell2v.Props.C05
