import Cell2v.Lemmas.SessionOwner
import Cell2v.Lemmas.Framing
import Cell2v.Lemmas.SessionTerm
import Cell2v.Lemmas.SessionDeliver
import Cell2v.Lemmas.CloseFine
/-!
C05 — property theorems (one connection: one session-add, its messages in
order, one session-remove).  All statements quantify over every schedule
`ls : List Lbl` of the session model: an arbitrary interleaving of the reader,
the writer, the heartbeat, any number of external `Close` callers (kick), pushes,
clock advances, and every possible input (frames, undecodable data, read errors)
and write result.  `fx = true` is the reader as it is now, `fx = false` the reader
before the D6 repair.
-/
namespace Cell2v.Props.C05
open Cell2v.Session

/-- a state reachable from a connection freshly accepted at some time `t`, under some schedule -/
def Reachable (fx : Bool) (s : St) : Prop := ∃ t ls, runL fx (initAt t) ls = some s

/-- **close once** (either reader): whatever the interleaving of read error, kick,
heartbeat expiry and write failure, the session-add was posted exactly once, the
session-remove at most once, `conn.Close()` was called exactly as often as the remove
was posted (≤ 1), and at most one thread is inside the critical section of `Close`. -/
theorem close_once (fx : Bool) (s : St) (h : Reachable fx s) :
    adds s.posted = 1 ∧ removes s.posted ≤ 1 ∧ s.connCloses = removes s.posted ∧
    csN s.rdC + csN s.wrC + csN s.hbC + csN s.kC ≤ 1 := by
  obtain ⟨t, ls, hr⟩ := h
  obtain ⟨h1, h2, h3, h4, _⟩ := cinv_run fx ls _ _ (cinv_init t) hr
  have := b2n_le s.closed
  have := b2n_le s.mutex
  refine ⟨h4, by omega, h3.symm, by omega⟩

/-- **owner sequence** (either reader, owner as repaired by 6c4aee4): whatever prefix `p` of the
posted events the owning service has consumed, its handler has seen nothing, or
`add · msg* `, or `add · msg* · remove` — one add first, nothing after the
remove, every message with a live session — and the messages it saw are a
subsequence, in arrival order, of the data packets that arrived on the connection. -/
theorem owner_sequence (fx : Bool) (s : St) (h : Reachable fx s) (p : List Ev) (hp : p <+: s.posted) :
    p = [] ∨ ∃ ks, (view true false p = .add :: ks.map OEv.msg ∨
                    view true false p = .add :: (ks.map OEv.msg ++ [.remove])) ∧
                   List.Sublist ks s.arrived := by
  obtain ⟨t, ls, hr⟩ := h
  obtain ⟨hj, ⟨r, hh⟩⟩ := jh_run fx ls _ _ (jinv_init t) (hinv_init t) hr
  obtain ⟨_, _, _, h4, _⟩ := cinv_run fx ls _ _ (cinv_init t) hr
  have hr0 : adds r = 0 := by rw [hh] at h4; simp only [adds] at h4; omega
  rw [hh] at hp
  cases p with
  | nil => left; rfl
  | cons e p' =>
    right
    have he : e = .add ∧ p' <+: r := by
      obtain ⟨t, ht⟩ := hp
      simp only [List.cons_append, List.cons.injEq] at ht
      exact ⟨ht.1, ⟨t, ht.2⟩⟩
    obtain ⟨rfl, hp'⟩ := he
    obtain ⟨ks, hv, hs⟩ := view_live p' (adds_prefix hp' hr0)
    refine ⟨ks, ?_, ?_⟩
    · rcases hv with hv | hv
      · left; simp [view, hv]
      · right; simp [view, hv]
    · have h1 : List.Sublist (msgsOf s.posted) s.arrived := (List.sublist_append_left _ _).trans hj
      have h2 : msgsOf s.posted = msgsOf r := by rw [hh]; simp [msgsOf]
      rw [h2] at h1
      exact (hs.trans (msgsOf_prefix hp')).trans h1

/-- once everything posted has been consumed the owner has seen the remove iff it was posted -/
theorem owner_sees_remove (fx : Bool) (s : St) (h : Reachable fx s) (hrm : removes s.posted = 1) :
    ∃ ks : List Nat, view true false s.posted = .add :: (ks.map OEv.msg ++ [.remove]) := by
  obtain ⟨t, ls, hr⟩ := h
  obtain ⟨_, ⟨r, hh⟩⟩ := jh_run fx ls _ _ (jinv_init t) (hinv_init t) hr
  obtain ⟨_, _, _, h4, _⟩ := cinv_run fx ls _ _ (cinv_init t) hr
  have hr0 : adds r = 0 := by rw [hh] at h4; simp only [adds] at h4; omega
  have hr1 : removes r = 1 := by rw [hh] at hrm; simpa [removes] using hrm
  rw [hh]
  obtain ⟨ks, hk⟩ := view_live_remove r hr0 hr1
  exact ⟨ks, by simp [view, hk]⟩

/-- **the reader never ends without the session being closed** (current reader): when the read
goroutine has returned, `chanClose` is closed, `conn.Close()` was called once and the
session-remove was posted once. -/
theorem reader_end_closes (s : St) (h : Reachable true s) (hd : s.rd = .done) :
    s.closed = true ∧ s.connCloses = 1 ∧ removes s.posted = 1 := by
  obtain ⟨t, ls, hr⟩ := h
  have hc := cinv_run true ls _ _ (cinv_init t) hr
  have he := einv_run ls _ _ (cinv_init t) (einv_init t) hr
  have h1 := he.1 (Or.inl hd)
  obtain ⟨_, c2, c3, _, _⟩ := hc
  have := b2n_le s.closed
  refine ⟨?_, h1, by omega⟩
  cases hcl : s.closed with
  | true => rfl
  | false => rw [hcl] at c2; simp at c2; omega

/-- **every ending closes** (current reader): in a reachable state in which no thread can move
either nothing has happened to the connection yet (not closed; reader blocked in
`GetNextMessage`, writer and heartbeat blocked in their `select`, no tick due), or
the session is completely finished: remove posted exactly once, `conn.Close()`
called exactly once, and all three goroutines have returned.  No `Close` caller is
left waiting and the mutex is free. -/
theorem every_ending_closes (s : St) (h : Reachable true s) (hs : stuck true s = true) :
    (OpenIdle s ∨ AllDone s) ∧ s.mutex = false ∧ s.kWant = 0 := by
  obtain ⟨t, ls, hr⟩ := h
  exact stuck_shape s (cinv_run true ls _ _ (cinv_init t) hr) (einv_run ls _ _ (cinv_init t) (einv_init t) hr) hs

/-- so: once any of the three goroutines has left its waiting point for good — client
close, malformed input, bad handshake, kick, heartbeat expiry, write failure, or
several at once — every state in which nothing can move is the finished one -/
theorem any_thread_gone_all_released (s : St) (h : Reachable true s) (hs : stuck true s = true)
    (hg : s.rd ≠ .wait ∨ s.wr ≠ .sel ∨ s.hb ≠ .sel ∨ s.closed = true) : AllDone s := by
  rcases (every_ending_closes s h hs).1 with ho | hd
  · obtain ⟨o1, _, o3, o4, _, o6, _⟩ := ho
    rcases hg with hg | hg | hg | hg
    · exact absurd o3 hg
    · exact absurd o4 hg
    · exact absurd o6 hg
    · rw [o1] at hg; cases hg
  · exact hd

/-- **pushes after the close are dropped harmlessly**: `Push`/`ResponseMID` on a closed session
change nothing (either `closed` is returned or the send on the closed channel is recovered) -/
theorem push_after_close_dropped (fx : Bool) (s : St) (hc : s.closed = true) : fire fx s .push = some s := by
  simp [fire, hc]

/-- **a sender parked on the full send queue is released harmlessly by the close**: the heartbeat
goroutine blocked in `s.chSend <- p` (non-reading client, 9999 queued writes) simply goes back to
its loop when `Close` closes the channel (the panic is recovered inside `pushToSend`); nothing else
changes, and from there `every_ending_closes` applies. -/
theorem parked_sender_released (fx : Bool) (s : St) (hb : s.hb = .blk) (hc : s.hbC = .out) (hcl : s.closed = true) :
    fire fx s .hbUnblk = some { s with hb := .sel } := by
  simp [fire, hb, hc, hcl]

/-- **unique live id**: two sessions whose `AllocId` calls are fewer than `M - 1` apart
(`M = 2^32`) get different ids, and no id is 0.  Hence the id of a new session differs
from the id of every live session as long as fewer than `2^32 - 2` sessions were
accepted during the lifetime of any live one (the allocator guard of DESIGN §5). -/
theorem unique_live_id (M : Nat) (hM : 3 ≤ M) (i j : Nat) (hij : i < j) (hw : j - i < M - 1) :
    idAt M i ≠ idAt M j ∧ idAt M i ≠ 0 := by
  rw [idAt_eq M hM, idAt_eq M hM]
  refine ⟨?_, by omega⟩
  intro he
  have he' : (j + 1) % (M - 1) = (i + 1) % (M - 1) := by omega
  have h0 := Nat.sub_mod_eq_zero_of_mod_eq he'
  have h1 : j + 1 - (i + 1) = j - i := by omega
  rw [h1, Nat.mod_eq_of_lt hw] at h0
  omega

/-- the guard is necessary: the allocator is periodic with period `M - 1` -/
theorem id_wraps (M : Nat) (hM : 3 ≤ M) (n : Nat) : idAt M (n + (M - 1)) = idAt M n := by
  rw [idAt_eq M hM, idAt_eq M hM]
  have : n + (M - 1) + 1 = (n + 1) + (M - 1) := by omega
  rw [this, Nat.add_mod_right]

/-! ### witnesses and non-vacuity -/

/-- a complete handshake followed by one request -/
def hsSchedule : List Lbl :=
  [.rdTop, .rdTake (.frame [.hs true, .ack]), .rdRet, .rdPkt true, .rdPkt true, .rdPkt true]

/-- **D6** (reader before bde80b5): a handshake whose JSON does not parse ends the read
goroutine with the latch open; nothing can move any more, yet nothing was closed and no
remove was posted: the connection, the writer and the heartbeat goroutine leak. -/
theorem d6_old_reader_leaks :
    ∃ s, runL false init [.rdTop, .rdTake (.frame [.hs false]), .rdRet, .rdPkt true] = some s ∧
      s.rd = .done ∧ stuck false s = true ∧ s.closed = false ∧ s.connCloses = 0 ∧ removes s.posted = 0 :=
  ⟨_, rfl, by decide⟩

/-- the same schedule with the current reader ends closed -/
example : ∃ s, runL true init [.rdTop, .rdTake (.frame [.hs false]), .rdRet, .rdPkt true,
      .cLock .rd, .cCheck .rd, .cFin .rd, .rdEnd, .wrExit, .cLock .wr, .cCheck .wr, .wrEnd, .hbExit] = some s ∧
      stuck true s = true ∧ AllDone s := by
  refine ⟨_, rfl, by decide, ?_⟩
  simp only [AllDone]; decide

/-- **D15** (owner before 6c4aee4): the reader holds a frame when a kick closes the session;
the message is posted after the remove; the unguarded owner hands it to the handler with a
nil session, the guarded owner drops it. -/
def raceSchedule : List Lbl :=
  hsSchedule ++ [.rdTop, .rdTake (.frame [.data true 7]), .kick, .cLock .kk, .cCheck .kk, .cFin .kk, .rdRet, .rdPkt true]

theorem d15_message_after_remove :
    ∃ s, runL true init raceSchedule = some s ∧ s.posted = [.add, .remove, .msg 7] ∧
      view false false s.posted = [.add, .remove, .msgNil 7] ∧ view true false s.posted = [.add, .remove] :=
  ⟨_, rfl, by decide⟩

/-- a HandshakeAck processed after the close overwrites `StatusClosed` with `StatusWorking`
(the code's behaviour, harmless: the latch, not the status, guards everything) -/
example : ∃ s, runL true init ([.rdTop, .rdTake (.frame [.hs true]), .rdRet, .rdPkt true, .rdPkt true, .rdTop,
      .rdTake (.frame [.ack]), .kick, .cLock .kk, .cCheck .kk, .cFin .kk, .rdRet, .rdPkt true]) = some s ∧
      s.closed = true ∧ s.status = .working :=
  ⟨_, rfl, by decide⟩

/-- non-vacuity of `every_ending_closes`, open side: handshake done, everything parked -/
example : ∃ s, runL true init (hsSchedule ++ [.rdTop]) = some s ∧ stuck true s = true ∧ OpenIdle s := by
  refine ⟨_, rfl, by decide, ?_⟩
  simp only [OpenIdle]; decide

/-- … finished side, one schedule per way of ending (all reach `AllDone` with nothing able to move) -/
def finishAll : List Lbl :=
  [.wrExit, .cLock .wr, .cCheck .wr, .wrEnd, .hbExit]
/-- client closes the socket -/
example : ∃ s, runL true init (hsSchedule ++ [.rdTop, .rdTake .rerr, .rdRet, .cLock .rd, .cCheck .rd, .cFin .rd,
      .rdErrRet, .cLock .rd, .cCheck .rd, .rdEnd] ++ finishAll) = some s ∧ stuck true s = true ∧ AllDone s := by
  refine ⟨_, rfl, by decide, ?_⟩
  simp only [AllDone]; decide
/-- heartbeat expiry (silent for 20 s), the reader then fails on the closed conn -/
example : ∃ s, runL true init (hsSchedule ++ [.rdTop, .advance 10000, .hbTick, .hbChk, .hbSnd, .wrTake, .wrRet true,
      .advance 10000, .hbTick, .hbChk, .cLock .hb, .cCheck .hb, .cFin .hb, .hbSnd, .hbExit,
      .rdTake .rerr, .rdRet, .cLock .rd, .cCheck .rd, .rdErrRet, .cLock .rd, .cCheck .rd, .rdEnd,
      .wrExit, .cLock .wr, .cCheck .wr, .wrEnd]) = some s ∧ stuck true s = true ∧ AllDone s := by
  refine ⟨_, rfl, by decide, ?_⟩
  simp only [AllDone]; decide
/-- write failure racing a kick: the kicker takes the mutex first, the writer's Close finds the latch closed -/
example : ∃ s, runL true init (hsSchedule ++ [.rdTop, .push, .wrTake, .kick, .wrRet false, .cLock .kk, .cCheck .kk,
      .cFin .kk, .cLock .wr, .cCheck .wr, .wrEnd, .hbExit,
      .rdTake .rerr, .rdRet, .cLock .rd, .cCheck .rd, .rdErrRet, .cLock .rd, .cCheck .rd, .rdEnd]) = some s ∧
      stuck true s = true ∧ AllDone s ∧ removes s.posted = 1 := by
  refine ⟨_, rfl, by decide, ?_, by decide⟩
  simp only [AllDone]; decide

/-- non-vacuity of `owner_sequence`: the owner has consumed add, two messages and the remove -/
example : ∃ s, runL true init (hsSchedule ++ [.rdTop, .rdTake (.frame [.data true 1, .data true 2]), .rdRet,
      .rdPkt true, .rdPkt true, .kick, .cLock .kk, .cCheck .kk, .cFin .kk]) = some s ∧
      view true false s.posted = [.add, .msg 1, .msg 2, .remove] ∧ s.arrived = [1, 2] :=
  ⟨_, rfl, by decide⟩

/-- non-vacuity of `unique_live_id` at the real modulus: the ids just before and after the wrap -/
example : idAt (2^32) 0 = 2 ∧ idAt (2^32) 4294967293 = 4294967295 ∧ idAt (2^32) 4294967294 = 1 ∧
    idAt (2^32) 4294967295 = 2 := by
  rw [idAt_eq _ (by decide), idAt_eq _ (by decide), idAt_eq _ (by decide), idAt_eq _ (by decide)]
  decide

/-! ### TCP framing (`tcpPlayerConn.GetNextMessage`): all byte streams, all segmentations -/

open Cell2v.Framing in
/-- **framing is independent of TCP segmentation**: two streams with the same bytes, however they are cut into
segments (a header split from its body, a body in many pieces, packets glued together), give the read loop the same
messages and the same ending. -/
theorem framing_independent_of_segmentation (k : Nat) (cs cs' : List (List Nat)) (h : cs.flatten = cs'.flatten) :
    framesOf k cs = framesOf k cs' := framesOf_flat k cs cs' h

open Cell2v.Framing in
/-- **every complete packet is delivered**: a stream consisting of complete packets (type 1..5, body below 16 MB),
in any segmentation, then FIN, yields exactly those packets in order and then `ErrConnectionClosed` — no message is
lost, duplicated, merged or reordered by the framing. -/
theorem framing_delivers_all_packets (ps : List (Nat × List Nat)) (k : Nat) (cs : List (List Nat))
    (hw : WellFormed ps) (hk : ps.length < k) (h : cs.flatten = encodeAll ps) :
    framesOf k cs = (ps.map fun p => encode p.1 p.2, .closed) := framesOf_packets ps k cs hw hk h

open Cell2v.Framing in
/-- **a client that never half-closes gets the same messages through**: the read loop's messages on an open stream
(the peer keeps its side open: an incomplete header or body leaves the reader parked in Read instead of failing) are those of
the same bytes followed by FIN — so what is delivered does not depend on who ends the connection -/
theorem framing_open_stream_same_messages (k : Nat) (cs : List (List Nat)) :
    (framesOpen k cs).1 = (framesOf k cs).1 := framesOpen_msgs k cs

open Cell2v.Framing in
/-- every complete packet of a passive client's stream is delivered, in any segmentation -/
theorem framing_open_delivers_all_packets (ps : List (Nat × List Nat)) (k : Nat) (cs : List (List Nat))
    (hw : WellFormed ps) (hk : ps.length < k) (h : cs.flatten = encodeAll ps) :
    (framesOpen k cs).1 = ps.map fun p => encode p.1 p.2 := by
  rw [framesOpen_msgs, framesOf_packets ps k cs hw hk h]

open Cell2v.Framing in
/-- non-vacuity: two packets and half a header on an open stream: both delivered, the reader parked; a complete bad header: error -/
example : framesOpen 5 [[1, 0], [0, 2, 7, 7, 4, 0, 0, 3, 9], [9, 9, 4, 0]] = ([[1, 0, 0, 2, 7, 7], [4, 0, 0, 3, 9, 9, 9]], .pending) ∧
    framesOpen 5 [[3, 0, 0, 0, 9, 0, 0, 1]] = ([[3, 0, 0, 0]], .err) := by
  decide

open Cell2v.Framing in
/-- **websocket framing: one packet per message**: `WSConn.GetNextMessage` returns a message that holds exactly one complete
packet unchanged, and rejects a message in which anything follows the packet (two packets glued into one message end the session) -/
theorem ws_one_packet_per_message (t : Nat) (body extra : List Nat) (ht : 1 ≤ t ∧ t ≤ 5) (hb : body.length < 16777216) :
    wsNext (encode t body ++ extra) = if extra = [] then .msg (encode t body) else .err := wsNext_encode t body extra ht hb

open Cell2v.Framing in
/-- non-vacuity: a handshake-sized and a data-sized packet, the second one's body arriving in two segments, the cut
of the first inside its header -/
example : framesOf 5 [[1, 0], [0, 2, 7, 7, 4, 0, 0, 3, 9], [9, 9]] = ([[1, 0, 0, 2, 7, 7], [4, 0, 0, 3, 9, 9, 9]], .closed) := by
  decide

open Cell2v.Framing in
/-- **defect witness (single Read)**: reading the body with ONE `conn.Read` instead of reading until the announced
length is there takes a body that arrives in two segments for a truncated message — the code's `ReadAll(LimitReader)` does not. -/
theorem single_read_loses_split_body :
    (getNextWith readOnce [[4, 0, 0, 2, 65], [66]]).1 = .err ∧ (getNext [[4, 0, 0, 2, 65], [66]]).1 = .msg [4, 0, 0, 2, 65, 66] := by
  decide

/-! ### liveness: the threads always come to rest, and after a close cause the resting state is the finished one -/

/-- **thread steps terminate**: a run of thread steps only (reader, writer, heartbeat, Close callers; no new input on an
open conn, no kick, no push, no clock advance) from ANY state is at most `work s` steps long — `work` is an explicit
measure every such step strictly decreases (`work_decreases`).  No fairness assumption is needed: every maximal run
of the threads is finite and ends where nothing can move. -/
theorem internal_steps_terminate (s s' : St) (ls : List Lbl) (h : IRun s ls s') : ls.length ≤ work s := by
  have := irun_bound h; omega

/-- **every connection comes to rest, untouched or finished**: from every reachable state some run of thread steps reaches a
state where nothing can move, every such run has at most `work s` steps, and every state so reached is `OpenIdle` or `AllDone`. -/
theorem always_comes_to_rest (s : St) (h : Reachable true s) :
    (∃ ls s', IRun s ls s' ∧ stuck true s' = true) ∧
    (∀ ls s', IRun s ls s' → stuck true s' = true → (OpenIdle s' ∨ AllDone s') ∧ s'.mutex = false ∧ s'.kWant = 0) := by
  refine ⟨exists_irun_to_stuck (work s) s (Nat.le_refl _), ?_⟩
  intro ls s' hr hs
  obtain ⟨t, l0, h0⟩ := h
  exact every_ending_closes s' ⟨t, l0 ++ ls, runL_append true l0 ls _ _ _ h0 (irun_runL hr)⟩ hs

/-- **after any close cause the session finishes**: once `Close()` has been called by anybody — a pending kick, the reader
after a read error / malformed packet / bad handshake, the writer after a failed write, the heartbeat after the expiry, or
several of them at once (`Closing`) — every maximal run of the threads is finite (≤ `work s` steps) and ends in `AllDone`:
session-remove posted exactly once, `conn.Close()` called exactly once, all three goroutines returned, mutex free, no
Close caller left. -/
theorem close_cause_finishes (s : St) (h : Reachable true s) (hk : Closing s) :
    (∃ ls s', IRun s ls s' ∧ stuck true s' = true) ∧
    (∀ ls s', IRun s ls s' → ls.length ≤ work s) ∧
    (∀ ls s', IRun s ls s' → stuck true s' = true → AllDone s' ∧ s'.mutex = false ∧ s'.kWant = 0) := by
  obtain ⟨hex, hall⟩ := always_comes_to_rest s h
  refine ⟨hex, fun ls s' hr => internal_steps_terminate s s' ls hr, ?_⟩
  intro ls s' hr hs
  obtain ⟨hsh, hm, hkw⟩ := hall ls s' hr hs
  refine ⟨?_, hm, hkw⟩
  rcases hsh with ho | hd
  · exfalso
    obtain ⟨t, l0, h0⟩ := h
    have hc0 := cinv_run true l0 _ _ (cinv_init t) h0
    have hk' := closing_irun hr hc0 hk
    have hc' := cinv_run true ls _ _ hc0 (irun_runL hr)
    obtain ⟨_, p2, p3, p4, p5, p6⟩ := stuck_phases s' hc' hs
    obtain ⟨o1, _⟩ := ho
    simp only [Closing] at hk'
    rcases hk' with a | a | a | a | a | a
    · rw [o1] at a; cases a
    · omega
    · exact a p5
    · exact a p2
    · exact a p3
    · exact a p4
  · exact hd

/-- **every close cause calls Close**: a kick, a read error or undecodable frame handed to the loop, a failed write, a failed
handshake response, a handshake with bad JSON, an undecodable message on a Working session, and the heartbeat check of a
Working session silent for two intervals each lead into `Closing` — so `close_cause_finishes` applies to all of them. -/
theorem close_causes_call_close (s s' : St) :
    (fire true s .kick = some s' → Closing s') ∧
    ((s.rd = .hold .rerr ∨ s.rd = .hold .bad) → fire true s .rdRet = some s' → Closing s') ∧
    (fire true s (.wrRet false) = some s' → Closing s') ∧
    ((∃ j rest, s.rd = .proc (.hs j :: rest)) → fire true s (.rdPkt false) = some s' → Closing s') ∧
    ((∃ rest, s.rd = .proc (.hs false :: rest)) → fire true s (.rdPkt true) = some s' → Closing s') ∧
    ((∃ m rest, s.rd = .proc (.data false m :: rest)) → s.status = .working → fire true s (.rdPkt true) = some s' → Closing s') ∧
    (s.status = .working → ¬ (s.now < s.lastHb + 2 * hbMs) → fire true s .hbChk = some s' → Closing s') := by
  obtain ⟨status, closed, mutex, cc, posted, sendq, writes, now, lastHb, tickAt, rd, rdC, wr, wrC, hb, hbC, kWant, kC, arrived⟩ := s
  refine ⟨?_, ?_, ?_, ?_, ?_, ?_, ?_⟩
  · intro hf; simp only [fire] at hf; cases hf; simp [Closing]
  · intro hr hf; simp only at hr
    rcases hr with rfl | rfl <;> simp only [fire, rdExit] at hf <;> (repeat' split at hf) <;> simp_all [Closing] <;>
      (cases hf; simp)
  · intro hf; simp only [fire] at hf; (repeat' split at hf) <;> simp_all [Closing] <;> (cases hf; simp)
  · rintro ⟨j, rest, hr⟩ hf; simp only at hr; subst hr
    simp only [fire, rdExit] at hf; (repeat' split at hf) <;> simp_all [Closing] <;> (cases hf; simp)
  · rintro ⟨rest, hr⟩ hf; simp only at hr; subst hr
    simp only [fire, rdExit] at hf; (repeat' split at hf) <;> simp_all [Closing] <;> (cases hf; simp)
  · rintro ⟨m, rest, hr⟩ hw hf; simp only at hr hw; subst hr; subst hw
    simp only [fire, rdExit] at hf; (repeat' split at hf) <;> simp_all [Closing] <;> (cases hf; simp)
  · intro hw hx hf; simp only at hw hx; subst hw
    simp only [fire] at hf; (repeat' split at hf) <;> simp_all [Closing] <;> (cases hf; simp)

/-- non-vacuity of `close_cause_finishes`: a kick on an idle Working session; the threads then finish in at most 19 steps -/
example : ∃ s, runL true init (hsSchedule ++ [.rdTop, .kick]) = some s ∧ Closing s ∧ work s = 19 := by
  refine ⟨_, rfl, ?_, ?_⟩
  · simp only [Closing]; decide
  · decide

/-! ### the message clause from below: nothing is dropped -/

/-- **no message of a frame is dropped** (either reader, every schedule): while the reader is inside a frame of packets that
neither end the loop nor take the session out of Working (data that decodes, heartbeat, ack, kick packets) on a session
that has been ACKed, then — whatever the reader, the writer, the heartbeat, Close callers, pushes, the clock and further
input do afterwards, in any interleaving — every message of that frame is, in order and after the earlier ones, either
already posted to the owner or still in the reader's hand; once the reader has left the frame all of them are posted. -/
theorem frame_messages_never_dropped (fx : Bool) (s : St) (ps : List Pkt) (hrd : s.rd = .proc ps) (hc : s.rdC = .out)
    (hst : s.status = .working ∨ s.status = .closed) (hb : ∀ p ∈ ps, benign p = true)
    (ls : List Lbl) (s' : St) (hr : runL fx s ls = some s') :
    (∃ rest, s'.rd = .proc rest ∧ msgsOf s'.posted ++ midsOfPkts rest = msgsOf s.posted ++ midsOfPkts ps) ∨
    (msgsOf s.posted ++ midsOfPkts ps) <+: msgsOf s'.posted := by
  have h0 : Delivered (msgsOf s.posted ++ midsOfPkts ps) s := Or.inl ⟨hc, hst, ps, hrd, hb, rfl⟩
  rcases delivered_run fx _ ls s s' h0 hr with ⟨_, _, rest, h1, _, h2⟩ | h
  · exact Or.inl ⟨rest, h1, h2⟩
  · exact Or.inr h

/-- **the owner handles every message posted before the remove** (either reader, owner as repaired): once it has consumed
what was posted, the messages its handler saw are exactly — not merely a subsequence of — the messages posted before the
session-remove, in order. -/
theorem owner_sees_every_message_before_remove (fx : Bool) (s : St) (h : Reachable fx s) :
    omsgs (view true false s.posted) = msgsOf (untilRemove s.posted) := by
  obtain ⟨t, ls, hr⟩ := h
  obtain ⟨_, ⟨r, hh⟩⟩ := jh_run fx ls _ _ (jinv_init t) (hinv_init t) hr
  obtain ⟨_, _, _, h4, _⟩ := cinv_run fx ls _ _ (cinv_init t) hr
  have hr0 : adds r = 0 := by rw [hh] at h4; simp only [adds] at h4; omega
  rw [hh]
  simp [view, omsgs, untilRemove, msgsOf, view_msgs_live r hr0]

/-- non-vacuity of `frame_messages_never_dropped`: a Working session inside the frame [d1, hb, d2]; a kick closes it while
the reader is between the two messages; both are posted all the same (the second one after the remove) -/
example : ∃ s s', runL true init (hsSchedule ++ [.rdTop, .rdTake (.frame [.data true 1, .hb, .data true 2]), .rdRet]) = some s ∧
    s.rd = .proc [.data true 1, .hb, .data true 2] ∧ s.rdC = .out ∧ s.status = .working ∧
    runL true s [.rdPkt true, .kick, .cLock .kk, .cCheck .kk, .cFin .kk, .rdPkt true, .rdPkt true, .rdPkt true] = some s' ∧
    s'.posted = [.add, .msg 1, .remove, .msg 2] ∧ omsgs (view true false s'.posted) = [1] :=
  ⟨_, _, rfl, rfl, rfl, rfl, rfl, by decide, by decide⟩

/-! ### the owner's sessions map: any number of connections, lookups by id -/

/-- **the id of a new session is not the id of any live session**: if every live session was allocated fewer than
`M - 1 = 2^32 - 1` allocations before the new one (`live` = their allocation indices), the new id is none of theirs, and it is not 0. -/
theorem new_id_not_live (M : Nat) (hM : 3 ≤ M) (live : List Nat) (n : Nat) (h : ∀ i ∈ live, i < n ∧ n - i < M - 1) :
    idAt M n ∉ live.map (idAt M) ∧ idAt M n ≠ 0 := by
  constructor
  · intro hm
    obtain ⟨i, hi, heq⟩ := List.mem_map.mp hm
    exact (unique_live_id M hM i n (h i hi).1 (h i hi).2).1 heq
  · rw [idAt_eq M hM]; omega

/-- **every connection is served through its own session**: `ProcessMessage`, `RemoveSession`, `Kick` and `PushMsg` look the
FrontSession up by the id the session holds.  In a sessions map in which every entry is stored under its connection's id
(`Own.Agree`, kept by `AddSession`/`RemoveSession`: `owner_map_agrees`) and no two connections share an id (what
`new_id_not_live` gives inside the allocation window), a lookup under connection `k`'s id finds `k`'s own session or
nothing — never another connection's. -/
theorem owner_lookup_hits_own_session (o : Own) (idOf : Nat → Nat) (ha : o.Agree idOf)
    (hinj : ∀ k k', idOf k = idOf k' → k = k') (k : Nat) :
    o.lookup (idOf k) = none ∨ o.lookup (idOf k) = some k := Own.lookup_own o idOf ha hinj k

/-- **session-remove deletes the connection's own entry and nothing else**; the handler and the close callbacks get that
connection's FrontSession; every other live session stays registered. -/
theorem owner_remove_deletes_own_entry (o : Own) (idOf : Nat → Nat) (ha : o.Agree idOf)
    (hinj : ∀ k k', idOf k = idOf k' → k = k') (k : Nat) (hl : (idOf k, k) ∈ o.live) :
    (o.remove (idOf k)).2 = some k ∧ ∀ p, p ∈ (o.remove (idOf k)).1.live ↔ (p ∈ o.live ∧ p.2 ≠ k) :=
  Own.remove_own o idOf ha hinj k hl

/-- `AddSession` (of a connection not yet in the map) and `RemoveSession` keep every entry under its connection's id, and a
lookup under the fresh id finds the new connection -/
theorem owner_map_agrees (M : Nat) (o : Own) (idOf : Nat → Nat) (ha : o.Agree idOf) :
    (∀ k, (∀ p ∈ o.live, p.2 ≠ k) → (o.add M k).1.Agree (fun j => if j = k then (o.add M k).2 else idOf j)) ∧
    (∀ k, (o.add M k).1.lookup (o.add M k).2 = some k) ∧
    (∀ id, (o.remove id).1.Agree idOf) :=
  ⟨fun k hk => Own.agree_add M o idOf k ha hk, fun k => Own.lookup_add M o k, fun id => Own.agree_remove o idOf id ha⟩

/-- **the announced session is live**: the id `AddSession` returns is registered to the new connection from the moment the
handler is told of it — a lookup, `Kick(id)` or `PushMsg([id])` made from inside `OnSessionAdd` finds this session (the store precedes
the announcement; no hypothesis on the map or the counter) -/
theorem added_session_is_live (M : Nat) (o : Own) (k : Nat) :
    (o.add M k).1.lookup (o.add M k).2 = some k ∧ (o.add M k).1.pushTargets [(o.add M k).2] = [k] := by
  have h := Own.lookup_add M o k
  exact ⟨h, by simp [Own.pushTargets, h]⟩

/-- **pushes after the removal reach nobody**: once `RemoveSession` ran for connection `k`, a `PushMsg` aimed at its id (alone
or among other ids) calls `Push` on no session for that id — it is skipped (`onSessionMissed`), the other ids of the same
push are served as before. -/
theorem push_after_remove_reaches_nobody (o : Own) (idOf : Nat → Nat) (ha : o.Agree idOf)
    (hinj : ∀ k k', idOf k = idOf k' → k = k') (k : Nat) (hl : (idOf k, k) ∈ o.live) (before after : List Nat) :
    (o.remove (idOf k)).1.pushTargets (before ++ idOf k :: after) =
      (o.remove (idOf k)).1.pushTargets before ++ (o.remove (idOf k)).1.pushTargets after := by
  simp [Own.pushTargets, List.filterMap_append, Own.lookup_after_remove o idOf ha hinj k hl]

/-- non-vacuity: two connections; the first one's message and remove hit its own entry, the second one stays -/
example : let o2 := ((({} : Own).add (2^32) 1).1.add (2^32) 2).1
    o2.live = [(3, 2), (2, 1)] ∧ o2.lookup 2 = some 1 ∧ (o2.remove 2).2 = some 1 ∧ (o2.remove 2).1.live = [(3, 2)] ∧
    (o2.remove 2).1.lookup 2 = none := by decide

/-- **what the allocation window excludes**: when the id counter comes round to the id of a session that is still live, the
new session takes over its entry; the old connection's next message is handled with the NEW connection's session and its
remove unregisters the new connection (counter set so that the next id is 2 again) -/
theorem id_reuse_hijacks_entry : let o1 := (({} : Own).add (2^32) 1).1
    let o2 := ({ o1 with counter := 1 }.add (2^32) 2).1
    o1.lookup 2 = some 1 ∧ o2.lookup 2 = some 2 ∧ (o2.remove 2).2 = some 2 ∧ (o2.remove 2).1.live = [] := by decide

/-! ### defect witness: the closed-latch test outside the mutex -/

/-- `Close()` with the latch tested BEFORE `mutex.Lock()` and not again under it: the step of a caller that holds the mutex
marks the session closed unconditionally (in Go: `close(chanClose)` a second time panics; without the panic a second
`conn.Close()` and a second OnSessionClose follow) -/
def cCheckNoRecheck (s : St) : Option St :=
  if s.kC = .locked then some { s with status := .closed, closed := true, kC := .fin } else none

/-- **the test under the mutex is what makes Close idempotent**: two independent Close callers that both passed the unlocked
test (two kicks pending) go through the critical section one after the other; without the re-check the second one closes
again (remove posted twice, conn closed twice), with the code's `cCheck` it leaves (remove once). -/
theorem unlocked_latch_test_closes_twice :
    (∃ s1 s2 s3 s4 s5, runL true init [.kick, .kick, .cLock .kk] = some s1 ∧ cCheckNoRecheck s1 = some s2 ∧
        runL true s2 [.cFin .kk, .cLock .kk] = some s3 ∧ cCheckNoRecheck s3 = some s4 ∧ fire true s4 (.cFin .kk) = some s5 ∧
        removes s5.posted = 2 ∧ s5.connCloses = 2) ∧
    (∃ s, runL true init [.kick, .kick, .cLock .kk, .cCheck .kk, .cFin .kk, .cLock .kk, .cCheck .kk] = some s ∧
        removes s.posted = 1 ∧ s.connCloses = 1 ∧ s.kC = .out ∧ s.mutex = false) :=
  ⟨⟨_, _, _, _, _, rfl, rfl, rfl, rfl, rfl, by decide, by decide⟩, ⟨_, rfl, by decide, by decide, by decide, by decide⟩⟩

/-- non-vacuity of the owner-map theorems: the two-connection map stores every entry under its connection's id
(`idOf k = k + 1`, injective), and connection 1's entry is there -/
example : let o2 := ((({} : Own).add (2^32) 1).1.add (2^32) 2).1
    o2.Agree (fun k => k + 1) ∧ (∀ k k' : Nat, k + 1 = k' + 1 → k = k') ∧ ((fun k => k + 1) 1, 1) ∈ o2.live := by
  refine ⟨?_, fun k k' h => by omega, by decide⟩
  intro p hp
  have : p = (3, 2) ∨ p = (2, 1) := by
    have h2 : ((({} : Own).add (2^32) 1).1.add (2^32) 2).1.live = [(3, 2), (2, 1)] := by decide
    rw [h2] at hp; simpa using hp
  rcases this with rfl | rfl <;> rfl

/-- non-vacuity of `new_id_not_live`: sessions 0 and 1 live, the third allocation -/
example : idAt (2^32) 2 ∉ [0, 1].map (idAt (2^32)) ∧ idAt (2^32) 2 ≠ 0 :=
  new_id_not_live (2^32) (by decide) [0, 1] 2 (by intro i hi; simp at hi; rcases hi with rfl | rfl <;> decide)

/-- non-vacuity of `internal_steps_terminate`: a run of one thread step (the reader goes to its read) -/
example : ∃ s', IRun init [.rdTop] s' ∧ work s' < work init :=
  ⟨_, IRun.cons (Or.inl (by simp [internalLbls])) rfl (IRun.nil _), by decide⟩

/-! ### RemoveSession as a whole: the map entry, the handler's per-session close callback, the sessions' close callback -/

/-- **the registered close callbacks run once**: `RemoveSession` of a registered connection (entry stored under its own id, ids not
shared) deletes its entry, runs the close callback registered under its id — that one, once — and then the sessions' close
callback; a second `RemoveSession` of the same connection finds nothing and runs nothing. -/
theorem close_callbacks_run_once (o : Own) (h : Hnd) (idOf : Nat → Nat) (ha : o.Agree idOf)
    (hinj : ∀ k k', idOf k = idOf k' → k = k') (k cb : Nat) (hl : (idOf k, k) ∈ o.live) :
    (removeSession o (h.register (idOf k) cb) (idOf k) false).2.2 = { conn := some k, handlerCb := some cb, sessionsCb := true } ∧
    ∀ p, (removeSession (removeSession o (h.register (idOf k) cb) (idOf k) false).1
            (removeSession o (h.register (idOf k) cb) (idOf k) false).2.1 (idOf k) p).2.2 = {} := by
  obtain ⟨hr, _⟩ := Own.remove_own o idOf ha hinj k hl
  have hgone := Own.lookup_after_remove o idOf ha hinj k hl
  have hrm : o.remove (idOf k) = ((o.remove (idOf k)).1, some k) := by rw [← hr]
  have h1 : removeSession o (h.register (idOf k) cb) (idOf k) false =
      ((o.remove (idOf k)).1, ((h.register (idOf k) cb).onRemove (idOf k) false).1,
       { conn := some k, handlerCb := some cb, sessionsCb := true }) := by
    unfold removeSession
    rw [hrm]
    simp [Hnd.onRemove, Hnd.lookup_register]
  refine ⟨by rw [h1], ?_⟩
  intro p
  rw [h1]
  generalize (o.remove (idOf k)).1 = o1 at hgone ⊢
  simp only [removeSession, Own.remove, hgone]

/-- the close callback registered for another session is untouched by a remove (whether or not the removed one's callback panics) -/
theorem close_callback_of_other_session_untouched (o : Own) (h : Hnd) (id id' : Nat) (p : Bool) (hne : id' ≠ id) :
    (removeSession o h id p).2.1.lookup id' = h.lookup id' := by
  unfold removeSession
  cases hr : o.remove id with
  | mk o' r =>
    cases r with
    | none => rfl
    | some k =>
      simp only [Hnd.onRemove]
      cases hl : h.lookup id with
      | none => rfl
      | some cb =>
        cases p with
        | true => rfl
        | false => simp only [Bool.false_eq_true, if_false, Hnd.lookup, Hnd.find_filter_other _ _ _ hne]

/-- **a panicking handler callback ends RemoveSession early** (what the harness scripts with `cbp=h`): the map entry is gone and
the callback ran, but the sessions' close callback did not, and the handler keeps the stale entry (its `delete` comes after the call) -/
theorem panicking_close_callback_ends_removal (o : Own) (h : Hnd) (idOf : Nat → Nat) (ha : o.Agree idOf)
    (hinj : ∀ k k', idOf k = idOf k' → k = k') (k cb : Nat) (hl : (idOf k, k) ∈ o.live) :
    (removeSession o (h.register (idOf k) cb) (idOf k) true).2.2 = { conn := some k, handlerCb := some cb, sessionsCb := false } ∧
    (removeSession o (h.register (idOf k) cb) (idOf k) true).2.1.lookup (idOf k) = some cb ∧
    (removeSession o (h.register (idOf k) cb) (idOf k) true).1.lookup (idOf k) = none := by
  obtain ⟨hr, _⟩ := Own.remove_own o idOf ha hinj k hl
  have hgone := Own.lookup_after_remove o idOf ha hinj k hl
  have hrm : o.remove (idOf k) = ((o.remove (idOf k)).1, some k) := by rw [← hr]
  have h1 : removeSession o (h.register (idOf k) cb) (idOf k) true =
      ((o.remove (idOf k)).1, h.register (idOf k) cb, { conn := some k, handlerCb := some cb, sessionsCb := false }) := by
    unfold removeSession
    rw [hrm]
    simp [Hnd.onRemove, Hnd.lookup_register]
  rw [h1]
  exact ⟨rfl, Hnd.lookup_register h _ cb, hgone⟩

/-- non-vacuity: two connections with callbacks 71 and 72; removing the first runs 71 and the sessions' callback, leaves 72 -/
example : let o2 := ((({} : Own).add (2^32) 1).1.add (2^32) 2).1
    let h2 := (({} : Hnd).register 2 71).register 3 72
    (removeSession o2 h2 2 false).2.2 = { conn := some 1, handlerCb := some 71, sessionsCb := true } ∧
    (removeSession o2 h2 2 false).2.1.lookup 3 = some 72 ∧ (removeSession o2 h2 2 false).2.1.lookup 2 = none := by
  decide

/-! ### Close() statement by statement (`CloseFine`): the five effects of the critical section as separate steps -/

open Cell2v.CloseFine in
/-- **close once, statement level**: `Close()` with every effect of its critical section a step of its own
(SetStatus / close(chanClose) / close(chSend) / conn.Close / OnSessionClose / Unlock), any number of callers arriving at any
moment, pushers running freely beside them — in every reachable state: no channel is closed twice (no crash), conn.Close and
OnSessionClose were each called at most once, the remove never precedes the conn.Close and is at most one step behind, and
whenever nobody holds the mutex both happened exactly as often as the latch says (0 or 1 times). -/
theorem close_statement_level_once (ls : List CloseFine.Lbl) (s : CloseFine.St) (h : CloseFine.runL {} ls = some s) :
    s.closePanics = 0 ∧ s.connCloses ≤ 1 ∧ s.removes ≤ s.connCloses ∧ s.connCloses ≤ s.removes + 1 ∧
    (s.ph = .none → s.removes = s.connCloses ∧ s.connCloses = (if s.chanClose then 1 else 0) ∧ s.chSend = s.chanClose) := by
  have hi := finv_run ls {} s finv_init h
  obtain ⟨ph, waiting, returned, sc, cc, cs, cp, nc, nr, pin, sq, rc, rf⟩ := s
  cases ph <;> simp only [FInv] at hi <;> simp_all <;> (try split) <;> simp_all

open Cell2v.CloseFine in
/-- **a Close() that returned has closed**: as soon as ANY call of Close has returned — the one that did the work or one that
found the latch set — the conn was closed exactly once and the remove posted exactly once (a caller never returns while
the session is half-closed) -/
theorem close_returned_means_closed (ls : List CloseFine.Lbl) (s : CloseFine.St) (h : CloseFine.runL {} ls = some s)
    (hr : s.returned > 0) : s.removes = 1 ∧ s.connCloses = 1 :=
  (rinv_run ls {} s rinv_init h).2 hr

open Cell2v.CloseFine in
/-- **Close never hangs on itself**: every step of a caller strictly decreases an explicit measure, and when no caller can
move nobody is inside Close or waiting for its mutex (all callers have returned) -/
theorem close_statement_level_terminates (s : CloseFine.St) :
    (∀ l s', l ∈ CloseFine.internal → CloseFine.fire s l = some s' → CloseFine.work s' < CloseFine.work s) ∧
    (CloseFine.stuck s = true → s.ph = .none ∧ s.waiting = 0) :=
  ⟨fun l s' hl hf => work_decreases s s' l hl hf, stuck_idle s⟩

open Cell2v.CloseFine in
/-- **pushes racing with Close are dropped harmlessly**: once `chSend` is closed no step enqueues anything (a pusher that had
passed the status test before `SetStatus(StatusClosed)` hits the closed channel: recovered), and the channel stays closed -/
theorem push_racing_close_never_enqueues (s s' : CloseFine.St) (l : CloseFine.Lbl) (hf : CloseFine.fire s l = some s')
    (hc : s.chSend = true) : s'.sendq = s.sendq ∧ s'.chSend = true := sendq_frozen s s' l hf hc

open Cell2v.CloseFine in
/-- non-vacuity: two callers and a pusher that tested the status before the first caller marked it; the pusher's send comes
after close(chSend): recovered; the second caller finds the latch and returns -/
example : ∃ s, CloseFine.runL {} [.call, .pushTest, .call, .lock, .test, .latch, .shutSend, .pushSend, .shutConn, .post, .unlock,
    .lock, .test, .pushTest] = some s ∧ s.returned = 2 ∧ s.removes = 1 ∧ s.connCloses = 1 ∧ s.recovered = 1 ∧ s.refused = 1 ∧
    s.sendq = 0 ∧ CloseFine.stuck s = true := by
  refine ⟨_, rfl, ?_⟩; decide

open Cell2v.CloseFine in
/-- **defect witness (no re-test under the mutex)**: if the second caller ran the body again, `close(chanClose)` of a closed
channel would crash the process and conn.Close / OnSessionClose would run twice -/
theorem close_without_retest_crashes : ∃ s, CloseFine.runNoTest {} [.call, .call, .lock, .test, .latch, .shutSend, .shutConn, .post,
    .unlock, .lock, .test, .latch, .shutSend, .shutConn, .post, .unlock] = some s ∧ s.closePanics = 2 ∧ s.connCloses = 2 ∧ s.removes = 2 := by
  refine ⟨_, rfl, ?_⟩; decide

/-! ### kick requests through a custom kick handler (`ClientSessions.Kick` / `IKickHandler` / `DoKick`) -/

/-- **a kick still ends with the removal, also through a kick handler**: for a registered connection (entry under its own id, ids
not shared) `Kick(id)` closes that connection's session (no handler) or hands the handler that id; the handler's later
`DoKick(id)` closes that same connection's session and leaves the table as it was, so the `RemoveSession` the Close posts
finds the entry: it is deleted, the registered close callback runs once, then the sessions' callback - and afterwards the id
is gone. -/
theorem kick_handler_path_still_removes (o : Own) (h : Hnd) (idOf : Nat → Nat) (ha : o.Agree idOf)
    (hinj : ∀ k k', idOf k = idOf k' → k = k') (k cb : Nat) (hl : (idOf k, k) ∈ o.live) :
    o.kick false (idOf k) = .close k ∧ o.kick true (idOf k) = .handler (idOf k) ∧
    (o.doKick (idOf k)).2 = some k ∧
    (removeSession (o.doKick (idOf k)).1 (h.register (idOf k) cb) (idOf k) false).2.2 =
      { conn := some k, handlerCb := some cb, sessionsCb := true } ∧
    (removeSession (o.doKick (idOf k)).1 (h.register (idOf k) cb) (idOf k) false).1.lookup (idOf k) = none := by
  have hlk : o.lookup (idOf k) = some k := by
    rcases Own.lookup_own o idOf ha hinj k with h' | h'
    · exact absurd hl (Own.lookup_none h' k)
    · exact h'
  refine ⟨by simp [Own.kick, hlk], by simp [Own.kick, hlk], by simp [Own.doKick, hlk], ?_, ?_⟩
  · exact (close_callbacks_run_once o h idOf ha hinj k cb hl).1
  · have hgone := Own.lookup_after_remove o idOf ha hinj k hl
    have hr : (o.remove (idOf k)).2 = some k := (Own.remove_own o idOf ha hinj k hl).1
    have hrm : o.remove (idOf k) = ((o.remove (idOf k)).1, some k) := by rw [← hr]
    show (removeSession o (h.register (idOf k) cb) (idOf k) false).1.lookup (idOf k) = none
    unfold removeSession
    rw [hrm]
    exact hgone

/-- non-vacuity: one registered connection, its callback registered -/
example : (({ counter := 6, live := [(5, 1)] } : Own).doKick 5).2 = some 1 ∧
    (removeSession (({ counter := 6, live := [(5, 1)] } : Own).doKick 5).1 (({} : Hnd).register 5 1) 5 false).2.2 =
      { conn := some 1, handlerCb := some 1, sessionsCb := true } := by decide

/-- a kick request or a delayed `DoKick` for an id nobody holds (never given out, or removed meanwhile: the client left between
the notice and the `DoKick`) reaches nobody -/
theorem kick_of_unregistered_id_reaches_nobody (o : Own) (kh : Bool) (id : Nat) (hn : o.lookup id = none) :
    o.kick kh id = .miss ∧ (o.doKick id).2 = none ∧ (o.doKick id).1 = o := by
  simp [Own.kick, Own.doKick, hn]

/-- **defect witness (DoKick takes the entry out of the table itself)**: whatever the table holds, if `DoKick` deletes the entry
before it closes the session, the `RemoveSession` posted by that Close finds nothing: the handler is never told of the removal
and no close callback runs - session-added without session-removed. -/
theorem dokick_deleting_entry_loses_remove (o : Own) (h : Hnd) (id k : Nat) (p : Bool) (hl : o.lookup id = some k) :
    (o.doKickDeleting id).2 = some k ∧ (removeSession (o.doKickDeleting id).1 h id p).2.2 = {} := by
  have h1 : o.doKickDeleting id = ({ o with live := o.live.filter (fun q => q.1 != id) }, some k) := by
    simp [Own.doKickDeleting, hl]
  rw [h1]
  refine ⟨rfl, ?_⟩
  have h2 : ({ o with live := o.live.filter (fun q => q.1 != id) } : Own).lookup id = none := by
    simp only [Own.lookup, Hnd.lookup_filter_self, Option.map_none]
  simp only [removeSession, Own.remove, h2]

end Cell2v.Props.C05
