import Cell2v.Lemmas.Mailbox
import Cell2v.Lemmas.MailboxDrain
/-!
C09 — property theorems (actor mailbox).  All statements quantify over every
schedule `ls : List Fine.Lbl` of the fine model — an arbitrary interleaving of
any number of user/system posters, the consumer, and the pause helper.
-/
namespace Cell2v.Props.C09
open Cell2v.Mailbox

/-- a state reachable from the empty mailbox under some schedule -/
def Reachable (s : Fine.St) : Prop := ∃ ls, Fine.runL Fine.init ls = some s

theorem reachable_inv (s : Fine.St) (h : Reachable s) : Fine.AllInv s := by
  obtain ⟨ls, hr⟩ := h
  exact Fine.allinv_run ls _ _ Fine.allinv_init hr

/-- **never two at a time**: at most one `processMessages` is queued or executing,
so `InvokeUserMessage` / `InvokeSystemMessage` calls never overlap. -/
theorem single_runner (s : Fine.St) (h : Reachable s) : Abs.runners (Fine.abs s) ≤ 1 :=
  Abs.runners_le_one _ (reachable_inv s h).1

/-- **exactly once, in order**: what has been handed to the service followed by
what is still queued is exactly what was pushed, in push order (both queues).
Hence no message is lost or duplicated and two messages of one sender (whose
pushes are sequential) are delivered in the order they were posted. -/
theorem delivered_prefix (s : Fine.St) (h : Reachable s) :
    s.dlvU ++ s.uq = s.pushedU ∧ s.dlvS ++ s.sq = s.pushedS :=
  (reachable_inv s h).2.2

/-- **never stalls** (no lost wake-up): in a reachable state with nothing in
flight — no poster between its push and the end of `schedule()`, no dispatched
or executing run, no pause helper alive — the system queue is empty and the
user queue is empty unless the mailbox is suspended.  So a posted message never
needs a further post to be processed. -/
theorem no_lost_wakeup (s : Fine.St) (h : Reachable s) (hq : Abs.Quiescent (Fine.abs s)) :
    s.sq = [] ∧ (s.uq = [] ∨ s.susp = true) := by
  have hw := Abs.quiescent_no_work _ (reachable_inv s h).1 hq
  simp only [Abs.work, Fine.abs] at hw
  constructor
  · cases hs : s.sq with
    | nil => rfl
    | cons a t => exfalso; apply hw; left; simp [hs]
  · cases hu : s.uq with
    | nil => left; rfl
    | cons a t =>
      right
      cases hsu : s.susp with
      | true => rfl
      | false => exfalso; apply hw; right; simp [hu, hsu]

/-- all delivered at quiescence: every pushed system message was popped and (unless
suspended) every pushed user message was handed to the service -/
theorem quiescent_all_delivered (s : Fine.St) (h : Reachable s) (hq : Abs.Quiescent (Fine.abs s)) :
    s.dlvS = s.pushedS ∧ (s.susp = false → s.dlvU = s.pushedU) := by
  obtain ⟨h1, h2⟩ := no_lost_wakeup s h hq
  obtain ⟨d1, d2⟩ := delivered_prefix s h
  constructor
  · rw [h1] at d2; simpa using d2
  · intro hs
    rcases h2 with hu | hsu
    · rw [hu] at d1; simpa using d1
    · rw [hs] at hsu; cases hsu

/-- the smoothing pause always has its helper: `smoothPaused = 1` exactly while a
helper goroutine is alive that will clear it and call `schedule()` -/
theorem pause_has_helper (s : Fine.St) (h : Reachable s) : s.paused = s.hs :=
  (reachable_inv s h).1.2.2.1

/-- **system messages first**: a user message is handed over only from "run.popu",
which is entered only from "run.lsusp" (having read `suspended = 0`), which is
entered only by a system pop that found the system queue empty. -/
theorem system_first (s s' : Fine.St) (l : Fine.Lbl) (hf : Fine.fire s l = some s') :
    (s'.dlvU ≠ s.dlvU → l = .popU ∧ s.c = .popu) ∧
    (s'.c = .popu → s.c = .popu ∨ (l = .lsusp ∧ s.c = .lsusp ∧ s.susp = false)) ∧
    (s'.c = .lsusp → s.c = .lsusp ∨ (l = .popS ∧ s.c = .pops ∧ s.sq = [])) :=
  ⟨(Fine.deliver_only_by_pop s s' l hf).1, Fine.enter_popu s s' l hf, Fine.enter_lsusp s s' l hf⟩

/-- the counter abstraction's invariant is inductive for ANY number of posters (statement of record) -/
theorem wakeup_invariant_inductive (s s' : Abs.St) (l : Abs.Lbl) (h : Abs.MInv s) (hf : Abs.fire s l = some s') :
    Abs.MInv s' := Abs.inv_step s s' l h hf

open Cell2v.Mailbox.Fine (isInternal)

theorem consumer_can_step (s : Fine.St) (hc : s.c ≠ .wait) : ∃ l, isInternal l = true ∧ (Fine.fire s l).isSome = true := by
  cases hcc : s.c with
  | wait => exact absurd hcc hc
  | iter => exact ⟨.iterOk, rfl, by simp [Fine.fire, hcc]⟩
  | bpcas => refine ⟨.bpCas, rfl, ?_⟩; by_cases hp : s.paused = true <;> simp [Fine.fire, hcc, hp]
  | pops => refine ⟨.popS, rfl, ?_⟩; cases hs : s.sq <;> simp [Fine.fire, hcc, hs]
  | lsusp => refine ⟨.lsusp, rfl, ?_⟩; by_cases hp : s.susp = true <;> simp [Fine.fire, hcc, hp]
  | popu => refine ⟨.popU, rfl, ?_⟩; cases hs : s.uq <;> simp [Fine.fire, hcc, hs]
  | a1 => exact ⟨.storeIdle, rfl, by simp [Fine.fire, hcc]⟩
  | r0 => exact ⟨.loadS, rfl, by simp [Fine.fire, hcc]⟩
  | r1 => exact ⟨.loadU, rfl, by simp [Fine.fire, hcc]⟩
  | r2 => exact ⟨.loadP2, rfl, by simp [Fine.fire, hcc]⟩
  | r3 =>
    refine ⟨.decide, rfl, ?_⟩
    by_cases hg : (s.ls > 0 ∨ (s.susp = false ∧ s.lu > 0 ∧ s.lp = false)) <;> simp [Fine.fire, hcc, hg]
  | cl => refine ⟨.cLoadP, rfl, ?_⟩; by_cases hp : s.paused = true <;> simp [Fine.fire, hcc, hp]
  | ck => refine ⟨.cCas, rfl, ?_⟩; by_cases hp : s.run = true <;> simp [Fine.fire, hcc, hp]
  | cd => exact ⟨.cDisp, rfl, by simp [Fine.fire, hcc]⟩

/-- **no deadlock while work is pending** ("never stalls … without needing a further post"): in every reachable
state with deliverable work — a system message queued, or a user message queued while not suspended — some thread that
ALREADY exists (a poster between its push and the end of `schedule()`, the pause helper, the dispatched or running
consumer) has an enabled step.  Together with `no_lost_wakeup` (a state where no such thread exists holds no deliverable
work) this excludes every stall; what it does not give is a bound on the number of steps (fair scheduling of the Go
runtime and of the dispatcher is assumed, not proved). -/
theorem pending_work_can_progress (s : Fine.St) (h : Reachable s)
    (hw : s.sq ≠ [] ∨ (s.uq ≠ [] ∧ s.susp = false)) :
    ∃ l, isInternal l = true ∧ (Fine.fire s l).isSome = true := by
  by_cases hq : Abs.Quiescent (Fine.abs s)
  · obtain ⟨h1, h2⟩ := no_lost_wakeup s h hq
    rcases hw with hw | ⟨hu, hs⟩
    · exact absurd h1 hw
    · rcases h2 with h2 | h2
      · exact absurd h2 hu
      · rw [hs] at h2; cases h2
  · simp only [Abs.Quiescent, Fine.abs] at hq
    by_cases h1 : s.nUp > 0
    · exact ⟨.incrU, rfl, by simp [Fine.fire, h1]⟩
    by_cases h2 : s.nSp > 0
    · exact ⟨.incrS, rfl, by simp [Fine.fire, h2]⟩
    by_cases h3 : s.nL > 0
    · refine ⟨.loadP, rfl, ?_⟩; by_cases hp : s.paused = true <;> simp [Fine.fire, h3, hp]
    by_cases h4 : s.nK > 0
    · refine ⟨.casP, rfl, ?_⟩; by_cases hr : s.run = true <;> simp [Fine.fire, h4, hr]
    by_cases h5 : s.nD > 0
    · exact ⟨.dispP, rfl, by simp [Fine.fire, h5]⟩
    by_cases h6 : s.hs = true
    · exact ⟨.helperWake, rfl, by simp [Fine.fire, h6]⟩
    by_cases h7 : s.c = .wait
    · have h8 : s.dq > 0 := by
        apply Nat.pos_of_ne_zero
        intro hd
        apply hq
        refine ⟨by omega, by omega, by omega, by omega, by omega, hd, by simp [h7, Fine.absPc], by simpa using h6⟩
      exact ⟨.take, rfl, by simp [Fine.fire, h7, h8]⟩
    · exact consumer_can_step s h7

/-- **every posted message is eventually processed, without a further post** (possibility form): from EVERY reachable
state — whatever posters are half-way through `PostUserMessage`/`PostSystemMessage`, wherever the consumer is, whether
a smoothing pause is pending — there is a schedule consisting only of steps of threads that already exist (no new post,
no helper stutter) that ends in a quiescent state in which every system message posted so far has been handed over and,
unless the mailbox is suspended, every user message too, in post order.  The schedule is explicit (`Fine.next`: posters
finish, the helper wakes, the consumer runs) and its length is bounded by the potential `Fine.Phi`, which each of its
steps decreases.  What this does not say: that EVERY fair schedule gets there (the model lets the frame budget be
declared exhausted at any iteration, so an adversarial clock could pause for ever; Go's scheduler fairness is assumed). -/
theorem can_always_drain (s : Fine.St) (h : Reachable s) :
    ∃ ls s', (∀ l ∈ ls, isInternal l = true) ∧ Fine.runL s ls = some s' ∧ Reachable s' ∧
      Abs.Quiescent (Fine.abs s') ∧ s'.dlvS = s.pushedS ∧ (s'.susp = false → s'.dlvU = s.pushedU) := by
  obtain ⟨ls, s', h1, h2, _, h4⟩ := Fine.drain (Fine.Phi s) s (Nat.le_refl _) (reachable_inv s h)
  have hr : Reachable s' := by
    obtain ⟨l0, hl0⟩ := h
    exact ⟨l0 ++ ls, Fine.runL_append l0 ls _ _ _ hl0 h2⟩
  obtain ⟨d1, d2⟩ := quiescent_all_delivered s' hr h4
  obtain ⟨p1, p2⟩ := Fine.internal_run_keeps_pushed ls s s' h2 h1
  exact ⟨ls, s', h1, h2, hr, h4, by rw [d1, p2], fun hs => by rw [d2 hs, p1]⟩

/-- non-vacuity: a reachable state with a poster parked between the consumer's
"store idle" and its counter re-read (the narrow window), and a reachable
quiescent state with everything delivered -/
def windowSchedule : List Fine.Lbl :=
  [.pushU 1, .incrU, .loadP, .casP, .dispP, .take, .iterOk, .popS, .lsusp, .popU, .iterOk, .popS, .lsusp, .popU,
   .storeIdle, .pushU 2, .incrU]
example : ∃ s, Fine.runL Fine.init windowSchedule = some s ∧ s.c = .r0 ∧ s.nL = 1 ∧ s.uq = [2] ∧ s.dlvU = [1] := by
  refine ⟨_, rfl, ?_⟩; decide
def quietSchedule : List Fine.Lbl :=
  windowSchedule ++ [.loadS, .loadU, .loadP2, .decide, .cLoadP, .cCas, .cDisp, .loadP, .casP,
    .take, .iterOk, .popS, .lsusp, .popU, .iterOk, .popS, .lsusp, .popU, .storeIdle, .loadS, .loadU, .loadP2, .decide]
example : ∃ s, Fine.runL Fine.init quietSchedule = some s ∧ Abs.Quiescent (Fine.abs s) ∧ s.dlvU = [1, 2] := by
  refine ⟨_, rfl, ?_⟩; simp only [Abs.Quiescent]; decide

end Cell2v.Props.C09
