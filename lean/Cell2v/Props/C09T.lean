import Cell2v.Lemmas.MailboxT
import Cell2v.Props.C09X
/-!
C09 — the TIMED mailbox model `FineT` (`Model/MailboxT.lean`): `FineX` plus the clock, `run()`'s `beginTime`, the frame
budget that `Producer(ms)` stores, and the consumer's way out of `run()` after an empty Pop of the user queue.

* `t_step_refines` / `t_reachable_is_x_reachable`: every step is a `FineX` step or a stutter, so all `x_*` theorems hold
  of the timed model (`t_single_runner`, `t_delivered_prefix`, `t_no_lost_wakeup`, `t_quiescent_all_delivered`);
* `producer_budget_pos`, `producer_budget_default`: whatever is configured, the budget is at least 1 ms, and 0 means 10 ms;
* `t_clock_inv`: `beginTime <= now`, and the budget is the producer's, on every reachable state;
* `t_iter_decision_is_the_clocks`: at "run.iter" exactly one of carry on / begin a pause / Gosched branch is enabled;
* `t_pause_needs_elapsed`: a run that begins a pause has lasted longer than the budget — at least 1 ms of clock time;
* `t_take_resets_cost`, `t_frozen_clock_never_over`: a run that is taken and continued while the clock stands still never
  finds its budget exhausted;
* `t_frozen_clock_every_schedule_drains`: the FOR-ALL form of "eventually processed" with the clock as the ONLY
  assumption: from every reachable state whose run is within its budget, EVERY schedule of existing threads during which
  no time passes is bounded by the potential and cannot get stuck before everything is handed over.  (In `FineX` the
  hypothesis was "the schedule never declares the budget exhausted"; here the model derives that from the clock.)
-/
namespace Cell2v.Props.C09
open Cell2v.Mailbox
open Cell2v.Mailbox.FineT (TInv tinv_step tinv_run isTick frozen_step isInternalT PhiT frozen_step_decreases frozen_run_bounded frozen_stuck_is_x_stuck)

/-- reachable in the timed model, for some throughput and some configured budget -/
def ReachableT (s : FineT.St) : Prop := ∃ t ms ls, FineT.runL (FineT.init t ms) ls = some s

/-- **every step of the timed model is a step of `FineX` on the embedded state, or leaves it alone** -/
theorem t_step_refines (s s' : FineT.St) (l : FineT.Lbl) (h : FineT.fire s l = some s') :
    s'.budget = s.budget ∧
    ((∃ lx, l = .x lx ∧ FineX.fire s.x lx = some s'.x) ∨ ((∀ lx, l ≠ .x lx) ∧ s'.x = s.x)) :=
  FineT.step_refines s s' l h

/-- so every reachable timed state embeds a reachable `FineX` state: all `x_*` theorems apply -/
theorem t_reachable_is_x_reachable (s : FineT.St) (h : ReachableT s) : ReachableX s.x := by
  obtain ⟨t, ms, ls, hr⟩ := h
  obtain ⟨lx, hlx⟩ := FineT.run_projects ls _ _ hr
  exact ⟨t, lx, hlx⟩

/-- **never two at a time**, with the clock deciding the pauses -/
theorem t_single_runner (s : FineT.St) (h : ReachableT s) : Abs.runners (Fine.abs s.x.s) ≤ 1 :=
  x_single_runner _ (t_reachable_is_x_reachable s h)

/-- **exactly once, in order** -/
theorem t_delivered_prefix (s : FineT.St) (h : ReachableT s) :
    s.x.s.dlvU ++ s.x.s.uq = s.x.s.pushedU ∧ s.x.s.dlvS ++ s.x.s.sq = s.x.s.pushedS :=
  x_delivered_prefix _ (t_reachable_is_x_reachable s h)

/-- **no lost wake-up**, whenever the clock makes the consumer pause and wherever posters sit while the consumer is on its
way out of `run()` after an empty Pop -/
theorem t_no_lost_wakeup (s : FineT.St) (h : ReachableT s) (hq : Abs.Quiescent (Fine.abs s.x.s)) :
    s.x.s.sq = [] ∧ (s.x.s.uq = [] ∨ s.x.s.susp = true) :=
  x_no_lost_wakeup _ (t_reachable_is_x_reachable s h) hq

theorem t_quiescent_all_delivered (s : FineT.St) (h : ReachableT s) (hq : Abs.Quiescent (Fine.abs s.x.s)) :
    s.x.s.dlvS = s.x.s.pushedS ∧ (s.x.s.susp = false → s.x.s.dlvU = s.x.s.pushedU) :=
  x_quiescent_all_delivered _ (t_reachable_is_x_reachable s h) hq

/-- **per-sender order, with the sender in the statement**: for ANY way of telling senders apart (`p` = "was posted by
sender k"), what the service has received from that sender is a prefix of what that sender pushed, in its push order -/
theorem t_per_sender_order (s : FineT.St) (h : ReachableT s) (p : Nat → Bool) (q : Fine.SK × Nat → Bool) :
    s.x.s.dlvU.filter p <+: s.x.s.pushedU.filter p ∧ s.x.s.dlvS.filter q <+: s.x.s.pushedS.filter q := by
  obtain ⟨h1, h2⟩ := x_delivered_is_prefix_of_posted _ (t_reachable_is_x_reachable s h)
  exact ⟨h1.filter p, h2.filter q⟩

/-! ### the producer's budget -/

/-- whatever `Producer` is given, the mailbox's frame budget is at least 1 ms (never 0: with a budget of 0 ns every
iteration of a running clock would begin a pause before popping anything) -/
theorem producer_budget_pos (ms : Nat) : 1000000 ≤ FineT.producerBudget ms := by
  unfold FineT.producerBudget
  split <;> omega

/-- `Producer(0)` means the default: the same budget as `Producer(10)`; any other value is taken as milliseconds -/
theorem producer_budget_default : FineT.producerBudget 0 = FineT.producerBudget 10 ∧
    ∀ ms, ms ≠ 0 → FineT.producerBudget ms = ms * 1000000 := by
  refine ⟨rfl, ?_⟩
  intro ms h
  simp [FineT.producerBudget, h]

/-! ### the clock -/

/-- on every reachable state `beginTime` is a past reading of the clock and the budget is the one the producer was
given: at least 1 ms -/
theorem t_clock_inv (s : FineT.St) (h : ReachableT s) : s.start ≤ s.now ∧ 1000000 ≤ s.budget := by
  obtain ⟨t, ms, ls, hr⟩ := h
  have hi := tinv_run ms ls _ _ ⟨Nat.le_refl _, rfl⟩ hr
  exact ⟨hi.1, by rw [hi.2]; exact producer_budget_pos ms⟩

/-- **the budget decision is the clock's, not the schedule's**: at "run.iter" exactly one of carry on / begin a pause /
Gosched branch is enabled — `cost > maxProcessCost` and the 100000 bound decide -/
theorem t_iter_decision_is_the_clocks (s : FineT.St) (hc : s.x.s.c = .iter) :
    ((FineT.fire s (.x (.base .iterOk))).isSome = true ↔ FineT.over s = false) ∧
    ((FineT.fire s (.x (.base .iterOver))).isSome = true ↔ (FineT.over s = true ∧ s.x.s.um < FineX.maxMsgNumToSmooth)) ∧
    ((FineT.fire s (.x .iterGosched)).isSome = true ↔ (FineT.over s = true ∧ s.x.s.um ≥ FineX.maxMsgNumToSmooth)) := by
  have hr : s.ret = false ∨ s.ret = true := by cases s.ret <;> simp
  refine ⟨?_, ?_, ?_⟩
  · cases ho : FineT.over s <;> simp [FineT.fire, FineT.clockOk, FineX.fire, Fine.fire, hc, ho]
  · cases ho : FineT.over s <;> by_cases hm : s.x.s.um ≥ FineX.maxMsgNumToSmooth <;>
      simp [FineT.fire, FineT.clockOk, FineX.fire, Fine.fire, hc, ho, hm] <;> omega
  · cases ho : FineT.over s <;> by_cases hm : s.x.s.um ≥ FineX.maxMsgNumToSmooth <;>
      simp [FineT.fire, FineT.clockOk, FineX.fire, Fine.fire, hc, ho, hm]

/-- **a run that begins a smoothing pause has lasted longer than its budget** — more than 1 ms of clock time since the
dispatcher took it (or since its last Gosched) -/
theorem t_pause_needs_elapsed (s s' : FineT.St) (h : ReachableT s) (hf : FineT.fire s (.x (.base .iterOver)) = some s') :
    s.start + s.budget < s.now ∧ s.start + 1000000 < s.now := by
  have hb := (t_clock_inv s h).2
  have ho : FineT.over s = true := by
    cases ho : FineT.over s with
    | true => rfl
    | false => simp [FineT.fire, FineT.clockOk, ho] at hf
  simp only [FineT.over, decide_eq_true_eq] at ho
  omega

/-- taking a run reads the clock: its cost starts at 0, so its budget is not exhausted -/
theorem t_take_resets_cost (s s' : FineT.St) (hf : FineT.fire s (.x (.base .take)) = some s') :
    s'.start = s'.now ∧ FineT.over s' = false := by
  simp only [FineT.fire] at hf
  split at hf
  · cases hf
  · cases hx : FineX.fire s.x (.base .take) with
    | none => simp [hx] at hf
    | some x' =>
      simp only [hx, Option.some.injEq] at hf; subst hf
      simp [FineT.over, FineT.readsClock]

/-- **while the clock stands still no budget is exhausted**: along every schedule without a tick, from a state whose run
is within its budget, every state is within budget -/
theorem t_frozen_clock_never_over (ls : List FineT.Lbl) : ∀ (s s' : FineT.St), (∀ l ∈ ls, isTick l = false) →
    FineT.over s = false → FineT.runL s ls = some s' → FineT.over s' = false ∧ s'.now = s.now := by
  induction ls with
  | nil => intro s s' _ ho h; simp only [FineT.runL, Option.some.injEq] at h; subst h; exact ⟨ho, rfl⟩
  | cons l ls ih =>
    intro s s' hn ho h
    simp only [FineT.runL] at h
    cases hf : FineT.fire s l with
    | none => simp [hf] at h
    | some s1 =>
      simp only [hf] at h
      obtain ⟨h1, h2⟩ := frozen_step s s1 l (hn l (by simp)) ho hf
      obtain ⟨h3, h4⟩ := ih s1 s' (fun l hl => hn l (by simp [hl])) h1 h
      exact ⟨h3, by rw [h4, h2]⟩

/-! ### every schedule drains while the clock stands still -/

/-- **every posted message is eventually processed — for every scheduler, the clock being the only assumption.**
Take any reachable state of the timed model whose current run is within its frame budget (e.g. any state in which no run
is in progress since the last reading of the clock: `t_take_resets_cost`) and ANY schedule of steps of existing threads —
posters finishing, the helper waking, every consumer step, panicking handlers, the way out of `run()` — during which no
time passes.  Then (1) the schedule has at most `PhiT` steps — the model itself rules out a pause (`t_frozen_clock_never_over`),
it is not a hypothesis on the schedule; (2) nothing is added to the posted logs; (3) when it cannot be extended the state
is quiescent and everything posted has been handed over (user messages unless suspended). -/
theorem t_frozen_clock_every_schedule_drains (s s' : FineT.St) (h : ReachableT s) (ho : FineT.over s = false)
    (ls : List FineT.Lbl) (hl : ∀ l ∈ ls, isInternalT l = true) (hr : FineT.runL s ls = some s') :
    ls.length + PhiT s' ≤ PhiT s ∧
    s'.x.s.pushedU = s.x.s.pushedU ∧ s'.x.s.pushedS = s.x.s.pushedS ∧
    ((∀ l, isInternalT l = true → FineT.fire s' l = none) →
      Abs.Quiescent (Fine.abs s'.x.s) ∧ s'.x.s.dlvS = s.x.s.pushedS ∧ (s'.x.s.susp = false → s'.x.s.dlvU = s.x.s.pushedU)) := by
  have hx := t_reachable_is_x_reachable s h
  obtain ⟨b1, p1, p2⟩ := frozen_run_bounded ls s s' (x_reachable_inv _ hx) hl ho hr
  refine ⟨b1, p1, p2, ?_⟩
  intro hst
  have hnt : ∀ l ∈ ls, isTick l = false := by
    intro l hm
    have := hl l hm
    cases l <;> simp_all [isInternalT, isTick]
  obtain ⟨ho', _⟩ := t_frozen_clock_never_over ls s s' hnt ho hr
  have hr' : ReachableT s' := by
    obtain ⟨t, ms, l0, hl0⟩ := h
    exact ⟨t, ms, l0 ++ ls, FineT.runL_append l0 ls _ _ _ hl0 hr⟩
  have hx' := t_reachable_is_x_reachable s' hr'
  have hq := FineX.no_progress_step_quiescent s'.x (x_reachable_inv _ hx') (frozen_stuck_is_x_stuck s' ho' hst)
  obtain ⟨d1, d2⟩ := x_quiescent_all_delivered _ hx' hq
  exact ⟨hq, by rw [d1, p2], fun hs => by rw [d2 hs, p1]⟩

/-! ### non-vacuity -/

def oneMessage : List FineT.Lbl :=
  [.x (.base (.pushU 1)), .x (.base .incrU), .x (.base .loadP), .x (.base .casP), .x (.base .dispP), .x (.base .take)]

/-- `t_pause_needs_elapsed` is not vacuous: 10 ms + 1 ns after the run was taken (default budget) the pause step is
enabled, the plain iteration step is not; at exactly 10 ms it is the other way round (`cost > maxProcessCost` is strict) -/
example : ∃ s, FineT.runL (FineT.init 99 0) (oneMessage ++ [.tick 10000001]) = some s ∧
    (FineT.fire s (.x (.base .iterOver))).isSome = true ∧ (FineT.fire s (.x (.base .iterOk))).isSome = false := by
  refine ⟨_, rfl, ?_⟩; decide
example : ∃ s, FineT.runL (FineT.init 99 0) (oneMessage ++ [.tick 10000000]) = some s ∧
    (FineT.fire s (.x (.base .iterOver))).isSome = false ∧ (FineT.fire s (.x (.base .iterOk))).isSome = true := by
  refine ⟨_, rfl, ?_⟩; decide

/-- the producer's defaulting is load-bearing: were the budget 0 ns, 1 ns of clock time between the take and the first
iteration would begin a pause before anything is popped (and so would every later run) -/
example : ∃ s, FineT.runL { FineT.init 99 0 with budget := 0 } (oneMessage ++ [.tick 1]) = some s ∧
    (FineT.fire s (.x (.base .iterOver))).isSome = true ∧ (FineT.fire s (.x (.base .iterOk))).isSome = false ∧
    s.x.s.dlvU = [] := by
  refine ⟨_, rfl, ?_⟩; decide

def drainOne : List FineT.Lbl :=
  [.x (.base .loadP), .x (.base .casP), .x (.base .dispP), .x (.base .take),
   .x (.base .iterOk), .x (.base .popS), .x (.base .lsusp), .x (.base .popU),
   .x (.base .iterOk), .x (.base .popS), .x (.base .lsusp), .x (.base .popU), .retEmpty,
   .x (.base .storeIdle), .x (.base .loadS), .x (.base .loadU), .x (.base .loadP2), .x (.base .decide)]

/-- `t_frozen_clock_every_schedule_drains` is not vacuous: after a post (and some time), this schedule of existing
threads without a tick runs, is internal, ends quiescent with the message handed over; it passes through the way out of
`run()` (`retEmpty`) -/
example : ∃ s s', FineT.runL (FineT.init 2 20) [.x (.base (.pushU 1)), .tick 5000, .x (.base .incrU)] = some s ∧
    FineT.over s = false ∧ (∀ l ∈ drainOne, FineT.isInternalT l = true) ∧ FineT.runL s drainOne = some s' ∧
    Abs.Quiescent (Fine.abs s'.x.s) ∧ s'.x.s.dlvU = [1] := by
  refine ⟨_, _, rfl, by decide, by decide, rfl, ?_⟩; simp only [Abs.Quiescent]; decide

/-- the window the yield point "uq.empty" opens: while the consumer is on its way out of `run()`, a poster can push,
count and lose the CAS; "store idle" has to wait for `retEmpty` -/
example : ∃ s, FineT.runL (FineT.init 99 10) (oneMessage ++ [.x (.base .iterOk), .x (.base .popS), .x (.base .lsusp),
      .x (.base .popU), .x (.base .iterOk), .x (.base .popS), .x (.base .lsusp), .x (.base .popU),
      .x (.base (.pushU 2)), .x (.base .incrU), .x (.base .loadP), .x (.base .casP)]) = some s ∧
    s.ret = true ∧ s.x.s.um = 1 ∧ (FineT.fire s (.x (.base .storeIdle))).isSome = false ∧
    (FineT.fire s .retEmpty).isSome = true := by
  refine ⟨_, rfl, ?_⟩; decide

end Cell2v.Props.C09
