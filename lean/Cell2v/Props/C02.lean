import Cell2v.Lemmas.ClientServe
/-!
C02 — every client request gets exactly one response, from the service its route names.

Only property statements, non-vacuity examples and defect witnesses.  Model:
`Model/ClientServe.lean` (`serve` = `HandlerComponent.Process` with tryCallCol /
Forward / sys.call / ProcessForwardMsg / the reply callback as they are now).

Quantification: every configuration (front type, handler tables of every service
type, route function, directory), every session, every message (any route string,
any id, decodable or not) — and, for the history theorems, every finite sequence of
requests from any number of connections interleaved with the passing of time.

Request ids: the id on the wire is a varint of up to 64 bits, the envelope field is 32 bits
(`serve` truncates, as `SessionsImpl.ProcessMessage` does).  The per-request theorems carry the
hypothesis `msg.id < 2^32` (`idWrap`); the full statement without it is `RequestOneResponse`, which is
refuted (`request_one_response_full_fails`, known finding D19 `C02/request-id-truncated`);
`request_answered_with_truncated_id` says what happens instead.

Hypotheses that are explicit (and why):
* handler behaviours complete exactly once (`Beh` has no "never" / "twice" member);
* a back-end reply that is not the `msgs.Response` built by `ProcessForwardMsg`
  (wrong `SessionId`/`ClientReqId`) is dropped by the front — theorem
  `mismatched_reply_dropped` states that silent path; `ProcessForwardMsg` itself always
  echoes both fields, which is why it is unreachable in `serve`;
* `ProcessForwardMsg` at an instance of the wrong type, or an instance without a living
  actor, produces no reply: the client gets the request-timeout error (a response).
-/
namespace Cell2v.Props.C02
open Cell2v.ClientServe

/-! ## (1) exactly one response, same connection, same id -/

/-- THE FULL STATEMENT: every request (id ≠ 0 on the wire) produces exactly one Response effect, on
the connection the request came from, carrying the request's id.  It does NOT hold for the code as
it is (D19, known finding `C02/request-id-truncated`); see `request_one_response_full_fails`. -/
def RequestOneResponse : Prop :=
  ∀ (c : Cfg) (s : Sess) (msg : ClientMsg), msg.id ≠ 0 →
    ∃ d res, responses (serve c s msg) = [(d, s.sid, msg.id, res)]

/-- The part that holds: a request whose id fits the 32-bit envelope field (0 < id < 2^32) produces
exactly one Response effect; it is written on the connection the request came from and carries the
request's id — for EVERY route string, payload, session state, handler table, route function and
directory. -/
theorem request_one_response_partial (c : Cfg) (s : Sess) (msg : ClientMsg) (hid : msg.id ≠ 0)
    (hlt : msg.id < idWrap) :
    ∃ d res, responses (serve c s msg) = [(d, s.sid, msg.id, res)] := by
  have hm : msg.id % idWrap = msg.id := Nat.mod_eq_of_lt hlt
  obtain ⟨d, res, _, h⟩ := responses_serve_request c s msg (by rw [hm]; exact hid)
  rw [hm] at h
  exact ⟨d, res, h⟩

/-- What the code does for ANY wire id: the envelope carries `id mod 2^32`; if that is non-zero the
client gets exactly one response, with the truncated id; if it is zero the message is handled as a
notification (handler runs, nothing is written). -/
theorem request_answered_with_truncated_id (c : Cfg) (s : Sess) (msg : ClientMsg) :
    (msg.id % idWrap ≠ 0 → ∃ d res, responses (serve c s msg) = [(d, s.sid, msg.id % idWrap, res)]) ∧
    (msg.id % idWrap = 0 → responses (serve c s msg) = []) := by
  constructor
  · intro h
    obtain ⟨d, res, _, hr⟩ := responses_serve_request c s msg h
    exact ⟨d, res, hr⟩
  · intro h
    exact responses_serve_notify fixed c s msg h

/-- The serviceable case in full: the handler body runs once, at the target (`target`: the front
itself iff the route names the front's own type, otherwise the live instance of that type which
the route function selects from the session), and the single response carries exactly what that
handler completed with (`wireLocal`/`wireBack` are the identity on data and errors; they only differ
for a result the client serializer cannot marshal, see `unserialisable_result`) — unless a forwarded
handler takes longer than the 30 s request timeout, in which case the single response is the
timeout error. -/
theorem request_served_by_target (c : Cfg) (s : Sess) (msg : ClientMsg) (hid : msg.id ≠ 0) (hlt : msg.id < idWrap)
    (svc g m : String) (v : Nat) (b : Beh) (h : served c s msg = some (svc, g, m, v, b)) :
    target c s (splitClientRoute msg.route).1 = some svc ∧
    serve c s msg =
      if (splitClientRoute msg.route).1 ≠ c.frontType ∧ requestTimeout < (behResult svc g m v b).1 then
        [.invoke svc g m v, .respond timeoutMs s.sid msg.id .error]
      else [.invoke svc g m v, .respond (behResult svc g m v b).1 s.sid msg.id
              (if (splitClientRoute msg.route).1 = c.frontType then wireLocal (behResult svc g m v b).2
               else wireBack (behResult svc g m v b).2)] := by
  refine ⟨?_, by rw [serve_eq_process c s msg hlt]; exact process_served c s msg hid svc g m v b h⟩
  unfold served at h
  simp only at h
  split at h
  · simp at h
  · rename_i svc' ht
    split at h
    · simp only [Option.some.injEq, Prod.mk.injEq] at h
      rw [← h.1]; exact target_of_reachable c s msg _ ht
    · simp at h

/-- `target` spelled out: own type ⇒ the front; other type ⇒ the routed name, which is in the
directory, alive and of that type. -/
theorem target_spec (c : Cfg) (s : Sess) (t svc : String) (h : target c s t = some svc) :
    (t = c.frontType → svc = c.frontName) ∧
    (t ≠ c.frontType → svc = c.route t s ∧ ∃ inst, c.dir svc = some inst ∧ inst.alive = true ∧ inst.type = t) := by
  unfold target at h
  by_cases ht : t = c.frontType
  · simp only [ht, ↓reduceIte, Option.some.injEq] at h
    exact ⟨fun _ => h.symm, fun hn => absurd ht hn⟩
  · refine ⟨fun e => absurd e ht, fun _ => ?_⟩
    simp only [ht, ↓reduceIte] at h
    by_cases hr : c.route t s = ""
    · simp [hr] at h
    · simp only [hr, ↓reduceIte] at h
      cases hd : c.dir (c.route t s) with
      | none => simp [hd] at h
      | some inst =>
        simp only [hd] at h
        by_cases hal : inst.alive = true ∧ inst.type = t
        · simp only [hal, and_self, ↓reduceIte, Option.some.injEq] at h
          subst h
          exact ⟨rfl, inst, hd, hal.1, hal.2⟩
        · simp [hal] at h

/-- Whatever data a client ever receives in answer to a request was produced by the target of
that request's route: the origin of every data response is `target`. -/
theorem response_origin_is_target (c : Cfg) (s : Sess) (msg : ClientMsg) (hid : msg.id ≠ 0) (hlt : msg.id < idWrap)
    (d cn i : Nat) (o g m : String) (v : Nat)
    (hmem : (d, cn, i, Result.data o g m v) ∈ responses (serve c s msg)) :
    target c s (splitClientRoute msg.route).1 = some o := by
  cases h : served c s msg with
  | none =>
    obtain ⟨d', _, he⟩ := process_unserved c s msg hid h
    rw [serve_eq_process c s msg hlt] at hmem
    simp [he, responses] at hmem
  | some x =>
    obtain ⟨svc, g', m', v', b⟩ := x
    obtain ⟨ht, he⟩ := request_served_by_target c s msg hid hlt svc g' m' v' b h
    rw [he] at hmem
    split at hmem
    · simp [responses] at hmem
    · simp only [responses, List.mem_singleton, Prod.mk.injEq] at hmem
      obtain ⟨_, _, _, hres⟩ := hmem
      rw [ht]
      cases b <;> simp only [behResult] at hres <;> split at hres <;>
        simp [wireLocal, wireBack] at hres <;> simp [hres.1]

/-- The front answers itself exactly when the route names its own type (the front is registered
in the directory under its own type, as `InitSelf`/`UpdateClusterTopology` make it). -/
theorem front_answers_iff_own_type (c : Cfg) (s : Sess) (t : String) (fi : Inst)
    (hdir : c.dir c.frontName = some fi) (hfi : fi.type = c.frontType) :
    target c s t = some c.frontName ↔ t = c.frontType := by
  constructor
  · intro h
    by_cases ht : t = c.frontType
    · exact ht
    · obtain ⟨_, inst, hd, _, hty⟩ := (target_spec c s t _ h).2 ht
      rw [hdir] at hd
      cases hd
      exact absurd (hty.symm.trans hfi) ht
  · intro h
    simp [target, h]

/-- The relay step alone: a reply that arrives in time and carries the session id and request id
of the pending request is written to the client unchanged (delay, data or error). -/
theorem relay_unchanged (s : Sess) (msg : ClientMsg) (d : Nat) (res : Result) (hd : d ≤ requestTimeout) :
    relay s msg (some (d, ⟨s.sid, msg.id, res⟩)) = [.respond d s.sid msg.id res] := by
  have : ¬ requestTimeout < d := by omega
  simp [relay, this]

/-- The documented silent path: a reply whose ids do not match is dropped (never produced by
`ProcessForwardMsg`, which echoes both fields). -/
theorem mismatched_reply_dropped (s : Sess) (msg : ClientMsg) (d : Nat) (rep : BackReply) (hd : d ≤ requestTimeout)
    (hmis : rep.sessionId ≠ s.sid ∨ rep.clientReqId ≠ msg.id) :
    relay s msg (some (d, rep)) = [] := by
  have : ¬ requestTimeout < d := by omega
  simp [relay, this, hmis]

/-! ## (2) requests that cannot be served are answered with an error -/

/-- Every request that is not serviceable — whatever the reason — gets exactly one response, an
error, and no handler runs. -/
theorem unserviceable_gets_error (c : Cfg) (s : Sess) (msg : ClientMsg) (hid : msg.id ≠ 0) (hlt : msg.id < idWrap)
    (h : served c s msg = none) :
    ∃ d, serve c s msg = [.respond d s.sid msg.id .error] := by
  obtain ⟨d, _, he⟩ := process_unserved c s msg hid h
  exact ⟨d, by rw [serve_eq_process c s msg hlt]; exact he⟩

/-- no reachable target: the route function names nothing, an unknown name, a dead instance or an
instance of another type -/
theorem no_target_gets_error (c : Cfg) (s : Sess) (msg : ClientMsg) (hid : msg.id ≠ 0) (hlt : msg.id < idWrap)
    (h : target c s (splitClientRoute msg.route).1 = none) :
    ∃ d, serve c s msg = [.respond d s.sid msg.id .error] :=
  unserviceable_gets_error c s msg hid hlt (by simp [served, reachable_none_of_target c s msg h])

/-- a forwarded request whose envelope `remote.Serialize` cannot marshal (route not valid UTF-8):
nothing is sent, exactly one error response -/
theorem unserialisable_envelope_gets_error (c : Cfg) (s : Sess) (msg : ClientMsg) (hid : msg.id ≠ 0) (hlt : msg.id < idWrap)
    (ht : (splitClientRoute msg.route).1 ≠ c.frontType) (hs : routeSerialisable msg.route = false) :
    ∃ d, serve c s msg = [.respond d s.sid msg.id .error] :=
  unserviceable_gets_error c s msg hid hlt (by simp [served, reachable_none_of_unserialisable c s msg ht hs])

/-- unknown group or method at the target -/
theorem unknown_method_gets_error (c : Cfg) (s : Sess) (msg : ClientMsg) (hid : msg.id ≠ 0) (hlt : msg.id < idWrap)
    (h : c.handlers (splitClientRoute msg.route).1 (splitClientRoute msg.route).2.1 (splitClientRoute msg.route).2.2 = none) :
    ∃ d, serve c s msg = [.respond d s.sid msg.id .error] :=
  unserviceable_gets_error c s msg hid hlt (by simp only [served, h]; split <;> rfl)

/-- undecodable payload -/
theorem undecodable_gets_error (c : Cfg) (s : Sess) (msg : ClientMsg) (hid : msg.id ≠ 0) (hlt : msg.id < idWrap)
    (h : msg.pay = .undecodable) :
    ∃ d, serve c s msg = [.respond d s.sid msg.id .error] :=
  unserviceable_gets_error c s msg hid hlt (by
    simp only [served, h]
    split
    · rfl
    · split <;> simp_all)

/-- a request sent to a notify-shaped method (repaired defect D4b) -/
theorem request_to_notify_method_gets_error (c : Cfg) (s : Sess) (msg : ClientMsg) (hid : msg.id ≠ 0) (hlt : msg.id < idWrap) (b : Beh)
    (h : c.handlers (splitClientRoute msg.route).1 (splitClientRoute msg.route).2.1 (splitClientRoute msg.route).2.2
      = some ⟨.notify, b⟩) :
    ∃ d, serve c s msg = [.respond d s.sid msg.id .error] :=
  unserviceable_gets_error c s msg hid hlt (by
    simp only [served, h]
    split <;> rfl)

/-- a malformed route (not exactly three dot-separated parts) — as long as nobody registered a
handler for the empty type/group/method -/
theorem malformed_route_gets_error (c : Cfg) (s : Sess) (msg : ClientMsg) (hid : msg.id ≠ 0) (hlt : msg.id < idWrap)
    (hbad : (splitDots msg.route).length ≠ 3) (hnone : c.handlers "" "" "" = none) :
    ∃ d, serve c s msg = [.respond d s.sid msg.id .error] := by
  have hs : splitClientRoute msg.route = ("", "", "") := by
    unfold splitClientRoute
    split
    · rename_i a b c' he
      rw [he] at hbad
      simp at hbad
    · rfl
  exact unknown_method_gets_error c s msg hid hlt (by rw [hs]; exact hnone)

/-- handler failure (error result or panic): exactly one response, an error; the body ran once at the target -/
theorem handler_failure_gets_error (c : Cfg) (s : Sess) (msg : ClientMsg) (hid : msg.id ≠ 0) (hlt : msg.id < idWrap)
    (svc g m : String) (v : Nat) (b : Beh) (h : served c s msg = some (svc, g, m, v, b))
    (hb : b = .fail ∨ b = .panic) :
    serve c s msg = [.invoke svc g m v, .respond 0 s.sid msg.id .error] := by
  rw [(request_served_by_target c s msg hid hlt svc g m v b h).2]
  rcases hb with rfl | rfl <;> simp [behResult, requestTimeout]

/-- A handler that completes with a value the client serializer refuses (e.g. a NaN float under
json): exactly one response in both cases; the front's own completion turns it into an error
response (`Process` checks the `Marshal` error), whereas `ProcessForwardMsg` IGNORES the `Marshal`
error and the client of a forwarded request receives a success with an empty body — that is what
the code does, so "handler failure ⇒ error response" holds for `fail`/`panic`
(`handler_failure_gets_error`) and for front-local unserialisable results only. -/
theorem unserialisable_result (c : Cfg) (s : Sess) (msg : ClientMsg) (hid : msg.id ≠ 0) (hlt : msg.id < idWrap)
    (svc g m : String) (v : Nat) (h : served c s msg = some (svc, g, m, v, .unser)) :
    serve c s msg = [.invoke svc g m v, .respond 0 s.sid msg.id
      (if (splitClientRoute msg.route).1 = c.frontType then .error else .blank)] := by
  rw [(request_served_by_target c s msg hid hlt svc g m v .unser h).2]
  by_cases ht : (splitClientRoute msg.route).1 = c.frontType <;>
    simp [behResult, requestTimeout, ht, wireLocal, wireBack]

/-! ## (3) notifications -/

/-- A notification (id 0) is never answered, on any path and whatever repairs are present; the
handler body runs exactly once when the target is reachable, the method exists (either shape) and
the payload decodes — and not at all otherwise. -/
theorem notify_once_no_response (fx : Fixes) (c : Cfg) (s : Sess) (msg : ClientMsg) (hid : msg.id = 0) :
    responses (serveWith fx c s msg) = [] ∧
    invocations (serveWith fx c s msg) =
      (match notified c s msg with
       | some x => [x]
       | none => []) := by
  have hlt : msg.id < idWrap := by rw [hid]; decide
  rw [serveWith_eq_processWith fx c s msg hlt]
  refine ⟨responses_process_notify fx c s msg hid, ?_⟩
  rw [process_notify fx c s msg hid]
  cases notified c s msg with
  | none => rfl
  | some x => obtain ⟨a, b, c', d⟩ := x; rfl

/-! ## (4) histories: any number of clients, requests in flight, time passing -/

/-- At every moment of every history, for every connection and non-zero id (as the envelope carries
it: the wire id mod 2^32, which is the wire id itself below 2^32 — D19): responses already
written + responses still in flight = requests sent.  In particular never more responses than
requests (no duplicate, no response to a request that was not made). -/
theorem history_conservation (c : Cfg) (ops : List Op) (cn i : Nat) (hi : i ≠ 0) :
    wireCount cn i (run fixed c St.init ops).out +
      wireCount cn i ((run fixed c St.init ops).pend.map Pending.wire) = reqCount cn i ops := by
  have := total_run c cn i hi ops St.init
  unfold total at this
  have h1 : wireCount cn i St.init.out = 0 := rfl
  have h2 : wireCount cn i (St.init.pend.map Pending.wire) = 0 := rfl
  omega

theorem history_never_more (c : Cfg) (ops : List Op) (cn i : Nat) (hi : i ≠ 0) :
    wireCount cn i (run fixed c St.init ops).out ≤ reqCount cn i ops := by
  have := history_conservation c ops cn i hi
  omega

/-- Once 42 s (`lateMs`, the longest handler delay; the request timeout is 31 s) have passed after the last
message, nothing is in flight and every connection has received, for every non-zero id, exactly as
many responses as it sent requests with that id — one each when ids in flight are distinct. -/
theorem history_exactly_one (c : Cfg) (ops : List Op) (d : Nat) (hd : lateMs ≤ d) :
    (run fixed c St.init (ops ++ [.adv d])).pend = [] ∧
    ∀ cn i, i ≠ 0 → wireCount cn i (run fixed c St.init (ops ++ [.adv d])).out = reqCount cn i ops := by
  have hp : (run fixed c St.init (ops ++ [.adv d])).pend = [] := by
    rw [run_append]
    have hb := dueBound_run c ops St.init (by intro p hp; cases hp)
    simp only [run, step]
    rw [List.filter_eq_nil_iff]
    intro p hp
    have := hb p hp
    simp only [decide_eq_true_eq]; omega
  refine ⟨hp, fun cn i hi => ?_⟩
  have := history_conservation c (ops ++ [.adv d]) cn i hi
  rw [hp] at this
  simpa [reqCount_append, reqCount, wireCount] using this

/-- No response with id 0 is ever written or in flight: notifications are never answered. -/
theorem history_no_response_to_notify (c : Cfg) (ops : List Op) (cn : Nat) :
    wireCount cn 0 (run fixed c St.init ops).out = 0 := by
  have := total_run_zero c cn ops St.init
  unfold total at this
  have h1 : wireCount cn 0 St.init.out = 0 := rfl
  have h2 : wireCount cn 0 (St.init.pend.map Pending.wire) = 0 := rfl
  omega

/-! ## non-vacuity: a concrete configuration (the one of the correspondence run) -/

abbrev c0 : Cfg := tieCfg false

def s1 : Sess := ⟨7, some "chat-1", true⟩
def s0 : Sess := ⟨8, none, true⟩

example : serve c0 s1 ⟨5, "chat.zoo.echo", .valid 3⟩ =
    [.invoke "chat-1" "zoo" "echo" 3, .respond 0 7 5 (.data "chat-1" "zoo" "echo" 3)] := by decide
example : serve c0 s1 ⟨5, "gate.zoo.slow", .valid 3⟩ =
    [.invoke "gate-1" "zoo" "slow" 3, .respond 2000 7 5 (.data "gate-1" "zoo" "slow" 3)] := by decide
example : served c0 s1 ⟨5, "chat.zoo.echo", .valid 3⟩ = some ("chat-1", "zoo", "echo", 3, .ok) := by decide
example : serve c0 s1 ⟨5, "chat.zoo.late", .valid 3⟩ =
    [.invoke "chat-1" "zoo" "late" 3, .respond 31000 7 5 .error] := by decide
example : served c0 s0 ⟨5, "chat.zoo.echo", .valid 3⟩ = none := by decide
example : serve c0 s0 ⟨5, "chat.zoo.echo", .valid 3⟩ = [.respond 0 8 5 .error] := by decide
example : serve c0 ⟨9, some "chat-9", true⟩ ⟨5, "chat.zoo.echo", .valid 3⟩ = [.respond 31000 9 5 .error] := by decide
example : serve c0 ⟨9, some "gate-1", true⟩ ⟨5, "chat.zoo.echo", .valid 3⟩ = [.respond 31000 9 5 .error] := by decide
example : serve c0 s1 ⟨5, "chat.zoo.tell", .valid 3⟩ = [.respond 0 7 5 .error] := by decide
example : serve c0 s1 ⟨5, "gate.zoo.tell", .valid 3⟩ = [.respond 0 7 5 .error] := by decide
example : serve c0 s1 ⟨5, "gate.zoo", .valid 3⟩ = [.respond 0 7 5 .error] := by decide
example : (splitDots "gate.zoo").length ≠ 3 ∧ c0.handlers "" "" "" = none := by decide
example : serve c0 s1 ⟨5, "chat.zoo.echo", .undecodable⟩ = [.respond 0 7 5 .error] := by decide
example : serve c0 s1 ⟨5, "chat.zoo.boom", .valid 1⟩ = [.invoke "chat-1" "zoo" "boom" 1, .respond 0 7 5 .error] := by decide
example : serve c0 s1 ⟨0, "chat.zoo.tell", .valid 3⟩ = [.invoke "chat-1" "zoo" "tell" 3] := by decide
example : serve c0 s1 ⟨0, "chat.zoo.echo", .valid 3⟩ = [.invoke "chat-1" "zoo" "echo" 3] := by decide
example : serve c0 s0 ⟨0, "chat.zoo.tell", .valid 3⟩ = [] := by decide
example : notified c0 s1 ⟨0, "gate.zoo.tell", .valid 3⟩ = some ("gate-1", "zoo", "tell", 3) := by decide
example : c0.dir c0.frontName = some ⟨"gate", true⟩ := by decide
example : (run fixed c0 St.init [.req s1 ⟨5, "chat.zoo.slow", .valid 1⟩, .req s0 ⟨5, "gate.zoo.late", .valid 2⟩,
    .adv 5000, .req s1 ⟨6, "chat.zoo.late", .valid 3⟩, .adv 45000]).out =
    [(7, 5, .data "chat-1" "zoo" "slow" 1), (8, 5, .data "gate-1" "zoo" "late" 2), (7, 6, .error)] := by decide

example : serve c0 s1 ⟨5, "gate.zoo.nan", .valid 3⟩ = [.invoke "gate-1" "zoo" "nan" 3, .respond 0 7 5 .error] := by decide
example : serve c0 s1 ⟨5, "chat.zoo.nan", .valid 3⟩ = [.invoke "chat-1" "zoo" "nan" 3, .respond 0 7 5 .blank] := by decide
example := unserialisable_result c0 s1 ⟨5, "chat.zoo.nan", .valid 3⟩ (by decide) (by decide) "chat-1" "zoo" "nan" 3 (by decide)

example : serve c0 ⟨9, some "chat-9", true⟩ ⟨5, "chat.zoo.ech\uFFFD", .valid 3⟩ = [.respond 0 9 5 .error] := by decide
example := unserialisable_envelope_gets_error c0 s1 ⟨5, "hall.zoo.ech\uFFFD", .valid 3⟩ (by decide) (by decide) (by decide) (by decide)

-- node states: a NAMED instance is used whatever the state of its node; the default route picks a working one
example : serve (tieCfg false) ⟨7, some "chat-2", true⟩ ⟨5, "chat.zoo.echo", .valid 3⟩ =
    [.invoke "chat-2" "zoo" "echo" 3, .respond 0 7 5 (.data "chat-2" "zoo" "echo" 3)] := by decide
example : serve (tieCfg true) s1 ⟨5, "hall.zoo.login", .valid 3⟩ =
    [.invoke "hall-2" "zoo" "login" 3, .respond 0 7 5 (.data "hall-2" "zoo" "login" 3)] := by decide

-- the conditional theorems instantiated (their hypotheses are satisfiable)
example := request_served_by_target c0 s1 ⟨5, "chat.zoo.echo", .valid 3⟩ (by decide) (by decide) "chat-1" "zoo" "echo" 3 .ok (by decide)
example := response_origin_is_target c0 s1 ⟨5, "chat.zoo.echo", .valid 3⟩ (by decide) (by decide) 0 7 5 "chat-1" "zoo" "echo" 3 (by decide)
example := unserviceable_gets_error c0 s0 ⟨5, "chat.zoo.echo", .valid 3⟩ (by decide) (by decide) (by decide)
example := no_target_gets_error c0 ⟨9, some "chat-7", false⟩ ⟨5, "chat.zoo.echo", .valid 3⟩ (by decide) (by decide) (by decide)
example := unknown_method_gets_error c0 s1 ⟨5, "chat.zoo.nosuch", .valid 3⟩ (by decide) (by decide) (by decide)
example := request_to_notify_method_gets_error c0 s1 ⟨5, "gate.zoo.tell", .valid 3⟩ (by decide) (by decide) .ok (by decide)
example := malformed_route_gets_error c0 s1 ⟨5, "gate.zoo.echo.x", .valid 3⟩ (by decide) (by decide) (by decide) (by decide)
example := handler_failure_gets_error c0 s1 ⟨5, "hall.zoo.fail", .valid 3⟩ (by decide) (by decide) "hall-1" "zoo" "fail" 3 .fail (by decide) (.inl rfl)
example := front_answers_iff_own_type c0 s1 "gate" ⟨"gate", true⟩ (by decide) rfl
example := (history_exactly_one c0 [.req s1 ⟨5, "chat.zoo.late", .valid 1⟩, .req s1 ⟨0, "chat.zoo.tell", .valid 2⟩] 45000 (by decide)).2 7 5 (by decide)

/-! ## D19 (known finding `C02/request-id-truncated`): ids of 2^32 and above -/

/-- id 2^32+5 on a serviceable forwarded route is answered with id 5; id 2^32 on a serviceable
front-local route is handled as a notification: the handler runs, nothing is ever written. -/
theorem d19_witness :
    serve c0 s1 ⟨4294967301, "chat.zoo.echo", .valid 3⟩ =
      [.invoke "chat-1" "zoo" "echo" 3, .respond 0 7 5 (.data "chat-1" "zoo" "echo" 3)] ∧
    serve c0 s1 ⟨4294967296, "gate.zoo.echo", .valid 3⟩ = [.invoke "gate-1" "zoo" "echo" 3] := by
  decide

theorem request_one_response_full_fails : ¬ RequestOneResponse := by
  intro h
  obtain ⟨d, res, hr⟩ := h c0 s1 ⟨4294967296, "gate.zoo.echo", .valid 3⟩ (by decide)
  rw [d19_witness.2] at hr
  simp [responses] at hr

example := request_one_response_partial c0 s1 ⟨4294967295, "chat.zoo.echo", .valid 3⟩ (by decide) (by decide)
example := (request_answered_with_truncated_id c0 s1 ⟨18446744073709551615, "hall.zoo.echo", .valid 3⟩).1 (by decide)

/-! ## what the two repairs changed (pre-fix behaviour kept as `serveWith ⟨false, _⟩` / `⟨_, false⟩`) -/

/-- D4a before d38d6e3: a request without routable target was never answered. -/
theorem d4a_witness : responses (serveWith ⟨false, true, true⟩ c0 s0 ⟨5, "chat.zoo.echo", .valid 3⟩) = [] := by decide

/-- D4b before b007ad3: a front-local request to a notify-shaped method was never answered … -/
theorem d4b_witness_local : responses (serveWith ⟨true, false, true⟩ c0 s1 ⟨5, "gate.zoo.tell", .valid 3⟩) = [] := by decide

/-- … and a forwarded one only by the 30 s request timeout. -/
theorem d4b_witness_forwarded :
    serveWith ⟨true, false, true⟩ c0 s1 ⟨5, "chat.zoo.tell", .valid 3⟩ = [.respond timeoutMs 7 5 .error] := by decide

/-- D20 before d1d6afb: a forwarded request read before the owner had run `AddSession` carried
`SessionId` 0; the handler ran at the back end but its reply was dropped by the front ("missmatch
res") and the client was never answered — not even by the timeout (the pending entry is removed
when the reply arrives).  Front-local requests and notifications were not affected. -/
theorem d20_witness :
    serveWith ⟨true, true, false⟩ c0 ⟨7, none, false⟩ ⟨5, "hall.zoo.echo", .valid 3⟩ = [.invoke "hall-1" "zoo" "echo" 3] ∧
    serveWith ⟨true, true, false⟩ c0 ⟨7, none, false⟩ ⟨5, "gate.zoo.echo", .valid 3⟩ =
      [.invoke "gate-1" "zoo" "echo" 3, .respond 0 7 5 (.data "gate-1" "zoo" "echo" 3)] ∧
    serveWith ⟨true, true, false⟩ c0 ⟨7, none, true⟩ ⟨5, "hall.zoo.echo", .valid 3⟩ =
      [.invoke "hall-1" "zoo" "echo" 3, .respond 0 7 5 (.data "hall-1" "zoo" "echo" 3)] := by decide

/-- with the repair the same pipelined request is served like any other (instance of `request_served_by_target`) -/
example : serve c0 ⟨7, none, false⟩ ⟨5, "hall.zoo.echo", .valid 3⟩ =
    [.invoke "hall-1" "zoo" "echo" 3, .respond 0 7 5 (.data "hall-1" "zoo" "echo" 3)] := by decide

end Cell2v.Props.C02
