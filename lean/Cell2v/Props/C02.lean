import Cell2v.Lemmas.ClientServe
import Cell2v.Lemmas.ClientShared
/-!
C02 — every client request gets exactly one response, from the service its route names.

Only property statements, non-vacuity examples and defect witnesses.  Model:
`Model/ClientServe.lean` (`serve` = `HandlerComponent.Process` with tryCallCol /
Forward / sys.call / ProcessForwardMsg / the reply callback as they are now).

Quantification: every configuration (front type, handler tables of every service
type, route function, directory), every session, every message (any route string,
any id, decodable or not) — and, for the history theorems, every finite sequence of
requests from any number of connections interleaved with the passing of time.

Request ids: the id on the wire is a varint of up to 64 bits, the envelope field is 32 bits
(`serve` truncates, as `SessionsImpl.ProcessMessage` does).  The per-request theorems carry the
hypothesis `msg.id < 2^32` (`idWrap`); the full statement without it is `RequestOneResponse`, which is
refuted (`request_one_response_full_fails`, known finding D19 `C02/request-id-truncated`);
`request_answered_with_truncated_id` says what happens instead.

Hypotheses that are explicit (and why):
* handler bodies call their completion function at most once and complete or panic (`Beh` has no "never" /
  "twice" member; complete-then-panic and a completion function that panics ARE members: section (7));
* a back-end reply that is not the `msgs.Response` built by `ProcessForwardMsg`
  (wrong `SessionId`/`ClientReqId`) is dropped by the front — theorem
  `mismatched_reply_dropped` states that silent path; `ProcessForwardMsg` itself always
  echoes both fields, which is why it is unreachable in `serve`;
* `ProcessForwardMsg` at an instance of the wrong type, or an instance without a living
  actor, produces no reply: the client gets the request-timeout error (a response).
-/
namespace Cell2v.Props.C02
open Cell2v.ClientServe

/-! ## (1) exactly one response, same connection, same id -/

/-- THE FULL STATEMENT: every request (id ≠ 0 on the wire) produces exactly one Response effect, on
the connection the request came from, carrying the request's id.  It does NOT hold for the code as
it is (D19, known finding `C02/request-id-truncated`); see `request_one_response_full_fails`. -/
def RequestOneResponse : Prop :=
  ∀ (c : Cfg) (s : Sess) (msg : ClientMsg), msg.id ≠ 0 →
    ∃ d res, responses (serve c s msg) = [(d, s.sid, msg.id, res)]

/-- The part that holds: a request whose id fits the 32-bit envelope field (0 < id < 2^32) produces
exactly one Response effect; it is written on the connection the request came from and carries the
request's id — for EVERY route string, payload, session state, handler table, route function and
directory. -/
theorem request_one_response_partial (c : Cfg) (s : Sess) (msg : ClientMsg) (hid : msg.id ≠ 0)
    (hlt : msg.id < idWrap) :
    ∃ d res, responses (serve c s msg) = [(d, s.sid, msg.id, res)] := by
  have hm : msg.id % idWrap = msg.id := Nat.mod_eq_of_lt hlt
  obtain ⟨d, res, _, h⟩ := responses_serve_request c s msg (by rw [hm]; exact hid)
  rw [hm] at h
  exact ⟨d, res, h⟩

/-- What the code does for ANY wire id: the envelope carries `id mod 2^32`; if that is non-zero the
client gets exactly one response, with the truncated id; if it is zero the message is handled as a
notification (handler runs, nothing is written). -/
theorem request_answered_with_truncated_id (c : Cfg) (s : Sess) (msg : ClientMsg) :
    (msg.id % idWrap ≠ 0 → ∃ d res, responses (serve c s msg) = [(d, s.sid, msg.id % idWrap, res)]) ∧
    (msg.id % idWrap = 0 → responses (serve c s msg) = []) := by
  constructor
  · intro h
    obtain ⟨d, res, _, hr⟩ := responses_serve_request c s msg h
    exact ⟨d, res, hr⟩
  · intro h
    exact responses_serve_notify fixed c s msg h

/-- The serviceable case in full: the handler body runs once, at the target (`target`: the front
itself iff the route names the front's own type, otherwise the live instance of that type which
the route function selects from the session), and the single response carries exactly what that
handler completed with (`wireLocal`/`wireBack` are the identity on data and errors; they only differ
for a result the client serializer cannot marshal, see `unserialisable_result`) — unless a forwarded
handler takes longer than the 30 s request timeout, in which case the single response is the
timeout error. -/
theorem request_served_by_target (c : Cfg) (s : Sess) (msg : ClientMsg) (hid : msg.id ≠ 0) (hlt : msg.id < idWrap)
    (svc g m : String) (v : Nat) (b : Beh) (h : served c s msg = some (svc, g, m, v, b)) :
    target c s (splitClientRoute msg.route).1 = some svc ∧
    serve c s msg =
      if (splitClientRoute msg.route).1 ≠ c.frontType ∧ requestTimeout < (behResult svc g m v b).1 then
        [.invoke svc g m v, .respond timeoutMs s.sid msg.id .error]
      else [.invoke svc g m v, .respond (behResult svc g m v b).1 s.sid msg.id
              (if (splitClientRoute msg.route).1 = c.frontType then wireLocal (behResult svc g m v b).2
               else wireBack (behResult svc g m v b).2)] := by
  refine ⟨?_, by rw [serve_eq_process c s msg hlt]; exact process_served c s msg hid svc g m v b h⟩
  unfold served at h
  simp only at h
  split at h
  · simp at h
  · rename_i svc' ht
    split at h
    · simp only [Option.some.injEq, Prod.mk.injEq] at h
      rw [← h.1]; exact target_of_reachable c s msg _ ht
    · simp at h

/-- `target` spelled out: own type ⇒ the front; other type ⇒ the routed name, which is in the
directory, alive and of that type. -/
theorem target_spec (c : Cfg) (s : Sess) (t svc : String) (h : target c s t = some svc) :
    (t = c.frontType → svc = c.frontName) ∧
    (t ≠ c.frontType → svc = c.route t s ∧ ∃ inst, c.dir svc = some inst ∧ inst.alive = true ∧ inst.type = t) := by
  unfold target at h
  by_cases ht : t = c.frontType
  · simp only [ht, ↓reduceIte, Option.some.injEq] at h
    exact ⟨fun _ => h.symm, fun hn => absurd ht hn⟩
  · refine ⟨fun e => absurd e ht, fun _ => ?_⟩
    simp only [ht, ↓reduceIte] at h
    by_cases hr : c.route t s = ""
    · simp [hr] at h
    · simp only [hr, ↓reduceIte] at h
      cases hd : c.dir (c.route t s) with
      | none => simp [hd] at h
      | some inst =>
        simp only [hd] at h
        by_cases hal : inst.alive = true ∧ inst.type = t
        · simp only [hal, and_self, ↓reduceIte, Option.some.injEq] at h
          subst h
          exact ⟨rfl, inst, hd, hal.1, hal.2⟩
        · simp [hal] at h

/-- Whatever data a client ever receives in answer to a request was produced by the target of
that request's route: the origin of every data response is `target`. -/
theorem response_origin_is_target (c : Cfg) (s : Sess) (msg : ClientMsg) (hid : msg.id ≠ 0) (hlt : msg.id < idWrap)
    (d cn i : Nat) (o g m : String) (v : Nat)
    (hmem : (d, cn, i, Result.data o g m v) ∈ responses (serve c s msg)) :
    target c s (splitClientRoute msg.route).1 = some o := by
  cases h : served c s msg with
  | none =>
    obtain ⟨d', _, he⟩ := process_unserved c s msg hid h
    rw [serve_eq_process c s msg hlt] at hmem
    simp [he, responses] at hmem
  | some x =>
    obtain ⟨svc, g', m', v', b⟩ := x
    obtain ⟨ht, he⟩ := request_served_by_target c s msg hid hlt svc g' m' v' b h
    rw [he] at hmem
    split at hmem
    · simp [responses] at hmem
    · simp only [responses, List.mem_singleton, Prod.mk.injEq] at hmem
      obtain ⟨_, _, _, hres⟩ := hmem
      rw [ht]
      cases b <;> simp only [behResult] at hres <;> split at hres <;>
        simp [wireLocal, wireBack] at hres <;> simp [hres.1]

/-- The front answers itself exactly when the route names its own type (the front is registered
in the directory under its own type, as `InitSelf`/`UpdateClusterTopology` make it). -/
theorem front_answers_iff_own_type (c : Cfg) (s : Sess) (t : String) (fi : Inst)
    (hdir : c.dir c.frontName = some fi) (hfi : fi.type = c.frontType) :
    target c s t = some c.frontName ↔ t = c.frontType := by
  constructor
  · intro h
    by_cases ht : t = c.frontType
    · exact ht
    · obtain ⟨_, inst, hd, _, hty⟩ := (target_spec c s t _ h).2 ht
      rw [hdir] at hd
      cases hd
      exact absurd (hty.symm.trans hfi) ht
  · intro h
    simp [target, h]

/-- The relay step alone: a reply that arrives in time and carries the session id and request id
of the pending request is written to the client unchanged (delay, data or error). -/
theorem relay_unchanged (s : Sess) (msg : ClientMsg) (d : Nat) (res : Result) (hd : d ≤ requestTimeout) :
    relay s msg (some (d, ⟨s.sid, msg.id, res⟩)) = [.respond d s.sid msg.id res] := by
  have : ¬ requestTimeout < d := by omega
  simp [relay, this]

/-- The documented silent path: a reply whose ids do not match is dropped (never produced by
`ProcessForwardMsg`, which echoes both fields). -/
theorem mismatched_reply_dropped (s : Sess) (msg : ClientMsg) (d : Nat) (rep : BackReply) (hd : d ≤ requestTimeout)
    (hmis : rep.sessionId ≠ s.sid ∨ rep.clientReqId ≠ msg.id) :
    relay s msg (some (d, rep)) = [] := by
  have : ¬ requestTimeout < d := by omega
  simp [relay, this, hmis]

/-! ## (2) requests that cannot be served are answered with an error -/

/-- Every request that is not serviceable — whatever the reason — gets exactly one response, an
error, and no handler runs. -/
theorem unserviceable_gets_error (c : Cfg) (s : Sess) (msg : ClientMsg) (hid : msg.id ≠ 0) (hlt : msg.id < idWrap)
    (h : served c s msg = none) :
    ∃ d, serve c s msg = [.respond d s.sid msg.id .error] := by
  obtain ⟨d, _, he⟩ := process_unserved c s msg hid h
  exact ⟨d, by rw [serve_eq_process c s msg hlt]; exact he⟩

/-- no reachable target: the route function names nothing, an unknown name, a dead instance or an
instance of another type -/
theorem no_target_gets_error (c : Cfg) (s : Sess) (msg : ClientMsg) (hid : msg.id ≠ 0) (hlt : msg.id < idWrap)
    (h : target c s (splitClientRoute msg.route).1 = none) :
    ∃ d, serve c s msg = [.respond d s.sid msg.id .error] :=
  unserviceable_gets_error c s msg hid hlt (by simp [served, reachable_none_of_target c s msg h])

/-- a route function that PANICS for this session: `RouteService.doRoute` recovers, `Route` answers
`""`, no target is found — the request gets exactly one error response at once and no handler runs
(a `doRoute` that lets the panic escape leaves the client without any response: the panic is swallowed
by the owner's task loop and nothing was registered that could time out) -/
theorem route_panic_gets_error (c : Cfg) (f : String → Sess → Option String) (hc : c.route = doRoute f)
    (s : Sess) (msg : ClientMsg) (hid : msg.id ≠ 0) (hlt : msg.id < idWrap)
    (ht : (splitClientRoute msg.route).1 ≠ c.frontType) (hp : f (splitClientRoute msg.route).1 s = none) :
    serve c s msg = [.respond 0 s.sid msg.id .error] := by
  have he : envelope msg = msg := by
    cases msg with
    | mk i r p => simp only [envelope, ClientMsg.mk.injEq, and_true]; exact Nat.mod_eq_of_lt hlt
  simp [serve, serveWith, he, processWith, ht, forward, hc, doRoute, hp, fixed, hid]

/-- … and a notification routed by a panicking route function has no effect at all -/
theorem route_panic_notify_dropped (c : Cfg) (f : String → Sess → Option String) (hc : c.route = doRoute f)
    (s : Sess) (msg : ClientMsg) (hid : msg.id = 0)
    (ht : (splitClientRoute msg.route).1 ≠ c.frontType) (hp : f (splitClientRoute msg.route).1 s = none) :
    serve c s msg = [] := by
  have he : envelope msg = msg := by
    cases msg with
    | mk i r p => simp only [envelope, ClientMsg.mk.injEq, and_true]; subst hid; rfl
  simp [serve, serveWith, he, processWith, ht, forward, hc, doRoute, hp, fixed, hid]

/-- `StartAcceptor`'s loop builds, for every connection queued by the acceptor, exactly one session, on
that connection, in arrival order — however many connections arrive together -/
theorem accept_serves_each_connection_once (conns : List Nat) :
    acceptLoop conns = conns ∧ ∀ c, servedBy (acceptLoop conns) c = conns.count c := by
  have h : acceptLoop conns = conns := by
    induction conns with
    | nil => rfl
    | cons a t ih => simp [acceptLoop, ih]
  exact ⟨h, fun c => by simp [servedBy, h]⟩

/-- witness (not the code): session creation deferred to a goroutine that reads the shared loop
variable when it runs — three connections arriving together, all three sessions on the last one, the
first two connections served by nobody -/
theorem accept_deferred_witness :
    acceptDeferred [1, 2, 3] (fun _ => 2) = [3, 3, 3] ∧ servedBy (acceptDeferred [1, 2, 3] (fun _ => 2)) 1 = 0 := by decide

/-- a forwarded request whose envelope `remote.Serialize` cannot marshal (route not valid UTF-8):
nothing is sent, exactly one error response -/
theorem unserialisable_envelope_gets_error (c : Cfg) (s : Sess) (msg : ClientMsg) (hid : msg.id ≠ 0) (hlt : msg.id < idWrap)
    (ht : (splitClientRoute msg.route).1 ≠ c.frontType) (hs : routeSerialisable msg.route = false) :
    ∃ d, serve c s msg = [.respond d s.sid msg.id .error] :=
  unserviceable_gets_error c s msg hid hlt (by simp [served, reachable_none_of_unserialisable c s msg ht hs])

/-- unknown group or method at the target -/
theorem unknown_method_gets_error (c : Cfg) (s : Sess) (msg : ClientMsg) (hid : msg.id ≠ 0) (hlt : msg.id < idWrap)
    (h : c.handlers (splitClientRoute msg.route).1 (splitClientRoute msg.route).2.1 (splitClientRoute msg.route).2.2 = none) :
    ∃ d, serve c s msg = [.respond d s.sid msg.id .error] :=
  unserviceable_gets_error c s msg hid hlt (by simp only [served, h]; split <;> rfl)

/-- undecodable payload -/
theorem undecodable_gets_error (c : Cfg) (s : Sess) (msg : ClientMsg) (hid : msg.id ≠ 0) (hlt : msg.id < idWrap)
    (h : msg.pay = .undecodable) :
    ∃ d, serve c s msg = [.respond d s.sid msg.id .error] :=
  unserviceable_gets_error c s msg hid hlt (by
    simp only [served, h]
    split
    · rfl
    · split <;> simp_all)

/-- a request sent to a notify-shaped method (repaired defect D4b) -/
theorem request_to_notify_method_gets_error (c : Cfg) (s : Sess) (msg : ClientMsg) (hid : msg.id ≠ 0) (hlt : msg.id < idWrap) (b : Beh)
    (h : c.handlers (splitClientRoute msg.route).1 (splitClientRoute msg.route).2.1 (splitClientRoute msg.route).2.2
      = some ⟨.notify, b⟩) :
    ∃ d, serve c s msg = [.respond d s.sid msg.id .error] :=
  unserviceable_gets_error c s msg hid hlt (by
    simp only [served, h]
    split <;> rfl)

/-- a malformed route (not exactly three dot-separated parts) — as long as nobody registered a
handler for the empty type/group/method -/
theorem malformed_route_gets_error (c : Cfg) (s : Sess) (msg : ClientMsg) (hid : msg.id ≠ 0) (hlt : msg.id < idWrap)
    (hbad : (splitDots msg.route).length ≠ 3) (hnone : c.handlers "" "" "" = none) :
    ∃ d, serve c s msg = [.respond d s.sid msg.id .error] := by
  have hs : splitClientRoute msg.route = ("", "", "") := by
    unfold splitClientRoute
    split
    · rename_i a b c' he
      rw [he] at hbad
      simp at hbad
    · rfl
  exact unknown_method_gets_error c s msg hid hlt (by rw [hs]; exact hnone)

/-- handler failure (error result or panic): exactly one response, an error; the body ran once at the target -/
theorem handler_failure_gets_error (c : Cfg) (s : Sess) (msg : ClientMsg) (hid : msg.id ≠ 0) (hlt : msg.id < idWrap)
    (svc g m : String) (v : Nat) (b : Beh) (h : served c s msg = some (svc, g, m, v, b))
    (hb : b = .fail ∨ b = .panic) :
    serve c s msg = [.invoke svc g m v, .respond 0 s.sid msg.id .error] := by
  rw [(request_served_by_target c s msg hid hlt svc g m v b h).2]
  rcases hb with rfl | rfl <;> simp [behResult, requestTimeout]

/-- A handler that completes with a value the client serializer refuses (e.g. a NaN float under
json): exactly one response in both cases; the front's own completion turns it into an error
response (`Process` checks the `Marshal` error), whereas `ProcessForwardMsg` IGNORES the `Marshal`
error and the client of a forwarded request receives a success with an empty body — that is what
the code does, so "handler failure ⇒ error response" holds for `fail`/`panic`
(`handler_failure_gets_error`) and for front-local unserialisable results only. -/
theorem unserialisable_result (c : Cfg) (s : Sess) (msg : ClientMsg) (hid : msg.id ≠ 0) (hlt : msg.id < idWrap)
    (svc g m : String) (v : Nat) (h : served c s msg = some (svc, g, m, v, .unser)) :
    serve c s msg = [.invoke svc g m v, .respond 0 s.sid msg.id
      (if (splitClientRoute msg.route).1 = c.frontType then .error else .blank)] := by
  rw [(request_served_by_target c s msg hid hlt svc g m v .unser h).2]
  by_cases ht : (splitClientRoute msg.route).1 = c.frontType <;>
    simp [behResult, requestTimeout, ht, wireLocal, wireBack]

/-! ## (3) notifications -/

/-- A notification (id 0) is never answered, on any path and whatever repairs are present; the
handler body runs exactly once when the target is reachable, the method exists (either shape) and
the payload decodes — and not at all otherwise. -/
theorem notify_once_no_response (fx : Fixes) (c : Cfg) (s : Sess) (msg : ClientMsg) (hid : msg.id = 0) :
    responses (serveWith fx c s msg) = [] ∧
    invocations (serveWith fx c s msg) =
      (match notified c s msg with
       | some x => [x]
       | none => []) := by
  have hlt : msg.id < idWrap := by rw [hid]; decide
  rw [serveWith_eq_processWith fx c s msg hlt]
  refine ⟨responses_process_notify fx c s msg hid, ?_⟩
  rw [process_notify fx c s msg hid]
  cases notified c s msg with
  | none => rfl
  | some x => obtain ⟨a, b, c', d⟩ := x; rfl

/-! ## (4) histories: any number of clients, requests in flight, time passing -/

/-- At every moment of every history, for every connection and non-zero id (as the envelope carries
it: the wire id mod 2^32, which is the wire id itself below 2^32 — D19): responses already
written + responses still in flight = requests sent.  In particular never more responses than
requests (no duplicate, no response to a request that was not made). -/
theorem history_conservation (c : Cfg) (ops : List Op) (cn i : Nat) (hi : i ≠ 0) :
    wireCount cn i (run fixed c St.init ops).out +
      wireCount cn i ((run fixed c St.init ops).pend.map Pending.wire) = reqCount cn i ops := by
  have := total_run c cn i hi ops St.init
  unfold total at this
  have h1 : wireCount cn i St.init.out = 0 := rfl
  have h2 : wireCount cn i (St.init.pend.map Pending.wire) = 0 := rfl
  omega

theorem history_never_more (c : Cfg) (ops : List Op) (cn i : Nat) (hi : i ≠ 0) :
    wireCount cn i (run fixed c St.init ops).out ≤ reqCount cn i ops := by
  have := history_conservation c ops cn i hi
  omega

/-- Once 42 s (`lateMs`, the longest handler delay; the request timeout is 31 s) have passed after the last
message, nothing is in flight and every connection has received, for every non-zero id, exactly as
many responses as it sent requests with that id — one each when ids in flight are distinct. -/
theorem history_exactly_one (c : Cfg) (ops : List Op) (d : Nat) (hd : lateMs ≤ d) :
    (run fixed c St.init (ops ++ [.adv d])).pend = [] ∧
    ∀ cn i, i ≠ 0 → wireCount cn i (run fixed c St.init (ops ++ [.adv d])).out = reqCount cn i ops := by
  have hp : (run fixed c St.init (ops ++ [.adv d])).pend = [] := by
    rw [run_append]
    have hb := dueBound_run c ops St.init (by intro p hp; cases hp)
    simp only [run, step]
    rw [List.filter_eq_nil_iff]
    intro p hp
    have := hb p hp
    simp only [decide_eq_true_eq]; omega
  refine ⟨hp, fun cn i hi => ?_⟩
  have := history_conservation c (ops ++ [.adv d]) cn i hi
  rw [hp] at this
  simpa [reqCount_append, reqCount, wireCount] using this

/-- No response with id 0 is ever written or in flight: notifications are never answered. -/
theorem history_no_response_to_notify (c : Cfg) (ops : List Op) (cn : Nat) :
    wireCount cn 0 (run fixed c St.init ops).out = 0 := by
  have := total_run_zero c cn ops St.init
  unfold total at this
  have h1 : wireCount cn 0 St.init.out = 0 := rfl
  have h2 : wireCount cn 0 (St.init.pend.map Pending.wire) = 0 := rfl
  omega

/-! ## non-vacuity: a concrete configuration (the one of the correspondence run) -/

abbrev c0 : Cfg := tieCfg false

def s1 : Sess := ⟨7, some "chat-1", true⟩
def s0 : Sess := ⟨8, none, true⟩

example : serve c0 s1 ⟨5, "chat.zoo.echo", .valid 3⟩ =
    [.invoke "chat-1" "zoo" "echo" 3, .respond 0 7 5 (.data "chat-1" "zoo" "echo" 3)] := by decide
example : serve c0 s1 ⟨5, "gate.zoo.slow", .valid 3⟩ =
    [.invoke "gate-1" "zoo" "slow" 3, .respond 2000 7 5 (.data "gate-1" "zoo" "slow" 3)] := by decide
example : served c0 s1 ⟨5, "chat.zoo.echo", .valid 3⟩ = some ("chat-1", "zoo", "echo", 3, .ok) := by decide
example : serve c0 s1 ⟨5, "chat.zoo.late", .valid 3⟩ =
    [.invoke "chat-1" "zoo" "late" 3, .respond 31000 7 5 .error] := by decide
-- handler durations on both sides of the 30 s request timeout: 29 s — the reply is relayed; 33 s — the timeout
-- answers (forwarded) / the handler's own result (front-local: no timeout there)
example : serve c0 s1 ⟨5, "chat.zoo.s29", .valid 3⟩ =
    [.invoke "chat-1" "zoo" "s29" 3, .respond 29000 7 5 (.data "chat-1" "zoo" "s29" 3)] := by decide
example : serve c0 s1 ⟨5, "chat.zoo.s33", .valid 3⟩ =
    [.invoke "chat-1" "zoo" "s33" 3, .respond 31000 7 5 .error] := by decide
example : serve c0 s1 ⟨5, "gate.zoo.s33", .valid 3⟩ =
    [.invoke "gate-1" "zoo" "s33" 3, .respond 33000 7 5 (.data "gate-1" "zoo" "s33" 3)] := by decide
example : served c0 s0 ⟨5, "chat.zoo.echo", .valid 3⟩ = none := by decide
example : serve c0 s0 ⟨5, "chat.zoo.echo", .valid 3⟩ = [.respond 0 8 5 .error] := by decide
example : serve c0 ⟨9, some "chat-9", true⟩ ⟨5, "chat.zoo.echo", .valid 3⟩ = [.respond 31000 9 5 .error] := by decide
example : serve c0 ⟨9, some "gate-1", true⟩ ⟨5, "chat.zoo.echo", .valid 3⟩ = [.respond 31000 9 5 .error] := by decide
example : serve c0 s1 ⟨5, "chat.zoo.tell", .valid 3⟩ = [.respond 0 7 5 .error] := by decide
example : serve c0 s1 ⟨5, "gate.zoo.tell", .valid 3⟩ = [.respond 0 7 5 .error] := by decide
example : serve c0 s1 ⟨5, "gate.zoo", .valid 3⟩ = [.respond 0 7 5 .error] := by decide
example : (splitDots "gate.zoo").length ≠ 3 ∧ c0.handlers "" "" "" = none := by decide
example : serve c0 s1 ⟨5, "chat.zoo.echo", .undecodable⟩ = [.respond 0 7 5 .error] := by decide
example : serve c0 s1 ⟨5, "chat.zoo.boom", .valid 1⟩ = [.invoke "chat-1" "zoo" "boom" 1, .respond 0 7 5 .error] := by decide
example : serve c0 s1 ⟨0, "chat.zoo.tell", .valid 3⟩ = [.invoke "chat-1" "zoo" "tell" 3] := by decide
example : serve c0 s1 ⟨0, "chat.zoo.echo", .valid 3⟩ = [.invoke "chat-1" "zoo" "echo" 3] := by decide
example : serve c0 s0 ⟨0, "chat.zoo.tell", .valid 3⟩ = [] := by decide
example : notified c0 s1 ⟨0, "gate.zoo.tell", .valid 3⟩ = some ("gate-1", "zoo", "tell", 3) := by decide
example : c0.dir c0.frontName = some ⟨"gate", true⟩ := by decide
example : (run fixed c0 St.init [.req s1 ⟨5, "chat.zoo.slow", .valid 1⟩, .req s0 ⟨5, "gate.zoo.late", .valid 2⟩,
    .adv 5000, .req s1 ⟨6, "chat.zoo.late", .valid 3⟩, .adv 45000]).out =
    [(7, 5, .data "chat-1" "zoo" "slow" 1), (8, 5, .data "gate-1" "zoo" "late" 2), (7, 6, .error)] := by decide

example : serve c0 s1 ⟨5, "gate.zoo.nan", .valid 3⟩ = [.invoke "gate-1" "zoo" "nan" 3, .respond 0 7 5 .error] := by decide
example : serve c0 s1 ⟨5, "chat.zoo.nan", .valid 3⟩ = [.invoke "chat-1" "zoo" "nan" 3, .respond 0 7 5 .blank] := by decide
-- a handler error with an EMPTY text takes the same two paths (error front-locally, empty success when forwarded)
example : serve c0 s1 ⟨5, "gate.zoo.fail0", .valid 3⟩ = [.invoke "gate-1" "zoo" "fail0" 3, .respond 0 7 5 .error] := by decide
example : serve c0 s1 ⟨5, "hall.zoo.fail0", .valid 3⟩ = [.invoke "hall-1" "zoo" "fail0" 3, .respond 0 7 5 .blank] := by decide
example := unserialisable_result c0 s1 ⟨5, "chat.zoo.nan", .valid 3⟩ (by decide) (by decide) "chat-1" "zoo" "nan" 3 (by decide)

example : serve c0 ⟨9, some "chat-9", true⟩ ⟨5, "chat.zoo.ech\uFFFD", .valid 3⟩ = [.respond 0 9 5 .error] := by decide
example := unserialisable_envelope_gets_error c0 s1 ⟨5, "hall.zoo.ech\uFFFD", .valid 3⟩ (by decide) (by decide) (by decide) (by decide)

-- node states: a NAMED instance is used whatever the state of its node; the default route picks a working one
example : serve (tieCfg false) ⟨7, some "chat-2", true⟩ ⟨5, "chat.zoo.echo", .valid 3⟩ =
    [.invoke "chat-2" "zoo" "echo" 3, .respond 0 7 5 (.data "chat-2" "zoo" "echo" 3)] := by decide
example : serve (tieCfg true) s1 ⟨5, "hall.zoo.login", .valid 3⟩ =
    [.invoke "hall-2" "zoo" "login" 3, .respond 0 7 5 (.data "hall-2" "zoo" "login" 3)] := by decide

-- the conditional theorems instantiated (their hypotheses are satisfiable)
example := request_served_by_target c0 s1 ⟨5, "chat.zoo.echo", .valid 3⟩ (by decide) (by decide) "chat-1" "zoo" "echo" 3 .ok (by decide)
example := response_origin_is_target c0 s1 ⟨5, "chat.zoo.echo", .valid 3⟩ (by decide) (by decide) 0 7 5 "chat-1" "zoo" "echo" 3 (by decide)
example := unserviceable_gets_error c0 s0 ⟨5, "chat.zoo.echo", .valid 3⟩ (by decide) (by decide) (by decide)
example := no_target_gets_error c0 ⟨9, some "chat-7", false⟩ ⟨5, "chat.zoo.echo", .valid 3⟩ (by decide) (by decide) (by decide)
example := route_panic_gets_error c0 (tieRouteFn false) rfl ⟨9, some "#7", true⟩ ⟨5, "chat.zoo.echo", .valid 3⟩ (by decide) (by decide) (by decide) (by decide)
example := route_panic_notify_dropped c0 (tieRouteFn false) rfl ⟨9, some "#7", true⟩ ⟨0, "chat.zoo.tell", .valid 3⟩ rfl (by decide) (by decide)
example : serve c0 ⟨9, some "#7", true⟩ ⟨5, "chat.zoo.echo", .valid 3⟩ = [.respond 0 9 5 .error] := by decide
example : serve c0 ⟨9, some "#7", true⟩ ⟨5, "hall.zoo.echo", .valid 3⟩ = [.invoke "hall-1" "zoo" "echo" 3, .respond 0 9 5 (.data "hall-1" "zoo" "echo" 3)] := by decide
example : servedBy (acceptLoop [4, 5, 6]) 4 = 1 := by decide
example := unknown_method_gets_error c0 s1 ⟨5, "chat.zoo.nosuch", .valid 3⟩ (by decide) (by decide) (by decide)
example := request_to_notify_method_gets_error c0 s1 ⟨5, "gate.zoo.tell", .valid 3⟩ (by decide) (by decide) .ok (by decide)
example := malformed_route_gets_error c0 s1 ⟨5, "gate.zoo.echo.x", .valid 3⟩ (by decide) (by decide) (by decide) (by decide)
example := handler_failure_gets_error c0 s1 ⟨5, "hall.zoo.fail", .valid 3⟩ (by decide) (by decide) "hall-1" "zoo" "fail" 3 .fail (by decide) (.inl rfl)
example := front_answers_iff_own_type c0 s1 "gate" ⟨"gate", true⟩ (by decide) rfl
example := (history_exactly_one c0 [.req s1 ⟨5, "chat.zoo.late", .valid 1⟩, .req s1 ⟨0, "chat.zoo.tell", .valid 2⟩] 45000 (by decide)).2 7 5 (by decide)

/-! ## D19 (known finding `C02/request-id-truncated`): ids of 2^32 and above -/

/-- id 2^32+5 on a serviceable forwarded route is answered with id 5; id 2^32 on a serviceable
front-local route is handled as a notification: the handler runs, nothing is ever written. -/
theorem d19_witness :
    serve c0 s1 ⟨4294967301, "chat.zoo.echo", .valid 3⟩ =
      [.invoke "chat-1" "zoo" "echo" 3, .respond 0 7 5 (.data "chat-1" "zoo" "echo" 3)] ∧
    serve c0 s1 ⟨4294967296, "gate.zoo.echo", .valid 3⟩ = [.invoke "gate-1" "zoo" "echo" 3] := by
  decide

theorem request_one_response_full_fails : ¬ RequestOneResponse := by
  intro h
  obtain ⟨d, res, hr⟩ := h c0 s1 ⟨4294967296, "gate.zoo.echo", .valid 3⟩ (by decide)
  rw [d19_witness.2] at hr
  simp [responses] at hr

example := request_one_response_partial c0 s1 ⟨4294967295, "chat.zoo.echo", .valid 3⟩ (by decide) (by decide)
example := (request_answered_with_truncated_id c0 s1 ⟨18446744073709551615, "hall.zoo.echo", .valid 3⟩).1 (by decide)

/-! ## what the two repairs changed (pre-fix behaviour kept as `serveWith ⟨false, _⟩` / `⟨_, false⟩`) -/

/-- D4a before d38d6e3: a request without routable target was never answered. -/
theorem d4a_witness : responses (serveWith ⟨false, true, true⟩ c0 s0 ⟨5, "chat.zoo.echo", .valid 3⟩) = [] := by decide

/-- D4b before b007ad3: a front-local request to a notify-shaped method was never answered … -/
theorem d4b_witness_local : responses (serveWith ⟨true, false, true⟩ c0 s1 ⟨5, "gate.zoo.tell", .valid 3⟩) = [] := by decide

/-- … and a forwarded one only by the 30 s request timeout. -/
theorem d4b_witness_forwarded :
    serveWith ⟨true, false, true⟩ c0 s1 ⟨5, "chat.zoo.tell", .valid 3⟩ = [.respond timeoutMs 7 5 .error] := by decide

/-- D20 before d1d6afb: a forwarded request read before the owner had run `AddSession` carried
`SessionId` 0; the handler ran at the back end but its reply was dropped by the front ("missmatch
res") and the client was never answered — not even by the timeout (the pending entry is removed
when the reply arrives).  Front-local requests and notifications were not affected. -/
theorem d20_witness :
    serveWith ⟨true, true, false⟩ c0 ⟨7, none, false⟩ ⟨5, "hall.zoo.echo", .valid 3⟩ = [.invoke "hall-1" "zoo" "echo" 3] ∧
    serveWith ⟨true, true, false⟩ c0 ⟨7, none, false⟩ ⟨5, "gate.zoo.echo", .valid 3⟩ =
      [.invoke "gate-1" "zoo" "echo" 3, .respond 0 7 5 (.data "gate-1" "zoo" "echo" 3)] ∧
    serveWith ⟨true, true, false⟩ c0 ⟨7, none, true⟩ ⟨5, "hall.zoo.echo", .valid 3⟩ =
      [.invoke "hall-1" "zoo" "echo" 3, .respond 0 7 5 (.data "hall-1" "zoo" "echo" 3)] := by decide

/-- with the repair the same pipelined request is served like any other (instance of `request_served_by_target`) -/
example : serve c0 ⟨7, none, false⟩ ⟨5, "hall.zoo.echo", .valid 3⟩ =
    [.invoke "hall-1" "zoo" "echo" 3, .respond 0 7 5 (.data "hall-1" "zoo" "echo" 3)] := by decide

/-! ## (5) all requests share ONE front-end: mailbox, session table, pending table — every interleaving

`Model/ClientShared.lean`: the front service as a single state machine (FIFO mailbox of client
messages / key changes / back-end replies; routing keys read when a message is processed; request-id
allocator and pending table of `RequestEx`; queues of the back-ends) driven by an adversarial
scheduler: a schedule is ANY list of events (`send`, `setKey`, `front`, `back i`, `deliver i`,
`fire i`, `expire i`).  Nothing below assumes that requests are independent: a reply is matched to a
pending entry only through the request id it carries, exactly as `Service.handleResponse` does, and
the theorems are invariants of the transition system. -/

section shared
open Cell2v.ClientServe.Shared

/-- responses with this (connection, id) written so far -/
def answers (st : FSt) (cn i : Nat) : Nat := wireCount cn i (st.out.map Wr.wire)

/-- requests with this (connection, id) that will still be answered: queued in the mailbox, stored in
the pending table, or completing through the front's timer -/
def inFlight (st : FSt) (cn i : Nat) : Nat :=
  st.pending.countP (pPend cn i) + st.mbox.countP (pTask cn i) + st.ltimers.countP (pOut cn i)

theorem answers_eq (st : FSt) (cn i : Nat) : answers st cn i = st.out.countP (pOut cn i) := by
  unfold answers wireCount
  rw [List.countP_eq_length_filter]
  generalize st.out = l
  induction l with
  | nil => rfl
  | cons x xs ih =>
    simp only [List.map_cons, List.filter_cons, Wr.wire, pOut]
    by_cases h : x.s.sid = cn ∧ x.e.id = i <;> simp [h] <;> simpa [Wr.wire, pOut] using ih

/-- messages on this (connection, id) that the owner dropped because it found no session for them -/
def droppedCount (st : FSt) (cn i : Nat) : Nat := st.dropped.countP (pDrop cn i)

/-- CONSERVATION under every schedule: at every moment, for every connection and non-zero id,
responses written + requests still in flight + messages dropped for want of a session = messages
sent with that id.  Never a duplicate, never a response to a request that was not made, never a
request lost otherwise — whatever the order in which the owner, the back-ends, the network, the
timers and the expiry scan take their steps, and whatever the back-end handlers do (`lose`, `dup`). -/
theorem shared_conservation (c : Cfg) (evs : List Ev) (cn i : Nat) (hi : i ≠ 0) :
    answers (Shared.run c {} evs) cn i + inFlight (Shared.run c {} evs) cn i +
      droppedCount (Shared.run c {} evs) cn i = sentCount cn i evs := by
  have h := Shared.total_run c cn i hi evs {} (good_init c)
  rw [answers_eq]
  unfold Shared.total at h
  unfold inFlight droppedCount
  simp only [List.countP_nil] at h
  omega

theorem shared_never_more (c : Cfg) (evs : List Ev) (cn i : Nat) (hi : i ≠ 0) :
    answers (Shared.run c {} evs) cn i ≤ sentCount cn i evs := by
  have := shared_conservation c evs cn i hi
  omega

/-- MAILBOX ORDER: a connection that is used the way a connection can be used (opened before anything
is sent on it — `OnSessionCreate` posts the `AddSession` before the reader goroutine can post a
message — and not closed) never loses a message: when the owner gets to a message of it, the session
is registered.  (The order of the two posts is what repaired defect D20 relies on.) -/
theorem shared_nothing_dropped (c : Cfg) (evs : List Ev) (cn : Nat) (hw : wellUsed cn false evs = true) (i : Nat) :
    droppedCount (Shared.run c {} evs) cn i = 0 := by
  unfold droppedCount
  rw [List.countP_eq_zero]
  intro x hx
  have := wu_run c cn evs false {} hw (wu_init cn) x hx
  simp only [pDrop, decide_eq_true_eq, not_and]
  intro h1; exact absurd h1 this

/-- EXACTLY ONE: whenever the front has nothing left to do (mailbox empty, nothing pending, no local
completion outstanding) every well-used connection has received, for every non-zero id, exactly as
many responses as it sent requests with that id. -/
theorem shared_exactly_one (c : Cfg) (evs : List Ev) (hq : Quiet (Shared.run c {} evs)) (cn i : Nat) (hi : i ≠ 0)
    (hw : wellUsed cn false evs = true) :
    answers (Shared.run c {} evs) cn i = sentCount cn i evs := by
  have := shared_conservation c evs cn i hi
  have hd := shared_nothing_dropped c evs cn hw i
  obtain ⟨h1, h2, h3⟩ := hq
  unfold inFlight at this
  rw [h1, h2, h3, hd] at this
  simpa using this

/-- THE ACCEPT LOOP DISCHARGES `wellUsed`: `StartAcceptor` builds one session per accepted connection and
`NewClientSession` posts its `AddSession` (`OnSessionCreate`) before `s.Handle()` starts the reader that
posts the connection's messages — so for ANY batch of connections arriving together and ANY schedule of
sends, owner steps, back-end steps, replies, timers, expiries, lost and duplicated replies and further
opens after it, short of a close, every accepted connection is well used … -/
theorem accepted_connections_well_used (conns : List Nat) (evs : List Ev) (hnc : ∀ sid, Ev.close sid ∉ evs)
    (cn : Nat) (hcn : cn ∈ conns) :
    wellUsed cn false ((acceptLoop conns).map Ev.open ++ evs) = true := by
  rw [(accept_serves_each_connection_once conns).1, wellUsed_opens]
  have : conns.contains cn = true := by simpa using hcn
  rw [this]
  exact wellUsed_true_of_no_close cn evs hnc

/-- … hence loses nothing, and at rest has exactly one response per request (no hypothesis about the
connection left) -/
theorem accepted_connections_exactly_one (c : Cfg) (conns : List Nat) (evs : List Ev) (hnc : ∀ sid, Ev.close sid ∉ evs)
    (hq : Quiet (Shared.run c {} ((acceptLoop conns).map Ev.open ++ evs))) (cn : Nat) (hcn : cn ∈ conns) (i : Nat) (hi : i ≠ 0) :
    droppedCount (Shared.run c {} ((acceptLoop conns).map Ev.open ++ evs)) cn i = 0 ∧
    answers (Shared.run c {} ((acceptLoop conns).map Ev.open ++ evs)) cn i = sentCount cn i evs := by
  have hw := accepted_connections_well_used conns evs hnc cn hcn
  refine ⟨shared_nothing_dropped c _ cn hw i, ?_⟩
  rw [shared_exactly_one c _ hq cn i hi hw, (accept_serves_each_connection_once conns).1]
  clear hw hq hcn
  induction conns with
  | nil => rfl
  | cons a t ih => simpa [sentCount] using ih

/-- … and that state is always reachable: from EVERY state of every schedule the owner, the expiry
scan and the timers alone (no help from any back-end) bring the front to rest — no request can stay
unanswered for ever (the forwarded ones because of the request timeout). -/
theorem shared_can_quiesce (c : Cfg) (evs : List Ev) :
    ∃ more, (∀ ev ∈ more, Internal ev) ∧ Quiet (Shared.run c {} (evs ++ more)) := by
  obtain ⟨more, h1, h2⟩ := can_quiesce c (Shared.run c {} evs)
  exact ⟨more, h1, by rw [Shared.run_append]; exact h2⟩

/-- No response with id 0, under any schedule. -/
theorem shared_no_response_to_notify (c : Cfg) (evs : List Ev) (cn : Nat) :
    answers (Shared.run c {} evs) cn 0 = 0 := by
  have hg := good_run c evs {} (good_init c)
  rw [answers_eq, List.countP_eq_zero]
  intro x hx
  have := (hg.out_ok x hx).1
  simp only [pOut, decide_eq_true_eq, not_and]
  intro _ h0
  exact this h0

/-- NO CROSS-TALK: every response ever written, under any schedule, (1) names a message that was
sent on the connection it is written to and carries that message's (envelope) id, and (2) is
justified by THAT message (`Allowed`): front-local — it is exactly the response of the per-message
model for it; forwarded — the timeout/failure error, or the result that its own target computed from
its own envelope.  `s` is the session as it was when the owner processed the message. -/
theorem shared_response_justified (c : Cfg) (evs : List Ev) (x : Wr) (hx : x ∈ (Shared.run c {} evs).out) :
    (∃ m, (x.s.sid, m) ∈ sentMsgs evs ∧ x.e = envelope m) ∧ x.e.id ≠ 0 ∧ Allowed c x := by
  have hg := good_run c evs {} (good_init c)
  have hs := sourced_run c evs [] {} sourced_init
  simp only [List.nil_append] at hs
  exact ⟨hs.out x hx, hg.out_ok x hx⟩

/-- Whatever data a client receives, under any schedule, was produced by the handler its own request
names (group, method, its own payload value), running at the target of its own route. -/
theorem shared_data_from_own_target (c : Cfg) (evs : List Ev) (x : Wr) (hx : x ∈ (Shared.run c {} evs).out)
    (o g m : String) (v : Nat) (hres : x.res = .data o g m v) :
    target c x.s (splitClientRoute x.e.route).1 = some o ∧ ∃ b, served c x.s x.e = some (o, g, m, v, b) := by
  obtain ⟨_, hid, hal⟩ := shared_response_justified c evs x hx
  obtain ⟨b, hb⟩ := allowed_data_origin c x hid hal o g m v hres
  refine ⟨?_, b, hb⟩
  unfold served at hb
  simp only at hb
  split at hb
  · simp at hb
  · rename_i svc ht
    split at hb
    · simp only [Option.some.injEq, Prod.mk.injEq] at hb
      rw [← hb.1]; exact target_of_reachable c x.s x.e _ ht
    · simp at hb

/-- For a front-local request the shared machine and the per-message model agree exactly. -/
theorem shared_front_local_is_serve (c : Cfg) (evs : List Ev) (x : Wr) (hx : x ∈ (Shared.run c {} evs).out)
    (ht : (splitClientRoute x.e.route).1 = c.frontType) :
    ∃ d, responses (processWith fixed c x.s x.e) = [(d, x.s.sid, x.e.id, x.res)] := by
  obtain ⟨_, _, hal⟩ := shared_response_justified c evs x hx
  unfold Allowed at hal
  simpa [ht] using hal

/-- Conversely the answer of the per-message model `serve` (the one compared with the code on every
run) is always one of the answers the shared machine may give to that message. -/
theorem serve_answer_allowed (c : Cfg) (s : Sess) (msg : ClientMsg) (hid : msg.id % idWrap ≠ 0) (d : Nat) (res : Result)
    (h : responses (serve c s msg) = [(d, s.sid, msg.id % idWrap, res)]) : Allowed c ⟨s, envelope msg, res⟩ :=
  serve_is_allowed c s (envelope msg) hid d res h

/-- The "missmatch res" branch of `Forward`'s callback is dead in the machine — not by construction
of a single call, but as an invariant of every schedule: a reply that reaches the front under the
request id of a pending entry is the `msgs.Response` built for that entry's own envelope, so it
carries that entry's `SessionId` and `ClientReqId` (request ids are allocated fresh; everything in
transit carries an id below the allocator). -/
theorem shared_reply_matches (c : Cfg) (evs : List Ev) (r : Nat) (rep : BackReply)
    (hr : Task.reply r rep ∈ (Shared.run c {} evs).mbox) (e : PEntry) (he : e ∈ (Shared.run c {} evs).pending)
    (hre : r = e.reqId) : rep.sessionId = e.s.sid ∧ rep.clientReqId = e.msg.id :=
  ((good_run c evs {} (good_init c)).rep_ok r rep hr e he hre).echo

/-- The pending table is a map: under every schedule no two pending entries share a request id (ids are
allocated fresh), so "the first entry with this id" — the model's lookup — is "the entry with this
id" — `Service.Handlers[reqId]`. -/
theorem shared_pending_ids_unique (c : Cfg) (evs : List Ev) :
    ((Shared.run c {} evs).pending.map PEntry.reqId).Nodup :=
  unique_run c evs {} (good_init c) (by simp [UniqueIds])

/-! non-vacuity: two clients on the run's configuration; the replies come back in the opposite
order; a routing-key change overtakes nothing (it is processed in mailbox order: the first message of
connection 7 goes to chat-1, the second to chat-2); the late reply of an expired request is dropped -/

def sched1 : List Ev :=
  [.open 7, .open 8, .front, .front,
   .setKey 7 "chat-1", .send 7 ⟨5, "chat.zoo.echo", .valid 1⟩, .send 8 ⟨5, "hall.zoo.echo", .valid 2⟩,
   .setKey 7 "chat-2", .send 7 ⟨6, "chat.zoo.echo", .valid 3⟩, .send 8 ⟨0, "gate.zoo.tell", .valid 4⟩,
   .front, .front, .front, .front, .front, .front,      -- the owner: three requests pending (ids 0, 1, 2), three calls out
   .back 2, .back 1, .back 0,                           -- the back-ends answer in the opposite order
   .expire 1,                                           -- the request to hall-1 times out first …
   .deliver 0, .deliver 0, .deliver 0, .front, .front, .front]   -- … its reply arrives later and finds no entry

example : ((Shared.run c0 {} sched1).out.map Wr.wire) =
    [(8, 5, .error), (7, 6, .data "chat-2" "zoo" "echo" 3), (7, 5, .data "chat-1" "zoo" "echo" 1)] := by decide
example : ((Shared.run c0 {} sched1).inv) =
    [("gate-1", "zoo", "tell", 4), ("chat-2", "zoo", "echo", 3), ("hall-1", "zoo", "echo", 2), ("chat-1", "zoo", "echo", 1)] := by decide
example : Quiet (Shared.run c0 {} sched1) := by
  refine ⟨?_, ?_, ?_⟩ <;> decide
example := shared_exactly_one c0 sched1 (by refine ⟨?_, ?_, ?_⟩ <;> decide) 7 5 (by decide) (by decide)
example := shared_nothing_dropped c0 sched1 8 (by decide) 5
-- sched1 = the accept loop's opens of connections 7 and 8 arriving together, then traffic without a close
example : sched1 = (acceptLoop [7, 8]).map Ev.open ++ sched1.drop 2 := rfl
example : ∀ sid, Ev.close sid ∉ sched1.drop 2 := by intro sid h; simp [sched1] at h
example := accepted_connections_well_used [7, 8] (sched1.drop 2) (by intro sid h; simp [sched1] at h) 8 (by decide)
example := (accepted_connections_exactly_one c0 [7, 8] (sched1.drop 2) (by intro sid h; simp [sched1] at h)
  (by refine ⟨?_, ?_, ?_⟩ <;> decide) 7 (by decide) 5 (by decide)).2
example : sentCount 7 5 sched1 = 1 ∧ sentCount 8 5 sched1 = 1 ∧ sentCount 8 0 sched1 = 1 := by decide
-- mid-schedule: one answered nothing yet, three requests in flight
example : inFlight (Shared.run c0 {} (sched1.take 16)) 7 5 = 1 ∧ answers (Shared.run c0 {} (sched1.take 16)) 7 5 = 0 := by
  decide

/-! back-end handlers that never complete or complete twice (`lose`, `dup`): the theorems above hold
for these schedules too — a forwarded request needs no "completes exactly once" assumption -/

def sched2 : List Ev :=
  [.open 7, .setKey 7 "chat-1", .send 7 ⟨5, "chat.zoo.echo", .valid 1⟩, .send 7 ⟨6, "chat.zoo.echo", .valid 2⟩,
   .front, .front, .front, .front,
   .lose 0,                                  -- the handler of request 5 never completes
   .back 0, .dup 0,                          -- the handler of request 6 completes twice
   .deliver 0, .deliver 0, .front, .front,   -- first reply relayed, second is a miss response
   .expire 0]                                -- request 5: the timeout error

example : ((Shared.run c0 {} sched2).out.map Wr.wire) =
    [(7, 6, .data "chat-1" "zoo" "echo" 2), (7, 5, .error)] := by decide
example := shared_exactly_one c0 sched2 (by refine ⟨?_, ?_, ?_⟩ <;> decide) 7 6 (by decide) (by decide)

-- a message posted on a connection the owner has not (or no longer) registered is dropped, not answered:
-- sent before the open, and after the close was processed
def sched3 : List Ev :=
  [.send 9 ⟨1, "gate.zoo.echo", .valid 1⟩, .open 9, .front, .front, .send 9 ⟨2, "gate.zoo.echo", .valid 2⟩, .front,
   .close 9, .send 9 ⟨3, "gate.zoo.echo", .valid 3⟩, .front, .front]
example : ((Shared.run c0 {} sched3).out.map Wr.wire) = [(9, 2, .data "gate-1" "zoo" "echo" 2)] ∧
    droppedCount (Shared.run c0 {} sched3) 9 1 = 1 ∧ droppedCount (Shared.run c0 {} sched3) 9 3 = 1 ∧
    wellUsed 9 false sched3 = false := by decide

-- the back-only group of the run: a forwarded handler that never completes / completes twice
example : serve c0 s1 ⟨5, "chat.zoob.hang", .valid 3⟩ = [.invoke "chat-1" "zoob" "hang" 3, .respond 31000 7 5 .error] := by decide
example : serve c0 s1 ⟨5, "hall.zoob.okboom", .valid 3⟩ =
    [.invoke "hall-1" "zoob" "okboom" 3, .respond 0 7 5 (.data "hall-1" "zoob" "okboom" 3)] := by decide
example : serve c0 s1 ⟨5, "gate.zoob.hang", .valid 3⟩ = [.respond 0 7 5 .error] := by decide

end shared

/-! ## (7) `CallMethod` / `SafeCall`: panics around the completion (repaired defect D23)

The synchronous frame of a request handler (`callMethod`, Model/ClientServe.lean): the handler gets a
wrapper that records a completion that WENT THROUGH; `SafeCall`'s recover completes with the error
only if none did.  The theorems are about every body (any list of acts), not about the zoo. -/

/-- number of times the body calls its completion function -/
def completions : List Act → Nat
  | [] => 0
  | .complete _ _ :: rest => completions rest + 1
  | .panic :: rest => completions rest

theorem runFrame_no_completion (body : List Act) (f : Frame) (h : completions body = 0) :
    (runFrame body f).1 = f := by
  induction body generalizing f with
  | nil => rfl
  | cons a rest ih =>
    cases a with
    | panic => rfl
    | complete r thru => simp [completions] at h

/-- the flag says exactly "a completion went through" -/
theorem runFrame_completed_iff (body : List Act) (f : Frame) (hf : f.completed = true ↔ f.calls ≠ []) :
    (runFrame body f).1.completed = true ↔ (runFrame body f).1.calls ≠ [] := by
  induction body generalizing f with
  | nil => exact hf
  | cons a rest ih =>
    cases a with
    | panic => exact hf
    | complete r thru =>
      cases thru with
      | false => simpa [runFrame] using hf
      | true =>
        simp only [runFrame, if_true]
        exact ih _ (by simp)

/-- EXACTLY ONE completion reaches `cbFunc` for every handler body that calls its completion function
at most once and does not return silently from an empty frame: whether it completes and returns,
panics before completing, completes and THEN panics (D23), or its completion function itself panics
(the result cannot be marshalled: the completion did not go through, `SafeCall` reports the failure). -/
theorem callmethod_exactly_one (body : List Act) (hne : body ≠ []) (hone : completions body ≤ 1) :
    (callMethod true body).length = 1 := by
  cases body with
  | nil => exact absurd rfl hne
  | cons a rest =>
    cases a with
    | panic => simp [callMethod, runFrame]
    | complete r thru =>
      cases thru with
      | false => simp [callMethod, runFrame]
      | true =>
        have h0 : completions rest = 0 := by simp [completions] at hone; omega
        have hf := runFrame_no_completion rest ⟨true, [] ++ [r]⟩ h0
        simp only [callMethod, runFrame, if_true]
        split <;> simp_all

/-- `SafeCall` never ADDS a completion to one that went through — for every body, also one that calls
its completion function several times. -/
theorem safecall_adds_nothing_after_completion (body : List Act) (h : (runFrame body {}).1.calls ≠ []) :
    callMethod true body = (runFrame body {}).1.calls := by
  have hc := (runFrame_completed_iff body {} (by simp)).2 h
  simp [callMethod, hc]

/-- a frame that ends in a panic never leaves the request without a completion -/
theorem panicked_frame_is_completed (body : List Act) (h : (runFrame body {}).2 = true) :
    callMethod true body ≠ [] := by
  by_cases hc : (runFrame body {}).1.calls = []
  · have : ¬ (runFrame body {}).1.completed = true := fun hcomp =>
      (runFrame_completed_iff body {} (by simp)).1 hcomp hc
    simp [callMethod, h, this]
  · rw [safecall_adds_nothing_after_completion body hc]; exact hc

/-- the per-message model's table of behaviours IS `callMethod` on each behaviour's frame -/
theorem behResult_is_callMethod (svc g m : String) (v : Nat) (b : Beh) (hs : b.sync = true) :
    callMethod true (bodyOf svc g m v b) = [(behResult svc g m v b).2] ∧ (behResult svc g m v b).1 = 0 := by
  cases b <;> simp [Beh.sync] at hs <;> simp [callMethod, runFrame, bodyOf, behResult]

/-- D23 as it was (the code before 7b326e6, `guard = false`): complete-then-panic was completed twice -/
theorem d23_witness (r : Result) : callMethod false [.complete r true, .panic] = [r, .error] := by
  simp [callMethod, runFrame]

example : callMethod true [.complete .blank true, .panic] = [.blank] := by decide
example : callMethod true [.complete .blank false] = [.error] := by decide
example : completions [.complete .blank true, .panic] ≤ 1 ∧ [Act.complete .blank true, .panic] ≠ [] := by decide
-- outside `callmethod_exactly_one`: a silent frame, a body that completes twice
example : callMethod true [] = [] ∧ (callMethod true [.complete .blank true, .complete .error true]).length = 2 := by decide
example : (runFrame [.complete .blank true, .panic] {}).1.calls ≠ [] ∧ (runFrame [.complete .blank false] {}).2 = true := by decide

/-- A handler that completes and then panics in the same frame: exactly one response, the handler's
result, on both paths (the exactly-one theorems no longer exclude it). -/
theorem complete_then_panic_one_response (c : Cfg) (s : Sess) (msg : ClientMsg) (hid : msg.id ≠ 0) (hlt : msg.id < idWrap)
    (svc g m : String) (v : Nat) (h : served c s msg = some (svc, g, m, v, .okboom)) :
    serve c s msg = [.invoke svc g m v, .respond 0 s.sid msg.id (.data svc g m v)] := by
  rw [(request_served_by_target c s msg hid hlt svc g m v .okboom h).2]
  by_cases ht : (splitClientRoute msg.route).1 = c.frontType <;>
    simp [behResult, requestTimeout, ht, wireLocal, wireBack]

/-- A handler whose completion function panics on the result: exactly one response, an error, on both paths. -/
theorem completion_panic_gets_error (c : Cfg) (s : Sess) (msg : ClientMsg) (hid : msg.id ≠ 0) (hlt : msg.id < idWrap)
    (svc g m : String) (v : Nat) (h : served c s msg = some (svc, g, m, v, .mboom)) :
    serve c s msg = [.invoke svc g m v, .respond 0 s.sid msg.id .error] := by
  rw [(request_served_by_target c s msg hid hlt svc g m v .mboom h).2]
  simp [behResult, requestTimeout]

section frameExamples
def cF : Cfg := tieCfg true
def sF : Sess := ⟨7, some "chat-1", true⟩
example : served cF sF ⟨5, "gate.zoo.okboom", .valid 3⟩ = some ("gate-1", "zoo", "okboom", 3, .okboom) := by decide
example : served cF sF ⟨5, "chat.zoo.mboom", .valid 3⟩ = some ("chat-1", "zoo", "mboom", 3, .mboom) := by decide
example : serve cF sF ⟨5, "gate.zoo.okboom", .valid 3⟩ =
    [.invoke "gate-1" "zoo" "okboom" 3, .respond 0 7 5 (.data "gate-1" "zoo" "okboom" 3)] := by decide
example : serve cF sF ⟨5, "gate.zoo.mboom", .valid 3⟩ = [.invoke "gate-1" "zoo" "mboom" 3, .respond 0 7 5 .error] := by decide
example : serve cF sF ⟨5, "chat.zoo.mboom", .valid 3⟩ = [.invoke "chat-1" "zoo" "mboom" 3, .respond 0 7 5 .error] := by decide
example : serve cF sF ⟨0, "gate.zoo.okboom", .valid 3⟩ = [.invoke "gate-1" "zoo" "okboom" 3] := by decide
end frameExamples

end Cell2v.Props.C02
