import Cell2v.Lemmas.Route
/-!
C07 — property theorems: routing picks the instance the route rule names, or
reports no-service.  Only property statements, non-vacuity examples and defect
witnesses live here.

Reading guide.  `d : Dir` with `d.Ok` is ANY directory the code can have built
from the view `d.ms`: `d.Ok` (= `ServicesOk`) holds for the name map of every
iteration order of Go's `range newTypeList` (`directory_any_map_order`) and is
preserved by every history of view updates, rule registrations and calls
(`after_any_history`).  `Named`, `Known`, `IsInstance`, `RuleNames`, `RuleFails`,
`FirstWorking`, `NoSentinelNames` are the view-level vocabulary of
`Cell2v/Spec/C07.lean`.  `refused cb` = nothing sent, exactly one
`ErrorNoService` completion when a callback was given, none otherwise.
-/
namespace Cell2v.Props.C07
open Cell2v.Route

/-! ### the directory is a function of the view (up to the map order) -/

/-- Whatever order Go's `range newTypeList` visits the per-type lists in, the
resulting name ↦ item map is admissible. -/
theorem directory_any_map_order (ms : List Member) (ordered : TypeList) (hp : ordered.Perm (typeList ms)) :
    (⟨ms, servicesBy ordered⟩ : Dir).Ok :=
  servicesBy_ok _ _ hp

/-- `GetServicePID n` answers a PID iff the view announces an instance named `n`,
and the PID is that of such an instance (address of the node carrying its node
id, id = the name). -/
theorem lookup_is_view (d : Dir) (hd : d.Ok) (n : String) :
    (getServicePID d n = none ∧ ¬ Known d.ms n) ∨
    (∃ pid, getServicePID d n = some pid ∧ Named d.ms n pid) :=
  getServicePID_cases d hd n

/-- **routed to the named instance**: for every view, every admissible directory of it,
every rule table, parameter and route string (split as the code splits it): if the
rule names `n`, then the request / notification is handed — exactly once, with the
forwarded route `group.method`, no no-service completion — to the PID of an instance
the view announces under the name `n` whenever there is one, and is refused (nothing
sent, one `ErrorNoService` completion for a request with callback) whenever there is
none. -/
theorem routed_to_named (R : Rules) (d : Dir) (hd : d.Ok) (r t a m : String) (p : Param) (n : String)
    (cb : Bool) (hr : splitClientRoute r = (t, a, m)) (hn : RuleNames R t p n) (hne : n ≠ "") :
    (Known d.ms n → ∃ pid, Named d.ms n pid ∧
        request R d r p cb = ⟨[⟨pid, a ++ "." ++ m, true⟩], [], cb⟩ ∧
        notify R d r p = ⟨[⟨pid, a ++ "." ++ m, false⟩], [], false⟩) ∧
    (¬ Known d.ms n → request R d r p cb = refused cb ∧ notify R d r p = refused false) := by
  have hpid := routePID_names R d t p n hn hne
  constructor
  · intro hk
    obtain ⟨pid, hg, hN⟩ := getServicePID_known d hd n hk
    refine ⟨pid, hN, ?_, ?_⟩ <;> simp [request, notify, hr, hpid, hg]
  · intro hk
    have hg := getServicePID_none d hd n hk
    constructor <;> simp [request, notify, hr, hpid, hg]

/-- **a nested (re-entrant) Route is transparent**: a route function that, before
answering from key `k` of its own parameter, routes for another type `tB` with a
DIFFERENT key map, yields exactly what the plain key function yields on the OUTER
parameter — whatever the inner type, its rule and the inner map are. -/
theorem nested_route_is_transparent (R : Rules) (d : Dir) (t k tB : String) (inner : KVs) (fp : FParam)
    (hl : R.lookup t = some (.nest k tB inner)) :
    doRoute R d t fp = (applyKey k "" fp).getD "" := by
  simp [doRoute, hl, applyBeh]

/-- **an empty key map is a key map, not "no parameter"**: on `map[string]interface{}{}`
(or a nil map) a function with a default instance answers that default, and a nil-aware
function does NOT take its nil branch — it answers as on any map lacking the key. -/
theorem empty_map_is_a_map (R : Rules) (d : Dir) (t : String) :
    (∀ k dflt, R.lookup t = some (.keyd k dflt) → route R d t (.map []) = dflt) ∧
    (∀ nn k, R.lookup t = some (.nilor nn k) → route R d t (.map []) = "" ∧ route R d t .nil = nn) := by
  constructor
  · intro k dflt hl; simp [route, doRoute, hl, applyBeh, applyKey, getKey]
  · intro nn k hl; simp [route, doRoute, hl, applyBeh, applyKey, getKey]

/-- **a key bound to nil is bound, not absent**: `Get` returns the stored nil (not the
function's default), the `.(string)` assertion panics, the recovered `Route` yields ""
— so a function with a default instance does NOT fall back to it and the request is
refused; same for any other non-string value. -/
theorem null_value_is_present (R : Rules) (d : Dir) (r t a m k dflt : String) (l : KVs) (p : Param) (v : Val) (cb : Bool)
    (hr : splitClientRoute r = (t, a, m)) (hl : R.lookup t = some (.keyd k dflt)) (hp : p.kvs? = some l)
    (hk : getKey l k = some v) (hv : ∀ s, v ≠ .str s) :
    route R d t p = "" ∧ request R d r p cb = refused cb := by
  have h1 : route R d t p = "" := by
    rw [route_viaFunc R d t p _ (viaFunc_of_kvs p l hp)]
    cases v with
    | str s => exact absurd rfl (hv s)
    | null => simp [doRoute, hl, applyBeh, applyKey, hk]
    | other => simp [doRoute, hl, applyBeh, applyKey, hk]
  exact ⟨h1, by simp [request, hr, routePID, h1]⟩

/-- …so such a rule names the instance under the OUTER parameter's key and the request goes there. -/
theorem nested_routed_by_outer_key (R : Rules) (d : Dir) (hd : d.Ok) (r t a m k tB : String) (inner l : KVs)
    (p : Param) (n : String) (cb : Bool) (hr : splitClientRoute r = (t, a, m))
    (hl : R.lookup t = some (.nest k tB inner)) (hp : p.kvs? = some l) (hk : getKey l k = some (.str n))
    (hne : n ≠ "") (hkn : Known d.ms n) :
    ∃ pid, Named d.ms n pid ∧ request R d r p cb = ⟨[⟨pid, a ++ "." ++ m, true⟩], [], cb⟩ := by
  obtain ⟨pid, hN, h1, _⟩ := (routed_to_named R d hd r t a m p n cb hr (.key (dflt := "") hl rfl hp hk) hne).1 hkn
  exact ⟨pid, hN, h1⟩

/-- …and when instance names are unique in the view (the normal configuration), the
target is THE instance of that name. -/
theorem routed_to_the_instance (R : Rules) (d : Dir) (hd : d.Ok) (r t a m : String) (p : Param)
    (n : String) (cb : Bool) (pid : Pid) (hr : splitClientRoute r = (t, a, m)) (hn : RuleNames R t p n)
    (hne : n ≠ "") (hi : Named d.ms n pid) (hu : UniqueName d.ms n) :
    request R d r p cb = ⟨[⟨pid, a ++ "." ++ m, true⟩], [], cb⟩ ∧
    notify R d r p = ⟨[⟨pid, a ++ "." ++ m, false⟩], [], false⟩ := by
  obtain ⟨pid', hN, h1, h2⟩ := (routed_to_named R d hd r t a m p n cb hr hn hne).1 ⟨pid, hi⟩
  rw [hu pid pid' hi hN]
  exact ⟨h1, h2⟩

/-- **never dropped, never to something unannounced** (no guard, no hypothesis on the
rule): every `Request` either is refused — nothing sent, the callback (if any)
completed once with `ErrorNoService` — or hands exactly one request, carrying the
callback, to the PID of an instance the current view announces under the name
`Route` returned; every `Notify` sends nothing or exactly one notification to such
an instance. -/
theorem never_dropped_never_unannounced (R : Rules) (d : Dir) (hd : d.Ok) (r : String) (p : Param) (cb : Bool) :
    (request R d r p cb = refused cb ∧ notify R d r p = refused false) ∨
    (∃ pid, Named d.ms (route R d (splitClientRoute r).1 p) pid ∧
        request R d r p cb = ⟨[⟨pid, (splitClientRoute r).2.1 ++ "." ++ (splitClientRoute r).2.2, true⟩], [], cb⟩ ∧
        notify R d r p = ⟨[⟨pid, (splitClientRoute r).2.1 ++ "." ++ (splitClientRoute r).2.2, false⟩], [], false⟩) := by
  by_cases he : route R d (splitClientRoute r).1 p = ""
  · left; constructor <;> simp [request, notify, routePID, he]
  · rcases getServicePID_cases d hd (route R d (splitClientRoute r).1 p) with ⟨hn, _⟩ | ⟨pid, hs, hN⟩
    · left; constructor <;> simp [request, notify, routePID, he, hn]
    · right; exact ⟨pid, hN, by simp [request, routePID, he, hs], by simp [notify, routePID, he, hs]⟩

/-! ### failing rules: nothing sent, exactly one no-service completion -/

/-- **no instance ⇒ no send, one callback**: whenever the rule yields no known instance
— empty name, unknown name, a function returning "", a panicking function (incl. a key
function on a nil parameter or a non-string value), an absent key, a bad parameter
kind, no function and no instance of the type on a working node (unknown type,
malformed route), no function at all — `Request` sends nothing and completes the
callback exactly once with `ErrorNoService`; `Notify` sends nothing. -/
theorem no_instance_no_send_one_callback (R : Rules) (d : Dir) (hd : d.Ok) (r t a m : String)
    (p : Param) (cb : Bool) (hr : splitClientRoute r = (t, a, m)) (hg : NoSentinelNames d.ms)
    (hf : RuleFails R d.ms t p) :
    request R d r p cb = refused cb ∧ notify R d r p = refused false := by
  have h := routePID_fails R d hd t p hg hf
  constructor <;> simp [request, notify, hr, h]

/-- what `refused` means, spelled out -/
theorem refused_spelled_out :
    refused true = ⟨[], [.noService], false⟩ ∧ refused false = ⟨[], [], false⟩ := by decide

/-- malformed route (not exactly three dot-separated parts): refused, for every
parameter that is not an explicit instance name, provided nobody registered a route
function for the empty type.  (With an explicit instance name the type is never
consulted — see `malformed_route_explicit_name_is_sent`.) -/
theorem malformed_route_no_send (R : Rules) (d : Dir) (hd : d.Ok) (r : String) (p : Param) (cb : Bool)
    (hm : (splitDots r).length ≠ 3) (hp : ∀ s, p ≠ .str s) (hnr : R.lookup "" = none)
    (hg : NoSentinelNames d.ms) :
    request R d r p cb = refused cb ∧ notify R d r p = refused false := by
  have hr := splitClientRoute_malformed r hm
  apply no_instance_no_send_one_callback R d hd r "" "" "" p cb hr hg
  cases hv : p.viaFunc with
  | none =>
    cases p <;> simp [Param.viaFunc] at hv
    · exact absurd rfl (hp _)
    · exact .badParam
  | some fp =>
    cases hdf : R.hasDefault with
    | true =>
      exact .noWorkingInstance hnr hv hdf (by rintro ⟨n, pid, hi⟩; exact no_instance_of_empty_type _ _ _ _ hi)
    | false => exact .noFunction hnr hv hdf

/-- unknown service type (the view announces no instance of it, no function is
registered for it): refused for every non-explicit parameter. -/
theorem unknown_type_no_send (R : Rules) (d : Dir) (hd : d.Ok) (r t a m : String) (p : Param) (cb : Bool)
    (hr : splitClientRoute r = (t, a, m)) (hp : ∀ s, p ≠ .str s) (hnr : R.lookup t = none)
    (hno : ¬ ∃ n st pid, IsInstance d.ms t n st pid) (hg : NoSentinelNames d.ms) :
    request R d r p cb = refused cb ∧ notify R d r p = refused false := by
  apply no_instance_no_send_one_callback R d hd r t a m p cb hr hg
  cases hv : p.viaFunc with
  | none =>
    cases p <;> simp [Param.viaFunc] at hv
    · exact absurd rfl (hp _)
    · exact .badParam
  | some fp =>
    cases hdf : R.hasDefault with
    | true => exact .noWorkingInstance hnr hv hdf (by rintro ⟨n, pid, hi⟩; exact hno ⟨n, _, pid, hi⟩)
    | false => exact .noFunction hnr hv hdf

/-- Behaviour kept on record (lead's decision: out of the property's scope, listed
under `assumptions`): with an EXPLICIT instance name the route's type part is
never consulted, so even a malformed route is sent — to exactly the named
instance, with the forwarded route `"" ++ "." ++ ""`. -/
theorem malformed_route_explicit_name_is_sent (R : Rules) (d : Dir) (hd : d.Ok) (r n : String) (cb : Bool)
    (hm : (splitDots r).length ≠ 3) (hk : Known d.ms n) :
    ∃ pid, Named d.ms n pid ∧ request R d r (.str n) cb = ⟨[⟨pid, "" ++ "." ++ "", true⟩], [], cb⟩ := by
  have hne : n ≠ "" := fun e => not_known_empty d.ms (e ▸ hk)
  obtain ⟨pid, hN, h1, _⟩ :=
    (routed_to_named R d hd r "" "" "" (.str n) n cb (splitClientRoute_malformed r hm) (.explicit n) hne).1 hk
  exact ⟨pid, hN, h1⟩

/-! ### no registered function: the default route -/

/-- **default is working**: with no function registered for the type (and the
default function installed), a function-routed request goes to an instance carrying
the name of the FIRST instance of that type on a Working node (view order, as
`defaultRoute` picks `Items[0]` of the working list) — or, when the view has no
instance of the type on a working node, is refused. -/
theorem default_is_working (R : Rules) (d : Dir) (hd : d.Ok) (r t a m : String) (p : Param) (fp : FParam)
    (cb : Bool) (hr : splitClientRoute r = (t, a, m)) (hnr : R.lookup t = none) (hdf : R.hasDefault = true)
    (hv : p.viaFunc = some fp) (hg : NoSentinelNames d.ms) :
    (∃ n pid, FirstWorking d.ms t n ∧ Named d.ms n pid ∧
        request R d r p cb = ⟨[⟨pid, a ++ "." ++ m, true⟩], [], cb⟩ ∧
        notify R d r p = ⟨[⟨pid, a ++ "." ++ m, false⟩], [], false⟩) ∨
    ((¬ ∃ n pid, IsInstance d.ms t n working pid) ∧
        request R d r p cb = refused cb ∧ notify R d r p = refused false) := by
  rcases defaultRoute_cases d t with ⟨_, hno⟩ | ⟨n, he, hfw⟩
  · right
    exact ⟨hno, no_instance_no_send_one_callback R d hd r t a m p cb hr hg (.noWorkingInstance hnr hv hdf hno)⟩
  · left
    obtain ⟨hne, pid0, hi⟩ := firstWorking_instance d.ms t n hfw
    obtain ⟨pid, hgp, hN⟩ := getServicePID_known d hd n ⟨pid0, t, working, hi⟩
    have hrp : routePID R d t p = some pid := by
      simp [routePID, route_viaFunc R d t p _ hv, doRoute, hnr, hdf, he, hne, hgp]
    refine ⟨n, pid, hfw, hN, ?_, ?_⟩ <;> simp [request, notify, hr, hrp]

/-- …and when the name of that first working instance is unique in the view, the target
IS that working instance. -/
theorem default_is_working_unique (R : Rules) (d : Dir) (hd : d.Ok) (r t a m : String) (p : Param)
    (fp : FParam) (cb : Bool) (hr : splitClientRoute r = (t, a, m)) (hnr : R.lookup t = none)
    (hdf : R.hasDefault = true) (hv : p.viaFunc = some fp) (hg : NoSentinelNames d.ms)
    (hu : ∀ n, FirstWorking d.ms t n → UniqueName d.ms n) :
    (∃ n pid, FirstWorking d.ms t n ∧ IsInstance d.ms t n working pid ∧
        request R d r p cb = ⟨[⟨pid, a ++ "." ++ m, true⟩], [], cb⟩ ∧
        notify R d r p = ⟨[⟨pid, a ++ "." ++ m, false⟩], [], false⟩) ∨
    ((¬ ∃ n pid, IsInstance d.ms t n working pid) ∧
        request R d r p cb = refused cb ∧ notify R d r p = refused false) := by
  rcases default_is_working R d hd r t a m p fp cb hr hnr hdf hv hg with ⟨n, pid, hfw, hN, h1, h2⟩ | h
  · left
    obtain ⟨_, pid0, hi⟩ := firstWorking_instance d.ms t n hfw
    have : pid0 = pid := hu n hfw pid0 pid ⟨t, working, hi⟩ hN
    exact ⟨n, pid, hfw, this ▸ hi, h1, h2⟩
  · exact Or.inr h

/-! ### QuerySession / Kick -/

/-- **helpers report**: `QuerySession` / `Kick` towards a front-end the view does not
announce send nothing and complete the callback exactly once with `ErrorNoService`;
towards a known front-end they send exactly one request to an instance of that name. -/
theorem helpers_report (d : Dir) (hd : d.Ok) (front api : String) (cb : Bool) :
    (¬ Known d.ms front → helper d front api cb = refused cb) ∧
    (Known d.ms front → ∃ pid, Named d.ms front pid ∧ helper d front api cb = ⟨[⟨pid, api, true⟩], [], cb⟩) := by
  constructor
  · intro hk; simp [helper, getServicePID_none d hd front hk]
  · intro hk
    obtain ⟨pid, hg, hN⟩ := getServicePID_known d hd front hk
    exact ⟨pid, hN, by simp [helper, hg]⟩

/-- D5 (repaired by `fix: QuerySession and Kick report ErrorNoService…`): the code
before the fix logged and returned — the callback was neither completed nor handed
to `RequestEx`, for EVERY unknown front-end. -/
theorem d5_prefix_drops_callback (d : Dir) (hd : d.Ok) (front api : String) (hk : ¬ Known d.ms front) :
    helperPreFix d front api true = ⟨[], [], false⟩ ∧ helper d front api true = ⟨[], [.noService], false⟩ := by
  simp [helperPreFix, helper, refused, getServicePID_none d hd front hk]

/-! ### registrations -/

theorem filter_lookup_self (tbl : List (String × Beh)) (t : String) :
    (tbl.filter (fun e => e.1 ≠ t)).lookup t = none := by
  induction tbl with
  | nil => rfl
  | cons e rest ih =>
    by_cases he : e.1 = t
    · have hd : decide (e.1 ≠ t) = false := by simp [he]
      simp only [List.filter_cons, hd, Bool.false_eq_true, if_false]; exact ih
    · have hd : decide (e.1 ≠ t) = true := by simp [he]
      have hb : (t == e.1) = false := by rw [beq_eq_false_iff_ne]; exact fun h => he h.symm
      simp only [List.filter_cons, hd, if_true, List.lookup, hb]; exact ih

theorem filter_lookup_other (tbl : List (String × Beh)) (t t' : String) (h : t' ≠ t) :
    (tbl.filter (fun e => e.1 ≠ t)).lookup t' = tbl.lookup t' := by
  induction tbl with
  | nil => rfl
  | cons e rest ih =>
    by_cases he : e.1 = t
    · have hd : decide (e.1 ≠ t) = false := by simp [he]
      have hb : (t' == e.1) = false := by rw [beq_eq_false_iff_ne, he]; exact h
      simp only [List.filter_cons, hd, Bool.false_eq_true, if_false, List.lookup, hb]; exact ih
    · have hd : decide (e.1 ≠ t) = true := by simp [he]
      simp only [List.filter_cons, hd, if_true, List.lookup]
      cases (t' == e.1) with
      | true => rfl
      | false => exact ih

/-- **`Register(t, f)` is local and final**: afterwards type `t` is ruled by `f` (by the default
function when `f = nil`), whatever was registered for `t` before — also several times —, every other
type keeps its rule, and the default function is untouched. -/
theorem register_is_local (R : Rules) (t t' : String) (b : Option Beh) :
    (R.register t b).lookup t' = (if t' = t then b.or R.custom else R.lookup t') ∧
    (R.register t b).hasDefault = R.hasDefault ∧ (R.register t b).custom = R.custom := by
  refine ⟨?_, rfl, rfl⟩
  have e1 := filter_lookup_self R.table t
  have e2 := filter_lookup_other R.table t t'
  by_cases h : t' = t
  · subst h
    cases b with
    | none => simp only [Rules.register, Rules.lookup, List.nil_append, e1, if_true]
    | some x => simp [Rules.register, Rules.lookup]
  · have hb : (t' == t) = false := by simp [h]
    cases b with
    | none => simp only [Rules.register, Rules.lookup, List.nil_append, e2 h, h, if_false]
    | some x =>
      simp only [Rules.register, Rules.lookup, List.cons_append, List.nil_append, List.lookup, hb, e2 h, h, if_false]

/-! ### a replaced default route function (`route.SetDefaultRoute`) -/

/-- **a replaced default function is a route function like any other**: for a type without a
registered function `doRoute` calls it under the same deferred `recover`, so every theorem above
that speaks about `R.lookup t` (`routed_to_named`, `no_instance_no_send_one_callback`, …) covers it. -/
theorem custom_default_is_a_rule (R : Rules) (d : Dir) (t : String) (b : Beh) (fp : FParam)
    (hnr : R.table.lookup t = none) (hc : R.custom = some b) :
    R.lookup t = some b ∧ doRoute R d t fp = (applyBeh b fp).getD "" := by
  have h : R.lookup t = some b := by simp [Rules.lookup, hnr, hc]
  exact ⟨h, by simp [doRoute, h]⟩

/-- a function registered for the type takes precedence over any default function -/
theorem registered_beats_default (R : Rules) (t : String) (b : Beh) (h : R.table.lookup t = some b) :
    R.lookup t = some b := by
  simp [Rules.lookup, h]

/-- `SetDefaultRoute(f)` installs `f` for every type without a registered function, whatever was there before -/
theorem setDefault_installs (R : Rules) (t : String) (b : Beh) (hnr : R.table.lookup t = none) :
    (R.setDefault (some b)).lookup t = some b ∧ (R.setDefault none).lookup t = none ∧
    (R.setDefault none).hasDefault = false := by
  simp [Rules.setDefault, Rules.lookup, hnr]

/-- **a panicking default function is contained** (no guard needed): the recovered `Route` yields "",
nothing is sent, the request's callback is completed once with `ErrorNoService`. -/
theorem custom_default_panic_refused (R : Rules) (d : Dir) (r t a m : String) (p : Param) (fp : FParam)
    (b : Beh) (cb : Bool) (hr : splitClientRoute r = (t, a, m)) (hnr : R.table.lookup t = none)
    (hc : R.custom = some b) (hv : p.viaFunc = some fp) (hp : applyBeh b fp = none) :
    request R d r p cb = refused cb ∧ notify R d r p = refused false := by
  have h := (custom_default_is_a_rule R d t b fp hnr hc).2
  constructor <;> simp [request, notify, hr, routePID, route_viaFunc R d t p _ hv, h, hp]

/-! ### the caller's state -/

/-- **a refusal reaches the callback whatever the caller's state**: `Request`, `QuerySession` and
`Kick` complete a refused call by calling the callback directly (`CheckInvokeCBFunc`), not through
the caller's scheduler — a service whose run service has been stopped experiences exactly the
outcome a running one does. -/
theorem refusal_reaches_callback_in_any_caller_state (c : Caller) (R : Rules) (d : Dir) (r : String)
    (p : Param) (cb : Bool) :
    requestIn c R d r p cb = request R d r p cb ∧
    ∀ front api, helperIn c d front api cb = helper d front api cb := by
  cases c <;> simp [requestIn, helperIn, Outcome.seenBy, completionVia, delivered]

/-- …so every failing rule is refused with its one no-service completion for a stopped caller too -/
theorem no_instance_one_callback_any_caller (c : Caller) (R : Rules) (d : Dir) (hd : d.Ok) (r t a m : String)
    (p : Param) (cb : Bool) (hr : splitClientRoute r = (t, a, m)) (hg : NoSentinelNames d.ms)
    (hf : RuleFails R d.ms t p) :
    requestIn c R d r p cb = refused cb := by
  rw [(refusal_reaches_callback_in_any_caller_state c R d r p cb).1]
  exact (no_instance_no_send_one_callback R d hd r t a m p cb hr hg hf).1

/-- the neighbouring design on record — posting the completion to the caller's scheduler — loses it
exactly when the caller's run service has been stopped -/
theorem posted_completion_is_lost_when_stopped :
    (refused true).seenBy .posted .stopped = ⟨[], [], false⟩ ∧
    (refused true).seenBy .posted .running = refused true ∧
    ∀ c, (refused true).seenBy .direct c = refused true := by
  refine ⟨by decide, by decide, ?_⟩
  intro c; cases c <;> decide

/-! ### calls that straddle a view update -/

/-- a registered (or replaced default) route function does not read the directory: `Route` yields the
same name in every view -/
theorem route_ignores_view (R : Rules) (d1 d2 : Dir) (t : String) (p : Param)
    (h : (∃ b, R.lookup t = some b) ∨ p.viaFunc = none ∨ R.hasDefault = false) :
    route R d1 t p = route R d2 t p := by
  cases hv : p.viaFunc with
  | none => cases p <;> simp [Param.viaFunc] at hv <;> rfl
  | some fp =>
    rw [route_viaFunc R d1 t p _ hv, route_viaFunc R d2 t p _ hv]
    rcases h with ⟨b, hb⟩ | h | h
    · simp [doRoute, hb]
    · rw [hv] at h; cases h
    · cases hl : R.lookup t <;> simp [doRoute, hl, h]

/-- **a straddling call takes effect at the name lookup**: when the view update lands while the route
function runs (any function that does not read the directory — every rule but the built-in default),
the call is served exactly as if it had been issued entirely in the NEW view. -/
theorem straddling_call_served_from_new_view (R : Rules) (d1 d2 : Dir) (r : String) (p : Param) (cb : Bool)
    (h : (∃ b, R.lookup (splitClientRoute r).1 = some b) ∨ p.viaFunc = none ∨ R.hasDefault = false) :
    requestTorn R d1 d2 r p cb = request R d2 r p cb ∧ notifyTorn R d1 d2 r p = notify R d2 r p := by
  have e := route_ignores_view R d1 d2 (splitClientRoute r).1 p h
  constructor <;> simp [requestTorn, notifyTorn, request, notify, routePIDTorn, routePID, e]

/-- the parked functions of the correspondence run (`midview`) are such functions -/
theorem straddles_has_rule (R : Rules) (t : String) (p : Param) (h : straddles R t p = true) :
    ∃ b, R.lookup t = some b := by
  unfold straddles at h
  cases hv : p.viaFunc <;> cases hl : R.lookup t <;> simp [hv, hl] at h
  exact ⟨_, rfl⟩

/-- **never to something unannounced, torn or not**: whatever two views the two reads of one call see,
the call is refused (nothing sent, one no-service completion) or sends exactly one message to an
instance the view of the SECOND read announces under the name `Route` returned. -/
theorem torn_never_unannounced (R : Rules) (d1 d2 : Dir) (hd : d2.Ok) (r : String) (p : Param) (cb : Bool) :
    (requestTorn R d1 d2 r p cb = refused cb ∧ notifyTorn R d1 d2 r p = refused false) ∨
    (∃ pid, Named d2.ms (route R d1 (splitClientRoute r).1 p) pid ∧
        requestTorn R d1 d2 r p cb = ⟨[⟨pid, (splitClientRoute r).2.1 ++ "." ++ (splitClientRoute r).2.2, true⟩], [], cb⟩ ∧
        notifyTorn R d1 d2 r p = ⟨[⟨pid, (splitClientRoute r).2.1 ++ "." ++ (splitClientRoute r).2.2, false⟩], [], false⟩) := by
  by_cases he : route R d1 (splitClientRoute r).1 p = ""
  · left; constructor <;> simp [requestTorn, notifyTorn, routePIDTorn, he]
  · rcases getServicePID_cases d2 hd (route R d1 (splitClientRoute r).1 p) with ⟨hn, _⟩ | ⟨pid, hs, hN⟩
    · left; constructor <;> simp [requestTorn, notifyTorn, routePIDTorn, he, hn]
    · right; exact ⟨pid, hN, by simp [requestTorn, routePIDTorn, he, hs], by simp [notifyTorn, routePIDTorn, he, hs]⟩

/-- a torn call whose two reads see the same view is an ordinary call -/
theorem torn_same_view (R : Rules) (d : Dir) (r : String) (p : Param) (cb : Bool) :
    requestTorn R d d r p cb = request R d r p cb ∧ notifyTorn R d d r p = notify R d r p := by
  constructor <;> rfl

/-- On record (review finding, the two unsynchronised loads of the DEFAULT path): the built-in default
rule reads the working list of one view and resolves the name in another — a default-routed request
can be answered with no-service although BOTH views have an instance of the type on a working node
(the instance was renamed between the two loads).  Reported, never silently dropped. -/
theorem torn_default_can_refuse_spuriously :
    ∃ (d1 d2 : Dir), d1.Ok ∧ d2.Ok ∧
      request ⟨[], true, none⟩ d1 "gate.handler.enter" .nil true ≠ refused true ∧
      request ⟨[], true, none⟩ d2 "gate.handler.enter" .nil true ≠ refused true ∧
      requestTorn ⟨[], true, none⟩ d1 d2 "gate.handler.enter" .nil true = refused true :=
  ⟨mkDir [⟨"c@n1", "h1", 1, 1, ["gate.g1"]⟩], mkDir [⟨"c@n1", "h1", 1, 1, ["gate.g2"]⟩],
    mkDir_ok _, mkDir_ok _, by decide, by decide, by decide⟩

/-! ### histories -/

/-- admissibility of the directory is an invariant of every history of view
updates (whatever map order each update took), rule registrations and calls -/
theorem after_any_history (s : St) (ops : List Op) (hs : s.dir.Ok) (hops : ∀ op ∈ ops, op.Ok) :
    (run s ops).dir.Ok := by
  induction ops generalizing s with
  | nil => exact hs
  | cons op rest ih =>
    apply ih
    · cases op with
      | view ms sv => exact hops (.view ms sv) (by simp)
      | _ => exact hs
    · intro o ho; exact hops o (by simp [ho])

/-- calls and rule registrations never touch the directory (`step_keeps_dir`), so after
any history every call is served from the LAST installed view -/
theorem calls_use_latest_view (s : St) (pre post : List Op) (ms : List Member) (sv : List (String × Item))
    (hpost : ∀ op ∈ post, isView op = false) :
    (run s (pre ++ .view ms sv :: post)).dir = ⟨ms, sv⟩ := by
  induction pre generalizing s with
  | cons op rest ih => exact ih (step s op).1
  | nil =>
    simp only [List.nil_append, run]
    generalize hs' : (step s (.view ms sv)).1 = s'
    have hdir : s'.dir = ⟨ms, sv⟩ := by rw [← hs']; rfl
    clear hs'
    induction post generalizing s' with
    | nil => exact hdir
    | cons op rest ih2 =>
      apply ih2 (fun o ho => hpost o (by simp [ho]))
      rw [step_keeps_dir s' op (hpost op (by simp))]; exact hdir

/-- the initial state (empty view) is admissible -/
theorem init_ok : St.init.dir.Ok := emptyDir_ok

/-! ### non-vacuity: every conditional theorem is instantiated on concrete data -/
namespace NonVacuity

def ms0 : List Member :=
  [⟨"c@n1", "h1", 1, 0, ["chat.c1", "gate.g1", "bad"]⟩, ⟨"c@n2", "h2", 2, 1, ["chat.c2", "gate.g1"]⟩]
def R0 : Rules := ⟨[("chat", .key "chatid"), ("scene", .panic)], true, none⟩
def d0 : Dir := mkDir ms0
def p0 : Param := .map [("chatid", .str "c2")]
/-- a one-node view with unique names -/
def m1 : Member := ⟨"c@n1", "h1", 1, 1, ["gate.g1"]⟩
def d1 : Dir := mkDir [m1]

theorem d0_ok : d0.Ok := mkDir_ok ms0
theorem d1_ok : d1.Ok := mkDir_ok [m1]
theorem ms0_no_sentinels : NoSentinelNames d0.ms :=
  ⟨not_known_of_lookup_none d0 d0_ok _ (by decide), not_known_of_lookup_none d0 d0_ok _ (by decide),
   not_known_of_lookup_none d0 d0_ok _ (by decide)⟩
theorem d1_no_sentinels : NoSentinelNames d1.ms :=
  ⟨not_known_of_lookup_none d1 d1_ok _ (by decide), not_known_of_lookup_none d1 d1_ok _ (by decide),
   not_known_of_lookup_none d1 d1_ok _ (by decide)⟩
theorem names0 : RuleNames R0 "chat" p0 "c2" :=
  .key (l := [("chatid", .str "c2")]) (b := .key "chatid") (k := "chatid") (dflt := "") rfl rfl rfl (by decide)
theorem known0 : Known d0.ms "c2" := ⟨_, known_of_lookup_some d0 d0_ok "c2" ("h2:2", "c2") (by decide)⟩
/-- every name is unique in the one-node view -/
theorem d1_unique (n : String) : UniqueName d1.ms n := by
  rintro p q ⟨_, _, a, ha, s, hs, _, _, a', ha', hp⟩ ⟨_, _, b, hb, s2, hs2, _, _, b', hb', hq⟩
  have ea : a = m1 := by simpa [d1, mkDir] using ha
  have eb : b = m1 := by simpa [d1, mkDir] using hb
  subst ea; subst eb
  have hm : memberOf d1.ms m1.id = some m1 := by decide
  rw [hm] at ha' hb'
  cases ha'; cases hb'
  rw [hp, hq]

-- a map order different from the canonical one
example : (⟨ms0, servicesBy (typeList ms0).reverse⟩ : Dir).Ok :=
  directory_any_map_order ms0 _ (List.reverse_perm _)
example := lookup_is_view d0 d0_ok "c2"
-- a key-function rule on a key map names `c2`, which the view announces at h2:2
example := (routed_to_named R0 d0 d0_ok "chat.remote.say" "chat" "remote" "say" p0 "c2" true
  (by decide) names0 (by decide)).1 known0
example : request R0 d0 "chat.remote.say" p0 true = ⟨[⟨("h2:2", "c2"), "remote" ++ "." ++ "say", true⟩], [], true⟩ := by decide
-- a nesting rule: routes for `gate` with the inner map {chatid: c1}, then answers from the outer map {chatid: c2}
example := nested_routed_by_outer_key ⟨[("chat", .nest "chatid" "gate" [("chatid", .str "c1")])], true, none⟩ d0 d0_ok
  "chat.remote.say" "chat" "remote" "say" "chatid" "gate" [("chatid", .str "c1")] [("chatid", .str "c2")] p0 "c2" true
  (by decide) rfl rfl (by decide) (by decide) known0
example : request ⟨[("chat", .nest "chatid" "gate" [("chatid", .str "c1")])], true, none⟩ d0 "chat.remote.say" p0 true
    = ⟨[⟨("h2:2", "c2"), "remote" ++ "." ++ "say", true⟩], [], true⟩ := by decide
-- a default instance on an empty key map: the rule names the default, which the view announces
example := (routed_to_named ⟨[("chat", .keyd "chatid" "c2")], true, none⟩ d0 d0_ok "chat.remote.say" "chat" "remote" "say" (.map []) "c2" true
  (by decide) (.keyDefault (l := []) (b := .keyd "chatid" "c2") (k := "chatid") rfl rfl rfl rfl) (by decide)).1 known0
example : request ⟨[("chat", .keyd "chatid" "c2")], true, none⟩ d0 "chat.remote.say" (.map []) true
    = ⟨[⟨("h2:2", "c2"), "remote" ++ "." ++ "say", true⟩], [], true⟩ := by decide
example : request ⟨[("chat", .nilor "c2" "chatid")], true, none⟩ d0 "chat.remote.say" (.map []) true = refused true := by decide
example := (empty_map_is_a_map ⟨[("chat", .keyd "chatid" "c2")], true, none⟩ d0 "chat").1 "chatid" "c2" rfl
-- the routing key bound to nil: no fall-back to the default instance `c2`
example := null_value_is_present ⟨[("chat", .keyd "chatid" "c2")], true, none⟩ d0 "chat.remote.say" "chat" "remote" "say" "chatid" "c2"
  [("chatid", .null)] (.map [("chatid", .null)]) .null true (by decide) rfl rfl (by decide) (by intro s h; cases h)
-- an explicit name, unique in the view
example := routed_to_the_instance ⟨[], true, none⟩ d1 d1_ok "x.sys.kick" "x" "sys" "kick" (.str "g1") "g1" true ("h1:1", "g1")
  (by decide) (.explicit "g1") (by decide) (known_of_lookup_some d1 d1_ok "g1" _ (by decide)) (d1_unique "g1")
example := never_dropped_never_unannounced R0 d0 d0_ok "chat.remote.say" p0 true
-- failing rules: unknown name, panicking function, non-string value, absent key, bad parameter, no working instance
example := no_instance_no_send_one_callback R0 d0 d0_ok "chat.remote.say" "chat" "remote" "say" (.map [("chatid", .str "c9")]) true
  (by decide) ms0_no_sentinels
  (.unknownName (n := "c9") (.key (l := [("chatid", .str "c9")]) (b := .key "chatid") (k := "chatid") (dflt := "") rfl rfl rfl (by decide))
    (not_known_of_lookup_none d0 d0_ok _ (by decide)))
example : RuleFails R0 ms0 "scene" .nil := .funcPanics (fp := .nilIface) (b := .panic) rfl rfl rfl
example : RuleFails R0 ms0 "chat" (.sess [("chatid", .other)]) :=
  .funcPanics (fp := .kvs [("chatid", .other)]) (b := .key "chatid") rfl rfl (by decide)
example : RuleFails R0 ms0 "chat" (.sess [("k", .str "c1")]) := .keyAbsent (l := [("k", .str "c1")]) (b := .key "chatid") (k := "chatid") rfl rfl rfl (by decide)
example : request R0 d0 "scene.remote.enter" .nil true = refused true := by decide
example : request R0 d0 "chat.remote.say" .other true = refused true := by decide
example := malformed_route_no_send R0 d0 d0_ok "bad" .nil true (by decide) (by intro s h; cases h) rfl ms0_no_sentinels
example : request R0 d0 "bad" .nil true = refused true := by decide
example := unknown_type_no_send ⟨[], true, none⟩ d1 d1_ok "chat.remote.say" "chat" "remote" "say" .nil true (by decide)
  (by intro s h; cases h) rfl
  (by
    rintro ⟨n, st, pid, a, ha, s, hs, hw, _⟩
    have ea : a = m1 := by simpa [d1, mkDir] using ha
    subst ea
    have es : s = "gate.g1" := by simpa [m1] using hs
    subst es
    have : wellFormed "gate.g1" = some ("gate", "g1") := by decide
    rw [this] at hw
    have := (Prod.mk.inj (Option.some.inj hw)).1
    exact absurd this (by decide))
  d1_no_sentinels
-- the documented behaviour: malformed route + explicit name
example := malformed_route_explicit_name_is_sent R0 d0 d0_ok "bad" "c2" true (by decide) known0
example : request R0 d0 "bad" (.str "c1") true = ⟨[⟨("h1:1", "c1"), "" ++ "." ++ "", true⟩], [], true⟩ := by decide
-- default route: the first `gate.g1` sits on a NON-working node, the working list names `g1`, and the
-- name map answers with the first `g1` — hence the `Named` statement; with unique names: the working one
example := default_is_working R0 d0 d0_ok "gate.handler.enter" "gate" "handler" "enter" .nil .nilIface false
  (by decide) rfl rfl rfl ms0_no_sentinels
example : request R0 d0 "gate.handler.enter" .nil false = ⟨[⟨("h1:1", "g1"), "handler" ++ "." ++ "enter", true⟩], [], false⟩ := by decide
example := default_is_working_unique ⟨[], true, none⟩ d1 d1_ok "gate.handler.enter" "gate" "handler" "enter" .nil .nilIface true
  (by decide) rfl rfl rfl d1_no_sentinels (fun n _ => d1_unique n)
example : request ⟨[], true, none⟩ d1 "gate.handler.enter" .nil true = ⟨[⟨("h1:1", "g1"), "handler" ++ "." ++ "enter", true⟩], [], true⟩ := by decide
-- helpers
example := (helpers_report d0 d0_ok "g9" "sys.kick" true).1 (not_known_of_lookup_none d0 d0_ok _ (by decide))
example := d5_prefix_drops_callback d0 d0_ok "g9" "sys.kick" (not_known_of_lookup_none d0 d0_ok _ (by decide))
example : helperPreFix d0 "g9" "sys.kick" true = ⟨[], [], false⟩ ∧ helper d0 "g9" "sys.kick" true = refused true := by decide
-- a replaced default function: a panicking one is contained, a constant one names its instance
example := custom_default_panic_refused ⟨[], false, some .panic⟩ d0 "gate.handler.enter" "gate" "handler" "enter" .nil .nilIface .panic true
  (by decide) rfl rfl rfl rfl
example : request ⟨[], false, some (.key "k")⟩ d0 "gate.handler.enter" .nil true = refused true := by decide
example := (routed_to_named ⟨[], false, some (.const "c2")⟩ d0 d0_ok "gate.handler.enter" "gate" "handler" "enter" .nil "c2" true
  (by decide) (.const (fp := .nilIface) (custom_default_is_a_rule ⟨[], false, some (.const "c2")⟩ d0 "gate" (.const "c2") .nilIface rfl rfl).1 rfl) (by decide)).1 known0
example := registered_beats_default ⟨[("chat", .key "chatid")], false, some .panic⟩ "chat" (.key "chatid") rfl
example := setDefault_installs R0 "gate" .panic rfl
example : ((R0.register "chat" (some .panic)).register "chat" none).lookup "chat" = none ∧
    ((R0.register "chat" none).register "scene" (some .empty)).lookup "scene" = some .empty := by decide
-- a stopped caller is refused like a running one
example := no_instance_one_callback_any_caller .stopped R0 d0 d0_ok "scene.remote.enter" "scene" "remote" "enter" .nil true
  (by decide) ms0_no_sentinels (.funcPanics (fp := .nilIface) (b := .panic) rfl rfl rfl)
example : requestIn .stopped R0 d0 "scene.remote.enter" .nil true = refused true := by decide
-- a view update lands while the key function of `chat` runs: served from the new view (c2 has moved to h1:1)
example := straddling_call_served_from_new_view R0 d0 d1 "chat.remote.say" p0 true (.inl (straddles_has_rule R0 "chat" p0 (by decide)))
example : requestTorn R0 d1 d0 "chat.remote.say" p0 true = ⟨[⟨("h2:2", "c2"), "remote" ++ "." ++ "say", true⟩], [], true⟩ := by decide
example := torn_never_unannounced ⟨[], true, none⟩ d0 d1 d1_ok "gate.handler.enter" .nil true
-- histories
example := after_any_history St.init
  [.view ms0 (servicesBy (typeList ms0)), .rule "chat" (some (.key "chatid")), .req "chat.remote.say" p0 true, .view [m1] (servicesBy (typeList [m1]))]
  init_ok (by
    intro op hop
    simp only [List.mem_cons, List.not_mem_nil, or_false] at hop
    rcases hop with rfl | rfl | rfl | rfl
    · exact mkDir_ok ms0
    · trivial
    · trivial
    · exact mkDir_ok [m1])
example := calls_use_latest_view St.init [.view ms0 [], .dropDefault] [.rule "x" none, .qs "g1" true] [m1] (servicesBy (typeList [m1]))
  (by intro op hop; simp only [List.mem_cons, List.not_mem_nil, or_false] at hop; rcases hop with rfl | rfl <;> rfl)

end NonVacuity
end Cell2v.Props.C07
