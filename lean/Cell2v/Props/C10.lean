import Cell2v.Lemmas.SessionData
/-!
# C10 — session data set by any service is what routing and later handlers see

Property theorems over the model `Cell2v.SessionData` (tied to the Go code by the
differential run of `bin/check C10`).  Values are abstract (`LawfulJVal`): `norm` is the
JSON round trip, assumed idempotent and the identity on (valid-UTF-8) strings and on
connection ids; every theorem holds for every such value type.

Guard (stated explicitly where used, `GuardOp true`): handlers never `Set` the reserved keys
`_ServerId` / `_NetId` and only set JSON-representable values.  Outside it the real code
type-asserts and panics inside a recovered task (exercised by the harness's `u.` stream,
recorded, not compared).
-/
namespace Cell2v.Props.C10
open Cell2v.SessionData

variable {V : Type} [LawfulJVal V]

/-! ## 1. a push merges key by key -/

/-- `ClientSessions.PushSession` of a session's NewData: every pushed key gets the normalised
pushed value, every other key keeps what it had. -/
theorem push_merges_keywise (m nd : AL V) (k : Key) (hnd : (keys nd).Nodup) (hrep : allRep nd) :
    lget (SData.updateFromJson m (SData.toJson nd)) k =
      match lget nd k with
      | some v => some (JVal.norm v)
      | none => lget m k := by
  have hj := toJson_eq_some hnd hrep
  have hk : (keys (nd.map fun e => (e.1, (JVal.norm e.2 : V)))).Nodup := by rw [keys_map_val]; exact hnd
  rw [hj]
  simp only [SData.updateFromJson]
  rw [lget_amerge _ _ _ hk, lget_map_val]
  cases lget nd k <;> rfl

omit [LawfulJVal V] in
/-- a payload that can not be marshalled (or is not a JSON object) changes nothing -/
theorem push_unrepresentable_noop (m : AL V) : SData.updateFromJson m none = m := rfl

omit [LawfulJVal V] in
/-- later pushes win per key: whatever was pushed before, after pushing `p` the key `k ∈ p`
holds `p`'s value -/
theorem later_push_wins (m : AL V) (ps : List (AL V)) (p : AL V) (k : Key) (v : V)
    (hp : (keys p).Nodup) (hk : lget p k = some v) :
    lget ((ps ++ [p]).foldl amerge m) k = some v := by
  rw [List.foldl_append]
  simp only [List.foldl_cons, List.foldl_nil]
  rw [lget_amerge _ _ _ hp, hk]

omit [LawfulJVal V] in
/-- untouched keys persist: a key no push mentions keeps its value through any number of pushes -/
theorem untouched_keys_persist (m : AL V) (ps : List (AL V)) (k : Key)
    (h : ∀ p ∈ ps, k ∉ keys p) : lget (ps.foldl amerge m) k = lget m k := by
  induction ps generalizing m with
  | nil => rfl
  | cons p ps ih =>
    simp only [List.foldl_cons]
    rw [ih _ (fun q hq => h q (by simp [hq])), lget_amerge_of_not_mem _ _ (h p (by simp))]

/-! ## 2. a query returns the whole map -/

/-- inside the guard a query of a live connection merges the whole normalised map into Data
and succeeds -/
theorem backQuery_live (cfg : Cfg) (s : State V) (b : Back V) (m : AL V)
    (hs : Inv true s) (hb : BackInv true b) (hf : s.reach cfg b.serverId = true)
    (hm : lget s.fronts b.target = some m) :
    backQuery cfg s b = ({ b with data := amerge b.data (m.map fun e => (e.1, JVal.norm e.2)) }, Res.ok) := by
  simp [backQuery, hf, hm, fromJson_live hb (hs.fronts _ _ hm)]

/-- `sys.querysession` + `BackSession.FromJson` for a live connection inside the guard: the
session afterwards holds, for EVERY key of the front map, the normalised value (unless it
has a locally set value for that key, which `Get` prefers); nothing else of it changes. -/
theorem query_returns_whole_map (cfg : Cfg) (s : State V) (b : Back V) (m : AL V)
    (hs : Inv true s) (hb : BackInv true b) (hf : s.reach cfg b.serverId = true)
    (hm : lget s.fronts b.target = some m) :
    (backQuery cfg s b).2 = Res.ok ∧ (backQuery cfg s b).1.target = b.target ∧
    (backQuery cfg s b).1.newData = b.newData ∧ (backQuery cfg s b).1.dirt = b.dirt ∧
    (∀ k v, lget m k = some v → lget (backQuery cfg s b).1.data k = some (JVal.norm v)) ∧
    (∀ k v, lget m k = some v → lget b.newData k = none → (backQuery cfg s b).1.get? k = some (JVal.norm v)) := by
  have hmi := hs.fronts _ _ hm
  have hk : (keys (m.map fun e => (e.1, (JVal.norm e.2 : V)))).Nodup := by rw [keys_map_val]; exact hmi.nd
  rw [backQuery_live cfg s b m hs hb hf hm]
  refine ⟨rfl, rfl, rfl, rfl, ?_, ?_⟩
  · intro k v hkv
    show lget (amerge b.data _) k = _
    rw [lget_amerge _ _ _ hk, lget_map_val, hkv]; rfl
  · intro k v hkv hn
    show (match lget b.newData k with | some v => some v | none => lget (amerge b.data _) k) = _
    rw [hn]
    show lget (amerge b.data _) k = _
    rw [lget_amerge _ _ _ hk, lget_map_val, hkv]; rfl

/-- values that went through a push are already normal: a query hands them back unchanged -/
theorem pushed_then_queried_is_stable (v : V) : JVal.norm (JVal.norm v) = JVal.norm v :=
  LawfulJVal.norm_idem v

/-! ## 3. Get prefers what the handler set itself -/

omit [LawfulJVal V] in
theorem get_prefers_local (b : Back V) (k : Key) (v : V) : (b.set k v).get? k = some v := by
  simp [Back.get?, Back.set, lget_lset_same]

/-- … and keeps preferring it through queries and pushes (NewData is only written by `Set`) -/
theorem get_prefers_local_persists (cfg : Cfg) (s : State V) (b : Back V) (k : Key) (v : V)
    (h : lget b.newData k = some v) :
    (backQuery cfg s b).1.get? k = some v ∧ (backPush cfg s b).2.1.get? k = some v := by
  constructor
  · have hn : (backQuery cfg s b).1.newData = b.newData := by
      simp only [backQuery]
      split
      · rfl
      · split
        · rfl
        · exact (fromJson_fields b _).1
    simp [Back.get?, hn, h]
  · have hn : (backPush cfg s b).2.1.newData = b.newData := by
      simp only [backPush]
      split
      · rfl
      · split <;> rfl
    simp [Back.get?, hn, h]

/-! ## 4. the dirty flag (defect D16, repaired by 9c7adaf) -/

/-- a query never clears the dirty flag -/
theorem query_keeps_dirty (cfg : Cfg) (s : State V) (b : Back V) : (backQuery cfg s b).1.dirt = b.dirt := by
  simp only [backQuery]
  split
  · rfl
  · split
    · rfl
    · exact (fromJson_fields b _).2.1

/-- a dirty session pushing to its live connection: the whole NewData is merged, key by key -/
theorem backPush_live (cfg : Cfg) (s : State V) (b : Back V) (m kvs : AL V)
    (hd : b.dirt = true) (hf : s.reach cfg b.serverId = true)
    (hm : lget s.fronts b.target = some m) (hj : SData.toJson b.newData = some kvs) :
    backPush cfg s b =
      ({ s with fronts := lset s.fronts b.target (amerge m kvs) }, { b with dirt := false }, Res.ok,
        [Ev.write b.target kvs]) := by
  simp [backPush, hd, hf, deliver, hm, hj]

/-- set · query · push (the D16 sequence) delivers the value: afterwards the connection's map
holds the normalised value under the key -/
theorem set_query_push_delivers (cfg : Cfg) (s : State V) (b : Back V) (m : AL V) (k : Key) (v : V)
    (hs : Inv true s) (hb : BackInv true b) (hns : b.ns ≠ "") (hf : s.reach cfg b.serverId = true)
    (hm : lget s.fronts b.target = some m)
    (hk : k ≠ KeyServerId ∧ k ≠ KeyNetId) (hv : JVal.rep v = true) :
    (lget (runScript cfg s (.back b) none [.set k v, .query, .push]).st.fronts b.target).bind
      (fun m' => lget m' k) = some (JVal.norm v) := by
  have hb1 : BackInv true (b.set k v) := backInv_set hb (fun _ => ⟨hk.1, hk.2, hv⟩)
  have hns' : ¬ (b.set k v).ns = "" := hns
  have hq := backQuery_live cfg s (b.set k v) m hs hb1 hf hm
  have hj := toJson_eq_some hb1.ndN (hb1.repN rfl)
  have hkk : (keys ((b.set k v).newData.map fun e => (e.1, (JVal.norm e.2 : V)))).Nodup := by
    rw [keys_map_val]; exact hb1.ndN
  have hp := backPush_live cfg s { b.set k v with data := amerge (b.set k v).data (m.map fun e => (e.1, JVal.norm e.2)) }
    m _ rfl hf hm hj
  have e1 : sstep cfg s (.back b) none (.set k v) = ⟨s, .back (b.set k v), none, .ok, []⟩ := rfl
  have e2 : sstep cfg s (.back (b.set k v)) none .query =
      ⟨s, .back { b.set k v with data := amerge (b.set k v).data (m.map fun e => (e.1, JVal.norm e.2)) }, none, .ok, []⟩ := by
    simp only [sstep, sstepBack, hns', if_false, hq]
  have e3 : (sstep cfg s (.back { b.set k v with data := amerge (b.set k v).data (m.map fun e => (e.1, JVal.norm e.2)) }) none .push).st =
      { s with fronts := lset s.fronts b.target (amerge m ((b.set k v).newData.map fun e => (e.1, JVal.norm e.2))) } := by
    have hns'' : ¬ ({ b.set k v with data := amerge (b.set k v).data (m.map fun e => (e.1, JVal.norm e.2)) } : Back V).ns = "" := hns
    simp only [sstep, sstepBack, hns'', if_false, hp]
    rfl
  simp only [runScript, e1, e2, e3, lget_lset_same, Option.bind_some]
  rw [lget_amerge _ _ _ hkk, lget_map_val]
  show (match (lget (lset b.newData k v) k).map JVal.norm with | some v => some v | none => lget m k) = _
  rw [lget_lset_same]; rfl

/-- statements that only read: `Get`, `GetID`, `ToJson`, `QuerySession` -/
def Quiet : SOp V → Prop
  | .get _ | .query | .json | .id => True
  | _ => False

/-- the general form: a value set on a session survives ANY number of reads and queries and is
delivered by the next push — the connection's map then holds its normalised form -/
theorem pending_survives_reads (cfg : Cfg) (mid : List (SOp V)) :
    ∀ (s : State V) (b : Back V) (m : AL V) (k : Key) (v : V) (kept : Option String),
      Inv true s → BackInv true b → b.ns ≠ "" → s.reach cfg b.serverId = true →
      lget s.fronts b.target = some m → b.dirt = true → lget b.newData k = some v → (∀ op ∈ mid, Quiet op) →
      (lget (runScript cfg s (.back b) kept (mid ++ [.push])).st.fronts b.target).bind (fun m' => lget m' k)
        = some (JVal.norm v) := by
  induction mid with
  | nil =>
    intro s b m k v kept hs hb hns hf hm hd hk _
    have hns' : ¬ b.ns = "" := hns
    have hj := toJson_eq_some hb.ndN (hb.repN rfl)
    have hkk : (keys (b.newData.map fun e => (e.1, (JVal.norm e.2 : V)))).Nodup := by
      rw [keys_map_val]; exact hb.ndN
    have hp := backPush_live cfg s b m _ hd hf hm hj
    simp only [List.nil_append, runScript, sstep, sstepBack, hns', if_false, hp, lget_lset_same, Option.bind_some]
    rw [lget_amerge _ _ _ hkk, lget_map_val, hk]; rfl
  | cons op mid ih =>
    intro s b m k v kept hs hb hns hf hm hd hk hq
    have hq' : ∀ o ∈ mid, Quiet o := fun o ho => hq o (by simp [ho])
    have hop := hq op (by simp)
    have hns' : ¬ b.ns = "" := hns
    cases op with
    | get k' => exact ih s b m k v kept hs hb hns hf hm hd hk hq'
    | json => exact ih s b m k v kept hs hb hns hf hm hd hk hq'
    | id => exact ih s b m k v kept hs hb hns hf hm hd hk hq'
    | query =>
      have hql := backQuery_live cfg s b m hs hb hf hm
      have hbi : BackInv true ({ b with data := amerge b.data (m.map fun e => (e.1, JVal.norm e.2)) } : Back V) := by
        have := backInv_fromJson hb (fun hg' => (hs.fronts _ _ hm).rep hg') (m := m)
        rw [fromJson_live hb (hs.fronts _ _ hm)] at this
        exact this
      have h2 := ih s { b with data := amerge b.data (m.map fun e => (e.1, JVal.norm e.2)) } m k v kept hs hbi hns hf hm hd hk hq'
      have ht : ({ b with data := amerge b.data (m.map fun e => (e.1, JVal.norm e.2)) } : Back V).target = b.target := rfl
      rw [ht] at h2
      simpa only [List.cons_append, runScript, sstep, sstepBack, hns', if_false, hql] using h2
    | _ => exact absurd hop (by simp [Quiet])

/-- setting a key AGAIN to the value the session already holds for it still marks the session
dirty and the next push still delivers it (NewData is the session's memory, not the front's
state: another service may have overwritten the key meanwhile) — the later push wins -/
theorem reset_same_value_still_pushed (cfg : Cfg) (s : State V) (b : Back V) (m : AL V) (k : Key) (v : V)
    (hb : BackInv true b) (hf : s.reach cfg b.serverId = true) (hm : lget s.fronts b.target = some m)
    (hk : k ≠ KeyServerId ∧ k ≠ KeyNetId) (hv : JVal.rep v = true) (_hold : lget b.newData k = some v) :
    (b.set k v).dirt = true ∧
    (lget (backPush cfg s (b.set k v)).1.fronts b.target).bind (fun m' => lget m' k) = some (JVal.norm v) := by
  have hb1 : BackInv true (b.set k v) := backInv_set hb (fun _ => ⟨hk.1, hk.2, hv⟩)
  have hj := toJson_eq_some hb1.ndN (hb1.repN rfl)
  have hkk : (keys ((b.set k v).newData.map fun e => (e.1, (JVal.norm e.2 : V)))).Nodup := by
    rw [keys_map_val]; exact hb1.ndN
  have hp := backPush_live cfg s (b.set k v) m _ rfl hf hm hj
  refine ⟨rfl, ?_⟩
  rw [hp]
  show (lget (lset s.fronts b.target _) b.target).bind _ = _
  rw [lget_lset_same]
  simp only [Option.bind_some]
  rw [lget_amerge _ _ _ hkk, lget_map_val]
  show (match (lget (lset b.newData k v) k).map JVal.norm with | some v => some v | none => lget m k) = _
  rw [lget_lset_same]; rfl

/-- the pre-fix `FromJson` cleared the flag … -/
theorem d16_prefix_query_clears_dirty (b : Back V) (j : Option (AL V)) (h : (b.fromJsonPre j).2 = false) :
    (b.fromJsonPre j).1.dirt = false := by
  unfold Back.fromJsonPre at *
  simp only at *
  by_cases hp : (b.fromJson j).2 = true
  · simp [hp] at h
  · simp [hp]

/-- … and a push of a session that is not dirty sends nothing and reports success: the values
set before the query were lost -/
theorem d16_push_not_dirty_sends_nothing (cfg : Cfg) (s : State V) (b : Back V) (h : b.dirt = false) :
    backPush cfg s b = (s, b, Res.ok, []) := by
  simp [backPush, h]

/-! ## 5. the state is the history: front map = left fold of the writes -/

/-- over ALL histories: the map of every connection is the replay of the events that concern
it — opened with the reserved keys, every delivered push / front-local set merged key by key
in order, gone when closed -/
theorem front_is_fold_of_writes (cfg : Cfg) (ops : List (Op V)) (c : Conn) :
    lget (run cfg State.init ops).1.fronts c = replay c none (run cfg State.init ops).2 := by
  have h := run_replay cfg State.init ops c
  simpa [State.init] using h

/-- pushing to a live connection appends one merge to its history -/
theorem replay_write_last (c : Conn) (cur : Option (AL V)) (evs : List (Ev V)) (kvs : AL V) :
    replay c cur (evs ++ [Ev.write c kvs]) = (replay c cur evs).map (fun m => amerge m kvs) := by
  rw [replay_append]
  simp [replay, applyEv]

/-- the statement's wording over whole histories: if the history of a live connection `c`
contains a write (a delivered push or a front-local set) carrying `k = v`, and nothing after it
closes `c` or writes `k` on `c` again, then at the end `c` holds `v` under `k` — later writes
win per key, and keys a write does not mention persist through it -/
theorem latest_write_wins (cfg : Cfg) (ops : List (Op V)) (c : Conn) (pre post : List (Ev V)) (kvs : AL V)
    (k : Key) (v : V) (m0 : AL V)
    (hh : (run cfg State.init ops).2 = pre ++ Ev.write c kvs :: post)
    (hlive : replay c none pre = some m0) (hk : (keys kvs).Nodup) (hv : lget kvs k = some v)
    (hpost : ∀ e ∈ post, e.keeps c k) :
    ∃ m, lget (run cfg State.init ops).1.fronts c = some m ∧ lget m k = some v := by
  rw [front_is_fold_of_writes, hh, replay_append, hlive, replay_cons]
  simp only [applyEv, if_true, Option.map_some]
  obtain ⟨m', h1, h2⟩ := replay_keeps_key c k (amerge m0 kvs) post hpost
  exact ⟨m', h1, by rw [h2, lget_amerge _ _ _ hk, hv]⟩

/-- over ALL histories every map has unique keys (it is a Go map) -/
theorem maps_have_unique_keys (cfg : Cfg) (ops : List (Op V)) (c : Conn) (m : AL V)
    (h : lget (run cfg State.init ops).1.fronts c = some m) : (keys m).Nodup :=
  ((run_inv (g := false) cfg ops (inv_init false) (fun op _ => by
      cases op <;> first | trivial | (intro o _; cases o <;> first | trivial | (intro h; cases h)))).fronts c m h).nd

/-- reserved keys persist unless pushed: over all histories inside the guard, every live
connection still carries its front's name and its connection id, and everything stored is
JSON-representable -/
theorem reserved_keys_persist (cfg : Cfg) (ops : List (Op V)) (hg : ∀ op ∈ ops, GuardOp true op)
    (c : Conn) (m : AL V) (h : lget (run cfg State.init ops).1.fronts c = some m) :
    lget m KeyServerId = some (JVal.str c.1) ∧ lget m KeyNetId = some (JVal.net c.2) ∧ allRep m :=
  let i := (run_inv (g := true) cfg ops (inv_init true) hg).fronts c m h
  ⟨i.sid rfl, i.nid rfl, i.rep rfl⟩

/-! ## 6. frame: other sessions are untouched -/

/-- whatever an operation does, a connection none of its events names keeps its map (or stays dead) -/
theorem other_sessions_untouched (cfg : Cfg) (s : State V) (op : Op V) (c : Conn)
    (h : ∀ e ∈ (step cfg s op).evs, e.conn ≠ c) :
    lget (step cfg s op).st.fronts c = lget s.fronts c := by
  rw [step_replay, replay_other _ _ h]

/-- what a write event is: a front-local `Set`/`Bind` of one key, or the delivery of the whole
normalised NewData of a back-end session to the connection it addresses -/
theorem write_events_are_sets_and_pushes (cfg : Cfg) (s : State V) (sess : Sess V) (kept : Option String) (op : SOp V) :
    (sstep cfg s sess kept op).evs = [] ∨
    (∃ c k v, sess = .front c ∧ (sstep cfg s sess kept op).evs = [Ev.write c [(k, v)]]) ∨
    (∃ b kvs, sess = .back b ∧ SData.toJson b.newData = some kvs ∧
      (sstep cfg s sess kept op).evs = [Ev.write (stmtTarget sess op) kvs]) := by
  have hdel : ∀ (s : State V) (c : Conn) (j : Option (AL V)),
      (deliver s c j).2 = [] ∨ ∃ kvs, j = some kvs ∧ (deliver s c j).2 = [Ev.write c kvs] := by
    intro s c j
    unfold deliver
    cases lget s.fronts c with
    | none => exact Or.inl rfl
    | some m =>
      cases j with
      | none => exact Or.inl rfl
      | some kvs => exact Or.inr ⟨kvs, rfl, rfl⟩
  cases sess with
  | front c0 =>
    simp only [sstep, sstepFront]
    cases hm : lget s.fronts c0 with
    | none => exact Or.inl rfl
    | some m =>
      cases op with
      | set k v => exact Or.inr (Or.inl ⟨c0, k, v, rfl, rfl⟩)
      | bind uid => exact Or.inr (Or.inl ⟨c0, KeyUId, JVal.str uid, rfl, rfl⟩)
      | _ => exact Or.inl rfl
  | back b =>
    simp only [sstep]
    cases op with
    | push =>
      simp only [sstepBack]
      split
      · exact Or.inl rfl
      · simp only [backPush]
        split
        · exact Or.inl rfl
        · split
          · exact Or.inl rfl
          · cases hdel s b.target (SData.toJson b.newData) with
            | inl h => exact Or.inl h
            | inr h => obtain ⟨kvs, hj, he⟩ := h; exact Or.inr (Or.inr ⟨b, kvs, rfl, hj, he⟩)
    | pushNW =>
      simp only [sstepBack]
      split
      · exact Or.inl rfl
      · simp only [backPush]
        split
        · exact Or.inl rfl
        · split
          · exact Or.inl rfl
          · cases hdel s b.target (SData.toJson b.newData) with
            | inl h => exact Or.inl h
            | inr h => obtain ⟨kvs, hj, he⟩ := h; exact Or.inr (Or.inr ⟨b, kvs, rfl, hj, he⟩)
    | pushTo c0 =>
      simp only [sstepBack]
      split
      · exact Or.inl rfl
      · cases hdel s c0 (SData.toJson b.newData) with
        | inl h => exact Or.inl h
        | inr h => obtain ⟨kvs, hj, he⟩ := h; exact Or.inr (Or.inr ⟨b, kvs, rfl, hj, he⟩)
    | query =>
      simp only [sstepBack]
      split <;> exact Or.inl rfl
    | keep h =>
      simp only [sstepBack]
      split
      · exact Or.inl rfl
      · split <;> exact Or.inl rfl
    | fromF c0 =>
      simp only [sstepBack]
      split <;> exact Or.inl rfl
    | _ => exact Or.inl rfl

/-- a handler statement writes at most the map of the connection its session addresses -/
theorem statement_writes_only_its_target (cfg : Cfg) (s : State V) (sess : Sess V) (kept : Option String)
    (op : SOp V) (c : Conn) (h : c ≠ stmtTarget sess op) :
    lget (sstep cfg s sess kept op).st.fronts c = lget s.fronts c := by
  rw [sstep_replay, replay_other]
  intro e he
  rw [sstep_evs_conn cfg s sess kept op e he]
  exact Ne.symm h

/-- inside the guard a session keeps addressing the connection it was created for -/
theorem target_stable (cfg : Cfg) (s : State V) (sess : Sess V) (kept : Option String) (op : SOp V)
    (hs : Inv true s) (hse : SessInv true sess) (hn : NodeSOp op) :
    (sstep cfg s sess kept op).sess.target = sess.target := by
  cases sess with
  | front c =>
    simp only [sstep, sstepFront]
    cases lget s.fronts c with
    | none => rfl
    | some m => cases op <;> rfl
  | back b =>
    have hb : BackInv true b := hse
    simp only [sstep]
    cases op with
    | push =>
      simp only [sstepBack]
      split
      · rfl
      · simp only [backPush]
        split
        · rfl
        · split <;> rfl
    | pushNW =>
      simp only [sstepBack]
      split
      · rfl
      · simp only [backPush]
        split
        · rfl
        · split <;> rfl
    | query =>
      simp only [sstepBack]
      split
      · rfl
      · simp only [backQuery]
        split
        · rfl
        · split
          · rfl
          · next m hm => rw [fromJson_live hb (hs.fronts _ _ hm)]; rfl
    | keep h =>
      simp only [sstepBack]
      split
      · rfl
      · split <;> rfl
    | pushTo c => exact absurd hn (by simp [NodeSOp])
    | fromF c => exact absurd hn (by simp [NodeSOp])
    | fromRaw => exact absurd hn (by simp [NodeSOp])
    | updRaw => exact absurd hn (by simp [NodeSOp])
    | _ => rfl

/-- hence a whole handler run inside the guard writes only the connection of its session -/
theorem handler_writes_only_its_connection (cfg : Cfg) (sc : List (SOp V)) :
    ∀ (s : State V) (sess : Sess V) (kept : Option String), Inv true s → SessInv true sess →
      GuardScript true sc → (∀ op ∈ sc, NodeSOp op) →
      ∀ e ∈ (runScript cfg s sess kept sc).evs, e.conn = sess.target := by
  induction sc with
  | nil => intro s sess kept _ _ _ _ e he; simp [runScript] at he
  | cons op ops ih =>
    intro s sess kept hs hse hg hn e he
    simp only [runScript, List.mem_append] at he
    have hi := sstep_inv cfg kept hs hse (hg op (by simp))
    have ht := target_stable cfg s sess kept op hs hse (hn op (by simp))
    cases he with
    | inl h =>
      rw [sstep_evs_conn cfg s sess kept op e h]
      exact stmtTarget_node sess op (hn op (by simp))
    | inr h =>
      rw [← ht]
      exact ih _ _ _ hi.1 hi.2 (fun o ho => hg o (by simp [ho])) (fun o ho => hn o (by simp [ho])) e h

/-- … and at the end of the run — e.g. when it is resumed after an asynchronous step and goes on
with the session it was given — the session object still addresses that same connection: a
handler's session operations land on the connection whose request it is handling -/
theorem session_keeps_its_connection (cfg : Cfg) (sc : List (SOp V)) :
    ∀ (s : State V) (sess : Sess V) (kept : Option String), Inv true s → SessInv true sess →
      GuardScript true sc → (∀ op ∈ sc, NodeSOp op) →
      (runScript cfg s sess kept sc).sess.target = sess.target := by
  induction sc with
  | nil => intro s sess kept _ _ _ _; rfl
  | cons op ops ih =>
    intro s sess kept hs hse hg hn
    have hi := sstep_inv cfg kept hs hse (hg op (by simp))
    have ht := target_stable cfg s sess kept op hs hse (hn op (by simp))
    simp only [runScript]
    rw [ih _ _ _ hi.1 hi.2 (fun o ho => hg o (by simp [ho])) (fun o ho => hn o (by simp [ho])), ht]

/-- a push the handler does not wait for has exactly the effect of an awaited one, at once: it is
on the back→front channel before anything the handler sends afterwards (its answer), so what a
handler pushed before it answered is in the connection's map when the answer is relayed -/
theorem push_without_waiting_is_delivered_at_once (cfg : Cfg) (s : State V) (b : Back V) (kept : Option String) :
    (sstep cfg s (.back b) kept .pushNW).st = (sstep cfg s (.back b) kept .push).st ∧
    (sstep cfg s (.back b) kept .pushNW).sess = (sstep cfg s (.back b) kept .push).sess ∧
    (sstep cfg s (.back b) kept .pushNW).evs = (sstep cfg s (.back b) kept .push).evs := by
  simp only [sstep, sstepBack]
  split <;> exact ⟨rfl, rfl, rfl⟩

/-- a client message handled inside the guard — front-local or forwarded — changes no other
connection's map -/
theorem request_touches_only_its_connection (cfg : Cfg) (s : State V) (c c' : Conn) (svcType : String)
    (ntf : Bool) (script : List (SOp V)) (hs : Inv true s) (hg : GuardScript true script)
    (hn : ∀ op ∈ script, NodeSOp op) (hc : c' ≠ c) :
    lget (step cfg s (.req c svcType ntf script)).st.fronts c' = lget s.fronts c' := by
  apply other_sessions_untouched
  intro e he
  have hec : e.conn = c := by
    simp only [step, stepReq] at he
    split at he
    · simp at he
    · split at he
      · simp at he
      · split at he
        · exact handler_writes_only_its_connection cfg script s (.front c) none hs (by trivial) hg hn e he
        · split at he
          · simp at he
          · split at he
            · simp at he
            · split at he
              · simp at he
              · simp only [List.mem_cons] at he
                cases he with
                | inl h => subst h; rfl
                | inr h =>
                  exact handler_writes_only_its_connection cfg script s (.back (Back.init _ c.1 c.2 _)) none hs
                    (backInv_init true _ _ _ _) hg hn e h
  rw [hec]
  exact Ne.symm hc

/-! ## 7. forwarding carries the current identity and routes by the merged map -/

/-- a client message of a live connection for another service type is handed to the instance
the rule computes from the connection's CURRENT map, with a fresh back-end session carrying
the currently bound uid, the front's name and the connection id (envelope `ID`, `FrontId`,
`SessionId`) -/
theorem forward_carries_current (cfg : Cfg) (s : State V) (c : Conn) (m : AL V) (svcType : String) (ntf : Bool)
    (script : List (SOp V)) (uid : String)
    (hm : lget s.fronts c = some m) (hf : cfg.isFront c.1 = true) (hty : cfg.typeOf c.1 ≠ some svcType)
    (hroute : s.memberType cfg (routeName cfg m svcType) = some svcType) (hid : frontGetID m = some uid) :
    let inst := routeName cfg m svcType
    let b : Back V := Back.init inst c.1 c.2 uid
    let t := runScript cfg s (.back b) none script
    step cfg s (.req c svcType ntf script) =
      ⟨storeKept t.st t.sess t.kept,
       .ran inst (some ⟨uid, c.1, c.2⟩) t.res (if ntf then .none else .ok),
       Ev.fwd c inst uid c.1 c.2 :: t.evs⟩ ∧
    b.target = c ∧ b.getID = some uid ∧ b.ns = inst := by
  refine ⟨?_, rfl, ?_, rfl⟩
  · simp [step, stepReq, hm, hf, hty, hroute, hid]
  · simp [Back.getID, Back.get?, Back.init, lget_lset_same, LawfulJVal.asStr_str]

/-- no instance named by the rule: nothing runs, a request gets an error response -/
theorem forward_no_target (cfg : Cfg) (s : State V) (c : Conn) (m : AL V) (svcType : String) (ntf : Bool)
    (script : List (SOp V))
    (hm : lget s.fronts c = some m) (hf : cfg.isFront c.1 = true) (hty : cfg.typeOf c.1 ≠ some svcType)
    (hroute : s.memberType cfg (routeName cfg m svcType) = none) :
    step cfg s (.req c svcType ntf script) = ⟨s, .noTarget (if ntf then .none else .err), []⟩ := by
  simp [step, stepReq, hm, hf, hty, hroute]

/-- routing sees the merged map: after a push whose payload carries the route key, the rule
reads the pushed (normalised) value, whatever the map held before -/
theorem routing_sees_merged_map (cfg : Cfg) (m nd : AL V) (svcType : String) (rk : Key) (v : V)
    (hrk : lget cfg.routeKey svcType = some rk) (hnd : (keys nd).Nodup) (hrep : allRep nd)
    (hv : lget nd rk = some v) :
    routeName cfg (SData.updateFromJson m (SData.toJson nd)) svcType = (JVal.asStr (JVal.norm v)).getD "" := by
  simp only [routeName, hrk]
  rw [push_merges_keywise m nd rk hnd hrep, hv]
  rfl

/-- binding sees the merged map too: after a push carrying `_ID = uid` the envelope of the
next forwarded message carries `uid` -/
theorem envelope_sees_pushed_uid (m nd : AL V) (uid : String) (hnd : (keys nd).Nodup) (hrep : allRep nd)
    (hv : lget nd KeyUId = some (JVal.str uid)) :
    frontGetID (SData.updateFromJson m (SData.toJson nd)) = some uid := by
  simp only [frontGetID]
  rw [push_merges_keywise m nd KeyUId hnd hrep, hv]
  simp [LawfulJVal.asStr_norm_str]

/-- the two together, as operations: right after a dirty session pushed a route key to its live
connection, the connection's next message for that service type is handled by the instance
the PUSHED value names, whatever the map said before -/
theorem next_request_follows_push (cfg : Cfg) (s : State V) (b : Back V) (m kvs : AL V) (svcType : String) (rk : Key)
    (v : V) (inst uid : String) (ntf : Bool) (script : List (SOp V))
    (hb : BackInv true b) (hd : b.dirt = true) (hf : s.reach cfg b.serverId = true)
    (hm : lget s.fronts b.target = some m) (hj : SData.toJson b.newData = some kvs)
    (hrk : lget cfg.routeKey svcType = some rk) (hv : lget b.newData rk = some v)
    (hinst : JVal.asStr (JVal.norm v) = some inst) (hty : s.memberType cfg inst = some svcType)
    (hfty : cfg.typeOf b.serverId ≠ some svcType) (huid : frontGetID (amerge m kvs) = some uid) :
    ∃ rs, (step cfg (backPush cfg s b).1 (.req b.target svcType ntf script)).obs =
      .ran inst (some ⟨uid, b.serverId, b.netId⟩) rs (if ntf then .none else .ok) := by
  have hp := backPush_live cfg s b m kvs hd hf hm hj
  have hm' : lget (backPush cfg s b).1.fronts b.target = some (amerge m kvs) := by
    rw [hp]; simp [lget_lset_same]
  have hr : routeName cfg (amerge m kvs) svcType = inst := by
    have h := routing_sees_merged_map cfg m b.newData svcType rk v hrk hb.ndN (hb.repN rfl) hv
    rw [hj] at h
    simp only [SData.updateFromJson] at h
    rw [h, hinst]; rfl
  subst hr
  have hfr : cfg.isFront b.serverId = true := by
    have := hf; simp only [State.reach, Bool.and_eq_true] at this; exact this.1
  have hty' : (backPush cfg s b).1.memberType cfg (routeName cfg (amerge m kvs) svcType) = some svcType := by
    rw [hp]; exact hty
  have hfc := forward_carries_current cfg (backPush cfg s b).1 b.target (amerge m kvs) svcType ntf script uid hm'
    hfr hfty hty' huid
  exact ⟨_, congrArg StepR.obs hfc.1⟩

/-! ## 8. dead connections -/

/-- pushing to a connection that no longer exists has no effect on any map and succeeds -/
theorem push_to_dead_noop (cfg : Cfg) (s : State V) (b : Back V) (hdead : lget s.fronts b.target = none) :
    (backPush cfg s b).1 = s ∧ (backPush cfg s b).2.2.2 = [] ∧
      (s.reach cfg b.serverId = true → (backPush cfg s b).2.2.1 = Res.ok) := by
  simp only [backPush]
  split
  · simp
  · split
    · next h => simp at h; simp [h]
    · simp [deliver, hdead]

/-- querying it reports an error and changes neither the session object nor any map -/
theorem query_dead_errors (cfg : Cfg) (s : State V) (b : Back V) (hdead : lget s.fronts b.target = none) :
    backQuery cfg s b = (b, Res.err) := by
  simp only [backQuery]
  split
  · rfl
  · simp [hdead]

/-- as whole statements: neither disturbs any session (the state is unchanged) -/
theorem dead_statements_change_nothing (cfg : Cfg) (s : State V) (b : Back V) (kept : Option String)
    (hdead : lget s.fronts b.target = none) :
    (sstep cfg s (.back b) kept .push).st = s ∧ (sstep cfg s (.back b) kept .query).st = s ∧
      (b.ns ≠ "" → (sstep cfg s (.back b) kept .query).res = Res.err) := by
  refine ⟨?_, ?_, ?_⟩
  · simp only [sstep, sstepBack]
    split
    · rfl
    · exact (push_to_dead_noop cfg s b hdead).1
  · simp only [sstep, sstepBack]
    split <;> rfl
  · intro hns
    have : ¬ b.ns = "" := hns
    simp [sstep, sstepBack, this, query_dead_errors cfg s b hdead]

/-! ## 9. reachability depends on cluster membership only, never on the node state -/

/-- a front-end is reachable for push / query exactly when it is a known front-end and a
cluster member; the node state it is published with is not consulted -/
theorem reach_iff_member (cfg : Cfg) (s : State V) (name : String) :
    s.reach cfg name = true ↔ cfg.isFront name = true ∧ name ∉ s.away := by
  simp [State.reach]

/-- forget the node states a topology update publishes -/
def eraseStates : Op V → Op V
  | .topo away _ => .topo away []
  | op => op

/-- over ALL histories: the node states (Init / Working / Retiring / Retired) the members are
published with change nothing — final state and every event are the same as if every member
were published Working.  So a session bound on a front-end stays reachable through its
(serverId, netId) as long as the front-end is a cluster member, whatever its node state. -/
theorem node_state_irrelevant (cfg : Cfg) (ops : List (Op V)) (s : State V) :
    run cfg s (ops.map eraseStates) = run cfg s ops := by
  induction ops generalizing s with
  | nil => rfl
  | cons op ops ih =>
    have h : step cfg s (eraseStates op) = step cfg s op := by cases op <;> rfl
    simp only [List.map_cons, run, h, ih]

/-- per operation, observations included -/
theorem node_state_irrelevant_step (cfg : Cfg) (s : State V) (away : List String) (st1 st2 : List (String × Nat))
    (op : Op V) :
    step cfg s (.topo away st1) = step cfg s (.topo away st2) ∧
    step cfg (step cfg s (.topo away st1)).st op = step cfg (step cfg s (.topo away st2)).st op :=
  ⟨rfl, rfl⟩

/-- a front-end that left the cluster view is not reachable: a dirty push reports an error,
a query too, no map changes -/
theorem away_front_unreachable (cfg : Cfg) (s : State V) (b : Back V) (h : b.serverId ∈ s.away) (hd : b.dirt = true) :
    (backPush cfg s b).1 = s ∧ (backPush cfg s b).2.2.1 = Res.err ∧ backQuery cfg s b = (b, Res.err) := by
  have hr : s.reach cfg b.serverId = false := by simp [State.reach, h]
  simp [backPush, backQuery, hr, hd]

/-! ## non-vacuity: the hypotheses are met by concrete runs of the driver's instance -/

section Examples

def cfgX : Cfg :=
  { services := [("gate-1", "gate", true), ("chat-1", "chat", false), ("chat-2", "chat", false)]
    routeKey := [("chat", "chatid")] }

def c1 : Conn := ("gate-1", 1)

/-- a front-local handler picks chat-1; a back-end handler there re-homes the connection to
chat-2 and binds a uid (set · bind · query · push — the D16 order); the next message is routed
to chat-2 and carries the uid; a large int comes back normalised -/
def demo : List (Op Tok) :=
  [.openC "gate-1",
   .req c1 "gate" false [.set "chatid" (.str "chat-1" "chat-1")],
   .req c1 "chat" false [.set "chatid" (.str "chat-2" "chat-2"), .bind "u7", .set "n" (.other "i9007199254740993" "f9.007199254740992e+15" true),
                          .query, .push, .keep "h1"],
   .req c1 "chat" false [.query, .get "n"]]

example : ((run cfgX State.init demo).1.fronts.map (·.1)) = [c1] := by decide

example : (lget (run cfgX State.init demo).1.fronts c1).bind (fun m => lget m "chatid") = some (.str "chat-2" "chat-2") := by
  decide

example : (run cfgX State.init demo).2.filterMap (fun e => match e with
    | .fwd _ t id f n => some (t, id, f, n) | _ => none) = [("chat-1", "", "gate-1", 1), ("chat-2", "u7", "gate-1", 1)] := by
  decide

/-- the guard and the invariants hold of the demo history (so the guarded theorems apply to it) -/
example : ∀ op ∈ demo, GuardOp true op := by
  intro op h
  simp only [demo, List.mem_cons, List.mem_nil_iff, or_false] at h
  rcases h with rfl | rfl | rfl | rfl
  · trivial
  · intro o ho; simp only [List.mem_cons, List.mem_nil_iff, or_false] at ho; subst ho; intro _; decide
  · intro o ho
    simp only [List.mem_cons, List.mem_nil_iff, or_false] at ho
    rcases ho with rfl | rfl | rfl | rfl | rfl | rfl <;> first | trivial | (intro _; decide)
  · intro o ho
    simp only [List.mem_cons, List.mem_nil_iff, or_false] at ho
    rcases ho with rfl | rfl <;> trivial

/-- the front published Retiring, then Retired: the kept session still queries and pushes; gone from the view: error -/
example : (lget (run cfgX State.init (demo ++ [.topo [] [("gate-1", 2)]])).1.handles "h1").map
      (fun b => (backQuery cfgX (run cfgX State.init (demo ++ [.topo [] [("gate-1", 2)]])).1 b).2) = some Res.ok ∧
    (lget (run cfgX State.init (demo ++ [.topo ["gate-1"] []])).1.handles "h1").map
      (fun b => (backQuery cfgX (run cfgX State.init (demo ++ [.topo ["gate-1"] []])).1 b).2) = some Res.err := by
  decide

/-- dead connection: the kept session pushes and queries after the close -/
def sDead : State Tok := (run cfgX State.init (demo ++ [.closeC c1])).1

example : (lget sDead.handles "h1").map (fun b => (backPush cfgX sDead (b.set "z" (.other "i1" "f1" true))).1.fronts) = some [] ∧
    (lget sDead.handles "h1").map (fun b => (backQuery cfgX sDead b).2) = some Res.err := by
  decide

/-- D16 before the fix, on the same objects: set · query(pre-fix) · push sends nothing -/
def bD16 : Back Tok := (Back.init "chat-1" "gate-1" 1 "").set "k" (.other "i5" "f5" true)
def sD16 : State Tok := { next := [], fronts := [(c1, frontNew c1)], handles := [] }
def bD16pre : Back Tok := (bD16.fromJsonPre (SData.toJson (frontNew c1 : AL Tok))).1
def bD16fix : Back Tok := (bD16.fromJson (SData.toJson (frontNew c1 : AL Tok))).1

example : bD16.dirt = true ∧ bD16pre.dirt = false ∧ (backPush cfgX sD16 bD16pre).1.fronts = sD16.fronts ∧
    (backPush cfgX sD16 bD16pre).2.2.1 = Res.ok ∧
    -- repaired: the same sequence delivers
    (lget (backPush cfgX sD16 bD16fix).1.fronts c1).bind (fun m' => lget m' "k") = some (.other "f5" "f5" true) := by
  decide

end Examples

end Cell2v.Props.C10
