import Cell2v.Lemmas.SessionData
/-!
# C10 — session data set by any service is what routing and later handlers see

Property theorems over the model `Cell2v.SessionData` (tied to the Go code by the
differential run of `bin/check C10`).  Values are abstract (`LawfulJVal`): `norm` is the
JSON round trip, assumed idempotent and the identity on (valid-UTF-8) strings and on
connection ids; every theorem holds for every such value type.

Guard (stated explicitly where used, `GuardOp true`): handlers never `Set` the reserved keys
`_ServerId` / `_NetId` and only set JSON-representable values.  Outside it the real code
type-asserts and panics inside a recovered task (exercised by the harness's `u.` stream,
recorded, not compared).
-/
namespace Cell2v.Props.C10
open Cell2v.SessionData

variable {V : Type} [LawfulJVal V]

/-! ## 1. a push merges key by key -/

/-- `ClientSessions.PushSession` of a session's NewData: every pushed key gets the normalised
pushed value, every other key keeps what it had. -/
theorem push_merges_keywise (m nd : AL V) (k : Key) (hnd : (keys nd).Nodup) (hrep : allRep nd) :
    lget (SData.updateFromJson m (SData.toJson nd)) k =
      match lget nd k with
      | some v => some (JVal.norm v)
      | none => lget m k := by
  have hj := toJson_eq_some hnd hrep
  have hk : (keys (nd.map fun e => (e.1, (JVal.norm e.2 : V)))).Nodup := by rw [keys_map_val]; exact hnd
  rw [hj]
  simp only [SData.updateFromJson]
  rw [lget_amerge _ _ _ hk, lget_map_val]
  cases lget nd k <;> rfl

omit [LawfulJVal V] in
/-- a payload that can not be marshalled (or is not a JSON object) changes nothing -/
theorem push_unrepresentable_noop (m : AL V) : SData.updateFromJson m none = m := rfl

omit [LawfulJVal V] in
/-- later pushes win per key: whatever was pushed before, after pushing `p` the key `k ∈ p`
holds `p`'s value -/
theorem later_push_wins (m : AL V) (ps : List (AL V)) (p : AL V) (k : Key) (v : V)
    (hp : (keys p).Nodup) (hk : lget p k = some v) :
    lget ((ps ++ [p]).foldl amerge m) k = some v := by
  rw [List.foldl_append]
  simp only [List.foldl_cons, List.foldl_nil]
  rw [lget_amerge _ _ _ hp, hk]

omit [LawfulJVal V] in
/-- untouched keys persist: a key no push mentions keeps its value through any number of pushes -/
theorem untouched_keys_persist (m : AL V) (ps : List (AL V)) (k : Key)
    (h : ∀ p ∈ ps, k ∉ keys p) : lget (ps.foldl amerge m) k = lget m k := by
  induction ps generalizing m with
  | nil => rfl
  | cons p ps ih =>
    simp only [List.foldl_cons]
    rw [ih _ (fun q hq => h q (by simp [hq])), lget_amerge_of_not_mem _ _ (h p (by simp))]

/-! ## 2. a query returns the whole map -/

/-- inside the guard a query of a live connection merges the whole normalised map into Data
and succeeds -/
theorem backQuery_live (cfg : Cfg) (s : State V) (b : Back V) (m : AL V)
    (hs : Inv true s) (hb : BackInv true b) (hf : s.reach cfg b.serverId = true)
    (hm : lget s.fronts b.target = some m) :
    backQuery cfg s b = ({ b with data := amerge b.data (m.map fun e => (e.1, JVal.norm e.2)) }, Res.ok) := by
  simp [backQuery, hf, hm, fromJson_live hb (hs.fronts _ _ hm)]

/-- `sys.querysession` + `BackSession.FromJson` for a live connection inside the guard: the
session afterwards holds, for EVERY key of the front map, the normalised value (unless it
has a locally set value for that key, which `Get` prefers); nothing else of it changes. -/
theorem query_returns_whole_map (cfg : Cfg) (s : State V) (b : Back V) (m : AL V)
    (hs : Inv true s) (hb : BackInv true b) (hf : s.reach cfg b.serverId = true)
    (hm : lget s.fronts b.target = some m) :
    (backQuery cfg s b).2 = Res.ok ∧ (backQuery cfg s b).1.target = b.target ∧
    (backQuery cfg s b).1.newData = b.newData ∧ (backQuery cfg s b).1.dirt = b.dirt ∧
    (∀ k v, lget m k = some v → lget (backQuery cfg s b).1.data k = some (JVal.norm v)) ∧
    (∀ k v, lget m k = some v → lget b.newData k = none → (backQuery cfg s b).1.get? k = some (JVal.norm v)) := by
  have hmi := hs.fronts _ _ hm
  have hk : (keys (m.map fun e => (e.1, (JVal.norm e.2 : V)))).Nodup := by rw [keys_map_val]; exact hmi.nd
  rw [backQuery_live cfg s b m hs hb hf hm]
  refine ⟨rfl, rfl, rfl, rfl, ?_, ?_⟩
  · intro k v hkv
    show lget (amerge b.data _) k = _
    rw [lget_amerge _ _ _ hk, lget_map_val, hkv]; rfl
  · intro k v hkv hn
    show (match lget b.newData k with | some v => some v | none => lget (amerge b.data _) k) = _
    rw [hn]
    show lget (amerge b.data _) k = _
    rw [lget_amerge _ _ _ hk, lget_map_val, hkv]; rfl

/-- values that went through a push are already normal: a query hands them back unchanged -/
theorem pushed_then_queried_is_stable (v : V) : JVal.norm (JVal.norm v) = JVal.norm v :=
  LawfulJVal.norm_idem v

/-! ## 3. Get prefers what the handler set itself -/

omit [LawfulJVal V] in
theorem get_prefers_local (b : Back V) (k : Key) (v : V) : (b.set k v).get? k = some v := by
  simp [Back.get?, Back.set, lget_lset_same]

/-- … and keeps preferring it through queries and pushes (NewData is only written by `Set`) -/
theorem get_prefers_local_persists (cfg : Cfg) (s : State V) (b : Back V) (k : Key) (v : V)
    (h : lget b.newData k = some v) :
    (backQuery cfg s b).1.get? k = some v ∧ (backPush cfg s b).2.1.get? k = some v := by
  constructor
  · have hn : (backQuery cfg s b).1.newData = b.newData := by
      simp only [backQuery]
      split
      · rfl
      · split
        · rfl
        · exact (fromJson_fields b _).1
    simp [Back.get?, hn, h]
  · have hn : (backPush cfg s b).2.1.newData = b.newData := by
      simp only [backPush]
      split
      · rfl
      · split <;> rfl
    simp [Back.get?, hn, h]

/-! ## 4. the dirty flag (defect D16, repaired by 9c7adaf) -/

/-- a query never clears the dirty flag -/
theorem query_keeps_dirty (cfg : Cfg) (s : State V) (b : Back V) : (backQuery cfg s b).1.dirt = b.dirt := by
  simp only [backQuery]
  split
  · rfl
  · split
    · rfl
    · exact (fromJson_fields b _).2.1

/-- a dirty session pushing to its live connection: the whole NewData is merged, key by key -/
theorem backPush_live (cfg : Cfg) (s : State V) (b : Back V) (m kvs : AL V)
    (hd : b.dirt = true) (hf : s.reach cfg b.serverId = true)
    (hm : lget s.fronts b.target = some m) (hj : SData.toJson b.newData = some kvs) :
    backPush cfg s b =
      ({ s with fronts := lset s.fronts b.target (amerge m kvs) }, { b with dirt := false }, Res.ok,
        [Ev.write b.target kvs]) := by
  simp [backPush, hd, hf, deliver, hm, hj]

/-- set · query · push (the D16 sequence) delivers the value: afterwards the connection's map
holds the normalised value under the key -/
theorem set_query_push_delivers (cfg : Cfg) (s : State V) (b : Back V) (m : AL V) (k : Key) (v : V)
    (hs : Inv true s) (hb : BackInv true b) (hns : b.ns ≠ "") (hf : s.reach cfg b.serverId = true)
    (hm : lget s.fronts b.target = some m)
    (hk : k ≠ KeyServerId ∧ k ≠ KeyNetId) (hv : JVal.rep v = true) :
    (lget (runScript cfg s (.back b) none [.set k v, .query, .push]).st.fronts b.target).bind
      (fun m' => lget m' k) = some (JVal.norm v) := by
  have hb1 : BackInv true (b.set k v) := backInv_set hb (fun _ => ⟨hk.1, hk.2, hv⟩)
  have hns' : ¬ (b.set k v).ns = "" := hns
  have hq := backQuery_live cfg s (b.set k v) m hs hb1 hf hm
  have hj := toJson_eq_some hb1.ndN (hb1.repN rfl)
  have hkk : (keys ((b.set k v).newData.map fun e => (e.1, (JVal.norm e.2 : V)))).Nodup := by
    rw [keys_map_val]; exact hb1.ndN
  have hp := backPush_live cfg s { b.set k v with data := amerge (b.set k v).data (m.map fun e => (e.1, JVal.norm e.2)) }
    m _ rfl hf hm hj
  have e1 : sstep cfg s (.back b) none (.set k v) = ⟨s, .back (b.set k v), none, .ok, []⟩ := rfl
  have e2 : sstep cfg s (.back (b.set k v)) none .query =
      ⟨s, .back { b.set k v with data := amerge (b.set k v).data (m.map fun e => (e.1, JVal.norm e.2)) }, none, .ok, []⟩ := by
    simp only [sstep, sstepBack, hns', if_false, hq]
  have e3 : (sstep cfg s (.back { b.set k v with data := amerge (b.set k v).data (m.map fun e => (e.1, JVal.norm e.2)) }) none .push).st =
      { s with fronts := lset s.fronts b.target (amerge m ((b.set k v).newData.map fun e => (e.1, JVal.norm e.2))) } := by
    have hns'' : ¬ ({ b.set k v with data := amerge (b.set k v).data (m.map fun e => (e.1, JVal.norm e.2)) } : Back V).ns = "" := hns
    simp only [sstep, sstepBack, hns'', if_false, hp]
    rfl
  simp only [runScript, e1, e2, e3, lget_lset_same, Option.bind_some]
  rw [lget_amerge _ _ _ hkk, lget_map_val]
  show (match (lget (lset b.newData k v) k).map JVal.norm with | some v => some v | none => lget m k) = _
  rw [lget_lset_same]; rfl

/-- statements that only read: `Get`, `GetID`, `ToJson`, `QuerySession` -/
def Quiet : SOp V → Prop
  | .get _ | .query | .json | .id => True
  | _ => False

/-- the general form: a value set on a session survives ANY number of reads and queries and is
delivered by the next push — the connection's map then holds its normalised form -/
theorem pending_survives_reads (cfg : Cfg) (mid : List (SOp V)) :
    ∀ (s : State V) (b : Back V) (m : AL V) (k : Key) (v : V) (kept : Option String),
      Inv true s → BackInv true b → b.ns ≠ "" → s.reach cfg b.serverId = true →
      lget s.fronts b.target = some m → b.dirt = true → lget b.newData k = some v → (∀ op ∈ mid, Quiet op) →
      (lget (runScript cfg s (.back b) kept (mid ++ [.push])).st.fronts b.target).bind (fun m' => lget m' k)
        = some (JVal.norm v) := by
  induction mid with
  | nil =>
    intro s b m k v kept hs hb hns hf hm hd hk _
    have hns' : ¬ b.ns = "" := hns
    have hj := toJson_eq_some hb.ndN (hb.repN rfl)
    have hkk : (keys (b.newData.map fun e => (e.1, (JVal.norm e.2 : V)))).Nodup := by
      rw [keys_map_val]; exact hb.ndN
    have hp := backPush_live cfg s b m _ hd hf hm hj
    simp only [List.nil_append, runScript, sstep, sstepBack, hns', if_false, hp, lget_lset_same, Option.bind_some]
    rw [lget_amerge _ _ _ hkk, lget_map_val, hk]; rfl
  | cons op mid ih =>
    intro s b m k v kept hs hb hns hf hm hd hk hq
    have hq' : ∀ o ∈ mid, Quiet o := fun o ho => hq o (by simp [ho])
    have hop := hq op (by simp)
    have hns' : ¬ b.ns = "" := hns
    cases op with
    | get k' => exact ih s b m k v kept hs hb hns hf hm hd hk hq'
    | json => exact ih s b m k v kept hs hb hns hf hm hd hk hq'
    | id => exact ih s b m k v kept hs hb hns hf hm hd hk hq'
    | query =>
      have hql := backQuery_live cfg s b m hs hb hf hm
      have hbi : BackInv true ({ b with data := amerge b.data (m.map fun e => (e.1, JVal.norm e.2)) } : Back V) := by
        have := backInv_fromJson hb (fun hg' => (hs.fronts _ _ hm).rep hg') (m := m)
        rw [fromJson_live hb (hs.fronts _ _ hm)] at this
        exact this
      have h2 := ih s { b with data := amerge b.data (m.map fun e => (e.1, JVal.norm e.2)) } m k v kept hs hbi hns hf hm hd hk hq'
      have ht : ({ b with data := amerge b.data (m.map fun e => (e.1, JVal.norm e.2)) } : Back V).target = b.target := rfl
      rw [ht] at h2
      simpa only [List.cons_append, runScript, sstep, sstepBack, hns', if_false, hql] using h2
    | _ => exact absurd hop (by simp [Quiet])

/-- setting a key AGAIN to the value the session already holds for it still marks the session
dirty and the next push still delivers it (NewData is the session's memory, not the front's
state: another service may have overwritten the key meanwhile) — the later push wins -/
theorem reset_same_value_still_pushed (cfg : Cfg) (s : State V) (b : Back V) (m : AL V) (k : Key) (v : V)
    (hb : BackInv true b) (hf : s.reach cfg b.serverId = true) (hm : lget s.fronts b.target = some m)
    (hk : k ≠ KeyServerId ∧ k ≠ KeyNetId) (hv : JVal.rep v = true) (_hold : lget b.newData k = some v) :
    (b.set k v).dirt = true ∧
    (lget (backPush cfg s (b.set k v)).1.fronts b.target).bind (fun m' => lget m' k) = some (JVal.norm v) := by
  have hb1 : BackInv true (b.set k v) := backInv_set hb (fun _ => ⟨hk.1, hk.2, hv⟩)
  have hj := toJson_eq_some hb1.ndN (hb1.repN rfl)
  have hkk : (keys ((b.set k v).newData.map fun e => (e.1, (JVal.norm e.2 : V)))).Nodup := by
    rw [keys_map_val]; exact hb1.ndN
  have hp := backPush_live cfg s (b.set k v) m _ rfl hf hm hj
  refine ⟨rfl, ?_⟩
  rw [hp]
  show (lget (lset s.fronts b.target _) b.target).bind _ = _
  rw [lget_lset_same]
  simp only [Option.bind_some]
  rw [lget_amerge _ _ _ hkk, lget_map_val]
  show (match (lget (lset b.newData k v) k).map JVal.norm with | some v => some v | none => lget m k) = _
  rw [lget_lset_same]; rfl

/-- the pre-fix `FromJson` cleared the flag … -/
theorem d16_prefix_query_clears_dirty (b : Back V) (j : Option (AL V)) (h : (b.fromJsonPre j).2 = false) :
    (b.fromJsonPre j).1.dirt = false := by
  unfold Back.fromJsonPre at *
  simp only at *
  by_cases hp : (b.fromJson j).2 = true
  · simp [hp] at h
  · simp [hp]

/-- … and a push of a session that is not dirty sends nothing and reports success: the values
set before the query were lost -/
theorem d16_push_not_dirty_sends_nothing (cfg : Cfg) (s : State V) (b : Back V) (h : b.dirt = false) :
    backPush cfg s b = (s, b, Res.ok, []) := by
  simp [backPush, h]

/-! ## 5. the state is the history: front map = left fold of the writes -/

/-- over ALL histories: the map of every connection is the replay of the events that concern
it — opened with the reserved keys, every delivered push / front-local set merged key by key
in order, gone when closed -/
theorem front_is_fold_of_writes (cfg : Cfg) (ops : List (Op V)) (c : Conn) :
    lget (run cfg vw State.init ops).1.fronts c = replay c none (run cfg vw State.init ops).2 := by
  have h := run_replay (vw := vw) cfg State.init ops c
  simpa [State.init] using h

/-- pushing to a live connection appends one merge to its history -/
theorem replay_write_last (c : Conn) (cur : Option (AL V)) (evs : List (Ev V)) (kvs : AL V) :
    replay c cur (evs ++ [Ev.write c kvs]) = (replay c cur evs).map (fun m => amerge m kvs) := by
  rw [replay_append]
  simp [replay, applyEv]

/-- the statement's wording over whole histories: if the history of a live connection `c`
contains a write (a delivered push or a front-local set) carrying `k = v`, and nothing after it
closes `c` or writes `k` on `c` again, then at the end `c` holds `v` under `k` — later writes
win per key, and keys a write does not mention persist through it -/
theorem latest_write_wins (cfg : Cfg) (ops : List (Op V)) (c : Conn) (pre post : List (Ev V)) (kvs : AL V)
    (k : Key) (v : V) (m0 : AL V)
    (hh : (run cfg vw State.init ops).2 = pre ++ Ev.write c kvs :: post)
    (hlive : replay c none pre = some m0) (hk : (keys kvs).Nodup) (hv : lget kvs k = some v)
    (hpost : ∀ e ∈ post, e.keeps c k) :
    ∃ m, lget (run cfg vw State.init ops).1.fronts c = some m ∧ lget m k = some v := by
  rw [front_is_fold_of_writes, hh, replay_append, hlive, replay_cons]
  simp only [applyEv, if_true, Option.map_some]
  obtain ⟨m', h1, h2⟩ := replay_keeps_key c k (amerge m0 kvs) post hpost
  exact ⟨m', h1, by rw [h2, lget_amerge _ _ _ hk, hv]⟩

/-- over ALL histories every map has unique keys (it is a Go map) -/
theorem maps_have_unique_keys (cfg : Cfg) (ops : List (Op V)) (c : Conn) (m : AL V)
    (h : lget (run cfg vw State.init ops).1.fronts c = some m) : (keys m).Nodup :=
  ((run_inv (g := false) cfg ops (inv_init false) (fun op _ => by
      cases op <;> first | trivial | (intro o _; cases o <;> first | trivial | (intro h; cases h)))).fronts c m h).nd

/-- reserved keys persist unless pushed: over all histories inside the guard, every live
connection still carries its front's name and its connection id, and everything stored is
JSON-representable -/
theorem reserved_keys_persist (cfg : Cfg) (ops : List (Op V)) (hg : ∀ op ∈ ops, GuardOp true op)
    (c : Conn) (m : AL V) (h : lget (run cfg vw State.init ops).1.fronts c = some m) :
    lget m KeyServerId = some (JVal.str c.1) ∧ lget m KeyNetId = some (JVal.net c.2) ∧ allRep m :=
  let i := (run_inv (g := true) cfg ops (inv_init true) hg).fronts c m h
  ⟨i.sid rfl, i.nid rfl, i.rep rfl⟩

/-! ## 6. frame: other sessions are untouched -/

/-- whatever an operation does, a connection none of its events names keeps its map (or stays dead) -/
theorem other_sessions_untouched (cfg : Cfg) (s : State V) (op : Op V) (c : Conn)
    (h : ∀ e ∈ (step cfg dr s op).evs, e.conn ≠ c) :
    lget (step cfg dr s op).st.fronts c = lget s.fronts c := by
  rw [step_replay, replay_other _ _ h]

/-- what a write event is: a front-local `Set`/`Bind` of one key, or the delivery of the whole
normalised NewData of a back-end session to the connection it addresses -/
theorem write_events_are_sets_and_pushes (cfg : Cfg) (s : State V) (sess : Sess V) (kept : Option String) (op : SOp V) :
    (sstep cfg s sess kept op).evs = [] ∨
    (∃ c k v, sess = .front c ∧ (sstep cfg s sess kept op).evs = [Ev.write c [(k, v)]]) ∨
    (∃ b kvs, sess = .back b ∧ SData.toJson b.newData = some kvs ∧
      (sstep cfg s sess kept op).evs = [Ev.write (stmtTarget sess op) kvs]) := by
  have hdel : ∀ (s : State V) (c : Conn) (j : Option (AL V)),
      (deliver s c j).2 = [] ∨ ∃ kvs, j = some kvs ∧ (deliver s c j).2 = [Ev.write c kvs] := by
    intro s c j
    unfold deliver
    cases lget s.fronts c with
    | none => exact Or.inl rfl
    | some m =>
      cases j with
      | none => exact Or.inl rfl
      | some kvs => exact Or.inr ⟨kvs, rfl, rfl⟩
  cases sess with
  | front c0 =>
    simp only [sstep, sstepFront]
    cases hm : lget s.fronts c0 with
    | none => exact Or.inl rfl
    | some m =>
      cases op with
      | set k v => exact Or.inr (Or.inl ⟨c0, k, v, rfl, rfl⟩)
      | bind uid => exact Or.inr (Or.inl ⟨c0, KeyUId, JVal.str uid, rfl, rfl⟩)
      | kick => simp only; split <;> exact Or.inl rfl
      | _ => exact Or.inl rfl
  | back b =>
    simp only [sstep]
    cases op with
    | push =>
      simp only [sstepBack]
      split
      · exact Or.inl rfl
      · simp only [backPush]
        split
        · exact Or.inl rfl
        · split
          · exact Or.inl rfl
          · cases hdel s b.target (SData.toJson b.newData) with
            | inl h => exact Or.inl h
            | inr h => obtain ⟨kvs, hj, he⟩ := h; exact Or.inr (Or.inr ⟨b, kvs, rfl, hj, he⟩)
    | pushNW =>
      simp only [sstepBack]
      split
      · exact Or.inl rfl
      · simp only [backPush]
        split
        · exact Or.inl rfl
        · split
          · exact Or.inl rfl
          · cases hdel s b.target (SData.toJson b.newData) with
            | inl h => exact Or.inl h
            | inr h => obtain ⟨kvs, hj, he⟩ := h; exact Or.inr (Or.inr ⟨b, kvs, rfl, hj, he⟩)
    | pushTo c0 =>
      simp only [sstepBack]
      split
      · exact Or.inl rfl
      · cases hdel s c0 (SData.toJson b.newData) with
        | inl h => exact Or.inl h
        | inr h => obtain ⟨kvs, hj, he⟩ := h; exact Or.inr (Or.inr ⟨b, kvs, rfl, hj, he⟩)
    | query =>
      simp only [sstepBack]
      split <;> exact Or.inl rfl
    | keep h =>
      simp only [sstepBack]
      split
      · exact Or.inl rfl
      · split <;> exact Or.inl rfl
    | fromF c0 =>
      simp only [sstepBack]
      split <;> exact Or.inl rfl
    | kick =>
      simp only [sstepBack]
      split <;> exact Or.inl rfl
    | clone h =>
      simp only [sstepBack]
      split
      · exact Or.inl rfl
      · split
        · exact Or.inl rfl
        · split <;> exact Or.inl rfl
    | _ => exact Or.inl rfl

/-- a handler statement writes at most the map of the connection its session addresses -/
theorem statement_writes_only_its_target (cfg : Cfg) (s : State V) (sess : Sess V) (kept : Option String)
    (op : SOp V) (c : Conn) (h : c ≠ stmtTarget sess op) :
    lget (sstep cfg s sess kept op).st.fronts c = lget s.fronts c := by
  rw [sstep_replay, replay_other]
  intro e he
  rw [sstep_evs_conn cfg s sess kept op e he]
  exact Ne.symm h

/-- inside the guard a session keeps addressing the connection it was created for -/
theorem target_stable (cfg : Cfg) (s : State V) (sess : Sess V) (kept : Option String) (op : SOp V)
    (hs : Inv true s) (hse : SessInv true sess) (hn : NodeSOp op) :
    (sstep cfg s sess kept op).sess.target = sess.target := by
  cases sess with
  | front c =>
    simp only [sstep, sstepFront]
    cases lget s.fronts c with
    | none => rfl
    | some m => cases op <;> first | rfl | (simp only; split <;> rfl)
  | back b =>
    have hb : BackInv true b := hse
    simp only [sstep]
    cases op with
    | push =>
      simp only [sstepBack]
      split
      · rfl
      · simp only [backPush]
        split
        · rfl
        · split <;> rfl
    | pushNW =>
      simp only [sstepBack]
      split
      · rfl
      · simp only [backPush]
        split
        · rfl
        · split <;> rfl
    | query =>
      simp only [sstepBack]
      split
      · rfl
      · simp only [backQuery]
        split
        · rfl
        · split
          · rfl
          · next m hm => rw [fromJson_live hb (hs.fronts _ _ hm)]; rfl
    | keep h =>
      simp only [sstepBack]
      split
      · rfl
      · split <;> rfl
    | pushTo c => exact absurd hn (by simp [NodeSOp])
    | fromF c => exact absurd hn (by simp [NodeSOp])
    | fromRaw => exact absurd hn (by simp [NodeSOp])
    | updRaw => exact absurd hn (by simp [NodeSOp])
    | kick =>
      simp only [sstepBack]
      split <;> rfl
    | clone h =>
      simp only [sstepBack]
      split
      · rfl
      · split
        · rfl
        · split <;> rfl
    | _ => rfl

/-- hence a whole handler run inside the guard writes only the connection of its session -/
theorem handler_writes_only_its_connection (cfg : Cfg) (sc : List (SOp V)) :
    ∀ (s : State V) (sess : Sess V) (kept : Option String), Inv true s → SessInv true sess →
      GuardScript true sc → (∀ op ∈ sc, NodeSOp op) →
      ∀ e ∈ (runScript cfg s sess kept sc).evs, e.conn = sess.target := by
  induction sc with
  | nil => intro s sess kept _ _ _ _ e he; simp [runScript] at he
  | cons op ops ih =>
    intro s sess kept hs hse hg hn e he
    simp only [runScript, List.mem_append] at he
    have hi := sstep_inv cfg kept hs hse (hg op (by simp))
    have ht := target_stable cfg s sess kept op hs hse (hn op (by simp))
    cases he with
    | inl h =>
      rw [sstep_evs_conn cfg s sess kept op e h]
      exact stmtTarget_node sess op (hn op (by simp))
    | inr h =>
      rw [← ht]
      exact ih _ _ _ hi.1 hi.2 (fun o ho => hg o (by simp [ho])) (fun o ho => hn o (by simp [ho])) e h

/-- … and at the end of the run — e.g. when it is resumed after an asynchronous step and goes on
with the session it was given — the session object still addresses that same connection: a
handler's session operations land on the connection whose request it is handling -/
theorem session_keeps_its_connection (cfg : Cfg) (sc : List (SOp V)) :
    ∀ (s : State V) (sess : Sess V) (kept : Option String), Inv true s → SessInv true sess →
      GuardScript true sc → (∀ op ∈ sc, NodeSOp op) →
      (runScript cfg s sess kept sc).sess.target = sess.target := by
  induction sc with
  | nil => intro s sess kept _ _ _ _; rfl
  | cons op ops ih =>
    intro s sess kept hs hse hg hn
    have hi := sstep_inv cfg kept hs hse (hg op (by simp))
    have ht := target_stable cfg s sess kept op hs hse (hn op (by simp))
    simp only [runScript]
    rw [ih _ _ _ hi.1 hi.2 (fun o ho => hg o (by simp [ho])) (fun o ho => hn o (by simp [ho])), ht]

/-- a push the handler does not wait for has exactly the effect of an awaited one, at once: it is
on the back→front channel before anything the handler sends afterwards (its answer), so what a
handler pushed before it answered is in the connection's map when the answer is relayed -/
theorem push_without_waiting_is_delivered_at_once (cfg : Cfg) (s : State V) (b : Back V) (kept : Option String) :
    (sstep cfg s (.back b) kept .pushNW).st = (sstep cfg s (.back b) kept .push).st ∧
    (sstep cfg s (.back b) kept .pushNW).sess = (sstep cfg s (.back b) kept .push).sess ∧
    (sstep cfg s (.back b) kept .pushNW).evs = (sstep cfg s (.back b) kept .push).evs := by
  simp only [sstep, sstepBack]
  split <;> exact ⟨rfl, rfl, rfl⟩

/-- a client message handled inside the guard — front-local or forwarded — changes no other
connection's map -/
theorem request_touches_only_its_connection (cfg : Cfg) (s : State V) (c c' : Conn) (svcType : String)
    (ntf : Bool) (script : List (SOp V)) (hs : Inv true s) (hg : GuardScript true script)
    (hn : ∀ op ∈ script, NodeSOp op) (hc : c' ≠ c) :
    lget (step cfg dr s (.req c svcType ntf script)).st.fronts c' = lget s.fronts c' := by
  apply other_sessions_untouched
  intro e he
  have hec : e.conn = c := by
    simp only [step, stepReq] at he
    split at he
    · simp at he
    · split at he
      · simp at he
      · split at he
        · exact handler_writes_only_its_connection cfg script s (.front c) none hs (by trivial) hg hn e he
        · split at he
          · simp at he
          · split at he
            · simp at he
            · split at he
              · simp at he
              · simp only [List.mem_cons] at he
                cases he with
                | inl h => subst h; rfl
                | inr h =>
                  exact handler_writes_only_its_connection cfg script s (.back (Back.init _ c.1 c.2 _)) none hs
                    (backInv_init true _ _ _ _) hg hn e h
  rw [hec]
  exact Ne.symm hc

/-! ## 7. forwarding carries the current identity and routes by the merged map -/

/-- a client message of a live connection for another service type is handed to the instance
`RoutePID` names — the registered rule applied to the connection's CURRENT map, or, for a type without a
rule, the default route (first Working member of the type) — with a fresh back-end session carrying
the currently bound uid, the front's name and the connection id (envelope `ID`, `FrontId`,
`SessionId`) -/
theorem forward_carries_current (cfg : Cfg) (s : State V) (c : Conn) (m : AL V) (svcType : String) (ntf : Bool)
    (script : List (SOp V)) (uid : String)
    (hm : lget s.fronts c = some m) (hf : cfg.isFront c.1 = true) (hty : cfg.typeOf c.1 ≠ some svcType)
    (hroute : s.memberType cfg (targetName cfg dr m svcType) = some svcType) (hid : frontGetID m = some uid) :
    let inst := targetName cfg dr m svcType
    let b : Back V := Back.init inst c.1 c.2 uid
    let t := runScript cfg s (.back b) none script
    step cfg dr s (.req c svcType ntf script) =
      ⟨storeKept t.st t.sess t.kept,
       .ran inst (some ⟨uid, c.1, c.2⟩) t.res (if ntf then .none else .ok),
       Ev.fwd c inst uid c.1 c.2 :: t.evs⟩ ∧
    b.target = c ∧ b.getID = some uid ∧ b.ns = inst := by
  refine ⟨?_, rfl, ?_, rfl⟩
  · simp [step, stepReq, hm, hf, hty, hroute, hid]
  · simp [Back.getID, Back.get?, Back.init, lget_lset_same, LawfulJVal.asStr_str]

/-- no instance named by the rule: nothing runs, a request gets an error response -/
theorem forward_no_target (cfg : Cfg) (s : State V) (c : Conn) (m : AL V) (svcType : String) (ntf : Bool)
    (script : List (SOp V))
    (hm : lget s.fronts c = some m) (hf : cfg.isFront c.1 = true) (hty : cfg.typeOf c.1 ≠ some svcType)
    (hroute : s.memberType cfg (targetName cfg dr m svcType) = none) :
    step cfg dr s (.req c svcType ntf script) = ⟨s, .noTarget (if ntf then .none else .err), []⟩ := by
  simp [step, stepReq, hm, hf, hty, hroute]

/-- routing sees the merged map: after a push whose payload carries the route key, the rule
reads the pushed (normalised) value, whatever the map held before -/
theorem routing_sees_merged_map (cfg : Cfg) (m nd : AL V) (svcType : String) (rk : Key) (v : V)
    (hrk : lget cfg.routeKey svcType = some rk) (hnd : (keys nd).Nodup) (hrep : allRep nd)
    (hv : lget nd rk = some v) :
    routeName cfg (SData.updateFromJson m (SData.toJson nd)) svcType = (JVal.asStr (JVal.norm v)).getD "" := by
  simp only [routeName, hrk]
  rw [push_merges_keywise m nd rk hnd hrep, hv]
  rfl

/-- binding sees the merged map too: after a push carrying `_ID = uid` the envelope of the
next forwarded message carries `uid` -/
theorem envelope_sees_pushed_uid (m nd : AL V) (uid : String) (hnd : (keys nd).Nodup) (hrep : allRep nd)
    (hv : lget nd KeyUId = some (JVal.str uid)) :
    frontGetID (SData.updateFromJson m (SData.toJson nd)) = some uid := by
  simp only [frontGetID]
  rw [push_merges_keywise m nd KeyUId hnd hrep, hv]
  simp [LawfulJVal.asStr_norm_str]

/-- the two together, as operations: right after a dirty session pushed a route key to its live
connection, the connection's next message for that service type is handled by the instance
the PUSHED value names, whatever the map said before -/
theorem next_request_follows_push (cfg : Cfg) (s : State V) (b : Back V) (m kvs : AL V) (svcType : String) (rk : Key)
    (v : V) (inst uid : String) (ntf : Bool) (script : List (SOp V))
    (hb : BackInv true b) (hd : b.dirt = true) (hf : s.reach cfg b.serverId = true)
    (hm : lget s.fronts b.target = some m) (hj : SData.toJson b.newData = some kvs)
    (hrk : lget cfg.routeKey svcType = some rk) (hv : lget b.newData rk = some v)
    (hinst : JVal.asStr (JVal.norm v) = some inst) (hty : s.memberType cfg inst = some svcType)
    (hfty : cfg.typeOf b.serverId ≠ some svcType) (huid : frontGetID (amerge m kvs) = some uid) :
    ∃ rs, (step cfg dr (backPush cfg s b).1 (.req b.target svcType ntf script)).obs =
      .ran inst (some ⟨uid, b.serverId, b.netId⟩) rs (if ntf then .none else .ok) := by
  have hp := backPush_live cfg s b m kvs hd hf hm hj
  have hm' : lget (backPush cfg s b).1.fronts b.target = some (amerge m kvs) := by
    rw [hp]; simp [lget_lset_same]
  have hr : routeName cfg (amerge m kvs) svcType = inst := by
    have h := routing_sees_merged_map cfg m b.newData svcType rk v hrk hb.ndN (hb.repN rfl) hv
    rw [hj] at h
    simp only [SData.updateFromJson] at h
    rw [h, hinst]; rfl
  subst hr
  have hfr : cfg.isFront b.serverId = true := by
    have := hf; simp only [State.reach, Bool.and_eq_true] at this; exact this.1
  have htn : targetName cfg dr (amerge m kvs) svcType = routeName cfg (amerge m kvs) svcType := by
    simp [targetName, hrk]
  have hty' : (backPush cfg s b).1.memberType cfg (targetName cfg dr (amerge m kvs) svcType) = some svcType := by
    rw [hp, htn]; exact hty
  have hfc := forward_carries_current (dr := dr) cfg (backPush cfg s b).1 b.target (amerge m kvs) svcType ntf script uid hm'
    hfr hfty hty' huid
  rw [htn] at hfc
  exact ⟨_, congrArg StepR.obs hfc.1⟩

/-! ## 8. dead connections -/

/-- pushing to a connection that no longer exists has no effect on any map and succeeds -/
theorem push_to_dead_noop (cfg : Cfg) (s : State V) (b : Back V) (hdead : lget s.fronts b.target = none) :
    (backPush cfg s b).1 = s ∧ (backPush cfg s b).2.2.2 = [] ∧
      (s.reach cfg b.serverId = true → (backPush cfg s b).2.2.1 = Res.ok) := by
  simp only [backPush]
  split
  · simp
  · split
    · next h => simp at h; simp [h]
    · simp [deliver, hdead]

/-- querying it reports an error and changes neither the session object nor any map -/
theorem query_dead_errors (cfg : Cfg) (s : State V) (b : Back V) (hdead : lget s.fronts b.target = none) :
    backQuery cfg s b = (b, Res.err) := by
  simp only [backQuery]
  split
  · rfl
  · simp [hdead]

/-- as whole statements: neither disturbs any session (the state is unchanged) -/
theorem dead_statements_change_nothing (cfg : Cfg) (s : State V) (b : Back V) (kept : Option String)
    (hdead : lget s.fronts b.target = none) :
    (sstep cfg s (.back b) kept .push).st = s ∧ (sstep cfg s (.back b) kept .query).st = s ∧
      (b.ns ≠ "" → (sstep cfg s (.back b) kept .query).res = Res.err) := by
  refine ⟨?_, ?_, ?_⟩
  · simp only [sstep, sstepBack]
    split
    · rfl
    · exact (push_to_dead_noop cfg s b hdead).1
  · simp only [sstep, sstepBack]
    split <;> rfl
  · intro hns
    have : ¬ b.ns = "" := hns
    simp [sstep, sstepBack, this, query_dead_errors cfg s b hdead]

/-! ## 9. reachability depends on cluster membership only, never on the node state -/

/-- a front-end is reachable for push / query exactly when it is a known front-end and a
cluster member; the node state it is published with is not consulted -/
theorem reach_iff_member (cfg : Cfg) (s : State V) (name : String) :
    s.reach cfg name = true ↔ cfg.isFront name = true ∧ name ∉ s.away := by
  simp [State.reach]

/-- publish every member as Working instead (same members, same order) -/
def eraseStates : Op V → Op V
  | .topo away sts => .topo away (sts.map fun e => (e.1, 1))
  | op => op

/-- an operation whose routing does not use the default route: anything but a client message for a service
type nobody registered a route rule for (a message for the front-end's own type is handled locally, not routed) -/
def Ruled (cfg : Cfg) : Op V → Prop
  | .req c svcType _ _ => (lget cfg.routeKey svcType).isSome = true ∨ cfg.typeOf c.1 = some svcType
  | _ => True

/-- such an operation does the same whatever the default route would answer -/
theorem ruled_op_ignores_default_route (cfg : Cfg) (dr dr' : String → String) (s : State V) (op : Op V)
    (h : Ruled cfg op) : stepF cfg dr s op = stepF cfg dr' s op := by
  cases op with
  | req c t n sc =>
    have h' : (lget cfg.routeKey t).isSome = true ∨ cfg.typeOf c.1 = some t := h
    cases h' with
    | inl h1 =>
      obtain ⟨rk, hrk⟩ := Option.isSome_iff_exists.mp h1
      simp only [stepF, step, stepReq, targetName, hrk]
    | inr h2 => simp [stepF, step, stepReq, h2]
  | _ => rfl

/-- over ALL histories whose client messages go to service types with a registered rule: the node states
(Init / Working / Retiring / Retired) the members are published with change nothing — final state and every
event are the same as if every member were published Working, from whatever view.  So a session bound on a
front-end stays reachable through its (serverId, netId) as long as the front-end is a cluster member,
whatever its node state.  (For a type WITHOUT a rule the node states do matter: `default_route_reads_node_state`.) -/
theorem node_state_irrelevant (cfg : Cfg) (ops : List (Op V)) (s : State V) (vw vw' : View)
    (hr : ∀ op ∈ ops, Ruled cfg op) :
    run cfg vw' s (ops.map eraseStates) = run cfg vw s ops := by
  induction ops generalizing s vw vw' with
  | nil => rfl
  | cons op ops ih =>
    have hop : Ruled cfg op := hr op (by simp)
    have he : Ruled cfg (eraseStates op) := by cases op <;> exact hop
    have h : stepF cfg (defaultRoute cfg vw') s (eraseStates op) = stepF cfg (defaultRoute cfg vw) s op := by
      rw [ruled_op_ignores_default_route cfg _ (defaultRoute cfg vw) s (eraseStates op) he]
      cases op <;> rfl
    simp only [List.map_cons, run, h]
    rw [ih _ _ _ (fun o ho => hr o (by simp [ho]))]

/-- a service type without a rule is routed by the cluster view alone: whatever the session holds (whatever was
pushed), the instance is the default route's -/
theorem default_route_ignores_session (cfg : Cfg) (dr : String → String) (m m' : AL V) (svcType : String)
    (h : lget cfg.routeKey svcType = none) :
    targetName cfg dr m svcType = dr svcType ∧ targetName cfg dr m' svcType = targetName cfg dr m svcType := by
  simp [targetName, h]

/-- the default route names a WORKING member of the type, the first one in view order -/
theorem default_route_first_working (cfg : Cfg) (vw : View) (svcType : String) (e : String × Nat)
    (h : (viewOf cfg vw).find? (fun e => cfg.typeOf e.1 == some svcType && e.2 == 1) = some e) :
    defaultRoute cfg vw svcType = e.1 ∧ cfg.typeOf e.1 = some svcType ∧ e.2 = 1 ∧ e ∈ viewOf cfg vw := by
  have hp := List.find?_some h
  have hm := List.mem_of_find?_eq_some h
  simp only [Bool.and_eq_true, beq_iff_eq] at hp
  exact ⟨by simp [defaultRoute, h], hp.1, hp.2, hm⟩

/-- no Working member of the type: no service -/
theorem default_route_none_working (cfg : Cfg) (vw : View) (svcType : String)
    (h : (viewOf cfg vw).find? (fun e => cfg.typeOf e.1 == some svcType && e.2 == 1) = none) :
    defaultRoute cfg vw svcType = "no_service" := by
  simp [defaultRoute, h]

/-- per operation, observations included (for one and the same default route) -/
theorem node_state_irrelevant_step (cfg : Cfg) (s : State V) (away : List String) (st1 st2 : List (String × Nat))
    (op : Op V) :
    step cfg dr s (.topo away st1) = step cfg dr s (.topo away st2) ∧
    step cfg dr (step cfg dr s (.topo away st1)).st op = step cfg dr (step cfg dr s (.topo away st2)).st op :=
  ⟨rfl, rfl⟩

/-- a front-end that left the cluster view is not reachable: a dirty push reports an error,
a query too, no map changes -/
theorem away_front_unreachable (cfg : Cfg) (s : State V) (b : Back V) (h : b.serverId ∈ s.away) (hd : b.dirt = true) :
    (backPush cfg s b).1 = s ∧ (backPush cfg s b).2.2.1 = Res.err ∧ backQuery cfg s b = (b, Res.err) := by
  have hr : s.reach cfg b.serverId = false := by simp [State.reach, h]
  simp [backPush, backQuery, hr, hd]

/-! ## 10. a closed socket only QUEUES the removal: until it runs the connection is a session like any other -/

/-- `Kick` (and a socket the client closed) changes no map and removes nothing: the session stays in the
front-end's table, only its removal is queued -/
theorem kick_keeps_the_session (cfg : Cfg) (s : State V) (sess : Sess V) (kept : Option String) :
    (sstep cfg s sess kept .kick).st.fronts = s.fronts ∧ (sstep cfg s sess kept .kick).sess = sess ∧
    (sstep cfg s sess kept .kick).evs = [] ∧ (sstep cfg s sess kept .kick).st.handles = s.handles := by
  cases sess with
  | front c =>
    simp only [sstep, sstepFront]
    cases lget s.fronts c with
    | none => exact ⟨rfl, rfl, rfl, rfl⟩
    | some m =>
      simp only
      split
      · exact ⟨(markClosing_fields s c).1, rfl, rfl, (markClosing_fields s c).2.1⟩
      · exact ⟨rfl, rfl, rfl, rfl⟩
  | back b =>
    simp only [sstep, sstepBack]
    split
    · exact ⟨rfl, rfl, rfl, rfl⟩
    · exact ⟨(backKick_fields cfg s b).1, rfl, rfl, (backKick_fields cfg s b).2.1⟩

/-- a kick that reaches a live session of a reachable front-end queues exactly that connection's removal -/
theorem kick_queues_removal (cfg : Cfg) (s : State V) (b : Back V) (m : AL V) (kept : Option String)
    (hns : b.ns ≠ "") (hf : s.reach cfg b.serverId = true) (hm : lget s.fronts b.target = some m) :
    b.target ∈ (sstep cfg s (.back b) kept .kick).st.closing := by
  have hns' : ¬ b.ns = "" := hns
  simp only [sstep, sstepBack, hns', if_false, backKick, hf, hm, markClosing]
  by_cases h : b.target ∈ s.closing <;> simp [h]

/-- `sys.pushsession` and `sys.querysession` do not look at the closed flag: with any removals queued
they answer and merge exactly as without -/
theorem push_query_ignore_closed_flag (cfg : Cfg) (s : State V) (b : Back V) (cl : List Conn) :
    backQuery cfg { s with closing := cl } b = backQuery cfg s b ∧
    (backPush cfg { s with closing := cl } b).2 = (backPush cfg s b).2 ∧
    (backPush cfg { s with closing := cl } b).1.fronts = (backPush cfg s b).1.fronts := by
  refine ⟨rfl, ?_, ?_⟩ <;>
  · cases hd : b.dirt <;> cases hr : (cfg.isFront b.serverId && !s.away.contains b.serverId) <;>
      cases hm : lget s.fronts b.target <;> cases hj : SData.toJson b.newData <;>
      simp [backPush, State.reach, deliver, hd, hm, hj] <;> (split <;> rfl)

/-- the window itself: the socket is closed (kick), THEN a dirty session's push reaches the front-end, then the
queued removal runs — the push is merged key by key like any other, a query in the window returns it, and
the close handlers are handed the merged map; afterwards the connection is gone -/
theorem push_in_closing_window_is_merged (cfg : Cfg) (s : State V) (b : Back V) (m kvs : AL V) (kept : Option String)
    (hns : b.ns ≠ "") (hd : b.dirt = true) (hf : s.reach cfg b.serverId = true)
    (hm : lget s.fronts b.target = some m) (hj : SData.toJson b.newData = some kvs) (hcl : s.closing = []) :
    let t := runScript cfg s (.back b) kept [.kick, .pushNW]
    lget t.st.fronts b.target = some (amerge m kvs) ∧
    (flush t.st).2 = [(b.target, amerge m kvs)] ∧
    lget (flush t.st).1.fronts b.target = none ∧
    (∃ b', t.sess = .back b' ∧ b'.target = b.target ∧
      (backQuery cfg t.st b').1 = (b'.fromJson (SData.toJson (amerge m kvs))).1) := by
  have hns' : ¬ b.ns = "" := hns
  have hk : backKick cfg s b = { s with closing := [b.target] } := by
    simp [backKick, hf, hm, markClosing, hcl]
  have hf' : ({ s with closing := [b.target] } : State V).reach cfg b.serverId = true := hf
  have hp := backPush_live cfg { s with closing := [b.target] } b m kvs hd hf' hm hj
  have e1 : sstep cfg s (.back b) kept .kick = ⟨{ s with closing := [b.target] }, .back b, kept, .ok, []⟩ := by
    simp only [sstep, sstepBack, hns', if_false, hk]
  have e2 : sstep cfg { s with closing := [b.target] } (.back b) kept .pushNW =
      ⟨{ s with closing := [b.target], fronts := lset s.fronts b.target (amerge m kvs) }, .back { b with dirt := false }, kept, .ok,
        [Ev.write b.target kvs]⟩ := by
    simp only [sstep, sstepBack, hns', if_false, hp]
  simp only [runScript, e1, e2]
  refine ⟨lget_lset_same _ _ _, ?_, ?_, ?_⟩
  · simp [flush, removeOne, lget_lset_same]
  · simp [flush, removeOne, lget_lset_same, lget_ldel_same]
  · refine ⟨{ b with dirt := false }, rfl, rfl, ?_⟩
    have hr : ({ s with closing := [b.target], fronts := lset s.fronts b.target (amerge m kvs) } : State V).reach cfg
        ({ b with dirt := false } : Back V).serverId = true := hf
    have ht : ({ b with dirt := false } : Back V).target = b.target := rfl
    simp [backQuery, hr, ht, lget_lset_same]

/-- the end of a turn, over every operation: what each close handler is handed is the connection's map as
of the END of the turn — everything merged during the turn is in it -/
theorem close_handlers_see_end_of_turn_map (cfg : Cfg) (s : State V) (op : Op V) :
    ∀ e ∈ (stepF cfg dr s op).gone, lget (step cfg dr s op).st.fronts e.1 = some e.2 := by
  intro e he
  exact (removeAll_sub (step cfg dr s op).st.closing { (step cfg dr s op).st with closing := [] }).2 e he

/-- … every connection whose removal was queued is gone afterwards, no other map is touched by the removals,
and no removal stays pending across turns -/
theorem queued_removals_run_at_turn_end (cfg : Cfg) (s : State V) (op : Op V) (c : Conn) :
    (c ∈ (step cfg dr s op).st.closing → lget (stepF cfg dr s op).st.fronts c = none) ∧
    (c ∉ (step cfg dr s op).st.closing → lget (stepF cfg dr s op).st.fronts c = lget (step cfg dr s op).st.fronts c) ∧
    (stepF cfg dr s op).st.closing = [] ∧ (stepF cfg dr s op).st.handles = (step cfg dr s op).st.handles := by
  refine ⟨?_, ?_, ?_, ?_⟩
  · exact removeAll_gone _ { (step cfg dr s op).st with closing := [] } c
  · exact removeAll_frame _ { (step cfg dr s op).st with closing := [] } c
  · exact (removeAll_rest _ { (step cfg dr s op).st with closing := [] }).1
  · exact (removeAll_rest _ { (step cfg dr s op).st with closing := [] }).2.1

/-- over ALL histories no removal is pending between two operations -/
theorem no_removal_pending_between_turns (cfg : Cfg) (ops : List (Op V)) (s : State V) (h : s.closing = []) :
    (run cfg vw s ops).1.closing = [] := by
  induction ops generalizing s vw with
  | nil => exact h
  | cons op ops ih => exact ih _ (queued_removals_run_at_turn_end (dr := defaultRoute cfg vw) cfg s op ("", 0)).2.2.1

/-- an answer for a connection whose socket was closed during the turn is lost; every other observation stands -/
theorem answer_to_closed_socket_is_lost (cfg : Cfg) (s : State V) (c : Conn) (svcType : String) (ntf : Bool)
    (script : List (SOp V)) (a : String) (e : Option Envelope) (rs : List (Res V)) (r : Resp)
    (h : (step cfg dr s (.req c svcType ntf script)).obs = .ran a e rs r) :
    (stepF cfg dr s (.req c svcType ntf script)).obs =
      .ran a e rs (if r = .ok ∧ c ∈ (step cfg dr s (.req c svcType ntf script)).st.closing then .none else r) := by
  simp only [stepF, h, silence]
  cases r <;> simp
  split <;> simp_all

/-! ## 11. what the guard leaves out, stated (reachable, with bad outcomes) -/

/-- `_ID` may be pushed as a non-string (the guard allows it): from then on `fs.GetID()` panics inside the
posted forward task for EVERY message of that connection to another service type — nothing runs, a request
gets no answer at all -/
theorem forward_dropped_when_uid_not_string (cfg : Cfg) (s : State V) (c : Conn) (m : AL V) (svcType : String)
    (ntf : Bool) (script : List (SOp V))
    (hm : lget s.fronts c = some m) (hf : cfg.isFront c.1 = true) (hty : cfg.typeOf c.1 ≠ some svcType)
    (hroute : s.memberType cfg (targetName cfg dr m svcType) = some svcType) (hid : frontGetID m = none) :
    step cfg dr s (.req c svcType ntf script) = ⟨s, .noTarget .none, []⟩ := by
  simp [step, stepReq, hm, hf, hty, hroute, hid]

/-- NewData is never cleared by a push: EVERY value a session object ever set is re-sent by each of its later
pushes and overwrites whatever the connection holds under that key by then — also a newer value another
service pushed meanwhile (the A/B/A pattern: "later pushes win" is per PUSH, with the session's whole memory
as payload) -/
theorem push_resends_everything_ever_set (cfg : Cfg) (s : State V) (b : Back V) (m : AL V) (k : Key) (v : V)
    (hb : BackInv true b) (hd : b.dirt = true) (hf : s.reach cfg b.serverId = true)
    (hm : lget s.fronts b.target = some m) (hk : lget b.newData k = some v) :
    (lget (backPush cfg s b).1.fronts b.target).bind (fun m' => lget m' k) = some (JVal.norm v) := by
  have hj := toJson_eq_some hb.ndN (hb.repN rfl)
  have hkk : (keys (b.newData.map fun e => (e.1, (JVal.norm e.2 : V)))).Nodup := by
    rw [keys_map_val]; exact hb.ndN
  rw [backPush_live cfg s b m _ hd hf hm hj]
  show (lget (lset s.fronts b.target _) b.target).bind _ = _
  rw [lget_lset_same]
  simp only [Option.bind_some]
  rw [lget_amerge _ _ _ hkk, lget_map_val, hk]; rfl

/-- outside the guard, one value `json.Marshal` rejects among the values a session set: every later push of
that session object reports success, clears the dirty flag and delivers NOTHING -/
theorem unrepresentable_pending_blocks_every_push (cfg : Cfg) (s : State V) (b : Back V)
    (h : b.newData.all (fun e => JVal.rep e.2) = false) :
    (backPush cfg s b).1 = s ∧ (backPush cfg s b).2.2.2 = [] ∧ (backPush cfg s b).2.1.newData = b.newData ∧
    (s.reach cfg b.serverId = true → (backPush cfg s b).2.2.1 = Res.ok) := by
  have hj : SData.toJson b.newData = none := by simp [SData.toJson, h]
  cases hd : b.dirt <;> cases hr : s.reach cfg b.serverId <;> cases hm : lget s.fronts b.target <;>
    simp [backPush, deliver, hd, hr, hm, hj]

/-- outside the guard, one such value stored FRONT-locally: `fs.ToJson()` yields no text, `sys.querysession`
still "succeeds", and `BackSession.FromJson("")` re-reads its front-end's name as the default "n" — a fresh
session is silently re-addressed to a front-end that does not exist -/
theorem unrepresentable_front_value_poisons_query (cfg : Cfg) (s : State V) (b : Back V) (m : AL V)
    (hf : s.reach cfg b.serverId = true) (hm : lget s.fronts b.target = some m)
    (hbad : m.all (fun e => JVal.rep e.2) = false)
    (hnoS : b.get? KeyServerId = none) (hnoN : lget b.data KeyNetId = none) :
    (backQuery cfg s b).2 = Res.ok ∧ (backQuery cfg s b).1.serverId = "n" ∧ (backQuery cfg s b).1.data = b.data := by
  have hj : SData.toJson m = none := by simp [SData.toJson, hbad]
  have hg : ({ b with data := b.data } : Back V).get? KeyServerId = none := hnoS
  simp [backQuery, hf, hm, hj, Back.fromJson, SData.updateFromJson, hg, hnoN, LawfulJVal.asStr_str]

/-! ## 11b. `CloneBackSession`: the way to hold a session beyond the handler -/

/-- a clone is a NEW session object for the same connection: it addresses the same front-end and connection and
lives in the same service, carries the uid the original would report (`GetID`, preferring a locally bound one)
— and NOTHING else: no queried data, and none of the values set on the original that were not pushed yet; it
is not dirty, so its first push sends only what is set on the clone itself.  The original is unchanged. -/
theorem clone_carries_identity_only (cfg : Cfg) (s : State V) (b : Back V) (kept : Option String) (h uid : String)
    (hns : b.ns ≠ "") (hfree : lget s.handles h = none) (hid : b.getID = some uid) :
    let r := sstep cfg s (.back b) kept (.clone h)
    r.sess = .back b ∧ r.st.fronts = s.fronts ∧ r.evs = [] ∧
    ∃ b', lget r.st.handles h = some b' ∧ b'.target = b.target ∧ b'.ns = b.ns ∧ b'.getID = some uid ∧
      b'.newData = [] ∧ b'.dirt = false ∧ b'.data = lset [] KeyUId (JVal.str uid) ∧
      backPush cfg r.st b' = (r.st, b', Res.ok, []) := by
  have hns' : ¬ b.ns = "" := hns
  simp only [sstep, sstepBack, hns', if_false, hfree, hid]
  refine ⟨trivial, trivial, trivial, Back.init b.ns b.serverId b.netId uid, lget_lset_same _ _ _, rfl, rfl, ?_, rfl, rfl, rfl, ?_⟩
  · simp [Back.getID, Back.get?, Back.init, lget_lset_same, LawfulJVal.asStr_str]
  · simp [backPush, Back.init]

/-! ## 12. end to end over histories -/

/-- for ALL guarded histories from the initial state: a back-end session the history left behind (kept or
made), whose front-end is reachable and whose connection is live, is handed by a query every key of the LEFT
FOLD OF THE WRITES addressed to that connection, normalised -/
theorem query_after_any_history (cfg : Cfg) (vw : View) (ops : List (Op V)) (hg : ∀ op ∈ ops, GuardOp true op)
    (h : String) (b : Back V) (m : AL V)
    (hh : lget (run cfg vw State.init ops).1.handles h = some b)
    (hf : (run cfg vw State.init ops).1.reach cfg b.serverId = true)
    (hm : replay b.target none (run cfg vw State.init ops).2 = some m) :
    (backQuery cfg (run cfg vw State.init ops).1 b).2 = Res.ok ∧
    (∀ k v, lget m k = some v → lget (backQuery cfg (run cfg vw State.init ops).1 b).1.data k = some (JVal.norm v)) ∧
    (∀ k v, lget m k = some v → lget b.newData k = none →
      (backQuery cfg (run cfg vw State.init ops).1 b).1.get? k = some (JVal.norm v)) := by
  have hs := run_inv (g := true) (vw := vw) cfg ops (inv_init true) hg
  have hb := hs.handles h b hh
  have hm' : lget (run cfg vw State.init ops).1.fronts b.target = some m := by
    rw [front_is_fold_of_writes]; exact hm
  have q := query_returns_whole_map cfg _ b m hs hb hf hm'
  exact ⟨q.1, q.2.2.2.2.1, q.2.2.2.2.2⟩

/-! ## non-vacuity: the hypotheses are met by concrete runs of the driver's instance -/

/-! ## 12. the envelope over all histories; a first message handed over before the connection is registered

`SessionsImpl.OnSessionCreate` / `ProcessMessage` run on the connection's reader goroutine and only POST to the
front-end: while the front-end is busy the first message of a fresh connection is queued before the connection has
an id.  `stepOpenReq` is what the front-end then does (`AddSession`, then the message task, which reads the id of
its session when it runs).  The theorems below need no guard and no hypothesis on the state. -/

/-- every client message that is forwarded at all names ITS connection -/
theorem forwarded_envelope_names_the_connection (cfg : Cfg) (s : State V) (c : Conn) (svcType : String) (ntf : Bool)
    (script : List (SOp V)) (a : String) (e : Envelope) (rs : List (Res V)) (r : Resp)
    (h : (stepF cfg dr s (.req c svcType ntf script)).obs = .ran a (some e) rs r) :
    e.frontId = c.1 ∧ e.sessionId = c.2 ∧ ∃ m, lget s.fronts c = some m ∧ frontGetID m = some e.uid := by
  have h' : ∃ r', (step cfg dr s (.req c svcType ntf script)).obs = .ran a (some e) rs r' := by
    simp only [stepF, silence] at h
    split at h
    · rename_i heq
      split at h <;> (cases h; exact ⟨_, heq⟩)
    · rename_i hne
      exact ⟨r, h⟩
  obtain ⟨r', h'⟩ := h'
  simp only [step, stepReq] at h'
  split at h'
  · cases h'
  · rename_i m hm
    split at h'
    · cases h'
    · split at h'
      · cases h'
      · split at h'
        · cases h'
        · split at h'
          · cases h'
          · split at h'
            · cases h'
            · rename_i uid hid
              cases h'
              exact ⟨rfl, rfl, m, hm, hid⟩

/-- the first message of a connection, handed over before the front-end has registered it (with or without the
client hanging up right behind it): the connection gets the next id of its front, the message is handled in the
state `AddSession` left (closed flag set when the client hung up) as a message of THAT connection, and if it is
forwarded its envelope carries that id and the front's name -/
theorem first_message_before_registration_is_of_the_new_connection (cfg : Cfg) (s : State V) (f : String)
    (svcType : String) (ntf : Bool) (script : List (SOp V)) (closeAfter : Bool) (hf : cfg.isFront f = true) :
    let n := (lget s.next f).getD 0 + 1
    let r := stepOpenReq cfg dr s f svcType ntf script closeAfter
    let s1 := if closeAfter then markClosing (stepF cfg dr s (.openC f)).st (f, n) else (stepF cfg dr s (.openC f)).st
    r.2 = some (f, n) ∧
    r.1.st = (stepF cfg dr s1 (.req (f, n) svcType ntf script)).st ∧
    r.1.obs = (stepF cfg dr s1 (.req (f, n) svcType ntf script)).obs ∧
    ∀ a e rs rp, r.1.obs = .ran a (some e) rs rp → e.frontId = f ∧ e.sessionId = n := by
  intro n r s1
  have hobs : (stepF cfg dr s (.openC f)).obs = .opened n := by
    simp [stepF, step, hf, silence, n]
  have hr : r = (⟨(stepF cfg dr s1 (.req (f, n) svcType ntf script)).st,
      (stepF cfg dr s1 (.req (f, n) svcType ntf script)).obs,
      (stepF cfg dr s (.openC f)).evs ++ (stepF cfg dr s1 (.req (f, n) svcType ntf script)).evs,
      (stepF cfg dr s (.openC f)).gone ++ (stepF cfg dr s1 (.req (f, n) svcType ntf script)).gone⟩, some (f, n)) := by
    simp only [r, s1, stepOpenReq, hobs]
  refine ⟨by rw [hr], by rw [hr], by rw [hr], ?_⟩
  intro a e rs rp h
  rw [hr] at h
  have := forwarded_envelope_names_the_connection (dr := dr) cfg _ (f, n) svcType ntf script a e rs rp h
  exact ⟨this.1, this.2.1⟩

/-- the handover is a two-operation history (`open`, then the request of the connection just opened): every
theorem over `run` (fold of the writes, unique keys, reserved keys, envelope) covers it -/
theorem handover_is_open_then_request (cfg : Cfg) (vw : View) (s : State V) (f : String)
    (svcType : String) (ntf : Bool) (script : List (SOp V)) (hf : cfg.isFront f = true) :
    let n := (lget s.next f).getD 0 + 1
    let r := stepOpenReq cfg (defaultRoute cfg vw) s f svcType ntf script
    (r.1.st, r.1.evs) = run cfg vw s [.openC f, .req (f, n) svcType ntf script] := by
  intro n r
  have hobs : (stepF cfg (defaultRoute cfg vw) s (.openC f)).obs = .opened n := by
    simp [stepF, step, hf, silence, n]
  simp [r, stepOpenReq, hobs, run, nextView]

/-- not a forward event -/
def NotFwd : Ev V → Prop
  | .fwd _ _ _ _ _ => False
  | _ => True

theorem sstep_evs_notFwd (cfg : Cfg) (s : State V) (sess : Sess V) (kept : Option String) (op : SOp V) :
    ∀ e ∈ (sstep cfg s sess kept op).evs, NotFwd e := by
  intro e he
  rcases write_events_are_sets_and_pushes cfg s sess kept op with h | ⟨c, k, v, _, h⟩ | ⟨b, kvs, _, _, h⟩
  · rw [h] at he; cases he
  · rw [h] at he; simp at he; subst he; trivial
  · rw [h] at he; simp at he; subst he; trivial

theorem runScript_evs_notFwd (cfg : Cfg) (s : State V) (sess : Sess V) (kept : Option String) (sc : List (SOp V)) :
    ∀ e ∈ (runScript cfg s sess kept sc).evs, NotFwd e := by
  induction sc generalizing s sess kept with
  | nil => intro e he; simp [runScript] at he
  | cons op ops ih =>
    intro e he
    simp only [runScript, List.mem_append] at he
    rcases he with he | he
    · exact sstep_evs_notFwd cfg s sess kept op e he
    · exact ih _ _ _ e he

/-- the events of one step: either none of them is a forward, or the step is a client message that was
forwarded, the forward is the FIRST event, it names the connection and carries the uid of its map as of then -/
theorem step_evs_shape (cfg : Cfg) (s : State V) (op : Op V) :
    (∀ e ∈ (step cfg dr s op).evs, NotFwd e) ∨
    ∃ c t id rest m, (step cfg dr s op).evs = Ev.fwd c t id c.1 c.2 :: rest ∧ (∀ e ∈ rest, NotFwd e) ∧
      lget s.fronts c = some m ∧ frontGetID m = some id := by
  cases op with
  | req c svcType ntf script =>
    simp only [step, stepReq]
    split
    · left; intro e he; simp at he
    · rename_i m hm
      split
      · left; intro e he; simp at he
      · split
        · left; exact runScript_evs_notFwd _ _ _ _ _
        · split
          · left; intro e he; simp at he
          · split
            · left; intro e he; simp at he
            · split
              · left; intro e he; simp at he
              · rename_i uid hid
                right
                exact ⟨c, _, uid, _, m, rfl, runScript_evs_notFwd _ _ _ _ _, hm, hid⟩
  | openC f =>
    left; intro e he
    simp only [step] at he
    split at he <;> simp at he
    subst he; trivial
  | closeC c =>
    left; intro e he
    simp only [step] at he
    repeat' split at he
    all_goals simp at he
  | mk h a c u =>
    left; intro e he
    simp only [step] at he
    repeat' split at he
    all_goals simp at he
  | on h sc =>
    left; intro e he
    simp only [step] at he
    repeat' split at he
    all_goals first
      | (simp at he; done)
      | exact runScript_evs_notFwd _ _ _ _ _ e he
  | snap => left; intro e he; simp [step] at he
  | topo a b => left; intro e he; simp [step] at he
  | pMkf c =>
    left; intro e he
    simp only [step] at he
    split at he <;> simp at he
    subst he; trivial
  | pMkb h c u =>
    left; intro e he
    simp only [step] at he
    repeat' split at he
    all_goals simp at he
  | pOnF c sc =>
    left; intro e he
    simp only [step] at he
    repeat' split at he
    all_goals first
      | (simp at he; done)
      | exact runScript_evs_notFwd _ _ _ _ _ e he
  | pOnB h sc =>
    left; intro e he
    simp only [step] at he
    repeat' split at he
    all_goals first
      | (simp at he; done)
      | exact runScript_evs_notFwd _ _ _ _ _ e he

omit [LawfulJVal V] in
theorem mem_notFwd_absurd {l : List (Ev V)} {pre post : List (Ev V)} {c t id fr sid}
    (hl : ∀ e ∈ l, NotFwd e) (h : l = pre ++ Ev.fwd c t id fr sid :: post) : False := by
  have : Ev.fwd c t id fr sid ∈ l := by rw [h]; simp
  exact hl _ this

/-- one whole turn: a forward event in its event list is the first event -/
theorem stepF_fwd_first (cfg : Cfg) (s : State V) (op : Op V) (pre post : List (Ev V)) (c : Conn) (t id fr : String) (sid : Nat)
    (h : (stepF cfg dr s op).evs = pre ++ Ev.fwd c t id fr sid :: post) :
    pre = [] ∧ fr = c.1 ∧ sid = c.2 ∧ ∃ m, lget s.fronts c = some m ∧ frontGetID m = some id := by
  simp only [stepF] at h
  have hcl : ∀ e ∈ (flush (step cfg dr s op).st).2.map (fun e => Ev.closed (V := V) e.1), NotFwd e := by
    intro e he; simp only [List.mem_map] at he; obtain ⟨x, _, hx⟩ := he; subst hx; trivial
  rcases step_evs_shape (dr := dr) cfg s op with hn | ⟨c', t', id', rest, m, hev, hrest, hm, hid⟩
  · exfalso
    refine mem_notFwd_absurd (l := (step cfg dr s op).evs ++ _) ?_ h
    intro e he
    rcases List.mem_append.mp he with he | he
    · exact hn e he
    · exact hcl e he
  · rw [hev] at h
    cases pre with
    | nil =>
      simp only [List.nil_append, List.cons_append, List.cons.injEq] at h
      obtain ⟨h1, _⟩ := h
      cases h1
      exact ⟨rfl, rfl, rfl, m, hm, hid⟩
    | cons x pre' =>
      exfalso
      simp only [List.cons_append, List.cons.injEq] at h
      refine mem_notFwd_absurd (l := rest ++ _) ?_ h.2
      intro e he
      rcases List.mem_append.mp he with he | he
      · exact hrest e he
      · exact hcl e he

/-- over ALL histories (no guard, any start state): wherever a forward event stands in the event list, it names the
connection the message came from (front name, connection id), that connection's map — the fold of the events
BEFORE it — exists, and the envelope carries the uid that map holds -/
theorem every_forward_carries_identity_as_of_then (cfg : Cfg) (vw : View) (s : State V) (ops : List (Op V))
    (pre post : List (Ev V)) (c : Conn) (t id fr : String) (sid : Nat)
    (h : (run cfg vw s ops).2 = pre ++ Ev.fwd c t id fr sid :: post) :
    fr = c.1 ∧ sid = c.2 ∧ ∃ m, replay c (lget s.fronts c) pre = some m ∧ frontGetID m = some id := by
  induction ops generalizing s vw pre with
  | nil => simp [run] at h
  | cons op ops ih =>
    simp only [run] at h
    rcases List.append_eq_append_iff.mp h with ⟨a', h1, h2⟩ | ⟨c', h1, h2⟩
    · -- pre = evs ++ a' : the forward lies in the rest of the history
      have := ih _ _ a' h2
      obtain ⟨hfr, hsid, m, hm, hid⟩ := this
      refine ⟨hfr, hsid, m, ?_, hid⟩
      rw [h1, replay_append, ← stepF_replay]
      exact hm
    · -- evs = pre ++ c', c' ++ rest = fwd :: post
      cases c' with
      | nil =>
        simp only [List.append_nil] at h1
        simp only [List.nil_append] at h2
        have := ih _ _ [] (by simpa using h2.symm)
        obtain ⟨hfr, hsid, m, hm, hid⟩ := this
        refine ⟨hfr, hsid, m, ?_, hid⟩
        rw [← h1, ← stepF_replay]
        simpa using hm
      | cons x xs =>
        simp only [List.cons_append, List.cons.injEq] at h2
        obtain ⟨hx, _⟩ := h2
        subst hx
        obtain ⟨hp, hfr, hsid, m, hm, hid⟩ := stepF_fwd_first (dr := defaultRoute cfg vw) cfg s op pre xs c t id fr sid h1
        subst hp
        exact ⟨hfr, hsid, m, by simpa using hm, hid⟩

/-! ### the client hangs up right behind its first message (`RemoveSession` queued behind the message task) -/

omit [LawfulJVal V] in
theorem markClosing_mono (s : State V) (c c' : Conn) (h : c ∈ s.closing) : c ∈ (markClosing s c').closing := by
  unfold markClosing
  split
  · exact h
  · exact List.mem_cons_of_mem _ h

omit [LawfulJVal V] in
theorem markClosing_mem (s : State V) (c : Conn) : c ∈ (markClosing s c).closing := by
  unfold markClosing
  split
  · rename_i h; simpa using h
  · exact List.mem_cons_self

omit [LawfulJVal V] in
theorem deliver_closing (s : State V) (c : Conn) (j : Option (AL V)) : (deliver s c j).1.closing = s.closing := by
  unfold deliver
  split <;> rfl

/-- a closed flag is never cleared by a statement -/
theorem sstep_closing_mono (cfg : Cfg) (s : State V) (sess : Sess V) (kept : Option String) (op : SOp V) (c : Conn)
    (h : c ∈ s.closing) : c ∈ (sstep cfg s sess kept op).st.closing := by
  cases sess with
  | front c0 =>
    simp only [sstep, sstepFront]
    split
    · exact h
    · cases op <;> simp only [] <;> first
        | exact h
        | (split <;> first | exact h | exact markClosing_mono _ _ _ h)
  | back b =>
    simp only [sstep]
    cases op <;> simp only [sstepBack] <;> first
      | exact h
      | (split <;> first
          | exact h
          | (simp only [backPush]; repeat' split
             all_goals first | exact h | (rw [deliver_closing]; exact h) | (simp_all [deliver_closing]))
          | (simp only [backKick]; repeat' split
             all_goals first | exact h | exact markClosing_mono _ _ _ h)
          | (repeat' split
             all_goals first | exact h | (rw [deliver_closing]; exact h) | (simp_all [deliver_closing])))

theorem runScript_closing_mono (cfg : Cfg) (s : State V) (sess : Sess V) (kept : Option String) (sc : List (SOp V)) (c : Conn)
    (h : c ∈ s.closing) : c ∈ (runScript cfg s sess kept sc).st.closing := by
  induction sc generalizing s sess kept with
  | nil => exact h
  | cons op ops ih =>
    simp only [runScript]
    exact ih _ _ _ (sstep_closing_mono cfg s sess kept op c h)

omit [LawfulJVal V] in
theorem storeKept_closing (s : State V) (sess : Sess V) (kept : Option String) :
    (storeKept s sess kept).closing = s.closing := by
  unfold storeKept; split <;> rfl

/-- a client message never clears a closed flag: the removal stays queued until the end of the turn -/
theorem request_keeps_closed_flags (cfg : Cfg) (s : State V) (c0 c : Conn) (svcType : String) (ntf : Bool)
    (script : List (SOp V)) (h : c ∈ s.closing) :
    c ∈ (step cfg dr s (.req c0 svcType ntf script)).st.closing := by
  simp only [step, stepReq]
  repeat' split
  all_goals first
    | exact h
    | exact runScript_closing_mono _ _ _ _ _ _ h
    | (rw [storeKept_closing]; exact runScript_closing_mono _ _ _ _ _ _ h)

/-- what the front-end relays for a message whose handler ran: the answer, or nothing for a notify -/
theorem request_answer_ok_or_none (cfg : Cfg) (s : State V) (c : Conn) (svcType : String) (ntf : Bool)
    (script : List (SOp V)) (a : String) (e : Option Envelope) (rs : List (Res V)) (r : Resp)
    (h : (step cfg dr s (.req c svcType ntf script)).obs = .ran a e rs r) : r = .ok ∨ r = .none := by
  simp only [step, stepReq] at h
  repeat' split at h
  all_goals first
    | (cases h; done)
    | (cases h; cases ntf <;> simp)

/-- the client hung up right after its first message, before the front-end had registered the connection: the
message is still handled as a message of that connection (the session exists when the message task runs; what a
front-local handler sets is in the map the close handlers are handed), the answer is lost, and at the end of the
turn the connection is gone — it does not stay registered -/
theorem hangup_after_first_message_removes_the_connection (cfg : Cfg) (s : State V) (f : String)
    (svcType : String) (ntf : Bool) (script : List (SOp V)) (hf : cfg.isFront f = true) :
    let n := (lget s.next f).getD 0 + 1
    let r := stepOpenReq cfg dr s f svcType ntf script true
    r.2 = some (f, n) ∧ lget r.1.st.fronts (f, n) = none ∧ r.1.st.closing = [] ∧
    (∀ a e rs rp, r.1.obs = .ran a e rs rp → rp = .none) := by
  intro n r
  have hobs : (stepF cfg dr s (.openC f)).obs = .opened n := by
    simp [stepF, step, hf, silence, n]
  have hr : r = (⟨(stepF cfg dr (markClosing (stepF cfg dr s (.openC f)).st (f, n)) (.req (f, n) svcType ntf script)).st,
      (stepF cfg dr (markClosing (stepF cfg dr s (.openC f)).st (f, n)) (.req (f, n) svcType ntf script)).obs,
      (stepF cfg dr s (.openC f)).evs ++ (stepF cfg dr (markClosing (stepF cfg dr s (.openC f)).st (f, n)) (.req (f, n) svcType ntf script)).evs,
      (stepF cfg dr s (.openC f)).gone ++ (stepF cfg dr (markClosing (stepF cfg dr s (.openC f)).st (f, n)) (.req (f, n) svcType ntf script)).gone⟩, some (f, n)) := by
    simp only [r, stepOpenReq, hobs, if_true]
  have hmem := request_keeps_closed_flags (dr := dr) cfg (markClosing (stepF cfg dr s (.openC f)).st (f, n)) (f, n) (f, n)
    svcType ntf script (markClosing_mem _ _)
  have hq := queued_removals_run_at_turn_end (dr := dr) cfg (markClosing (stepF cfg dr s (.openC f)).st (f, n))
    (.req (f, n) svcType ntf script) (f, n)
  refine ⟨by rw [hr], by rw [hr]; exact hq.1 hmem, by rw [hr]; exact hq.2.2.1, ?_⟩
  intro a e rs rp h
  rw [hr] at h
  simp only at h
  generalize markClosing (stepF cfg dr s (.openC f)).st (f, n) = S at h hmem
  cases hso : (step cfg dr S (.req (f, n) svcType ntf script)).obs with
  | ran a' e' rs' r' =>
    rw [answer_to_closed_socket_is_lost (dr := dr) cfg S (f, n) svcType ntf script a' e' rs' r' hso] at h
    rcases request_answer_ok_or_none (dr := dr) cfg S (f, n) svcType ntf script a' e' rs' r' hso with h1 | h1
    · subst h1
      rw [if_pos ⟨rfl, hmem⟩] at h
      cases h; rfl
    · subst h1
      simp at h
      exact h.2.2.2.symm
  | _ => simp [stepF, hso, silence] at h

section Examples

def cfgX : Cfg :=
  { services := [("gate-1", "gate", true), ("chat-1", "chat", false), ("chat-2", "chat", false)]
    routeKey := [("chat", "chatid")] }

def c1 : Conn := ("gate-1", 1)

/-- a front-local handler picks chat-1; a back-end handler there re-homes the connection to
chat-2 and binds a uid (set · bind · query · push — the D16 order); the next message is routed
to chat-2 and carries the uid; a large int comes back normalised -/
def demo : List (Op Tok) :=
  [.openC "gate-1",
   .req c1 "gate" false [.set "chatid" (.str "chat-1" "chat-1")],
   .req c1 "chat" false [.set "chatid" (.str "chat-2" "chat-2"), .bind "u7", .set "n" (.other "i9007199254740993" "f9.007199254740992e+15" true),
                          .query, .push, .keep "h1"],
   .req c1 "chat" false [.query, .get "n"]]

example : ((run cfgX none State.init demo).1.fronts.map (·.1)) = [c1] := by decide

example : (lget (run cfgX none State.init demo).1.fronts c1).bind (fun m => lget m "chatid") = some (.str "chat-2" "chat-2") := by
  decide

example : (run cfgX none State.init demo).2.filterMap (fun e => match e with
    | .fwd _ t id f n => some (t, id, f, n) | _ => none) = [("chat-1", "", "gate-1", 1), ("chat-2", "u7", "gate-1", 1)] := by
  decide

/-- the guard and the invariants hold of the demo history (so the guarded theorems apply to it) -/
example : ∀ op ∈ demo, GuardOp true op := by
  intro op h
  simp only [demo, List.mem_cons, List.mem_nil_iff, or_false] at h
  rcases h with rfl | rfl | rfl | rfl
  · trivial
  · intro o ho; simp only [List.mem_cons, List.mem_nil_iff, or_false] at ho; subst ho; intro _; decide
  · intro o ho
    simp only [List.mem_cons, List.mem_nil_iff, or_false] at ho
    rcases ho with rfl | rfl | rfl | rfl | rfl | rfl <;> first | trivial | (intro _; decide)
  · intro o ho
    simp only [List.mem_cons, List.mem_nil_iff, or_false] at ho
    rcases ho with rfl | rfl <;> trivial

/-- the front published Retiring, then Retired: the kept session still queries and pushes; gone from the view: error -/
example : (lget (run cfgX none State.init (demo ++ [.topo [] [("gate-1", 2)]])).1.handles "h1").map
      (fun b => (backQuery cfgX (run cfgX none State.init (demo ++ [.topo [] [("gate-1", 2)]])).1 b).2) = some Res.ok ∧
    (lget (run cfgX none State.init (demo ++ [.topo ["gate-1"] []])).1.handles "h1").map
      (fun b => (backQuery cfgX (run cfgX none State.init (demo ++ [.topo ["gate-1"] []])).1 b).2) = some Res.err := by
  decide

/-- dead connection: the kept session pushes and queries after the close -/
def sDead : State Tok := (run cfgX none State.init (demo ++ [.closeC c1])).1

example : (lget sDead.handles "h1").map (fun b => (backPush cfgX sDead (b.set "z" (.other "i1" "f1" true))).1.fronts) = some [] ∧
    (lget sDead.handles "h1").map (fun b => (backQuery cfgX sDead b).2) = some Res.err := by
  decide

/-- the closing window on concrete objects: the kept session kicks its connection, sets, pushes and queries
in the same turn — the close handler is handed the pushed value, afterwards the connection is gone and a
further push / query finds nothing -/
def winOps : List (Op Tok) :=
  demo ++ [.on "h1" [.busy, .kick, .set "room" (.str "left" "left"), .pushNW, .query]]

example : ((stepF cfgX (defaultRoute cfgX none) (run cfgX none State.init demo).1
      (.on "h1" [.busy, .kick, .set "room" (.str "left" "left"), .pushNW, .query])).gone.map
        fun e => (e.1, lget e.2 "room")) = [(c1, some (.str "left" "left"))] ∧
    (run cfgX none State.init winOps).1.fronts = [] ∧ (run cfgX none State.init winOps).1.closing = [] ∧
    (lget (run cfgX none State.init winOps).1.handles "h1").map (fun b => (backQuery cfgX (run cfgX none State.init winOps).1 b).2) = some Res.err := by
  decide

/-- the hypotheses of `push_in_closing_window_is_merged` are met by the demo's kept session once it set a value -/
example : (lget (run cfgX none State.init demo).1.handles "h1").map (fun b0 =>
      let b := b0.set "room" (.str "left" "left")
      let s := (run cfgX none State.init demo).1
      (b.ns != "" && b.dirt && s.reach cfgX b.serverId && (lget s.fronts b.target).isSome &&
        (SData.toJson b.newData).isSome && s.closing.isEmpty)) = some true := by
  decide

/-- a front-local handler kicks its own connection: its answer is lost, the close handler sees what it set after the kick -/
example : (match (stepF cfgX (defaultRoute cfgX none) (run cfgX none State.init demo).1 (.req c1 "gate" false [.kick, .set "bye" (.str "1" "1")])).obs with
      | .ran a _ rs r => some (a, rs, r) | _ => none) = some ("gate-1", [.ok, .ok], .none) ∧
    ((stepF cfgX (defaultRoute cfgX none) (run cfgX none State.init demo).1 (.req c1 "gate" false [.kick, .set "bye" (.str "1" "1")])).gone.map
      fun e => lget e.2 "bye") = [some (.str "1" "1")] := by
  decide

/-- a service type WITHOUT a route rule: the default route reads the node states and ignores the session -/
def cfgR : Cfg :=
  { services := [("gate-1", "gate", true), ("room-1", "room", false), ("room-2", "room", false)]
    routeKey := [] }

def atOf (o : Obs Tok) : Option String := match o with | .ran a _ _ _ => some a | .noTarget _ => some "-" | _ => none

theorem default_route_reads_node_state :
    let s := (run cfgR none State.init [.openC "gate-1"]).1
    let rq : Op Tok := .req ("gate-1", 1) "room" false [.id]
    atOf (stepF cfgR (defaultRoute cfgR none) s rq).obs = some "room-1" ∧
    atOf (stepF cfgR (defaultRoute cfgR (some [("gate-1", 1), ("room-1", 2), ("room-2", 1)])) s rq).obs = some "room-2" ∧
    atOf (stepF cfgR (defaultRoute cfgR (some [("gate-1", 1), ("room-2", 1), ("room-1", 1)])) s rq).obs = some "room-2" ∧
    atOf (stepF cfgR (defaultRoute cfgR (some [("gate-1", 1), ("room-1", 3), ("room-2", 0)])) s rq).obs = some "-" := by
  decide

/-- the whole history form: the same ops with room-1 published Retiring end elsewhere -/
example : ((run cfgR none (State.init : State Tok) [.openC "gate-1", .topo [] [("gate-1", 1), ("room-1", 2), ("room-2", 1)],
      .req ("gate-1", 1) "room" false [.keep "h"]]).1.handles.map fun e => e.2.ns) = ["room-2"] ∧
    ((run cfgR none (State.init : State Tok) [.openC "gate-1", .topo [] [("gate-1", 1), ("room-1", 1), ("room-2", 1)],
      .req ("gate-1", 1) "room" false [.keep "h"]]).1.handles.map fun e => e.2.ns) = ["room-1"] := by
  decide

/-- the demo history only talks to ruled types (so `node_state_irrelevant` applies to it) -/
example : ∀ op ∈ demo, Ruled cfgX op := by
  intro op h
  simp only [demo, List.mem_cons, List.mem_nil_iff, or_false] at h
  rcases h with rfl | rfl | rfl | rfl <;> first | trivial | (simp [Ruled, cfgX, Cfg.typeOf, lget, c1])

/-- hypotheses of the two out-of-guard theorems are met -/
example : ((Back.init "chat-1" "gate-1" 1 "" : Back Tok).set "x" (.other "fNaN" "!" false)).newData.all (fun e => JVal.rep e.2) = false ∧
    (lset (frontNew c1 : AL Tok) "x" (.other "fNaN" "!" false)).all (fun e => JVal.rep e.2) = false ∧
    (Back.init "chat-1" "gate-1" 1 "" : Back Tok).get? KeyServerId = none := by
  decide

/-- why the guard is there (the frame theorems are handler-discipline facts, not code facts): a handler that
`Set`s the reserved key `_NetId` and queries is re-addressed — its next push writes ANOTHER connection's map -/
theorem reserved_key_write_retargets_session :
    let s : State Tok := (run cfgX none State.init [.openC "gate-1", .openC "gate-1"]).1
    let b : Back Tok := Back.init "chat-1" "gate-1" 1 ""
    let t := runScript cfgX s (.back b) none [.set "_NetId" (.net 2 true), .query, .set "x" (.str "1" "1"), .push]
    t.sess.target = ("gate-1", 2) ∧
    (lget t.st.fronts ("gate-1", 2)).bind (fun m => lget m "x") = some (.str "1" "1") ∧
    (lget t.st.fronts ("gate-1", 1)).bind (fun m => lget m "x") = none ∧
    ¬ GuardSOp true (.set "_NetId" (.net 2 true) : SOp Tok) := by
  refine ⟨by decide, by decide, by decide, ?_⟩
  intro h
  exact (h rfl).2.1 rfl

/-- D16 before the fix, on the same objects: set · query(pre-fix) · push sends nothing -/
def bD16 : Back Tok := (Back.init "chat-1" "gate-1" 1 "").set "k" (.other "i5" "f5" true)
def sD16 : State Tok := { next := [], fronts := [(c1, frontNew c1)], handles := [] }
def bD16pre : Back Tok := (bD16.fromJsonPre (SData.toJson (frontNew c1 : AL Tok))).1
def bD16fix : Back Tok := (bD16.fromJson (SData.toJson (frontNew c1 : AL Tok))).1

example : bD16.dirt = true ∧ bD16pre.dirt = false ∧ (backPush cfgX sD16 bD16pre).1.fronts = sD16.fronts ∧
    (backPush cfgX sD16 bD16pre).2.2.1 = Res.ok ∧
    -- repaired: the same sequence delivers
    (lget (backPush cfgX sD16 bD16fix).1.fronts c1).bind (fun m' => lget m' "k") = some (.other "f5" "f5" true) := by
  decide


/-- the handover on the concrete node: the first message of a connection opened while the front-end is busy is
forwarded (rule-less type `room`) with the id `AddSession` has just assigned; the hypothesis of
`first_message_before_registration_is_of_the_new_connection` / `forwarded_envelope_names_the_connection` is met -/
example : (match (stepOpenReq cfgR (defaultRoute cfgR none) (run cfgR none (State.init : State Tok) [.openC "gate-1"]).1
      "gate-1" "room" false [.id]).1.obs with
    | .ran a (some e) _ r => some (a, e.frontId, e.sessionId, e.uid, r)
    | _ => none) = some ("room-1", "gate-1", 2, "", Resp.ok) := by
  decide

/-- a forward event inside a history, as `every_forward_carries_identity_as_of_then` wants it -/
example : ((run cfgR none (State.init : State Tok) [.openC "gate-1", .req ("gate-1", 1) "gate" false [.bind "u7"],
      .req ("gate-1", 1) "room" false [.id]]).2.filterMap fun e => match e with
    | .fwd c t id fr sid => some (c, t, id, fr, sid)
    | _ => none) = [(("gate-1", 1), "room-1", "u7", "gate-1", 1)] := by
  decide

/-- the hang-up variant on the concrete node: the front-local handler of the first message still runs on the
session (`bind`), its answer is lost, the close handler is handed the map WITH the bound uid, the connection is gone -/
def hangupR : TurnR Tok × Option Conn :=
  stepOpenReq cfgR (defaultRoute cfgR none) (State.init : State Tok) "gate-1" "gate" false [.bind "u7", .id] true

example : hangupR.2 = some ("gate-1", 1) ∧
    (match hangupR.1.obs with | .ran a none rs rp => some (a, rs.length, rp) | _ => none) = some ("gate-1", 2, Resp.none) ∧
    hangupR.1.st.fronts.length = 0 ∧
    (hangupR.1.gone.map fun e => (e.1, lget e.2 "_ID")) = [(("gate-1", 1), some (.str "u7" "u7"))] := by
  decide

end Examples

end Cell2v.Props.C10
