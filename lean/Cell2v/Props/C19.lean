import Cell2v.Lemmas.SceneM
import Cell2v.Lemmas.SceneMSys
import Cell2v.Lemmas.SceneMNode
/-!
C19 — property theorems (MMO scene manager: live scenes and their line numbers
stay consistent).  Only property statements, non-vacuity examples and the
hypothesis witness live here.

`Reachable m` : `m` is the manager state after some history of create-success /
end / refresh / clock / periodic-check / loss / alloc / request events, starting
from `NewMgr`, in which no create-success names a scene id that is live at that
moment (the property's hypothesis; `alloc_ids_fresh` proves it for every history
whose create-successes confirm ids handed out by `AllocScene`, each at most once).
-/
namespace Cell2v.Props.C19
open Cell2v.SceneM

def Reachable (m : Mgr) : Prop := ∃ evs, AdmissibleRun Mgr.init evs ∧ m = Mgr.init.run evs

/-- the invariant holds after every admissible history (induction over the history) -/
theorem worldInv_reachable {m : Mgr} (h : Reachable m) : WorldInv m.world := by
  obtain ⟨evs, ha, rfl⟩ := h
  exact worldInv_run worldInv_empty evs ha

/-- histories can be extended: reachability is closed under admissible events -/
theorem admissibleRun_snoc (e : Ev) : ∀ (m0 : Mgr) (evs : List Ev), AdmissibleRun m0 evs →
    Admissible (m0.run evs) e → AdmissibleRun m0 (evs ++ [e]) := by
  intro m0 evs
  induction evs generalizing m0 with
  | nil => intro _ h; exact ⟨h, trivial⟩
  | cons x xs ih => intro h1 h2; exact ⟨h1.1, ih _ h1.2 h2⟩

theorem reachable_step {m : Mgr} (h : Reachable m) (e : Ev) (ha : Admissible m e) : Reachable (m.step e) := by
  obtain ⟨evs, har, rfl⟩ := h
  exact ⟨evs ++ [e], admissibleRun_snoc e _ _ har ha, by simp [Mgr.run]⟩

/-- **Scenes ↔ lines**: scene ids are distinct; every live scene is registered under
exactly one line, which lies in its own configuration and carries its line number;
every line belongs to exactly one live scene of that configuration. -/
theorem scenes_lines_bijection {m : Mgr} (h : Reachable m) :
    m.world.scenes.Pairwise (fun a b => a.sid ≠ b.sid) ∧
    (∀ o ∈ m.world.scenes,
        (⟨o.cfg, o.sid, o.line⟩ : Line) ∈ m.world.lines o.cfg ∧
        ∀ c, ∀ l ∈ m.world.lines c, l.sid = o.sid → c = o.cfg ∧ l = ⟨o.cfg, o.sid, o.line⟩) ∧
    (∀ c, ∀ l ∈ m.world.lines c, l.cfg = c ∧
        ∃ o ∈ m.world.scenes, (o.sid = l.sid ∧ o.cfg = c ∧ o.line = l.line) ∧
          ∀ o' ∈ m.world.scenes, o'.sid = l.sid → o' = o) := by
  have hw := worldInv_reachable h
  refine ⟨hw.nodup, fun o ho => ⟨hw.sceneLine o ho, fun c l hl he => ?_⟩, fun c l hl => ?_⟩
  · obtain ⟨h1, o', ho', h2, h3, h4⟩ := hw.lineScene c l hl
    have := scene_eq_of_sid_eq hw.nodup ho' ho (h2.trans he)
    subst this
    refine ⟨h3.symm, ?_⟩
    cases l; simp_all
  · obtain ⟨h1, o, ho, h2⟩ := hw.lineScene c l hl
    exact ⟨h1, o, ho, h2, fun o' ho' he => scene_eq_of_sid_eq hw.nodup ho' ho (he.trans h2.1.symm)⟩

/-- **Line numbers** of a configuration are strictly increasing along the list, hence unique. -/
theorem line_ids_unique_sorted {m : Mgr} (h : Reachable m) (c : Nat) :
    (m.world.lines c).Pairwise (fun a b => a.line < b.line) ∧
    ∀ a ∈ m.world.lines c, ∀ b ∈ m.world.lines c, a.line = b.line → a = b :=
  ⟨(worldInv_reachable h).sorted c, fun _ ha _ hb he => line_eq_of_lineid_eq ((worldInv_reachable h).sorted c) ha hb he⟩

/-- **A new line takes the smallest free number** (line numbers start at 0): after a
create-success for a fresh id the scene is registered with a number `id` that no
line of the configuration had, while every smaller number was taken; the lines of
the configuration are the old ones plus the new one; every other configuration and
every other scene is untouched. -/
theorem new_line_is_mex {m : Mgr} (h : Reachable m) (sid cfg svc : Nat)
    (hf : ∀ o ∈ m.world.scenes, o.sid ≠ sid) :
    ∃ id, (m.world.onCreateSucc sid cfg svc).scenes = ⟨sid, cfg, id, svc⟩ :: m.world.scenes ∧
      (∀ l ∈ m.world.lines cfg, l.line ≠ id) ∧
      (∀ j, j < id → ∃ l ∈ m.world.lines cfg, l.line = j) ∧
      (∀ y, y ∈ (m.world.onCreateSucc sid cfg svc).lines cfg ↔ y = ⟨cfg, sid, id⟩ ∨ y ∈ m.world.lines cfg) ∧
      (∀ c, c ≠ cfg → (m.world.onCreateSucc sid cfg svc).lines c = m.world.lines c) := by
  have hw := worldInv_reachable h
  refine ⟨fineIdle (m.world.lines cfg), ?_, fineIdle_not_mem (hw.sorted cfg), fineIdle_below_mem (hw.sorted cfg), ?_, ?_⟩
  · rw [onCreateSucc_fresh _ _ _ _ hf]
  · intro y; rw [onCreateSucc_fresh _ _ _ _ hf]; simp only [updLines_same]; exact mem_insertLine
  · intro c hc; rw [onCreateSucc_fresh _ _ _ _ hf]; exact updLines_other _ _ hc

/-- **Ending a live scene removes exactly that scene and frees exactly its line**:
the scene table loses that one entry (order of the rest unchanged), and a line
survives iff its scene does. -/
theorem end_removes_exactly_one {m : Mgr} (h : Reachable m) (o : SceneObj) (ho : o ∈ m.world.scenes) :
    Shrinks m.world (m.world.onSceneEnd o.sid) (fun x => x.sid != o.sid) ∧
    (m.world.onSceneEnd o.sid).scenes.length + 1 = m.world.scenes.length ∧
    o ∉ (m.world.onSceneEnd o.sid).scenes ∧
    (∀ x ∈ m.world.scenes, x ≠ o → x ∈ (m.world.onSceneEnd o.sid).scenes) ∧
    (∀ c, (m.world.onSceneEnd o.sid).lines c =
        (m.world.lines c).filter (fun l => !(l.cfg == o.cfg && l.line == o.line))) := by
  have hw := worldInv_reachable h
  have hs := shrinks_end hw o.sid
  refine ⟨hs, ?_, ?_, ?_, ?_⟩
  · rw [hs.scenes]; exact length_filter_sid hw.nodup ho
  · rw [hs.scenes]; intro hm; simpa using (List.mem_filter.1 hm).2
  · intro x hx hne
    rw [hs.scenes]
    refine List.mem_filter.2 ⟨hx, ?_⟩
    have : x.sid ≠ o.sid := fun he => hne (scene_eq_of_sid_eq hw.nodup hx ho he)
    simpa using this
  · intro c
    rw [(onSceneEnd_char hw o.sid).2 c]
    apply List.filter_congr
    intro l hl
    obtain ⟨h1, o', ho', h2, h3, h4⟩ := hw.lineScene c l hl
    by_cases he : l.sid = o.sid
    · have := scene_eq_of_sid_eq hw.nodup ho' ho (h2.trans he)
      subst this
      simp [he, h1, h3, h4]
    · have hne : ¬ (l.cfg = o.cfg ∧ l.line = o.line) := by
        rintro ⟨hc, hln⟩
        have hol := hw.sceneLine o ho
        have hc' : c = o.cfg := h1.symm.trans hc
        subst hc'
        exact he (congrArg Line.sid (line_eq_of_lineid_eq (hw.sorted _) hl hol hln))
      have e1 : (l.sid != o.sid) = true := by simp [he]
      have e2 : (!(l.cfg == o.cfg && l.line == o.line)) = true := by
        simp only [Bool.not_eq_true', Bool.and_eq_false_iff, beq_eq_false_iff_ne]
        by_cases hc : l.cfg = o.cfg
        · exact Or.inr (fun hln => hne ⟨hc, hln⟩)
        · exact Or.inl hc
      show (l.sid != o.sid) = !(l.cfg == o.cfg && l.line == o.line)
      rw [e1, e2]

/-- **Ending an unknown scene changes nothing** (no hypothesis on the state needed). -/
theorem end_unknown_noop (w : World) (sid : Nat) (hu : ∀ o ∈ w.scenes, o.sid ≠ sid) : w.onSceneEnd sid = w := by
  have : w.getScene sid = none := by
    unfold World.getScene
    exact List.find?_eq_none.2 (fun o ho => by simpa using hu o ho)
  simp [World.onSceneEnd, this]

/-- **Losing a service removes exactly its scenes and frees exactly their lines**, in
whatever order the scenes are visited. -/
theorem lost_removes_exactly_affected {m : Mgr} (h : Reachable m) (svc : Nat) :
    Shrinks m.world (m.world.onServiceLost svc) (fun o => o.svc != svc) :=
  shrinks_lost (worldInv_reachable h) svc

/-- … also when the scenes of the lost service are ended in any other order (Go map iteration). -/
theorem lost_any_order {m : Mgr} (h : Reachable m) (svc : Nat) (ids : List Nat)
    (hp : ids.Perm (m.world.scenesOf svc)) :
    Shrinks m.world (ids.foldl World.onSceneEnd m.world) (fun o => o.svc != svc) := by
  have hw := worldInv_reachable h
  obtain ⟨_, b, c⟩ := foldl_end_char hw ids
  refine shrinks_congr (shrinks_of_sidfilter hw (fun s => !ids.contains s) b c) (fun o ho => ?_)
  have e1 : ids.contains o.sid = (m.world.scenesOf svc).contains o.sid := by
    apply Bool.eq_iff_iff.2
    simp only [List.contains_iff_mem]
    exact hp.mem_iff
  show (!ids.contains o.sid) = (o.svc != svc)
  rw [e1, scenesOf_contains hw ho]
  rfl

/-- **A repeated loss changes nothing more** (world level, and manager level). -/
theorem repeated_loss_idempotent {m : Mgr} (h : Reachable m) (svc : Nat) :
    (m.world.onServiceLost svc).onServiceLost svc = m.world.onServiceLost svc ∧
    ((m.lost svc).lost svc).world = (m.lost svc).world ∧
    ((m.lost svc).lost svc).services = (m.lost svc).services := by
  have hs := (shrinks_lost (worldInv_reachable h) svc).scenes
  have h0 : (m.world.onServiceLost svc).scenesOf svc = [] := by
    unfold World.scenesOf
    rw [hs, List.filter_filter]
    have : (m.world.scenes.filter (fun a => (a.svc == svc) && (a.svc != svc))) = [] :=
      List.filter_eq_nil_iff.2 (fun a _ => by by_cases h : a.svc = svc <;> simp [h])
    rw [this]; rfl
  have hnil : ∀ w : World, w.scenesOf svc = [] → w.onServiceLost svc = w := by
    intro w hw; unfold World.onServiceLost; rw [hw]; rfl
  have h1 : (m.world.onServiceLost svc).onServiceLost svc = m.world.onServiceLost svc := hnil _ h0
  refine ⟨h1, h1, ?_⟩
  simp only [Mgr.lost, List.map_map]
  apply List.map_congr_left
  intro e _
  by_cases he : e.1 = svc <;> simp [he]

/-- **A request returns a live scene of the requested configuration, or nothing** —
whatever number the random generator draws. -/
theorem request_returns_same_cfg_live_or_none {m : Mgr} (h : Reachable m) (cfg r : Nat) :
    match m.world.reqScene cfg r with
    | none => True
    | some o => o ∈ m.world.scenes ∧ o.cfg = cfg ∧ (⟨cfg, o.sid, o.line⟩ : Line) ∈ m.world.lines cfg := by
  have hw := worldInv_reachable h
  cases hr : m.world.reqScene cfg r with
  | none => trivial
  | some o =>
    unfold World.reqScene at hr
    simp only at hr
    split at hr
    · cases hr
    · split at hr
      · cases hr
      · rename_i l hl
        split at hr
        · cases hr
        · obtain ⟨ho, hsid⟩ := getScene_some hr
          have hlm : l ∈ m.world.lines cfg := List.mem_of_getElem? hl
          obtain ⟨h1, o', ho', h2, h3, h4⟩ := hw.lineScene cfg l hlm
          have := scene_eq_of_sid_eq hw.nodup ho' ho (h2.trans hsid.symm)
          subst this
          refine ⟨ho, h3, ?_⟩
          have := hw.sceneLine o' ho
          rw [h3] at this
          exact this

/-- … and it answers "nothing" only when the configuration has no live scene
(given that no scene carries the reserved id 0, which `allocSceneId` never issues). -/
theorem request_none_only_if_no_scene {m : Mgr} (h : Reachable m) (cfg r : Nat)
    (h0 : ∀ o ∈ m.world.scenes, o.sid ≠ 0) (hn : m.world.reqScene cfg r = none) :
    m.world.lines cfg = [] ∧ ∀ o ∈ m.world.scenes, o.cfg ≠ cfg := by
  have hw := worldInv_reachable h
  have hempty : m.world.lines cfg = [] := by
    cases hls : m.world.lines cfg with
    | nil => rfl
    | cons a as =>
      exfalso
      unfold World.reqScene at hn
      simp only [hls] at hn
      have hpos : 0 < (a :: as).length := by simp
      have hlt : r % (a :: as).length < (a :: as).length := Nat.mod_lt _ hpos
      rw [if_neg (by simp), List.getElem?_eq_getElem hlt] at hn
      simp only at hn
      have hlm : (a :: as)[r % (a :: as).length] ∈ m.world.lines cfg := by rw [hls]; exact List.getElem_mem hlt
      obtain ⟨_, o, ho, h2, _⟩ := hw.lineScene cfg _ hlm
      have hs0 : (a :: as)[r % (a :: as).length].sid ≠ 0 := h2 ▸ h0 o ho
      rw [if_neg hs0, ← h2, getScene_of_mem hw.nodup ho] at hn
      cases hn
  refine ⟨hempty, fun o ho hc => ?_⟩
  have := hw.sceneLine o ho
  rw [hc, hempty] at this
  cases this

/-- **Placement only on working services** — for every order in which the service map
is visited: the chosen service is known and currently considered working; and
"nothing" is answered only if no service is working. -/
theorem alloc_only_on_working (key : Nat → Nat) (m : Mgr) (order : List (Nat × Stat))
    (hp : order.Perm m.services) :
    (∀ k, findIdle key order = some k → ∃ v, (k, v) ∈ m.services ∧ v.working = true) ∧
    (findIdle key order = none → ∀ e ∈ m.services, e.2.working = false) := by
  constructor
  · intro k hk
    unfold findIdle at hk
    cases hl : findIdleLoop key order none with
    | none => simp [hl] at hk
    | some a =>
      obtain ⟨k', wgt⟩ := a
      simp [hl] at hk; subst hk
      obtain ⟨a, _, _⟩ := findIdleLoop_some hl
      rcases a with a | ⟨v, hv, hw, _⟩
      · cases a
      · exact ⟨v, hp.mem_iff.1 hv, hw⟩
  · intro hn e he
    unfold findIdle at hn
    cases hl : findIdleLoop key order none with
    | none => exact (findIdleLoop_none hl).2 e (hp.mem_iff.2 he)
    | some a => simp [hl] at hn

/-- **Placement prefers the least busy**, for any weight function `key` of the reported
scene count and any visiting order: no working service has a strictly smaller
weight than the chosen one. -/
theorem alloc_prefers_least_busy (key : Nat → Nat) (m : Mgr) (order : List (Nat × Stat))
    (hp : order.Perm m.services) (k : Nat) (hk : findIdle key order = some k) :
    ∃ v, (k, v) ∈ m.services ∧ v.working = true ∧
      ∀ e ∈ m.services, e.2.working = true → key v.n ≤ key e.2.n := by
  unfold findIdle at hk
  cases hl : findIdleLoop key order none with
  | none => simp [hl] at hk
  | some a =>
    obtain ⟨k', wgt⟩ := a
    simp [hl] at hk; subst hk
    obtain ⟨a, _, c⟩ := findIdleLoop_some hl
    rcases a with a | ⟨v, hv, hw, hb⟩
    · cases a
    · refine ⟨v, hp.mem_iff.1 hv, hw, fun e he hwe => ?_⟩
      have := c e (hp.mem_iff.2 he) hwe
      simp only [Stat.busy, hw, hwe, if_true] at hb this
      omega

/-- With the code's weight (`CPURate = 0`: `0.2·n/1000` clamped at 1, i.e. `min n 5000` up
to order): the chosen service reports no more scenes than any other working
service that is not itself saturated (≥ 5000 scenes). -/
theorem alloc_least_scene_count (m : Mgr) (order : List (Nat × Stat))
    (hp : order.Perm m.services) (k : Nat) (hk : findIdle satKey order = some k) :
    ∃ v, (k, v) ∈ m.services ∧ v.working = true ∧
      ∀ e ∈ m.services, e.2.working = true → v.n ≤ e.2.n ∨ 5000 ≤ e.2.n := by
  obtain ⟨v, hv, hw, hmin⟩ := alloc_prefers_least_busy satKey m order hp k hk
  refine ⟨v, hv, hw, fun e he hwe => ?_⟩
  have := hmin e he hwe
  simp only [satKey] at this
  omega

/-- Every least-busy working service can be the one chosen (some visiting order picks it):
the driver's acceptance test is exact, not merely sound. -/
theorem alloc_any_least_busy_possible (key : Nat → Nat) (m : Mgr) (k : Nat) (v : Stat)
    (hv : (k, v) ∈ m.services) (hw : v.working = true)
    (hmin : ∀ e ∈ m.services, e.2.working = true → key v.n ≤ key e.2.n) :
    ∃ order, order.Perm m.services ∧ findIdle key order = some k := by
  refine ⟨(k, v) :: m.services.erase (k, v), (List.perm_cons_erase hv).symm, ?_⟩
  have hb : v.busy key = key v.n := by simp [Stat.busy, hw]
  have hkeep := findIdleLoop_keep (key := key) (rest := m.services.erase (k, v)) (k := k) (wgt := v.busy key)
    (fun e he hwe => by
      have := hmin e (List.mem_of_mem_erase he) hwe
      simp only [Stat.busy, hw, hwe, if_true]; exact this)
  simp [findIdle, findIdleLoop, hw, hkeep]

/-- `AllocScene` hands out the counter value and moves the counter only on success. -/
theorem alloc_id_counter (key : Nat → Nat) (m : Mgr) (order : List (Nat × Stat)) :
    (findIdle key order = none → m.alloc key order = (m, none)) ∧
    (∀ k, findIdle key order = some k →
        m.alloc key order = ({ m with nextId := m.nextId + 1 }, some (k, m.nextId))) := by
  constructor
  · intro h; simp [Mgr.alloc, h]
  · intro k h; simp [Mgr.alloc, h]

/-- **The hypothesis holds for the ids the manager allocates**: in every history whose
create-successes confirm ids handed out by `AllocScene` (each at most once), no
create-success names a live scene — so all of the above applies. -/
theorem alloc_ids_fresh (evs : List Ev) (hd : Disciplined Mgr.init [] evs) :
    AdmissibleRun Mgr.init evs ∧ Reachable (Mgr.init.run evs) :=
  have ha := disciplined_admissible idInv_init evs hd
  ⟨ha, evs, ha, rfl⟩

/-- **A scene whose creation failed never becomes live**: when the allocation request of
`SpawnScene` fails or is never answered, the world is exactly what it was (only the scene id is
used up); when it succeeds, the history stays within the hypothesis (a fresh id is confirmed once). -/
theorem failed_spawn_registers_nothing (m : Mgr) (cfg svc : Nat) (r : Option Reply) (hr : r ≠ some .ok) :
    (m.run (spawnEvents m cfg svc r)).world = m.world ∧
    (m.run (spawnEvents m cfg svc r)).services = m.services ∧
    (m.run (spawnEvents m cfg svc r)).nextId = m.nextId + 1 := by
  cases r with
  | none => exact ⟨rfl, rfl, rfl⟩
  | some x => cases x with
    | ok => exact absurd rfl hr
    | err => exact ⟨rfl, rfl, rfl⟩

theorem spawn_keeps_discipline (m : Mgr) (p : List Nat) (cfg svc : Nat) (r : Option Reply) :
    Disciplined m p (spawnEvents m cfg svc r) := by
  cases r with
  | none => exact trivial
  | some x => cases x with
    | ok => exact ⟨List.mem_cons_self, trivial⟩
    | err => exact trivial

/-- without the `return` after the error (seeded mutation) a failed request yields a live scene -/
theorem spawn_without_return_registers_failed :
    ((Mgr.init.refresh 1 0).run (spawnEventsNoReturn (Mgr.init.refresh 1 0) 100 1 (some .err))).world.scenes
      = [⟨1, 100, 0, 1⟩] ∧
    ((Mgr.init.refresh 1 0).run (spawnEvents (Mgr.init.refresh 1 0) 100 1 (some .err))).world.scenes = [] := by
  decide

/-- **The periodic check removes exactly the scenes of the services it declares lost**
(and frees exactly their lines); which services those are does not depend on the
order in which the service map is visited. -/
theorem tick_removes_exactly_lost {m : Mgr} (h : Reachable m) :
    Shrinks m.world m.tick.world (fun o => !(lostNow m.now m.services).contains o.svc) ∧
    m.tick.services = m.services.map (fun e => (e.1, tickStat m.now e.2)) ∧
    (∀ e ∈ m.services, (tickStat m.now e.2).working = (e.2.working && !losesNow m.now e.2)) := by
  refine ⟨?_, tick_services m, fun e _ => tickStat_working _ _⟩
  rw [tick_world]
  exact shrinks_lostMany (worldInv_reachable h) _

/-- … and the visiting order of the service map does not matter: running the same check
over any permutation of the services removes the same scenes and frees the same lines. -/
theorem tick_any_order {m : Mgr} (h : Reachable m) (order : List (Nat × Stat)) (hp : order.Perm m.services) :
    Shrinks m.world (order.foldl (tickOne m.now) ([], m.world)).2
      (fun o => !(lostNow m.now m.services).contains o.svc) := by
  rw [tick_fold]
  refine shrinks_congr (shrinks_lostMany (worldInv_reachable h) _) (fun o _ => ?_)
  have hperm : (lostNow m.now order).Perm (lostNow m.now m.services) := (hp.filter _).map _
  have : (lostNow m.now order).contains o.svc = (lostNow m.now m.services).contains o.svc := by
    apply Bool.eq_iff_iff.2
    simp only [List.contains_iff_mem]
    exact hperm.mem_iff
  show (!(lostNow m.now order).contains o.svc) = !(lostNow m.now m.services).contains o.svc
  rw [this]

/-- **Keep-alive**: a service is declared lost only when it was considered working and
has not refreshed for at least 12 s (4 failures, each at least 3 s after the
previous one); a refresh makes it working again. -/
theorem loss_only_after_silence {m : Mgr} (h : Reachable m) (e : Nat × Stat) (he : e ∈ m.services)
    (hl : losesNow m.now e.2 = true) :
    e.2.working = true ∧ (tickStat m.now e.2).working = false ∧ e.2.since + 12000 ≤ m.now := by
  obtain ⟨evs, _, rfl⟩ := h
  have hk : KeepInv (Mgr.init.run evs) := keepInv_run (fun e he => by simp [Mgr.init] at he) evs
  exact loss_needs_silence (hk e he) hl

theorem refresh_marks_working (m : Mgr) (svc n : Nat) :
    lookupStat (m.refresh svc n).services svc =
      some { n := n, working := true, last := m.now, failed := 0, since := m.now } := by
  have key : ∀ (svcs : List (Nat × Stat)) (st : Stat), svcs.any (fun e => e.1 == svc) = true →
      ((svcs.map (fun e => if e.1 == svc then (e.1, st) else e)).find? (fun e => e.1 == svc)).map (·.2) = some st := by
    intro svcs st
    induction svcs with
    | nil => intro h; simp at h
    | cons x xs ih =>
      intro h
      by_cases hx : x.1 = svc
      · simp [hx]
      · have : xs.any (fun e => e.1 == svc) = true := by simpa [hx] using h
        simpa [hx] using ih this
  unfold Mgr.refresh lookupStat
  split
  · rename_i hany
    exact key _ _ hany
  · rename_i hany
    have hnone : m.services.find? (fun e => e.1 == svc) = none :=
      List.find?_eq_none.2 (fun e he hk => hany (List.any_eq_true.2 ⟨e, he, hk⟩))
    simp [List.find?_append, hnone]

/-- The hypothesis is needed: a second create-success for a live scene id leaves two
lines for one scene (the model mirrors the code here; `allocSceneId` never lets it happen). -/
theorem dup_create_breaks_bijection :
    (dupCreateWorld.lines 100).length = 2 ∧ dupCreateWorld.scenes.length = 1 ∧
    (dupCreateWorld.onSceneEnd 7).lines 100 = [⟨100, 7, 0⟩] ∧ (dupCreateWorld.onSceneEnd 7).scenes = [] := by
  decide

/-! ## The manager as a system: `SpawnScene`, the keeper, requests in flight (no hypothesis on the history)

`SReachable s`: `s` is the state after ANY list of system events (cluster-view change, `SpawnScene`,
the keeper's `trySpawnScene`, an answer — for a known or unknown request, success or failure —, scene end,
refresh, clock, periodic check, manager/world-level loss), starting from `NewMgr`.  Scenes come into
being only through an allocation and its successful answer, so the hypothesis of the theorems above
("no create-success names a live scene") is not assumed here but proved. -/

def SReachable (s : Sys) : Prop := ∃ evs, s = Sys.init.run evs

theorem sysInv_reachable {s : Sys} (h : SReachable s) : SysInv s := by
  obtain ⟨evs, rfl⟩ := h
  exact sysInv_run sysInv_init evs

/-- **Every system history satisfies the hypothesis**: the manager state of a system history is
`Reachable`, hence all theorems above (bijection, sorted/unique line numbers, smallest free line,
exact removal, requests) hold for it without any assumption. -/
theorem sys_history_admissible {s : Sys} (h : SReachable s) : Reachable s.m := by
  obtain ⟨evs, rfl⟩ := h
  obtain ⟨mevs, ha, hr⟩ := sys_run_embeds sysInv_init evs
  exact ⟨mevs, ha, hr⟩

/-- … in particular the bijection and the line-number clauses, stated once more for system histories -/
theorem sys_world_consistent {s : Sys} (h : SReachable s) :
    WorldInv s.m.world ∧ (∀ c, (s.m.world.lines c).Pairwise (fun a b => a.line < b.line)) :=
  ⟨(sysInv_reachable h).world, fun c => (sysInv_reachable h).world.sorted c⟩

/-- **Scene ids**: requests in flight carry pairwise distinct, nonzero ids that are not live and were
issued by the counter; live scenes carry nonzero ids issued by the counter (uint64 wrap-around not modelled). -/
theorem sys_ids_disciplined {s : Sys} (h : SReachable s) :
    s.pending.Pairwise (fun a b => a.sid ≠ b.sid) ∧
    (∀ p ∈ s.pending, p.sid ≠ 0 ∧ p.sid < s.m.nextId ∧ ∀ o ∈ s.m.world.scenes, o.sid ≠ p.sid) ∧
    (∀ o ∈ s.m.world.scenes, o.sid ≠ 0 ∧ o.sid < s.m.nextId) := by
  have hi := sysInv_reachable h
  refine ⟨hi.pnodup, fun p hp => ⟨Nat.pos_iff_ne_zero.1 (hi.pIds p hp).1, (hi.pIds p hp).2,
    fun o ho => hi.liveNotPending o ho p hp⟩, fun o ho => ⟨Nat.pos_iff_ne_zero.1 (hi.liveIds o ho).1, (hi.liveIds o ho).2⟩⟩

/-- **A request answers "nothing" exactly when the configuration has no live scene** — for system
histories the reserved id 0 never occurs, so `request_none_only_if_no_scene` needs no side condition. -/
theorem sys_request_none_iff_no_scene {s : Sys} (h : SReachable s) (cfg r : Nat) :
    s.m.world.reqScene cfg r = none ↔ ∀ o ∈ s.m.world.scenes, o.cfg ≠ cfg := by
  have hi := sysInv_reachable h
  constructor
  · intro hn
    exact (request_none_only_if_no_scene (sys_history_admissible h) cfg r
      (fun o ho => Nat.pos_iff_ne_zero.1 (hi.liveIds o ho).1) hn).2
  · intro hno
    have hempty : s.m.world.lines cfg = [] := by
      cases hls : s.m.world.lines cfg with
      | nil => rfl
      | cons a as =>
        exfalso
        have ha : a ∈ s.m.world.lines cfg := by rw [hls]; exact List.mem_cons_self
        obtain ⟨_, o, ho, _, hc, _⟩ := hi.world.lineScene cfg a ha
        exact hno o ho hc
    simp [World.reqScene, hempty]

/-- **Placement over histories**: in every history (the only side condition: `FindIdleService` visits the
service map in SOME order), every live scene and every request in flight was placed by a
`SpawnScene`/keeper/`AllocScene`-handler event of that history, and at that moment its service was known,
considered working, and no working service was less busy; its id was the value of the id counter. -/
theorem placement_over_histories (evs : List SEv) (hok : OkRun Sys.init evs) :
    let placed := fun (sid cfg svc : Nat) =>
      ∃ pre post order e, SEv.places e cfg order ∧ evs = pre ++ e :: post ∧
        (Sys.init.run pre).m.nextId = sid ∧
        ∃ v, (svc, v) ∈ (Sys.init.run pre).m.services ∧ v.working = true ∧
          ∀ x ∈ (Sys.init.run pre).m.services, x.2.working = true → satKey v.n ≤ satKey x.2.n
    (∀ o ∈ (Sys.init.run evs).m.world.scenes, placed o.sid o.cfg o.svc) ∧
    (∀ p ∈ (Sys.init.run evs).pending, placed p.sid p.cfg p.svc) := by
  intro placed
  have conv : ∀ sid cfg svc, PlacedAt evs sid cfg svc → placed sid cfg svc := by
    rintro sid cfg svc ⟨pre, post, order, e, hpl, hsplit, hperm, hid, hfind⟩
    exact ⟨pre, post, order, e, hpl, hsplit, hid, alloc_prefers_least_busy satKey _ order hperm svc hfind⟩
  obtain ⟨a, b⟩ := origin_run evs hok
  exact ⟨fun o ho => conv _ _ _ (a o ho), fun p hp => conv _ _ _ (b p hp)⟩

/-- **`SpawnScene` itself registers nothing** (whatever it answers, and also when the request fails at
once because the chosen service is not in the cluster view), and it answers `false` only if no
service is working. -/
theorem spawn_registers_nothing (s : Sys) (cfg : Nat) (order : List (Nat × Stat)) (hp : order.Perm s.m.services) :
    (s.spawn cfg order).1.m.world = s.m.world ∧ (s.spawn cfg order).1.m.services = s.m.services ∧
    ((s.spawn cfg order).2 = .noService → ∀ e ∈ s.m.services, e.2.working = false) ∧
    (∀ sid k, (s.spawn cfg order).2 = .noRoute sid k → (s.spawn cfg order).1.pending = s.pending) := by
  rcases spawn_cases s cfg order with ⟨hk, e⟩ | ⟨k, hk, _, e⟩ | ⟨k, hk, _, e⟩ <;> rw [e] <;> refine ⟨rfl, rfl, ?_, ?_⟩
  · exact fun _ => (alloc_only_on_working satKey s.m order hp).2 hk
  · intro sid k h; simp at h
  · intro h; simp at h
  · intro sid k' h; simp at h
  · intro h; simp at h
  · intro sid k' _; rfl

/-- **A failed or unknown answer registers nothing; an answer is consumed at most once.**
(The theorem is about `Sys.reply`, the model of the reply callback, not about a hand-written event list.) -/
theorem failed_reply_registers_nothing (s : Sys) (sid : Nat) :
    (s.reply sid false).m = s.m ∧
    (∀ ok, (∀ p ∈ s.pending, p.sid ≠ sid) → s.reply sid ok = s) ∧
    (∀ ok ok', (s.reply sid ok).reply sid ok' = s.reply sid ok) := by
  have unknown : ∀ (t : Sys) ok, (∀ p ∈ t.pending, p.sid ≠ sid) → t.reply sid ok = t := by
    intro t ok hu
    have : t.pending.find? (fun p => p.sid == sid) = none :=
      List.find?_eq_none.2 (fun p hp => by simpa using hu p hp)
    unfold Sys.reply; rw [this]
  refine ⟨?_, fun ok => unknown s ok, fun ok ok' => ?_⟩
  · unfold Sys.reply
    cases s.pending.find? (fun p => p.sid == sid) <;> rfl
  · apply unknown
    intro p hp
    unfold Sys.reply at hp
    cases hf : s.pending.find? (fun p => p.sid == sid) with
    | none =>
      rw [hf] at hp
      exact fun he => by
        have := List.find?_eq_none.1 hf p hp
        simp [he] at this
    | some q =>
      rw [hf] at hp
      have hp' : p ∈ s.pending.filter (fun q => q.sid != sid) := by
        cases ok <;> simpa using hp
      simpa using (List.mem_filter.1 hp').2

/-- **A successful answer registers exactly the scene the request was sent for** — with the id,
configuration and service fixed at allocation time, on the smallest free line of its configuration;
all other scenes and configurations are untouched; the request is no longer in flight. -/
theorem reply_ok_registers_exactly {s : Sys} (h : SReachable s) (sid : Nat) (p : Pend)
    (hf : s.pending.find? (fun p => p.sid == sid) = some p) :
    ∃ id, (s.reply sid true).m.world.scenes = ⟨p.sid, p.cfg, id, p.svc⟩ :: s.m.world.scenes ∧
      p.sid = sid ∧
      (∀ l ∈ s.m.world.lines p.cfg, l.line ≠ id) ∧
      (∀ j, j < id → ∃ l ∈ s.m.world.lines p.cfg, l.line = j) ∧
      (∀ c, c ≠ p.cfg → (s.reply sid true).m.world.lines c = s.m.world.lines c) ∧
      (s.reply sid true).pending = s.pending.filter (fun q => q.sid != sid) ∧
      (s.reply sid true).m.services = s.m.services := by
  have hi := sysInv_reachable h
  refine ⟨fineIdle (s.m.world.lines p.cfg), ?_, (find_pending hf).2,
    fineIdle_not_mem (hi.world.sorted _), fineIdle_below_mem (hi.world.sorted _), ?_, ?_, ?_⟩
  · rw [reply_ok_eq hi hf]
  · intro c hc; rw [reply_ok_eq hi hf]; exact updLines_other _ _ hc
  · rw [reply_ok_eq hi hf]
  · rw [reply_ok_eq hi hf]

/-- **The keeper** (`PublicScenes.trySpawnScene`) does nothing while the configuration has at least
`reqNum` confirmed lines, and otherwise does exactly one `SpawnScene`. -/
theorem keeper_spawns_only_below_need (s : Sys) (cfg n : Nat) (order : List (Nat × Stat)) :
    ((s.m.world.lines cfg).length ≥ n → s.keeper cfg n order = (s, (s.m.world.lines cfg).length)) ∧
    ((s.m.world.lines cfg).length < n → (s.keeper cfg n order).1 = (s.spawn cfg order).1) := by
  constructor
  · intro h; simp [Sys.keeper, h]
  · intro h
    rcases keeper_fst s cfg n order with ⟨h', _⟩ | ⟨_, e⟩
    · omega
    · exact e

/-- **The remote `AllocScene` handler** places exactly like `SpawnScene` (same allocation, same request);
it registers nothing itself; when no service is working the client is never answered and nothing
changes (handler/remote.go dereferences the nil allocation inside a scheduler task whose panic is
recovered); a client is told "ok" only by the answer that registers its scene. -/
theorem handler_places_like_spawn (s : Sys) (cfg : Nat) (order : List (Nat × Stat)) (hp : order.Perm s.m.services) :
    (s.halloc cfg order).1.m = (s.spawn cfg order).1.m ∧
    (s.halloc cfg order).1.pending = (s.spawn cfg order).1.pending ∧
    (s.halloc cfg order).1.m.world = s.m.world ∧
    ((s.halloc cfg order).2 = .silent ↔ (s.spawn cfg order).2 = .noService) ∧
    ((s.halloc cfg order).2 = .silent → (s.halloc cfg order).1 = s ∧ ∀ e ∈ s.m.services, e.2.working = false) := by
  have hw := (spawn_registers_nothing s cfg order hp).1
  have hn := (spawn_registers_nothing s cfg order hp).2.2.1
  unfold Sys.halloc
  rcases spawn_cases s cfg order with ⟨hk, e⟩ | ⟨k, hk, _, e⟩ | ⟨k, hk, _, e⟩ <;> rw [e] at hw hn ⊢
  · exact ⟨rfl, rfl, rfl, by simp, fun _ => ⟨rfl, hn rfl⟩⟩
  · exact ⟨rfl, rfl, rfl, by simp, fun h => by simp at h⟩
  · exact ⟨rfl, rfl, rfl, by simp, fun h => by simp at h⟩

theorem handler_ack_only_for_registered_scene {s : Sys} (h : SReachable s) (sid : Nat)
    (ha : s.replyAck sid true = some true) :
    ∃ p ∈ s.pending, p.sid = sid ∧ sid ∈ s.waiting ∧
      ∃ id, (s.reply sid true).m.world.scenes = ⟨sid, p.cfg, id, p.svc⟩ :: s.m.world.scenes ∧
        sid ∉ (s.reply sid true).waiting := by
  unfold Sys.replyAck at ha
  split at ha
  · rename_i hc
    simp only [Bool.and_eq_true, List.any_eq_true, List.contains_iff_mem] at hc
    obtain ⟨⟨q, hq, hqs⟩, hw⟩ := hc
    cases hf : s.pending.find? (fun p => p.sid == sid) with
    | none => exact absurd hqs (by simpa using List.find?_eq_none.1 hf q hq)
    | some p =>
      obtain ⟨hp, hsid⟩ := find_pending hf
      obtain ⟨id, h1, _⟩ := reply_ok_registers_exactly h sid p hf
      refine ⟨p, hp, hsid, hw, id, hsid ▸ h1, ?_⟩
      rw [reply_ok_eq (sysInv_reachable h) hf]
      intro hm
      simpa using (List.mem_filter.1 hm).2
  · cases ha

/-- the state after: service 1 refreshed, routable -/
def sys1 : Sys := (Sys.init.step (.route [1])).step (.refresh 1 0)

def ord1 : List (Nat × Stat) := [(1, { n := 0, working := true, last := 0, failed := 0, since := 0 })]

/-- What the keeper does NOT guarantee (the model mirrors publicscenes.go, which counts confirmed
lines only): with answers outstanding it sends another request every time it runs, and when all
are confirmed the configuration has more lines than `ReqNum` (here 2 for `ReqNum = 1`). -/
theorem keeper_overshoots_with_replies_outstanding :
    let s := (((sys1.step (.keeper 100 1 ord1)).step (.keeper 100 1 ord1)).step (.reply 1 true)).step (.reply 2 true)
    (s.m.world.lines 100).length = 2 ∧ s.m.world.scenes.map (·.sid) = [2, 1] := by
  decide

/-- the history of review finding 1: allocation, then the service falls silent and is declared lost,
then the (late) successful answer arrives -/
def lateConfirm : List SEv :=
  [.route [1], .refresh 1 0, .spawn 100 ord1, .adv 3000, .tick, .adv 3000, .tick, .adv 3000, .tick, .adv 3000, .tick,
   .reply 1 true]

/-- What placement does NOT guarantee (the model mirrors world.go: `OnSceneCreateSucc` does not look at
the service): a successful answer that arrives after its service was declared lost registers the
scene on that non-working service; the loss has already been processed, so nothing removes it. -/
theorem late_confirm_registers_on_lost_service :
    (Sys.init.run lateConfirm).m.world.scenes = [⟨1, 100, 0, 1⟩] ∧
    (Sys.init.run lateConfirm).m.services.map (fun e => (e.1, e.2.working)) = [(1, false)] ∧
    (Sys.init.run (lateConfirm ++ [.adv 3000, .tick])).m.world.scenes = [⟨1, 100, 0, 1⟩] := by
  decide

/-! ## The manager as the node runs it: the public-scene table, whole keeper rounds, the service's three timers

`NReachable n`: `n` is the state after ANY list of node events — every system event (a refresh also starts the
keeper), `addPublicScene`, a whole `PublicScenes.Update` over the table, and the service's loop serving its timer
queue (keep-alive check armed by `SceneServiceMgr.Start`, keeper armed by `PublicScenes.Start`, the request
layer's expiry check armed by the first request) — from `NewService` + `Start`, for either value of the two
configuration switches `Init` reads. -/

def NReachable (n : Node) : Prop := ∃ perf pub evs, n = (Node.init perf pub).run evs

/-- **Node histories are system histories** (a keeper round is a list of `trySpawnScene` events, a served timer is a
periodic check / a round / failed answers for the requests past their deadline): so every theorem about system
histories — bijection, sorted unique line numbers, smallest free line, exact removal, requests, id discipline —
holds for the node with its real timers, with no hypothesis. -/
theorem node_history_is_system_history {n : Node} (h : NReachable n) : SReachable n.sys ∧ Reachable n.sys.m := by
  obtain ⟨perf, pub, evs, rfl⟩ := h
  obtain ⟨sevs, h1, _⟩ := node_run_sys (Node.init perf pub) evs
  have hs : SReachable ((Node.init perf pub).run evs).sys := ⟨sevs, h1⟩
  exact ⟨hs, sys_history_admissible hs⟩

/-- … and placement holds over node histories: when the map orders are orders of the maps and the timer queue is in
firing order, every live scene and every request in flight was placed on a known, working, least-busy service. -/
theorem node_placement_over_histories (perf pub : Bool) (evs : List NEv) (hok : NOkRun (Node.init perf pub) evs) :
    ∃ sevs, ((Node.init perf pub).run evs).sys = Sys.init.run sevs ∧ OkRun Sys.init sevs ∧
      ∀ o ∈ ((Node.init perf pub).run evs).sys.m.world.scenes,
        ∃ pre post order e, SEv.places e o.cfg order ∧ sevs = pre ++ e :: post ∧ (Sys.init.run pre).m.nextId = o.sid ∧
          ∃ v, (o.svc, v) ∈ (Sys.init.run pre).m.services ∧ v.working = true ∧
            ∀ x ∈ (Sys.init.run pre).m.services, x.2.working = true → satKey v.n ≤ satKey x.2.n := by
  obtain ⟨sevs, h1, h2⟩ := node_run_sys (Node.init perf pub) evs
  refine ⟨sevs, h1, h2 hok, fun o ho => ?_⟩
  have := (placement_over_histories sevs (h2 hok)).1
  rw [h1] at ho
  exact this o ho

/-- **The public-scene table** has one entry per configuration after every history; `addPublicScene` keeps an
existing entry (the first registration wins) and appends a new one. -/
theorem public_table_keys_unique {n : Node} (h : NReachable n) : (n.table.map (·.1)).Nodup := by
  obtain ⟨perf, pub, evs, rfl⟩ := h
  exact (nodeInv_run (nodeInv_init perf pub) evs).keys

theorem add_public_first_wins (t : List (Nat × Nat)) (cfg k k' : Nat) :
    ((cfg, k) ∈ t → addPublic t cfg k' = t) ∧ ((∀ e ∈ t, e.1 ≠ cfg) → addPublic t cfg k' = t ++ [(cfg, k')]) :=
  ⟨addPublic_first_wins t cfg k k', addPublic_new t cfg k'⟩

/-- the table `Init` builds: with both switches set (as in the repository) the performance-test numbers win -/
theorem init_table :
    initTable true true = [(100, 1), (101, 50), (102, 50)] ∧ initTable false true = [(100, 1), (101, 5), (102, 5)] ∧
    initTable true false = [(100, 1), (101, 50), (102, 50)] ∧ initTable false false = [] := by decide

/-- **The keeper starts with the first scene service**: its timer is armed exactly when some service has reported
(`OnServiceRefresh → … → PublicScenes.Start`, idempotent). -/
theorem keeper_starts_with_first_service {n : Node} (h : NReachable n) : n.keeperDue = none ↔ n.sys.m.services = [] := by
  obtain ⟨perf, pub, evs, rfl⟩ := h
  exact (nodeInv_run (nodeInv_init perf pub) evs).started

/-- **A whole keeper round** (`PublicScenes.Update`), for every order in which the table and the service map are
visited: it registers nothing and touches no service; the requests it sends are appended to those in flight,
at most one per configuration, each for an entry of the table whose configuration has fewer confirmed lines
than required, each with a fresh id. -/
theorem keeper_round_asks_only_below_need {n : Node} (hk : (n.table.map (·.1)).Nodup) (visits : List Visit)
    (hv : VisitsOk n.table n.sys.m.services visits) :
    (n.update visits).sys.m.world = n.sys.m.world ∧ (n.update visits).sys.m.services = n.sys.m.services ∧
    ∃ added : List Pend, (n.update visits).sys.pending = n.sys.pending ++ added ∧
      (added.map (·.cfg)).Nodup ∧ added.length ≤ n.table.length ∧
      (∀ p ∈ added, ∃ k, (p.cfg, k) ∈ n.table ∧ (n.sys.m.world.lines p.cfg).length < k) ∧
      (∀ p ∈ added, n.sys.m.nextId ≤ p.sid ∧ p.sid < (n.update visits).sys.m.nextId) := by
  obtain ⟨w, sv, _, _, _, added, hp, hsub, hneed, hids⟩ := runVisits_char n.sys visits
  have hperm : (visits.map (·.1.1)).Perm (n.table.map (·.1)) := by
    have := hv.1.map (·.1)
    rw [List.map_map] at this
    exact this
  refine ⟨w, sv, added, hp, hsub.nodup (hperm.nodup_iff.2 hk), ?_, fun p hpm => ?_, hids⟩
  · have h1 := hsub.length_le
    have h2 := hperm.length_eq
    simp only [List.length_map] at h1 h2
    omega
  · obtain ⟨v, hvm, hc, hl⟩ := hneed p hpm
    refine ⟨v.1.2, ?_, hl⟩
    have : v.1 ∈ visits.map (·.1) := List.mem_map.2 ⟨v, hvm, rfl⟩
    have := hv.1.mem_iff.1 this
    rw [← hc]; exact this

/-- **The timer queue**: once the service's loop has served it (every timer that was on it ran, in whatever order)
nothing is on it, and serving it again before the clock moves changes nothing — a timer runs once per period
however late the queue is served. -/
theorem timers_serve_queue_once (n : Node) (order order' : List TK) (visits visits' : List Visit)
    (h : TK.tick ∈ order ∧ TK.keeper ∈ order ∧ TK.expiry ∈ order) :
    (n.timers order visits).Idle ∧ (n.timers order visits).timers order' visits' = n.timers order visits :=
  ⟨timers_idle_after n order visits h, timers_noop_of_idle _ order' visits' (timers_idle_after n order visits h)⟩

/-- **A request that times out registers nothing**: the expiry check amounts to failed answers; the manager's state
(world, services, id counter) is untouched, no request is added, and the requests it completed are no longer in flight. -/
theorem request_timeout_registers_nothing (n : Node) :
    n.fireExpiry.sys.m = n.sys.m ∧ (∀ p ∈ n.fireExpiry.sys.pending, p ∈ n.sys.pending) ∧
    (n.expiryQueued = true → n.sys.pending ≠ [] → ∀ p ∈ n.expired, ∀ q ∈ n.fireExpiry.sys.pending, q.sid ≠ p.sid) ∧
    (∀ p ∈ n.expired, p ∈ n.sys.pending ∧ ∃ d, (p.sid, d) ∈ n.deadlines ∧ d < n.sys.m.now) := by
  have hpend : ∀ (s : Sys) (sid : Nat), (s.reply sid false).pending = s.pending.filter (fun q => q.sid != sid) := by
    intro s sid
    unfold Sys.reply
    cases hf : s.pending.find? (fun p => p.sid == sid) with
    | none =>
      symm
      apply List.filter_eq_self.2
      intro q hq
      have := List.find?_eq_none.1 hf q hq
      simpa using this
    | some p => rfl
  have key : ∀ (ps : List Pend) (s : Sys),
      (ps.foldl (fun s p => s.reply p.sid false) s).m = s.m ∧
      (∀ q ∈ (ps.foldl (fun s p => s.reply p.sid false) s).pending, q ∈ s.pending) ∧
      (∀ p ∈ ps, ∀ q ∈ (ps.foldl (fun s p => s.reply p.sid false) s).pending, q.sid ≠ p.sid) := by
    intro ps
    induction ps with
    | nil => intro s; exact ⟨rfl, fun _ h => h, fun _ h => nomatch h⟩
    | cons p ps ih =>
      intro s
      obtain ⟨a, b, c⟩ := ih (s.reply p.sid false)
      refine ⟨a.trans (failed_reply_m s p.sid), fun q hq => ?_, fun p' hp' q hq => ?_⟩
      · have := b q hq
        rw [hpend] at this
        exact (List.mem_filter.1 this).1
      · rcases List.mem_cons.1 hp' with rfl | hp'
        · have := b q hq
          rw [hpend] at this
          simpa using (List.mem_filter.1 this).2
        · exact c p' hp' q hq
  refine ⟨?_, ?_, ?_, ?_⟩
  · unfold Node.fireExpiry
    split
    · split
      · rfl
      · exact (key _ _).1
    · rfl
  · unfold Node.fireExpiry
    split
    · split
      · exact fun _ h => h
      · exact (key _ _).2.1
    · exact fun _ h => h
  · intro hq hne
    unfold Node.fireExpiry
    rw [if_pos hq, if_neg (by simpa using hne)]
    exact (key _ _).2.2
  · intro p hp
    unfold Node.expired at hp
    obtain ⟨hp1, hp2⟩ := List.mem_filter.1 hp
    refine ⟨hp1, ?_⟩
    split at hp2
    · rename_i e he
      have hm := List.mem_of_find?_eq_some he
      have hk := List.find?_some he
      refine ⟨e.2, ?_, by simpa using hp2⟩
      have : e.1 = p.sid := by simpa using hk
      rw [← this]; exact hm
    · cases hp2

/-- **`FindIdleService` as written** (the empty string doubles as "none yet") is the model's `findIdle` whenever no
service is registered under the empty id (service 0 here) — so `alloc_only_on_working`, `alloc_prefers_least_busy`,
`alloc_any_least_busy_possible` speak about the code's loop. -/
theorem findIdleGo_eq_findIdle (key : Nat → Nat) (order : List (Nat × Stat)) (h : ∀ e ∈ order, e.1 ≠ 0) :
    findIdleGo key order = findIdle key order := findIdleGo_eq key order h

/-- What is NOT guaranteed when a scene service reports under the empty id (the model mirrors mgr.go): visited after
the empty id, a busier service replaces a less busy one that was visited earlier; and when the empty id is the best
candidate at the end `AllocScene` answers "no service" although services are working. -/
theorem empty_service_id_breaks_placement :
    findIdleGo satKey [(2, ⟨3, true, 0, 0, 0⟩), (0, ⟨0, true, 0, 0, 0⟩), (1, ⟨9, true, 0, 0, 0⟩)] = some 1 ∧
    findIdleGo satKey [(1, ⟨9, true, 0, 0, 0⟩), (0, ⟨0, true, 0, 0, 0⟩)] = none ∧
    findIdle satKey [(2, ⟨3, true, 0, 0, 0⟩), (0, ⟨0, true, 0, 0, 0⟩), (1, ⟨9, true, 0, 0, 0⟩)] = some 0 := by decide

/-! ### non-vacuity -/

/-- a concrete disciplined history: two services, three scenes on two configurations,
one ended, a service silenced until it is lost -/
def demo : List Ev :=
  [.refresh 1 0, .refresh 2 3, .alloc, .create 1 100 1, .alloc, .create 2 100 1, .alloc, .create 3 101 2,
   .endScene 1, .alloc, .create 4 100 2,
   .adv 3000, .tick, .refresh 2 1, .adv 3000, .tick, .adv 3000, .tick, .adv 3000, .tick]

private theorem demo_disciplined : Disciplined Mgr.init [] demo :=
  ⟨by decide, by decide, by decide, by decide, trivial⟩

example : Reachable (Mgr.init.run demo) := (alloc_ids_fresh demo demo_disciplined).2

/-- after `demo`: service 1 was lost at the 4th silent check, taking scene 2 with it;
scene 4 took the freed line 0 of configuration 100; service 2 survived (it refreshed) -/
example : (Mgr.init.run demo).world.scenes.map (fun o => (o.sid, o.cfg, o.line, o.svc)) = [(4, 100, 0, 2), (3, 101, 0, 2)] ∧
    (Mgr.init.run demo).services.map (fun e => (e.1, e.2.working, e.2.failed)) = [(1, false, 4), (2, true, 3)] := by
  decide

example : ∃ k, findIdle satKey (Mgr.init.run (demo.take 11)).services = some k ∧ k = 1 := ⟨1, by decide, rfl⟩

example : (Mgr.init.run (demo.take 11)).world.reqScene 100 5 = some ⟨2, 100, 1, 1⟩ := by decide

example : losesNow 12000 { n := 0, working := true, last := 9000, failed := 3, since := 0 } = true := by decide

/-- `new_line_is_mex` on the state after `demo` (configuration 100 has only line 0): the next scene gets line 1 -/
example : ∃ id, ((Mgr.init.run demo).world.onCreateSucc 9 100 2).scenes = ⟨9, 100, id, 2⟩ :: (Mgr.init.run demo).world.scenes ∧ id = 1 := by
  obtain ⟨id, h1, _⟩ := new_line_is_mex (alloc_ids_fresh demo demo_disciplined).2 9 100 2 (by decide)
  exact ⟨id, h1, by have : ((Mgr.init.run demo).world.onCreateSucc 9 100 2).scenes.head?.map (·.line) = some 1 := by decide
                    rw [h1] at this; simpa using this⟩

/-- `end_removes_exactly_one` / `lost_removes_exactly_affected` have live instances -/
example : (⟨2, 100, 1, 1⟩ : SceneObj) ∈ (Mgr.init.run (demo.take 11)).world.scenes := by decide

example : ((Mgr.init.run (demo.take 11)).world.onServiceLost 2).scenes = [⟨2, 100, 1, 1⟩] := by decide

/-- a gap is filled first: lines 0 and 2 taken → the next line is 1 -/
example : fineIdle [⟨100, 5, 0⟩, ⟨100, 6, 2⟩] = 1 := by decide

/-- `loss_only_after_silence`: just before the last check of `demo`, service 1 is about to be declared lost -/
example : ∃ e ∈ (Mgr.init.run (demo.take 19)).services, losesNow (Mgr.init.run (demo.take 19)).now e.2 = true :=
  ⟨(1, { n := 0, working := true, last := 9000, failed := 3, since := 0 }), by decide, by decide⟩

/-- placement: two orders of the same services, both answers least busy (a tie), a third service busier -/
example : findIdle satKey [(1, ⟨3, true, 0, 0, 0⟩), (2, ⟨3, true, 0, 0, 0⟩), (3, ⟨9, true, 0, 0, 0⟩)] = some 1 ∧
    findIdle satKey [(2, ⟨3, true, 0, 0, 0⟩), (3, ⟨9, true, 0, 0, 0⟩), (1, ⟨3, true, 0, 0, 0⟩)] = some 2 ∧
    findIdle satKey [(1, ⟨3, false, 0, 0, 0⟩)] = none := by decide

/-! ### non-vacuity (system level) -/

/-- a system history: two services, three allocations (one through the keeper), one refused, one never
answered, one unknown answer, an end, a loss -/
def sdemo : List SEv :=
  [.route [1, 2], .refresh 1 0, .spawn 100 ord1, .reply 1 true, .keeper 100 2 ord1, .reply 2 false,
   .halloc 101 ord1, .reply 9 true, .keeper 100 2 ord1, .reply 4 true, .endScene 1, .lost 1]

private theorem sdemo_ok : OkRun Sys.init (sdemo.take 10) := by
  refine ⟨trivial, trivial, ?_, trivial, ?_, trivial, ?_, trivial, ?_, trivial, trivial⟩ <;> exact List.Perm.refl _

example : SReachable (Sys.init.run sdemo) := ⟨sdemo, rfl⟩

example : (Sys.init.run (sdemo.take 10)).m.world.scenes = [⟨4, 100, 1, 1⟩, ⟨1, 100, 0, 1⟩] ∧
    (Sys.init.run (sdemo.take 10)).pending = [⟨3, 101, 1⟩] := by decide

/-- `placement_over_histories` has live instances (two live scenes, one request in flight) -/
example : ∃ o, o ∈ (Sys.init.run (sdemo.take 10)).m.world.scenes ∧ o.svc = 1 :=
  ⟨⟨4, 100, 1, 1⟩, by decide, rfl⟩

example := placement_over_histories (sdemo.take 10) sdemo_ok

/-- `reply_ok_registers_exactly`: request 4 is in flight before the 10th event -/
example : (Sys.init.run (sdemo.take 9)).pending.find? (fun p => p.sid == 4) = some ⟨4, 100, 1⟩ := by decide

/-- `sys_request_none_iff_no_scene`: after `sdemo` everything is gone (scene 1 ended, service 1 lost) -/
example : (Sys.init.run sdemo).m.world.scenes = [] ∧ (Sys.init.run sdemo).m.world.reqScene 100 3 = none := by decide

/-- `spawn_registers_nothing`: all three outcomes occur -/
example : (sys1.spawn 100 ord1).2 = .sent 1 1 ∧ ((sys1.step (.route [])).spawn 100 ord1).2 = .noRoute 1 1 ∧
    (Sys.init.spawn 100 []).2 = .noService := by decide

/-- the handler: a client is waiting for request 3; with no working service the handler stays silent -/
example : (Sys.init.run (sdemo.take 10)).waiting = [3] ∧ (Sys.init.run (sdemo.take 10)).replyAck 3 true = some true ∧
    (Sys.init.halloc 100 []).2 = .silent ∧ (sys1.halloc 100 ord1).2 = .sent 1 1 ∧
    ((sys1.step (.route [])).halloc 100 ord1).2 = .refused 1 1 := by decide

/-- `keeper_spawns_only_below_need`: both branches occur -/
example : ((Sys.init.run (sdemo.take 10)).keeper 100 2 ord1).2 = 2 ∧ (sys1.keeper 100 2 ord1).2 = 1 := by decide

/-- `findIdleGo_eq_findIdle` on a map without the empty id -/
example : findIdleGo satKey [(2, ⟨3, true, 0, 0, 0⟩), (3, ⟨0, false, 0, 0, 0⟩), (1, ⟨9, true, 0, 0, 0⟩)] = some 2 := by decide

/-! ### non-vacuity (node level) -/

/-- a node history: two services report (the keeper starts), a second of normal operation with the timers served
(keep-alive check + a keeper round over the three public scenes), an answer, 31 more seconds: the two
unanswered requests time out -/
def ndemo : List NEv :=
  [.sys (.route [1, 2]), .sys (.refresh 1 0), .sys (.refresh 2 7), .sys (.adv 1000),
   .timers [.tick, .keeper, .expiry] [((100, 1), ord1n), ((101, 50), ord1n), ((102, 50), ord1n)],
   .sys (.reply 1 true), .sys (.adv 31000),
   .timers [.tick, .expiry, .keeper] [((101, 50), ord1n), ((102, 50), ord1n), ((100, 1), ord1n)]]
where ord1n : List (Nat × Stat) := [(1, ⟨0, true, 0, 0, 0⟩), (2, ⟨7, true, 0, 0, 0⟩)]

example : NReachable ((Node.init true true).run ndemo) := ⟨true, true, ndemo, rfl⟩

/-- after the first served queue: three requests in flight (one per public scene), the expiry check armed -/
example : ((Node.init true true).run (ndemo.take 5)).sys.pending = [⟨1, 100, 1⟩, ⟨2, 101, 1⟩, ⟨3, 102, 1⟩] ∧
    ((Node.init true true).run (ndemo.take 5)).expiryDue = some 2000 ∧
    ((Node.init true true).run (ndemo.take 5)).keeperDue = some 2000 := by decide

/-- `request_timeout_registers_nothing`: at 32 s requests 2 and 3 (sent at 1 s) are past their deadline -/
example : (((Node.init true true).run (ndemo.take 7)).expired).map (·.sid) = [2, 3] ∧
    ((Node.init true true).run (ndemo.take 7)).expiryQueued = true := by decide

/-- after `ndemo`: scene 1 is live on line 0 of configuration 100; the timed-out requests are gone and the keeper
has asked again for configurations 101 and 102 (100 has its one line) -/
example : ((Node.init true true).run ndemo).sys.m.world.scenes = [⟨1, 100, 0, 1⟩] ∧
    (((Node.init true true).run ndemo).sys.pending.map fun p => (p.sid, p.cfg)) = [(4, 101), (5, 102)] := by decide

/-- `keeper_round_asks_only_below_need` / `NEv.Ok`: the visits of `ndemo` are well-formed -/
example : VisitsOk ((Node.init true true).run (ndemo.take 4)).table ((Node.init true true).run (ndemo.take 4)).sys.m.services
    [((100, 1), ndemo.ord1n), ((101, 50), ndemo.ord1n), ((102, 50), ndemo.ord1n)] :=
  ⟨by decide, by intro v hv; simp at hv; rcases hv with rfl | rfl | rfl <;> decide⟩

/-- `keeper_starts_with_first_service`: both sides occur -/
example : (Node.init true true).keeperDue = none ∧ ((Node.init true true).run (ndemo.take 2)).keeperDue = some 1000 := by decide

/-- `timers_serve_queue_once`: serving the queue of `ndemo` again at once changes nothing -/
example : ((Node.init true true).run (ndemo.take 5)).timers [.keeper, .tick, .expiry] [] = (Node.init true true).run (ndemo.take 5) :=
  timers_noop_of_idle _ _ _ (timers_idle_after _ _ _ ⟨by decide, by decide, by decide⟩)

end Cell2v.Props.C19
