import Cell2v.Lemmas.Loop
import Cell2v.Lemmas.Graph
import Cell2v.Spec.C04
import Cell2v.Gen.C04Graph
/-!
C04 — "all code of one service runs on a single goroutine, never concurrently".

Two halves.

* **Model half** (`Model/Loop.lean`): for every capacity, every number of producers
  and every interleaving, handler executions are by the consumer, pairwise disjoint,
  and only of items that were enqueued.  True by construction of the model; it
  fixes what "the loop" means.
* **Static half** over the dispatch graph regenerated from the Go source
  (`Gen/C04Graph.lean`): no goroutine other than a consumer loop — no `go`
  statement, no `time.AfterFunc` closure, no exported API outside the reviewed
  loop-side list — reaches an invocation point of service code by direct calls,
  goroutine spawns or stored-closure dispatch; i.e. every such path passes through a
  queue.  The quantifier is the finite graph; decided by the kernel and lifted to
  paths by `closedBack_sound`.

(The dynamic half — goroutine id and in-flight counter at every entry point of a real
service — is the harness + spec monitor, `Driver/C04.lean`.)
-/
namespace Cell2v.Props.C04
open Cell2v.Loop Cell2v.Graph Cell2v.Spec.C04
open Cell2v.Gen.C04 (graph)

/-! ## the loop model -/

/-- a state reachable from the empty loop under some schedule of any number of producers -/
def Reachable (cap : Nat) (s : St) : Prop := ∃ ls, runL cap false init ls = some s

/-- **never two at a time**: in every reachable state the number of handlers in flight is
1 exactly while the consumer is inside a handler and 0 otherwise, it never exceeded 1,
and the trace satisfies the monitor predicate `Serial` — for every channel capacity, any
number of producers and every interleaving. -/
theorem handlers_serial (cap : Nat) (s : St) (h : Reachable cap s) :
    (monitor s.trace).cur = (if s.running.isSome then 1 else 0) ∧ (monitor s.trace).peak ≤ 1 ∧
      Serial s.trace = true := by
  obtain ⟨ls, hr⟩ := h
  obtain ⟨h1, h2, h3⟩ := minv_run cap ls _ _ minv_init hr
  refine ⟨h1, h2, ?_⟩
  simp [Serial, Mon.ok, h2, h3]

/-- **only on the service's goroutine**: every handler-execution event of every reachable
trace is labelled with the consumer. -/
theorem handlers_only_on_consumer (cap : Nat) (s : St) (h : Reachable cap s) (w : Thread) (it : Nat)
    (hev : Ev.start w it ∈ s.trace ∨ Ev.stop w it ∈ s.trace) : w = Thread.consumer := by
  obtain ⟨_, _, h3⟩ := handlers_serial cap s h
  simp only [Serial, Mon.ok, Bool.and_eq_true, Bool.not_eq_true', decide_eq_true_eq] at h3
  exact (foreign_false_all s.trace _ h3.2).2 w it hev

/-- **entry only through a queue** (in the model): whatever is running, queued or was ever
started had been put on a channel by someone. -/
theorem run_only_enqueued (cap : Nat) (s : St) (h : Reachable cap s) (w : Thread) (it : Nat)
    (hev : Ev.start w it ∈ s.trace) : ∃ w' c, Ev.enq w' c it ∈ s.trace := by
  obtain ⟨ls, hr⟩ := h
  exact (qinv_run cap ls _ _ qinv_init hr).2.2 w it hev

/-- non-vacuity: three producers, two channels, handlers that post to their own service;
the consumer is inside a handler at the end -/
example : ∃ s, Reachable 2 s ∧ s.running = some 9 ∧ s.trace.length = 9 :=
  ⟨_, ⟨[.enq 1 0 7, .enq 2 1 8, .pick 1, .enq 3 0 9, .henq 1 5, .hstep, .finish, .pick 0, .finish, .pick 0], rfl⟩,
    by decide, by decide⟩

/-- witness: the design in which a producer (a timer goroutine, a network reader) calls a
handler inline is *not* serial — two handlers overlap and one runs on a foreign thread. -/
theorem direct_call_breaks_serial :
    ∃ ls s, runL 2 true init ls = some s ∧ Serial s.trace = false ∧ (monitor s.trace).peak = 2 :=
  ⟨[.enq 1 0 7, .pick 0, .direct 2 8], _, rfl, by decide, by decide⟩

/-! ## the generated dispatch graph -/

/- diagnostic only: names the offending functions in the build log when the obligation below fails -/
#eval show IO Unit from do
  let bad := offenders graph
  let unr := unreviewed graph
  let off := offLoop graph
  unless bad.isEmpty do
    throw <| IO.userError s!"C04 entry_only_via_loop fails: service code is reached without passing through a queue from {bad}"
  unless unr.isEmpty do
    throw <| IO.userError s!"C04 invocation_points_reviewed fails: not in the reviewed description: {unr}"
  unless off.isEmpty do
    throw <| IO.userError s!"C04 invocations_on_loop fails: invocation point not reached from a consumer loop: {off}"

/-- all four Boolean obligations over the graph regenerated from the current Go source,
evaluated once by the kernel (the quantifier is the finite graph) -/
theorem graph_checks : allChecks graph = true := by decide +kernel

/-- **entry only via the loop**: in the graph regenerated from the current Go source, no
goroutine root other than a consumer loop — the body of a `go` statement, a closure handed
to `time.AfterFunc`, an exported function outside the reviewed loop-side API — reaches an
invocation point of service code along static calls, goroutine spawns and stored-closure
dispatch.  Every path from such a root to service code therefore passes through a queue. -/
theorem entry_only_via_loop (r s : Nat) (hr : r ∈ forbiddenRoots graph) (hs : s ∈ svcNodes graph) :
    ¬ Reach (directEdges graph) r s := by
  have h := graph_checks
  simp only [allChecks, Bool.and_eq_true] at h
  exact entry_of_check graph h.1.1.2 r s hr hs

/-- the generated graph contains nothing outside the reviewed description: every dynamic /
interface / cross-package call-site key is classified, every function literal is used in a
reviewed way, direct-mode code exists only in `LocalEventCenter.Publish`, the standard run
service creates its event centre in queue mode. -/
theorem invocation_points_reviewed : reviewedCheck graph = true := by
  have h := graph_checks
  simp only [allChecks, Bool.and_eq_true] at h
  exact h.1.1.1

/-- **the invocation points are the loop's**: every place that calls a stored closure or a
handler interface is reached from a consumer loop
(`RunService.loop → HandleOnce → DoTask → …`). -/
theorem invocations_on_loop (n : Nat) (hn : n ∈ loopSites graph) :
    ∃ r, r ∈ consumerRoots graph ∧ Reach (directEdges graph) r n := by
  have h := graph_checks
  simp only [allChecks, wiringCheck, Bool.and_eq_true] at h
  exact fwd_sound' _ _ n ((List.all_eq_true.mp h.1.2.1.1) n hn)

/-- every closure handed to `Sche.Post` (session add / remove / client message) is run from a consumer loop -/
theorem posted_closures_on_loop (n : Nat) (hn : n ∈ postedLits graph) :
    ∃ r, r ∈ consumerRoots graph ∧ Reach (directEdges graph) r n := by
  have h := graph_checks
  simp only [allChecks, wiringCheck, Bool.and_eq_true] at h
  exact fwd_sound' _ _ n ((List.all_eq_true.mp h.1.2.2) n hn)

/-- the timer goroutine hands the expired timer to a queue -/
theorem timer_roots_enqueue (t : Nat) (ht : t ∈ graph.timerRoots) :
    ∃ n, n ∈ sendNodes graph ∧ Reach graph.calls t n := by
  have h := graph_checks
  simp only [allChecks, Bool.and_eq_true] at h
  have := (List.all_eq_true.mp h.2) t ht
  obtain ⟨n, hn, hs⟩ := List.any_eq_true.mp this
  obtain ⟨r, hr, hreach⟩ := fwd_sound' _ _ n hs
  simp at hr; subst hr
  exact ⟨n, hn, hreach⟩

/-- **utils/waterfall is inside the graph** (so the theorems above speak about it): the invocation points of a
chain's steps and of its final callback are sites of the graph and lie on a consumer loop (members of `loopSites`,
hence covered by `invocations_on_loop`); the completion callback that `waterfall.Sche` hands to the steps — which a
step may call from ANY goroutine — is one of the graph's foreign goroutine roots (`timerRoots`), hence a forbidden
root of `entry_only_via_loop` (it reaches no step / final callback except through `Sche.Post`) and covered by
`timer_roots_enqueue` (it does reach a channel send).  Stated by kind / key, not by closure number. -/
theorem waterfall_covered :
    (∃ l ∈ graph.lits, l.1 ∈ graph.timerRoots ∧ l.1 ∈ forbiddenRoots graph ∧
        graph.kinds.getD l.2 "" = "assigned:field waterfall.Chain.~waterfall.Callback") ∧
    (∃ s ∈ graph.sites, graph.keys.getD s.2 "" = "field waterfall.Chain.~[]waterfall.Task[]" ∧ s.1 ∈ loopSites graph ∧ s.1 ∈ svcNodes graph) ∧
    (∃ s ∈ graph.sites, graph.keys.getD s.2 "" = "field waterfall.Chain.~waterfall.FinalCallback" ∧ s.1 ∈ loopSites graph ∧ s.1 ∈ svcNodes graph) := by
  decide +kernel

/-- non-vacuity of the graph theorems: there are spawned goroutines, service sites, consumer
loops, timer goroutines, invocation points and posted closures in the generated graph -/
example : (spawnedRoots graph).length ≥ 1 ∧ (svcNodes graph).length ≥ 5 ∧
    (consumerRoots graph).length ≥ 1 ∧ graph.timerRoots.length ≥ 1 ∧ (loopSites graph).length ≥ 5 ∧
    (postedLits graph).length ≥ 1 := by
  decide +kernel

/-! ## what a violation looks like to the static half -/

/-- a five-node picture of `timer.Mgr`: `AddTimer(0) → doLater(1) ⇒ AfterFunc closure(2)`,
`Do(3) → do(4) → t.CB`. -/
def miniTimer (closureCalls closureSites : List (Nat × Nat)) : CallGraph :=
  { names := ["timer.Mgr.AddTimer", "timer.Mgr.doLater", "timer.Mgr.doLater$1", "timer.Mgr.Do", "timer.Mgr.do"]
    exported := [0, 3]
    calls := [(0, 1), (3, 4), (3, 1)] ++ closureCalls
    directCalls := []
    keys := ["field timer.Obj.CB"]
    sites := [(4, 0)] ++ closureSites
    directSites := []
    goRoots := []
    timerRoots := [2]
    kinds := ["timer:time.AfterFunc"]
    lits := [(2, 0)]
    litParents := [(2, 1)]
    odd := []
    sends := [(2, "send timer.Obj")]
    extPkgs := []
    facts := [("-", true)] }

/-- the shipped shape passes … -/
theorem mini_timer_ok : entryCheck (miniTimer [] []) = true := by decide +kernel

/-- … calling the callback (or `Do`) from the `AfterFunc` closure does not -/
theorem mini_timer_mutations_fail :
    entryCheck (miniTimer [] [(2, 0)]) = false ∧
    entryCheck (miniTimer [(2, 3)] []) = false := by decide +kernel

/-! ## `waterfall.Sche` chains on the loop -/
section Waterfall
open Cell2v.Waterfall

/-- running a concatenated schedule -/
theorem runL_append (cap : Nat) (b : Bool) (l1 l2 : List Lbl) : ∀ s, runL cap b s (l1 ++ l2) = (runL cap b s l1).bind (fun s' => runL cap b s' l2) := by
  induction l1 with
  | nil => intro s; simp [runL]
  | cons l ls ih =>
    intro s
    simp only [List.cons_append, runL]
    cases fire cap b s l with
    | none => simp
    | some s' => simp [ih]

/-- the schedule a chain induces is enabled from every state in which the consumer is idle and the chain's item
is the only one on the channel — for every number of steps, every list of completion reports (by any threads,
with any error flags) and every capacity ≥ 1; by induction on the reports -/
theorem waterfall_sched_enabled (cap : Nat) (hcap : 1 ≤ cap) (steps : Nat) (rs : List Report) :
    ∀ (k : Nat) (s : St), s.running = none → s.q 0 = [k] → ∃ s', runL cap false s (sched steps k rs) = some s' := by
  induction rs with
  | nil =>
    intro k s h1 h2
    simp [sched, runL, fire, h1, h2]
  | cons r rs ih =>
    intro k s h1 h2
    by_cases hk : k < steps
    · obtain ⟨who, err⟩ := r
      cases who with
      | consumer =>
        simp only [sched, hk, if_true]
        rw [runL_append]
        have : ∃ s1, runL cap false s [.pick 0, .henq 0 (next steps k err), .finish] = some s1 ∧ s1.running = none ∧ s1.q 0 = [next steps k err] := by
          have hc : 0 < cap := hcap
          simp [runL, fire, h1, h2, setQ, hc]
        obtain ⟨s1, e1, r1, q1⟩ := this
        rw [e1]
        exact ih _ s1 r1 q1
      | producer p =>
        simp only [sched, hk, if_true]
        rw [runL_append]
        have : ∃ s1, runL cap false s [.pick 0, .finish, .enq p 0 (next steps k err)] = some s1 ∧ s1.running = none ∧ s1.q 0 = [next steps k err] := by
          have hc : 0 < cap := hcap
          simp [runL, fire, h1, h2, setQ, hc]
        obtain ⟨s1, e1, r1, q1⟩ := this
        rw [e1]
        exact ih _ s1 r1 q1
    · simp [sched, hk, runL, fire, h1, h2]

/-- **a waterfall.Sche chain runs on the loop**: whoever starts the chain (`p`), however many steps it has, whichever
threads report the completion of its steps (the consumer inline, or any producer — a worker goroutine) and whether
they report success or failure, the induced schedule is a schedule of the loop model, its trace satisfies the
monitor predicate, and every step and the final callback is started by the consumer. -/
theorem waterfall_chain_on_loop (cap : Nat) (hcap : 1 ≤ cap) (steps : Nat) (rs : List Report) (p : Nat) :
    ∃ s, runL cap false init (.enq p 0 0 :: sched steps 0 rs) = some s ∧ Serial s.trace = true ∧
      ∀ w it, Ev.start w it ∈ s.trace → w = Thread.consumer := by
  have hc : 0 < cap := hcap
  have h0 : ∃ s0, fire cap false init (.enq p 0 0) = some s0 ∧ s0.running = none ∧ s0.q 0 = [0] := by
    simp [fire, init, setQ, hc]
  obtain ⟨s0, e0, r0, q0⟩ := h0
  obtain ⟨s, es⟩ := waterfall_sched_enabled cap hcap steps rs 0 s0 r0 q0
  have hr : Reachable cap s := ⟨.enq p 0 0 :: sched steps 0 rs, by simp [runL, e0, es]⟩
  refine ⟨s, by simp [runL, e0, es], (handlers_serial cap s hr).2.2, ?_⟩
  intro w it h
  exact handlers_only_on_consumer cap s hr w it (Or.inl h)

/-- non-vacuity / what it looks like: three steps; step 0 completed by worker 7, step 1 inline, step 2 reported as
FAILED by worker 9: steps 0, 1, 2 and the failure final (item 4) all start on the consumer -/
example : (runL 1 false init (.enq 5 0 0 :: sched 3 0 [⟨.producer 7, false⟩, ⟨.consumer, false⟩, ⟨.producer 9, true⟩])).map
    (fun s => s.trace.filterMap fun e => match e with | .start w it => some (w, it) | _ => none) =
    some [(Thread.consumer, 0), (Thread.consumer, 1), (Thread.consumer, 2), (Thread.consumer, 4)] := by decide

/-- witness: the variant in which a worker that reports failure runs the final callback itself (no `Post` hop) is
not serial — the final callback runs on the worker while the consumer is inside another piece. -/
theorem waterfall_inline_final_breaks_serial :
    ∃ ls s, runL 2 true init ls = some s ∧ Serial s.trace = false :=
  ⟨[.enq 5 0 0, .enq 6 0 9, .pick 0, .finish, .pick 0, .direct 9 4], _, rfl, by decide⟩
end Waterfall

/-! ## whose timer callbacks a loop runs -/
section TimerObj
open Cell2v.TimerObj

/-- one operation preserves the invariant -/
theorem timer_good_step (s : TimerObj.St) (op : Op) (h : Good s) : Good (step s op) := by
  obtain ⟨h1, h2⟩ := h
  cases op with
  | arm m c =>
    refine ⟨?_, ?_⟩
    · intro k a ha
      have := h1 k a ha
      have hne : a ≠ s.nobj := by omega
      simp only [step, hne, if_false]
      exact ⟨by omega, this.2⟩
    · intro k c' hr
      obtain ⟨a, ha, ho, hc⟩ := h2 k c' hr
      have hne : a ≠ s.nobj := by omega
      exact ⟨a, by simp only [step]; omega, by simp [step, hne, ho], by simp [step, hne, hc]⟩
  | expire a =>
    simp only [step]
    split
    · rename_i hc
      simp only [Bool.and_eq_true, decide_eq_true_eq] at hc
      refine ⟨?_, h2⟩
      intro k x hx
      simp only at hx
      split at hx
      · rename_i hk
        rw [List.mem_append] at hx
        rcases hx with hx | hx
        · exact h1 k x hx
        · simp at hx; subst hx; exact ⟨hc.1, hk.symm⟩
      · exact h1 k x hx
    · exact ⟨h1, h2⟩
  | cancel a => exact ⟨h1, h2⟩
  | doNext m =>
    simp only [step]
    split
    · exact ⟨h1, h2⟩
    · rename_i a rest hq
      have hq1 : ∀ k x, x ∈ (if k = m then rest else s.queue k) → x < s.nobj ∧ s.owner x = k := by
        intro k x hx
        split at hx
        · rename_i hk; subst hk; exact h1 k x (by rw [hq]; exact List.mem_cons_of_mem _ hx)
        · exact h1 k x hx
      split
      · exact ⟨hq1, h2⟩
      · refine ⟨hq1, ?_⟩
        intro k c hr
        simp only [List.mem_append, List.mem_singleton, Prod.mk.injEq] at hr
        rcases hr with hr | ⟨rfl, rfl⟩
        · exact h2 k c hr
        · have := h1 k a (by rw [hq]; exact List.mem_cons_self ..)
          exact ⟨a, this.1, this.2, rfl⟩

/-- every operation sequence preserves the invariant (induction on the sequence) -/
theorem timer_good_run (ops : List Op) : ∀ s : TimerObj.St, Good s → Good (run s ops) := by
  induction ops with
  | nil => intro s h; exact h
  | cons o os ih => intro s h; exact ih _ (timer_good_step s o h)

/-- **a loop runs only timer callbacks of its own manager**: for every sequence of arming, expiry (any time, any
number of times), cancellation (also AFTER the expiry, while the object waits in the queue) and queue processing on
any number of managers, whatever callback the loop of manager `m` runs was armed on `m`.  Rests on `NewTimerObj`
allocating a fresh object each time (see the witness below). -/
theorem timer_callbacks_on_owner (ops : List Op) (m c : Nat) (h : (m, c) ∈ (run {} ops).ran) :
    ∃ a, a < (run {} ops).nobj ∧ (run {} ops).owner a = m ∧ (run {} ops).cb a = c :=
  (timer_good_run ops {} ⟨by intro m a h; simp at h, by intro m c h; simp at h⟩).2 m c h

/-- non-vacuity: manager 1's timer expires and is cancelled while it waits in the queue, manager 2's runs -/
example : (run {} [.arm 1 10, .arm 2 20, .expire 0, .expire 1, .cancel 0, .doNext 1, .doNext 2]).ran = [(2, 20)] := by decide

/-- `NewTimerObj` handing out an object that is still referenced (what a free-list / sync.Pool of timer objects does
when `Cancel` frees unconditionally): address `a` gets a new owner, callback and a cleared flag -/
def reuse (s : TimerObj.St) (a m c : Nat) : TimerObj.St :=
  { s with owner := fun x => if x = a then m else s.owner x, cb := fun x => if x = a then c else s.cb x,
           canceled := fun x => if x = a then false else s.canceled x }

/-- witness: with object reuse the theorem fails — manager 1 cancels its expired timer (still in its queue), manager 2
arms a timer and gets that object, manager 1's loop then runs manager 2's callback. -/
theorem timer_obj_reuse_breaks_ownership :
    (step (reuse (run {} [.arm 1 10, .expire 0, .cancel 0]) 0 2 20) (.doNext 1)).ran = [(1, 20)] := by decide
end TimerObj

/-! ## a stopped timer manager (`timer.Mgr.Stop`, first thing `StandardRunService.Stop` does) -/
section TimerStop
open Cell2v.TimerObj Cell2v.TimerStop

/-- every step of the stop-aware model is a step of the base model or does nothing to it -/
theorem timer_stop_good_step (s : TimerStop.St) (op : TimerStop.Op) (h : Good s.base) : Good (TimerStop.step s op).base := by
  cases op with
  | stopMgr m => exact h
  | base o =>
    cases o with
    | expire a =>
      simp only [TimerStop.step]
      split
      · exact h
      · exact timer_good_step s.base (.expire a) h
    | arm m c => exact timer_good_step s.base (.arm m c) h
    | cancel a => exact timer_good_step s.base (.cancel a) h
    | doNext m => exact timer_good_step s.base (.doNext m) h

theorem timer_stop_good_run (ops : List TimerStop.Op) : ∀ s : TimerStop.St, Good s.base → Good (TimerStop.run s ops).base := by
  induction ops with
  | nil => intro s h; exact h
  | cons o os ih => intro s h; exact ih _ (timer_stop_good_step s o h)

/-- `timer_callbacks_on_owner` carries over to managers that are stopped at any point of the history -/
theorem timer_stop_callbacks_on_owner (ops : List TimerStop.Op) (m c : Nat) (h : (m, c) ∈ (TimerStop.run {} ops).base.ran) :
    ∃ a, a < (TimerStop.run {} ops).base.nobj ∧ (TimerStop.run {} ops).base.owner a = m ∧ (TimerStop.run {} ops).base.cb a = c :=
  (timer_stop_good_run ops {} ⟨by intro m a h; simp at h, by intro m c h; simp at h⟩).2 m c h

/-- the backlog of manager `m` plus what its loop has run -/
def backlogAndRan (s : TimerStop.St) (m : Nat) : Nat := (s.base.queue m).length + ranOn s m

/-- once `m` is stopped it stays stopped, and no step increases backlog + run count of `m` (an expiry of a stopped
manager's object touches neither the queue nor `ran`) -/
theorem timer_stop_step (s : TimerStop.St) (op : TimerStop.Op) (m : Nat) (hs : s.stopped m = true) :
    (TimerStop.step s op).stopped m = true ∧ backlogAndRan (TimerStop.step s op) m ≤ backlogAndRan s m := by
  cases op with
  | stopMgr k =>
    refine ⟨?_, Nat.le_refl _⟩
    simp only [TimerStop.step]
    split <;> simp [hs]
  | base o =>
    cases o with
    | arm k c => exact ⟨hs, Nat.le_refl _⟩
    | cancel a => exact ⟨hs, Nat.le_refl _⟩
    | expire a =>
      simp only [TimerStop.step]
      split
      · exact ⟨hs, Nat.le_refl _⟩
      · rename_i hso
        refine ⟨hs, ?_⟩
        have hne : m ≠ s.base.owner a := by
          intro he; rw [← he] at hso; exact hso hs
        simp only [backlogAndRan, ranOn, TimerObj.step]
        split
        · simp [hne]
        · exact Nat.le_refl _
    | doNext k =>
      refine ⟨hs, ?_⟩
      simp only [TimerStop.step, TimerObj.step, backlogAndRan, ranOn]
      split
      · exact Nat.le_refl _
      · rename_i a rest hq
        by_cases hk : m = k
        · subst hk
          split <;> simp [hq, List.filter_append] <;> omega
        · have hk' : (k == m) = false := by simp; exact fun h => hk h.symm
          split <;> simp [hk, hk', List.filter_append]

theorem timer_stop_run (ops : List TimerStop.Op) (m : Nat) : ∀ s : TimerStop.St, s.stopped m = true →
    (TimerStop.run s ops).stopped m = true ∧ backlogAndRan (TimerStop.run s ops) m ≤ backlogAndRan s m := by
  induction ops with
  | nil => intro s hs; exact ⟨hs, Nat.le_refl _⟩
  | cons o os ih =>
    intro s hs
    obtain ⟨h1, h2⟩ := timer_stop_step s o m hs
    obtain ⟨h3, h4⟩ := ih _ h1
    exact ⟨h3, Nat.le_trans h4 h2⟩

/-- **a stopped manager runs at most its backlog**: after `Stop` of manager `m`, for every further sequence of arming,
expiry, cancellation, queue processing and stops on any managers, the number of callbacks the loop of `m` runs grows by
no more than the number of objects that waited in its queue when it was stopped. -/
theorem stopped_mgr_runs_only_backlog (pre post : List TimerStop.Op) (m : Nat) :
    ranOn (TimerStop.run (TimerStop.run {} (pre ++ [.stopMgr m])) post) m ≤
      ranOn (TimerStop.run {} (pre ++ [.stopMgr m])) m + ((TimerStop.run {} (pre ++ [.stopMgr m])).base.queue m).length := by
  have hst : (TimerStop.run {} (pre ++ [.stopMgr m])).stopped m = true := by
    simp [TimerStop.run, List.foldl_append, TimerStop.step]
  have := (timer_stop_run post m _ hst).2
  simp only [backlogAndRan] at this
  omega

/-- **timers that become due on a stopped manager never run**: if the queue of `m` is empty when it is stopped, its
loop runs no callback ever after, whatever is armed, expires or is processed (the `stop … tmr=n` op of the harness). -/
theorem stopped_mgr_runs_nothing (pre post : List TimerStop.Op) (m : Nat)
    (hq : (TimerStop.run {} (pre ++ [.stopMgr m])).base.queue m = []) :
    ranOn (TimerStop.run (TimerStop.run {} (pre ++ [.stopMgr m])) post) m ≤ ranOn (TimerStop.run {} (pre ++ [.stopMgr m])) m := by
  have := stopped_mgr_runs_only_backlog pre post m
  rw [hq] at this
  simpa using this

/-- non-vacuity: two timers armed, the manager stopped, both expire and the loop looks at its queue — nothing ran;
without the stop both run -/
example : ranOn (TimerStop.run {} [.base (.arm 0 7), .base (.arm 0 8), .stopMgr 0, .base (.expire 0), .base (.doNext 0),
    .base (.expire 1), .base (.doNext 0)]) 0 = 0 := by decide
example : ranOn (TimerStop.run {} [.base (.arm 0 7), .base (.arm 0 8), .base (.expire 0), .base (.doNext 0),
    .base (.expire 1), .base (.doNext 0)]) 0 = 2 := by decide
/-- an object that expired BEFORE the stop may still run (the loop drains until it sees the close signal): the bound is tight -/
example : ranOn (TimerStop.run {} [.base (.arm 0 7), .base (.expire 0), .stopMgr 0, .base (.doNext 0)]) 0 = 1 := by decide

/-- the `AfterFunc` closure of a design that runs a due one-shot timer of a stopped manager itself (`m.Do(t)` on the
runtime's timer goroutine, "do not swallow the continuation"): the callback of object `a` starts on producer thread `p` -/
def inlineExpiry (tr : List Cell2v.Loop.Ev) (p a : Nat) : List Cell2v.Loop.Ev := tr ++ [.start (.producer p) a, .stop (.producer p) a]

/-- witness: while the consumer is still inside a piece (the loop does not wait for `Stop`), such an expiry puts a
second piece of the service's code in progress, on a foreign thread: the monitor predicate fails -/
theorem stopped_mgr_inline_expiry_breaks_serial :
    Cell2v.Loop.Serial (inlineExpiry [.start .consumer 0] 1 5) = false ∧ Cell2v.Loop.Serial [.start .consumer 0, .stop .consumer 0] = true := by decide
end TimerStop

/-! ## completion callbacks of requests on the loop -/
section ReqDone
open Cell2v.ReqDone

/-- the schedule is enabled from every state with an idle consumer and empty mailbox / timer queue; it ends in such a state -/
theorem request_sched_enabled (cap : Nat) (hcap : 1 ≤ cap) (fs : List Fate) :
    ∀ (j : Nat) (s : St), s.running = none → s.q 1 = [] → s.q 2 = [] → ∃ s', runL cap false s (ReqDone.sched j fs) = some s' := by
  have hc : 0 < cap := hcap
  induction fs with
  | nil => intro j s _ _ _; exact ⟨s, rfl⟩
  | cons f fs ih =>
    intro j s h0 h1 h2
    cases f with
    | answered p =>
      simp only [ReqDone.sched]
      rw [runL_append]
      have : ∃ s1, runL cap false s [.enq p 1 (j + 1), .pick 1, .finish] = some s1 ∧ s1.running = none ∧ s1.q 1 = [] ∧ s1.q 2 = [] := by
        simp [runL, fire, h0, h1, h2, setQ, hc]
      obtain ⟨s1, e1, r0, r1, r2⟩ := this
      rw [e1]; exact ih _ s1 r0 r1 r2
    | selfAnswered p =>
      simp only [ReqDone.sched]
      rw [runL_append]
      have : ∃ s1, runL cap false s [.enq p 1 0, .pick 1, .henq 1 (j + 1), .finish, .pick 1, .finish] = some s1 ∧
          s1.running = none ∧ s1.q 1 = [] ∧ s1.q 2 = [] := by
        simp [runL, fire, h0, h1, h2, setQ, hc]
      obtain ⟨s1, e1, r0, r1, r2⟩ := this
      rw [e1]; exact ih _ s1 r0 r1 r2
    | deadLetter p t =>
      simp only [ReqDone.sched]
      rw [runL_append]
      have : ∃ s1, runL cap false s [.pstep p, .enq t 2 (j + 1), .pick 2, .finish] = some s1 ∧ s1.running = none ∧ s1.q 1 = [] ∧ s1.q 2 = [] := by
        simp [runL, fire, h0, h1, h2, setQ, hc]
      obtain ⟨s1, e1, r0, r1, r2⟩ := this
      rw [e1]; exact ih _ s1 r0 r1 r2
    | silent t =>
      simp only [ReqDone.sched]
      rw [runL_append]
      have : ∃ s1, runL cap false s [.enq t 2 (j + 1), .pick 2, .finish] = some s1 ∧ s1.running = none ∧ s1.q 1 = [] ∧ s1.q 2 = [] := by
        simp [runL, fire, h0, h1, h2, setQ, hc]
      obtain ⟨s1, e1, r0, r1, r2⟩ := this
      rw [e1]; exact ih _ s1 r0 r1 r2

/-- **request completions run on the loop**: for every list of requests and whatever becomes of each of them — answered
by any goroutine, answered by the requester itself, turned into a dead letter on any goroutine, or never answered — and
every capacity ≥ 1, the induced schedule is a schedule of the loop model, its trace satisfies the monitor predicate and
every completion callback is started by the consumer (the ops `relay`, `selfreq` and the `req` / `tmo` streams of a burst). -/
theorem request_completion_on_loop (cap : Nat) (hcap : 1 ≤ cap) (fs : List Fate) :
    ∃ s, runL cap false init (ReqDone.sched 0 fs) = some s ∧ Serial s.trace = true ∧
      ∀ w it, Ev.start w it ∈ s.trace → w = Thread.consumer := by
  obtain ⟨s, es⟩ := request_sched_enabled cap hcap fs 0 init rfl rfl rfl
  have hr : Reachable cap s := ⟨ReqDone.sched 0 fs, es⟩
  exact ⟨s, es, (handlers_serial cap s hr).2.2, fun w it h => handlers_only_on_consumer cap s hr w it (Or.inl h)⟩

/-- non-vacuity: an answered request, a dead letter on goroutine 4 and a self-request: callbacks 1, 2, 3 (and the handler
piece 0 of the self-request) start on the consumer -/
example : (runL 1 false init (ReqDone.sched 0 [.answered 3, .deadLetter 4 9, .selfAnswered 5])).map
    (fun s => s.trace.filterMap fun e => match e with | .start w it => some (w, it) | _ => none) =
    some [(Thread.consumer, 1), (Thread.consumer, 2), (Thread.consumer, 0), (Thread.consumer, 3)] := by decide

/-- witness: the design that completes a request at once from the dead-letter notification (the subscriber of the
actor system's event stream runs on the publisher's goroutine and calls the completion callback there) is not serial
when the requester is inside a piece at that moment -/
theorem dead_letter_inline_completion_breaks_serial :
    ∃ ls s, runL 2 true init ls = some s ∧ Serial s.trace = false :=
  ⟨[.enq 5 0 0, .pick 0, .direct 4 1], _, rfl, by decide⟩
end ReqDone

/-! ## which loop drains which scheduler (`sche.Mgr.GetSche` by name) -/
section ScheReg
open Cell2v.ScheReg

/-- **one loop per scheduler queue**: run services created (in any registry state) under pairwise distinct names
that are not registered yet drain pairwise distinct, fresh schedulers — so each scheduler channel has exactly
one consumer loop, which is the premise of the loop model above.  Unbounded: any number of services, any
registry. -/
theorem one_loop_per_scheduler (names : List String) : ∀ (r : Reg), names.Nodup → (∀ n ∈ names, find r.tab n = none) →
    (spawnAll r names).Nodup ∧ ∀ id ∈ spawnAll r names, r.next ≤ id := by
  induction names with
  | nil => intro r _ _; simp [spawnAll]
  | cons n ns ih =>
    intro r hnd hfree
    have hn : find r.tab n = none := hfree n (by simp)
    have hget : r.getSche n = ({ tab := (n, r.next) :: r.tab, next := r.next + 1 }, r.next) := by
      simp [Reg.getSche, hn]
    rw [List.nodup_cons] at hnd
    have hfree' : ∀ m ∈ ns, find ((n, r.next) :: r.tab) m = none := by
      intro m hm
      have hne : m ≠ n := fun h => hnd.1 (h ▸ hm)
      simp [find, hne, hfree m (by simp [hm])]
    obtain ⟨h1, h2⟩ := ih { tab := (n, r.next) :: r.tab, next := r.next + 1 } hnd.2 hfree'
    simp only [spawnAll, hget]
    refine ⟨?_, ?_⟩
    · rw [List.nodup_cons]
      refine ⟨fun hmem => ?_, h1⟩
      have := h2 _ hmem
      simp at this
      omega
    · intro id hid
      rw [List.mem_cons] at hid
      rcases hid with rfl | hid
      · exact Nat.le_refl _
      · have := h2 _ hid
        simp at this
        omega

/-- from the empty registry: distinct names ⇒ distinct schedulers -/
theorem distinct_names_distinct_schedulers (names : List String) (h : names.Nodup) : (spawnAll {} names).Nodup :=
  (one_loop_per_scheduler names {} h (by intro n _; rfl)).1

/-- non-vacuity -/
example : spawnAll {} ["gate", "chat", "rs1"] = [0, 1, 2] := by decide

/-- witness (reproduced on the real code, see the check's assumptions): two run services created with the SAME
non-empty name get the same scheduler, i.e. two loop goroutines drain one channel — the hypothesis `Nodup` of
`one_loop_per_scheduler` cannot be dropped. -/
theorem same_name_shares_scheduler : spawnAll {} ["gate", "gate"] = [0, 0] := by decide
end ScheReg

end Cell2v.Props.C04
