import Cell2v.Lemmas.Loop
import Cell2v.Lemmas.Graph
import Cell2v.Spec.C04
import Cell2v.Gen.C04Graph
/-!
C04 — "all code of one service runs on a single goroutine, never concurrently".

Two halves.

* **Model half** (`Model/Loop.lean`): for every capacity, every number of producers
  and every interleaving, handler executions are by the consumer, pairwise disjoint,
  and only of items that were enqueued.  True by construction of the model; it
  fixes what "the loop" means.
* **Static half** over the dispatch graph regenerated from the Go source
  (`Gen/C04Graph.lean`): no goroutine other than a consumer loop — no `go`
  statement, no `time.AfterFunc` closure, no exported API outside the reviewed
  loop-side list — reaches an invocation point of service code by direct calls,
  goroutine spawns or stored-closure dispatch; i.e. every such path passes through a
  queue.  The quantifier is the finite graph; decided by the kernel and lifted to
  paths by `closedBack_sound`.

(The dynamic half — goroutine id and in-flight counter at every entry point of a real
service — is the harness + spec monitor, `Driver/C04.lean`.)
-/
namespace Cell2v.Props.C04
open Cell2v.Loop Cell2v.Graph Cell2v.Spec.C04
open Cell2v.Gen.C04 (graph)

/-! ## the loop model -/

/-- a state reachable from the empty loop under some schedule of any number of producers -/
def Reachable (cap : Nat) (s : St) : Prop := ∃ ls, runL cap false init ls = some s

/-- **never two at a time**: in every reachable state the number of handlers in flight is
1 exactly while the consumer is inside a handler and 0 otherwise, it never exceeded 1,
and the trace satisfies the monitor predicate `Serial` — for every channel capacity, any
number of producers and every interleaving. -/
theorem handlers_serial (cap : Nat) (s : St) (h : Reachable cap s) :
    (monitor s.trace).cur = (if s.running.isSome then 1 else 0) ∧ (monitor s.trace).peak ≤ 1 ∧
      Serial s.trace = true := by
  obtain ⟨ls, hr⟩ := h
  obtain ⟨h1, h2, h3⟩ := minv_run cap ls _ _ minv_init hr
  refine ⟨h1, h2, ?_⟩
  simp [Serial, Mon.ok, h2, h3]

/-- **only on the service's goroutine**: every handler-execution event of every reachable
trace is labelled with the consumer. -/
theorem handlers_only_on_consumer (cap : Nat) (s : St) (h : Reachable cap s) (w : Thread) (it : Nat)
    (hev : Ev.start w it ∈ s.trace ∨ Ev.stop w it ∈ s.trace) : w = Thread.consumer := by
  obtain ⟨_, _, h3⟩ := handlers_serial cap s h
  simp only [Serial, Mon.ok, Bool.and_eq_true, Bool.not_eq_true', decide_eq_true_eq] at h3
  exact (foreign_false_all s.trace _ h3.2).2 w it hev

/-- **entry only through a queue** (in the model): whatever is running, queued or was ever
started had been put on a channel by someone. -/
theorem run_only_enqueued (cap : Nat) (s : St) (h : Reachable cap s) (w : Thread) (it : Nat)
    (hev : Ev.start w it ∈ s.trace) : ∃ w' c, Ev.enq w' c it ∈ s.trace := by
  obtain ⟨ls, hr⟩ := h
  exact (qinv_run cap ls _ _ qinv_init hr).2.2 w it hev

/-- non-vacuity: three producers, two channels, handlers that post to their own service;
the consumer is inside a handler at the end -/
example : ∃ s, Reachable 2 s ∧ s.running = some 9 ∧ s.trace.length = 9 :=
  ⟨_, ⟨[.enq 1 0 7, .enq 2 1 8, .pick 1, .enq 3 0 9, .henq 1 5, .hstep, .finish, .pick 0, .finish, .pick 0], rfl⟩,
    by decide, by decide⟩

/-- witness: the design in which a producer (a timer goroutine, a network reader) calls a
handler inline is *not* serial — two handlers overlap and one runs on a foreign thread. -/
theorem direct_call_breaks_serial :
    ∃ ls s, runL 2 true init ls = some s ∧ Serial s.trace = false ∧ (monitor s.trace).peak = 2 :=
  ⟨[.enq 1 0 7, .pick 0, .direct 2 8], _, rfl, by decide, by decide⟩

/-! ## the generated dispatch graph -/

/- diagnostic only: names the offending functions in the build log when the obligation below fails -/
#eval show IO Unit from do
  let bad := offenders graph
  let unr := unreviewed graph
  let off := offLoop graph
  unless bad.isEmpty do
    throw <| IO.userError s!"C04 entry_only_via_loop fails: service code is reached without passing through a queue from {bad}"
  unless unr.isEmpty do
    throw <| IO.userError s!"C04 invocation_points_reviewed fails: not in the reviewed description: {unr}"
  unless off.isEmpty do
    throw <| IO.userError s!"C04 invocations_on_loop fails: invocation point not reached from a consumer loop: {off}"

/-- all four Boolean obligations over the graph regenerated from the current Go source,
evaluated once by the kernel (the quantifier is the finite graph) -/
theorem graph_checks : allChecks graph = true := by decide +kernel

/-- **entry only via the loop**: in the graph regenerated from the current Go source, no
goroutine root other than a consumer loop — the body of a `go` statement, a closure handed
to `time.AfterFunc`, an exported function outside the reviewed loop-side API — reaches an
invocation point of service code along static calls, goroutine spawns and stored-closure
dispatch.  Every path from such a root to service code therefore passes through a queue. -/
theorem entry_only_via_loop (r s : Nat) (hr : r ∈ forbiddenRoots graph) (hs : s ∈ svcNodes graph) :
    ¬ Reach (directEdges graph) r s := by
  have h := graph_checks
  simp only [allChecks, Bool.and_eq_true] at h
  exact entry_of_check graph h.1.1.2 r s hr hs

/-- the generated graph contains nothing outside the reviewed description: every dynamic /
interface / cross-package call-site key is classified, every function literal is used in a
reviewed way, direct-mode code exists only in `LocalEventCenter.Publish`, the standard run
service creates its event centre in queue mode. -/
theorem invocation_points_reviewed : reviewedCheck graph = true := by
  have h := graph_checks
  simp only [allChecks, Bool.and_eq_true] at h
  exact h.1.1.1

/-- **the invocation points are the loop's**: every place that calls a stored closure or a
handler interface is reached from a consumer loop
(`RunService.loop → HandleOnce → DoTask → …`). -/
theorem invocations_on_loop (n : Nat) (hn : n ∈ loopSites graph) :
    ∃ r, r ∈ consumerRoots graph ∧ Reach (directEdges graph) r n := by
  have h := graph_checks
  simp only [allChecks, wiringCheck, Bool.and_eq_true] at h
  exact fwd_sound' _ _ n ((List.all_eq_true.mp h.1.2.1.1) n hn)

/-- every closure handed to `Sche.Post` (session add / remove / client message) is run from a consumer loop -/
theorem posted_closures_on_loop (n : Nat) (hn : n ∈ postedLits graph) :
    ∃ r, r ∈ consumerRoots graph ∧ Reach (directEdges graph) r n := by
  have h := graph_checks
  simp only [allChecks, wiringCheck, Bool.and_eq_true] at h
  exact fwd_sound' _ _ n ((List.all_eq_true.mp h.1.2.2) n hn)

/-- the timer goroutine hands the expired timer to a queue -/
theorem timer_roots_enqueue (t : Nat) (ht : t ∈ graph.timerRoots) :
    ∃ n, n ∈ sendNodes graph ∧ Reach graph.calls t n := by
  have h := graph_checks
  simp only [allChecks, Bool.and_eq_true] at h
  have := (List.all_eq_true.mp h.2) t ht
  obtain ⟨n, hn, hs⟩ := List.any_eq_true.mp this
  obtain ⟨r, hr, hreach⟩ := fwd_sound' _ _ n hs
  simp at hr; subst hr
  exact ⟨n, hn, hreach⟩

/-- non-vacuity of the graph theorems: there are spawned goroutines, service sites, consumer
loops, timer goroutines, invocation points and posted closures in the generated graph -/
example : (spawnedRoots graph).length ≥ 1 ∧ (svcNodes graph).length ≥ 5 ∧
    (consumerRoots graph).length ≥ 1 ∧ graph.timerRoots.length ≥ 1 ∧ (loopSites graph).length ≥ 5 ∧
    (postedLits graph).length ≥ 1 := by
  decide +kernel

/-! ## what a violation looks like to the static half -/

/-- a five-node picture of `timer.Mgr`: `AddTimer(0) → doLater(1) ⇒ AfterFunc closure(2)`,
`Do(3) → do(4) → t.CB`. -/
def miniTimer (closureCalls closureSites : List (Nat × Nat)) : CallGraph :=
  { names := ["timer.Mgr.AddTimer", "timer.Mgr.doLater", "timer.Mgr.doLater$1", "timer.Mgr.Do", "timer.Mgr.do"]
    exported := [0, 3]
    calls := [(0, 1), (3, 4), (3, 1)] ++ closureCalls
    directCalls := []
    keys := ["field timer.Obj.CB"]
    sites := [(4, 0)] ++ closureSites
    directSites := []
    goRoots := []
    timerRoots := [2]
    kinds := ["timer:time.AfterFunc"]
    lits := [(2, 0)]
    litParents := [(2, 1)]
    odd := []
    sends := [(2, "send timer.Obj")]
    extPkgs := []
    facts := [("-", true)] }

/-- the shipped shape passes … -/
theorem mini_timer_ok : entryCheck (miniTimer [] []) = true := by decide +kernel

/-- … calling the callback (or `Do`) from the `AfterFunc` closure does not -/
theorem mini_timer_mutations_fail :
    entryCheck (miniTimer [] [(2, 0)]) = false ∧
    entryCheck (miniTimer [(2, 3)] []) = false := by decide +kernel

end Cell2v.Props.C04
