import Cell2v.Lemmas.MailboxX
import Cell2v.Props.C09
/-!
C09 — the property theorems again, for the EXTENDED mailbox model `FineX` (`Model/MailboxX.lean`):
`run()`'s throughput counter and its `if i > t { i = 0 }` branch, handlers that panic (recover,
`EscalateFailure`, `run()` returns), and the `MaxMsgNumToSmooth` branch (budget exhausted with
>= 100000 queued: `Gosched` and continue, no pause).  All statements quantify over every throughput
`t` and every schedule of `FineX` labels — an arbitrary interleaving of any number of posters, the
consumer (whose handlers may panic at any message), and the pause helper.
-/
namespace Cell2v.Props.C09
open Cell2v.Mailbox

/-- reachable in the extended model, for some dispatcher throughput -/
def ReachableX (x : FineX.St) : Prop := ∃ t ls, FineX.runL (FineX.init t) ls = some x

theorem x_reachable_inv (x : FineX.St) (h : ReachableX x) : Fine.AllInv x.s := by
  obtain ⟨t, ls, hr⟩ := h
  exact FineX.allinv_run ls _ _ (by simpa [FineX.init] using Fine.allinv_init) hr

/-- the extension is conservative: a base step of `FineX` is exactly that step of `Fine` on the mailbox state
(statement of record; `Fine`'s theorems are about these steps) -/
theorem x_base_step_is_fine_step (x x' : FineX.St) (l : Fine.Lbl) (h : FineX.fire x (.base l) = some x') :
    Fine.fire x.s l = some x'.s := (FineX.fire_base x x' l h).1

/-- **never two at a time**, panics and the throughput branch included -/
theorem x_single_runner (x : FineX.St) (h : ReachableX x) : Abs.runners (Fine.abs x.s) ≤ 1 :=
  Abs.runners_le_one _ (x_reachable_inv x h).1

/-- **exactly once, in order**, panics included: a message whose handler panicked was handed over (it is in the
delivery log, once) and is not in the queue any more -/
theorem x_delivered_prefix (x : FineX.St) (h : ReachableX x) :
    x.s.dlvU ++ x.s.uq = x.s.pushedU ∧ x.s.dlvS ++ x.s.sq = x.s.pushedS :=
  (x_reachable_inv x h).2.2

/-- **per-sender order**: the service receives a PREFIX of what was pushed, in push order — so of two messages pushed one
after the other (in particular two messages of one sender, whose `PostUserMessage` calls are sequential) the later one is
never handed over first or without the earlier one -/
theorem x_delivered_is_prefix_of_posted (x : FineX.St) (h : ReachableX x) :
    x.s.dlvU <+: x.s.pushedU ∧ x.s.dlvS <+: x.s.pushedS := by
  obtain ⟨d1, d2⟩ := x_delivered_prefix x h
  exact ⟨⟨x.s.uq, d1⟩, ⟨x.s.sq, d2⟩⟩

/-- **no lost wake-up**, whatever handlers panic and wherever the throughput branch fires -/
theorem x_no_lost_wakeup (x : FineX.St) (h : ReachableX x) (hq : Abs.Quiescent (Fine.abs x.s)) :
    x.s.sq = [] ∧ (x.s.uq = [] ∨ x.s.susp = true) := by
  have hw := Abs.quiescent_no_work _ (x_reachable_inv x h).1 hq
  simp only [Abs.work, Fine.abs] at hw
  constructor
  · cases hs : x.s.sq with
    | nil => rfl
    | cons a t => exfalso; apply hw; left; simp [hs]
  · cases hu : x.s.uq with
    | nil => left; rfl
    | cons a t =>
      right
      cases hsu : x.s.susp with
      | true => rfl
      | false => exfalso; apply hw; right; simp [hu, hsu]

theorem x_quiescent_all_delivered (x : FineX.St) (h : ReachableX x) (hq : Abs.Quiescent (Fine.abs x.s)) :
    x.s.dlvS = x.s.pushedS ∧ (x.s.susp = false → x.s.dlvU = x.s.pushedU) := by
  obtain ⟨h1, h2⟩ := x_no_lost_wakeup x h hq
  obtain ⟨d1, d2⟩ := x_delivered_prefix x h
  constructor
  · rw [h1] at d2; simpa using d2
  · intro hs
    rcases h2 with hu | hsu
    · rw [hu] at d1; simpa using d1
    · rw [hs] at hsu; cases hsu

theorem x_pause_has_helper (x : FineX.St) (h : ReachableX x) : x.s.paused = x.s.hs :=
  (x_reachable_inv x h).1.2.2.1

/-- **a panicking handler costs exactly its own message**: the step hands the head of the queue over (it joins the
delivery log and the escalation log), decrements the counter, and sends the consumer to "pm.idle" — the re-check of
`processMessages` follows, so the rest of the queue is not abandoned (`x_no_lost_wakeup`, `x_can_always_drain`) -/
theorem x_panic_hands_over_and_returns (x x' : FineX.St) (hf : FineX.fire x .popUPanic = some x') :
    ∃ id rest, x.s.uq = id :: rest ∧ x'.s.uq = rest ∧ x'.s.dlvU = x.s.dlvU ++ [id] ∧ x'.escU = x.escU ++ [id] ∧
      x'.s.um = x.s.um - 1 ∧ x'.s.c = .a1 := by
  simp only [FineX.fire] at hf
  cases hq : x.s.uq with
  | nil => simp [hq] at hf
  | cons id rest =>
    simp only [hq] at hf
    cases h1 : Fine.fire x.s .popU with
    | none => simp [h1] at hf
    | some s' =>
      simp only [h1, Option.some.injEq] at hf; subst hf
      have hs' := FineX.popU_cons _ _ id rest hq h1
      subst hs'
      exact ⟨id, rest, rfl, rfl, rfl, rfl, rfl, rfl⟩

/-- every message handed to `EscalateFailure` had been handed to the service -/
theorem x_escalated_were_delivered (x : FineX.St) (h : ReachableX x) :
    (∀ id ∈ x.escU, id ∈ x.s.dlvU) ∧ (∀ m ∈ x.escS, m ∈ x.s.dlvS) := by
  obtain ⟨t, ls, hr⟩ := h
  exact FineX.einv_run ls _ _ (by simp [FineX.EInv, FineX.init]) hr

/-- **system messages first, along every schedule** (trace-level form of `system_first`): whenever a user message is
handed to the service — normally or with a panicking handler — every system message that had been pushed when the
consumer last popped the system queue has been handed over before it; and that pop happened in this very iteration
(`system_first`: "run.popu" is entered only via "run.lsusp", which is entered only by a system pop that found nothing).
`sysSeen` is a ghost: the number of system messages pushed at the consumer's latest "run.pops" step.
NOT covered (and false in the code, reproduced): with the real `mpsc.Push` split into swap and link, a system message
whose push has RETURNED is invisible to `Pop` while an earlier producer sits between its swap and its link; user
messages overtake it during that window (Props/C09Mpsc.lean `mpsc_pop_blocked_only_by_unlinked`). -/
theorem x_system_first_trace (x x' : FineX.St) (l : FineX.Lbl) (h : ReachableX x) (hf : FineX.fire x l = some x')
    (hd : x'.s.dlvU ≠ x.s.dlvU) :
    x.s.c = .popu ∧ x.s.pushedS.take x.sysSeen <+: x.s.dlvS := by
  have hi := x_reachable_inv x h
  have hsf : FineX.SFInv x := by
    obtain ⟨t, ls, hr⟩ := h
    exact FineX.sfinv_run ls _ _ (by simpa [FineX.init] using Fine.allinv_init) (by simp [FineX.SFInv, FineX.init, Fine.init]) hr
  have hc : x.s.c = .popu := by
    cases l with
    | base l => exact ((Fine.deliver_only_by_pop _ _ l (FineX.fire_base x x' l hf).1).1 hd).2
    | iterGosched =>
      simp only [FineX.fire] at hf
      split at hf
      · cases h1 : Fine.fire x.s .iterOk with
        | none => simp [h1] at hf
        | some s' =>
          simp only [h1, Option.some.injEq] at hf; subst hf
          have := ((Fine.deliver_only_by_pop _ _ _ h1).1 hd).1
          cases this
      · cases hf
    | popUPanic =>
      simp only [FineX.fire] at hf
      cases hq : x.s.uq with
      | nil => simp [hq] at hf
      | cons id rest =>
        simp only [hq] at hf
        cases h1 : Fine.fire x.s .popU with
        | none => simp [h1] at hf
        | some s' =>
          simp only [Fine.fire] at h1
          split at h1
          · assumption
          · cases h1
    | popSPanic =>
      exfalso
      simp only [FineX.fire] at hf
      cases hq : x.s.sq with
      | nil => simp [hq] at hf
      | cons a rest =>
        obtain ⟨k, id⟩ := a
        cases k with
        | normal =>
          simp only [hq] at hf
          cases h1 : Fine.fire x.s .popS with
          | none => simp [h1] at hf
          | some s' =>
            simp only [h1, Option.some.injEq] at hf; subst hf
            exact hd (FineX.popS_cons _ _ .normal id rest hq h1).2.2
        | suspend => simp [hq] at hf
        | resume => simp [hq] at hf
  refine ⟨hc, ?_⟩
  have hle := hsf (Or.inr hc)
  have hp := hi.2.2.2
  rw [← hp, List.take_append_of_le_length hle]
  exact List.take_prefix _ _

/-- **the throughput branch is inert**: the loop counter `i`, the dispatcher's `Throughput()` and the number of times
`if i > t { i = 0 }` fired influence neither the mailbox state nor what is escalated — for every state, label and values.
(The correspondence run drives the real `run()` with throughputs 1..8 and 99 so that the branch is taken on every run:
anything it does to the shared words, the dispatcher or the consumer's program point would show.) -/
theorem x_throughput_counter_inert (x : FineX.St) (i t w : Nat) (l : FineX.Lbl) :
    (FineX.fire { x with i := i, t := t, wraps := w } l).map (fun y => (y.s, y.escU, y.escS)) =
    (FineX.fire x l).map (fun y => (y.s, y.escU, y.escS)) := FineX.counter_inert x i t w l

/-- **every posted message is eventually processed, without a further post** (possibility form, as `can_always_drain`),
from every state of the extended model: whatever panicked before, wherever the loop counter stands. -/
theorem x_can_always_drain (x : FineX.St) (h : ReachableX x) :
    ∃ (ls : List Fine.Lbl) (x' : FineX.St), (∀ l ∈ ls, Fine.isInternal l = true) ∧
      FineX.runL x (ls.map .base) = some x' ∧ ReachableX x' ∧
      Abs.Quiescent (Fine.abs x'.s) ∧ x'.s.dlvS = x.s.pushedS ∧ (x'.s.susp = false → x'.s.dlvU = x.s.pushedU) := by
  obtain ⟨ls, x', h1, h2, _, h4, p1, p2⟩ := FineX.drain (Fine.Phi x.s) x (Nat.le_refl _) (x_reachable_inv x h)
  have hr : ReachableX x' := by
    obtain ⟨t, l0, hl0⟩ := h
    exact ⟨t, l0 ++ ls.map .base, FineX.runL_append l0 _ _ _ _ hl0 h2⟩
  obtain ⟨d1, d2⟩ := x_quiescent_all_delivered x' hr h4
  exact ⟨ls, x', h1, h2, hr, h4, by rw [d1, p2], fun hs => by rw [d2 hs, p1]⟩

/-- **every posted message is eventually processed — for EVERY scheduler** (the for-all form `can_always_drain` lacks).
Take any reachable state and ANY schedule made of steps of threads that already exist — posters finishing their
`PostXMessage`, the pause helper waking, every consumer step, handlers panicking, the Gosched branch — in any order
whatsoever (no fairness assumed), the only excluded step being "the frame budget is exhausted" (that one starts a
smoothing pause; a real clock exceeds the budget only after handlers consumed real time).  Then
(1) the schedule has at most `Fine.Phi` steps: no livelock, no endless re-scheduling, however the threads are interleaved;
(2) no new message appears in the posted logs;
(3) when it cannot be extended — no such step is enabled — the state is quiescent and every system message posted so far
has been handed over and, unless the mailbox is suspended, every user message too.
So the existing threads, scheduled in ANY way, finish within `Phi` steps with everything delivered: what remains assumed
is only that the Go scheduler and the dispatcher eventually run a runnable goroutine / a queued function, and that the
clock does not declare the budget exhausted at every single iteration. -/
theorem x_every_schedule_drains (x x' : FineX.St) (h : ReachableX x) (ls : List FineX.Lbl)
    (hp : ∀ l ∈ ls, FineX.isProgress l = true) (hr : FineX.runL x ls = some x') :
    ls.length + Fine.Phi x'.s ≤ Fine.Phi x.s ∧
    x'.s.pushedU = x.s.pushedU ∧ x'.s.pushedS = x.s.pushedS ∧
    ((∀ l, FineX.isProgress l = true → FineX.fire x' l = none) →
      Abs.Quiescent (Fine.abs x'.s) ∧ x'.s.dlvS = x.s.pushedS ∧ (x'.s.susp = false → x'.s.dlvU = x.s.pushedU)) := by
  obtain ⟨h1, p1, p2⟩ := FineX.progress_run_bounded ls x x' (x_reachable_inv x h) hp hr
  have hr' : ReachableX x' := by
    obtain ⟨t, l0, hl0⟩ := h
    exact ⟨t, l0 ++ ls, FineX.runL_append l0 _ _ _ _ hl0 hr⟩
  refine ⟨h1, p1, p2, ?_⟩
  intro hstuck
  have hq := FineX.no_progress_step_quiescent x' (x_reachable_inv x' hr') hstuck
  obtain ⟨d1, d2⟩ := x_quiescent_all_delivered x' hr' hq
  exact ⟨hq, by rw [d1, p2], fun hs => by rw [d2 hs, p1]⟩

/-- while deliverable work is pending some progress step IS enabled (so a maximal progress schedule ends only when all is delivered) -/
theorem x_pending_work_has_progress_step (x : FineX.St) (h : ReachableX x)
    (hw : x.s.sq ≠ [] ∨ (x.s.uq ≠ [] ∧ x.s.susp = false)) :
    ∃ l, FineX.isProgress l = true ∧ (FineX.fire x l).isSome = true := by
  apply Classical.byContradiction
  intro hno
  have hall : ∀ l, FineX.isProgress l = true → FineX.fire x l = none := by
    intro l hl
    cases hf : FineX.fire x l with
    | none => rfl
    | some y => exact absurd ⟨l, hl, by simp [hf]⟩ hno
  have hq := FineX.no_progress_step_quiescent x (x_reachable_inv x h) hall
  obtain ⟨h1, h2⟩ := x_no_lost_wakeup x h hq
  rcases hw with hw | ⟨hu, hs⟩
  · exact hw h1
  · rcases h2 with h2 | h2
    · exact hu h2
    · rw [hs] at h2; cases h2

/-- **`Schedule` is never called with a run of this mailbox already queued** (one mailbox on its dispatcher, as
`service/factory.go` builds them): whoever is about to call `dispatcher.Schedule(m.processMessages)` — a poster or the
helper at "sc.disp", or the consumer re-scheduling itself from the dispatcher's OWN goroutine — finds no run of this
mailbox queued or executing, and at most one is ever queued.  So with a dispatcher of its own the blocking channel send
of `scheDisp.Schedule` (9 slots, the loop goroutine is its only receiver) cannot block the loop goroutine on itself. -/
theorem schedule_call_finds_queue_empty (x : FineX.St) (h : ReachableX x) :
    x.s.dq ≤ 1 ∧ (x.s.c = .cd → x.s.dq = 0 ∧ x.s.nD = 0) ∧
    (x.s.nD > 0 → x.s.dq = 0 ∧ x.s.nD = 1 ∧ x.s.c ≠ .cd) := by
  have hr := x_single_runner x h
  simp only [Abs.runners, Fine.abs] at hr
  refine ⟨by omega, ?_, ?_⟩
  · intro hc
    simp [hc, Fine.absPc] at hr
    omega
  · intro hd
    refine ⟨by omega, by omega, ?_⟩
    intro hc
    simp [hc, Fine.absPc] at hr
    omega

/-! non-vacuity: throughput 0, three user messages, the handler of the second one panics: the branch `i > t` fires,
the panic sends the consumer through the re-check, which re-schedules; everything is handed over, 2 is escalated -/
def panicSchedule : List FineX.Lbl :=
  [.base (.pushU 1), .base .incrU, .base .loadP, .base .casP, .base .dispP,
   .base (.pushU 2), .base .incrU, .base .loadP, .base .casP, .base (.pushU 3), .base .incrU, .base .loadP, .base .casP,
   .base .take, .base .iterOk, .base .popS, .base .lsusp, .base .popU,
   .base .iterOk, .base .popS, .base .lsusp, .popUPanic,
   .base .storeIdle, .base .loadS, .base .loadU, .base .loadP2, .base .decide, .base .cLoadP, .base .cCas, .base .cDisp,
   .base .take, .base .iterOk, .base .popS, .base .lsusp, .base .popU, .base .iterOk, .base .popS, .base .lsusp, .base .popU,
   .base .storeIdle, .base .loadS, .base .loadU, .base .loadP2, .base .decide]
example : ∃ x, FineX.runL (FineX.init 0) panicSchedule = some x ∧ Abs.Quiescent (Fine.abs x.s) ∧
    x.s.dlvU = [1, 2, 3] ∧ x.escU = [2] ∧ x.wraps = 2 := by
  refine ⟨_, rfl, ?_⟩; simp only [Abs.Quiescent]; decide
/-- non-vacuity of `x_system_first_trace`: a system message pushed before the consumer's system pop is handed over before
the user message of that iteration (sysSeen = 1 at the user delivery) -/
example : ∃ x x', FineX.runL (FineX.init 99) [.base (.pushU 1), .base .incrU, .base .loadP, .base .casP, .base .dispP,
      .base (.pushS .normal 7), .base .incrS, .base .take, .base .iterOk, .base .popS, .base .iterOk, .base .popS, .base .lsusp] = some x ∧
    FineX.fire x (.base .popU) = some x' ∧ x'.s.dlvU ≠ x.s.dlvU ∧ x.sysSeen = 1 ∧ x.s.dlvS = [(.normal, 7)] := by
  refine ⟨_, _, rfl, rfl, ?_⟩; decide
/-- non-vacuity of `x_every_schedule_drains`: the tail of `panicSchedule` after the three posts is a progress schedule
(consumer-first, posters' `schedule()` calls interleaved arbitrarily would do as well) that cannot be extended -/
example : ∀ l ∈ panicSchedule.drop 13, FineX.isProgress l = true := by decide
/-- the consumer about to re-schedule itself from the dispatcher's goroutine ("sc.disp"): reachable -/
example : ∃ x, FineX.runL (FineX.init 1) (panicSchedule.take 29) = some x ∧ x.s.c = .cd ∧ x.s.dq = 0 := by
  refine ⟨_, rfl, ?_⟩; decide
/-- the Gosched branch is a step of the model (state with 100000 counted messages; not reachable in 44 steps, so given directly) -/
example : (FineX.fire { s := { Fine.init with um := 100000, c := .iter } } .iterGosched).isSome = true ∧
    (FineX.fire { s := { Fine.init with um := 100000, c := .iter } } (.base .iterOver)).isSome = false := by decide

end Cell2v.Props.C09
