import Cell2v.Lemmas.NodeCtrl
import Cell2v.Lemmas.NodeCtrlSpec
/-!
C12 — property theorems: node retirement (nodectrl).

"A node accepts the retire command only while working (or already retiring) and only if
every service it hosts has declared retirement support, in which case every hosted service
is told to retire; it reports itself retired only after every hosted service has reported
retired, accepts the exit command only when retired, and then stops the node exactly once.
The node state published to the cluster only ever moves forward, and refused commands
change nothing."

All theorems are about `exec true kinds ops`: the controller as it is now (`true` = with
the repair 7a7d699), started on an arbitrary list `kinds` of hosted services (any number,
supporting retirement or not, reachable or not), after an arbitrary history `ops` of
commands (`stat/retire/exit/web_*`/unknown), support answers, service-retired
notifications (known and unknown names, repeated, late), other service commands,
StopNode completions and request time-outs, under any `mode : StopMode` of the hosting
application: StopNode completing `later` (op `stopDone`, possibly never) or *inside* the
StopNode call with success / failure (what `baseapp` does when every module stops
synchronously).  `history kinds ops` is that history preceded
by the immediate answers of NodeService-kind services to the start-up probe.
-/
namespace Cell2v.Props.C12
open Cell2v.NodeCtrl

/-! ## the published state only ever moves forward -/

/-- **state_monotone**: over every service set and every history, the sequence of states
handed to `UpdateNodeState` — preceded by the initial `working` — is non-decreasing in
working < retiring < retired < exiting < exited (every earlier entry ≤ every later one). -/
theorem state_monotone (kinds : List Kind) (ops : List Op) (mode : StopMode) :
    List.Pairwise (· ≤ ·) (NS.working.rank :: pubRanks (exec true kinds ops mode).2) := by
  have := run_pubs_pairwise (start kinds mode) (history kinds ops)
  simpa [exec, start] using this

/-- what is published is the controller's state: a step publishes nothing and keeps
`state`, or publishes exactly its new `state`, or — an exit whose StopNode completes inline
with success — publishes exiting then exited from retired (any state, any operation) -/
theorem published_is_state (s : St) (o : Op) :
    (pubRanks (step true s o).2 = [] ∧ (step true s o).1.st = s.st) ∨
    pubRanks (step true s o).2 = [(step true s o).1.st.rank] ∨
    (pubRanks (step true s o).2 = [4, 5] ∧ (step true s o).1.st = .exited ∧ s.st = .retired) := step_pubs s o

/-! ## retire -/

/-- **retire_guard**: if `retire` (or `web_retire`) is accepted after any history, then the
node was working or retiring, *every* hosted service had answered the support query with
exactly "ok" earlier in the history, the node publishes and enters `retiring`, and in that
very step `retire` is sent to every hosted service the node can resolve at that moment
(`INodeApp.GetService` ≠ nil; the fan-out of the code is best effort: a service that is
unresolvable right then is skipped silently — see `retire_skips_unresolvable`). -/
theorem retire_guard (kinds : List Kind) (ops : List Op) (mode : StopMode) (c : Cmd) (hc : c = .retire ∨ c = .webRetire)
    (hok : Evt.reply .ok ∈ (step true (exec true kinds ops mode).1 (.cmd c)).2) :
    ((exec true kinds ops mode).1.st = .working ∨ (exec true kinds ops mode).1.st = .retiring) ∧
    (∀ i, i < kinds.length → Op.qack i true ∈ history kinds ops) ∧
    (∀ i, i < kinds.length → i ∉ (exec true kinds ops mode).1.unres →
      Evt.send i .retire ∈ (step true (exec true kinds ops mode).1 (.cmd c)).2) ∧
    Evt.pub .retiring ∈ (step true (exec true kinds ops mode).1 (.cmd c)).2 ∧
    (step true (exec true kinds ops mode).1 (.cmd c)).1.st = .retiring := by
  have inv := RInv.exec kinds ops mode
  have hk := exec_kinds true kinds ops mode
  generalize (exec true kinds ops mode).1 = s at *
  have key : ∀ r : St × List Evt, r = retireCmd s → Evt.reply .ok ∈ r.2 →
      (s.st = .working ∨ s.st = .retiring) ∧ (∀ i, i < kinds.length → Op.qack i true ∈ history kinds ops) ∧
      (∀ i, i < kinds.length → i ∉ s.unres → Evt.send i .retire ∈ r.2) ∧
      Evt.pub .retiring ∈ r.2 ∧ r.1.st = .retiring := by
    intro r hr hmem
    subst hr
    unfold retireCmd at hmem ⊢
    split at hmem
    · simp at hmem
    · split at hmem
      · simp at hmem
      · rename_i h1 h2
        have hsup : s.allSup = true := by simpa using h2
        have hall := inv.sup_all hsup
        rw [hk] at hall
        rw [if_neg h1, if_neg h2]
        refine ⟨?_, fun i hi => inv.sup_decl i (hall i hi), fun i hi hu => ?_, by simp, rfl⟩
        · cases hst : s.st <;> simp_all
        · have := mem_tellAll .retire s.kinds.length s.unres i (by rw [hk]; exact hi) hu
          simp [this]
  rcases hc with rfl | rfl
  · exact key _ rfl hok
  · exact key _ rfl hok

/-- the fan-out is best effort: with a supporting service that the node cannot resolve at that
moment, `retire` is still accepted, the node goes `retiring`, and that service is not told
(a later `retire`, accepted again while retiring, reaches it once it is resolvable) -/
theorem retire_skips_unresolvable :
    let s := (exec true [.raw, .raw] [.qack 0 true, .qack 1 true, .setRes 1 false]).1
    (step true s (.cmd .retire)).2 = [.pub .retiring, .send 0 .retire, .reply .ok] ∧
    (step true (step true (step true s (.cmd .retire)).1 (.setRes 1 true)).1 (.cmd .retire)).2 =
      [.pub .retiring, .send 0 .retire, .send 1 .retire, .reply .ok] := by decide

/-! ## retired -/

/-- **retired_iff_all_reported**: a node that hosts at least one service is in state
retired (or beyond) exactly when every hosted service has reported `retired` — it never
gets there earlier, and it gets there as soon as the last report arrives. -/
theorem retired_iff_all_reported (kinds : List Kind) (ops : List Op) (mode : StopMode) (hn : 0 < kinds.length) :
    3 ≤ (exec true kinds ops mode).1.st.rank ↔ ∀ i, i < kinds.length → Op.svcRetired i ∈ ops := by
  have inv := RInv.exec kinds ops mode
  have hk := exec_kinds true kinds ops mode
  constructor
  · intro h i hi
    have := inv.st_ret h i (by rw [hk]; exact hi)
    exact (svcRetired_mem_history kinds ops i).mp ((inv.ret_hist i).mp this).2
  · intro h
    apply inv.ret_st (by rw [hk]; exact hn)
    intro i hi
    rw [hk] at hi
    exact (inv.ret_hist i).mpr ⟨by rw [hk]; exact hi, (svcRetired_mem_history kinds ops i).mpr (h i hi)⟩

/-- **retired_only_after_all_reported**: whenever a step publishes `retired`, every hosted
service has reported `retired` by then (in the history up to and including that step);
holds for any number of services, zero included (then it is never published at all,
see `no_services_never_retires`). -/
theorem retired_only_after_all_reported (kinds : List Kind) (ops : List Op) (mode : StopMode) (o : Op)
    (h : Evt.pub .retired ∈ (step true (exec true kinds ops mode).1 o).2) :
    ∀ i, i < kinds.length → Op.svcRetired i ∈ ops ++ [o] := by
  have inv := RInv.exec kinds (ops ++ [o]) mode
  have hk := exec_kinds true kinds (ops ++ [o]) mode
  rw [exec_snoc] at inv hk
  simp only at inv hk
  have hrank : 3 ≤ (step true (exec true kinds ops mode).1 o).1.st.rank := by
    have hmem : NS.retired.rank ∈ pubRanks (step true (exec true kinds ops mode).1 o).2 := by
      simp only [pubRanks, List.mem_filterMap]
      exact ⟨_, h, rfl⟩
    rcases step_pubs (exec true kinds ops mode).1 o with ⟨hp, _⟩ | hp | ⟨_, he, _⟩
    · rw [hp] at hmem; simp at hmem
    · rw [hp] at hmem
      have := List.mem_singleton.mp hmem
      rw [← this]; simp [NS.rank]
    · rw [he]; simp [NS.rank]
  intro i hi
  have := inv.st_ret hrank i (by rw [hk]; exact hi)
  exact (svcRetired_mem_history kinds (ops ++ [o]) i).mp ((inv.ret_hist i).mp this).2

/-- a node without hosted services never leaves `working` (so it never accepts `retire`:
`retireSupport` is only ever computed in the answer of a hosted service) -/
theorem no_services_never_retires (ops : List Op) (mode : StopMode) : (exec true [] ops mode).1.st = .working := by
  have inv := RInv.exec [] ops mode
  have hk := exec_kinds true [] ops mode
  cases h : (exec true [] ops mode).1.st <;> first | rfl | (have := inv.leave (by simp [h]); simp [hk] at this)

/-! ## exit and StopNode -/

/-- **exit_guard**: if `exit` (or `web_exit`) is accepted after any history, the node was
retired, every hosted service had reported retired, and the step does exactly this, in this
order: publish `exiting`, call `StopNode` once, (only if the application completes the stop
inside that call with success: publish `exited`), answer ok. -/
theorem exit_guard (kinds : List Kind) (ops : List Op) (mode : StopMode) (c : Cmd) (hc : c = .exit ∨ c = .webExit)
    (hok : Evt.reply .ok ∈ (step true (exec true kinds ops mode).1 (.cmd c)).2) :
    (exec true kinds ops mode).1.st = .retired ∧
    (∀ i, i < kinds.length → Op.svcRetired i ∈ ops) ∧
    (step true (exec true kinds ops mode).1 (.cmd c)).2 =
      [.pub .exiting, .stopNode] ++ (if mode = .inlineOk then [.pub .exited] else []) ++ [.reply .ok] ∧
    (step true (exec true kinds ops mode).1 (.cmd c)).1.st = (if mode = .inlineOk then .exited else .exiting) := by
  have inv := RInv.exec kinds ops mode
  have hk := exec_kinds true kinds ops mode
  have hm := exec_mode true kinds ops mode
  have hst : (exec true kinds ops mode).1.st = .retired := by
    rcases hc with rfl | rfl <;> simp only [step, exitCmd, webExitCmd] at hok <;> split at hok <;> simp_all
  refine ⟨hst, fun i hi => ?_, ?_, ?_⟩
  · have := inv.st_ret (by simp [hst, NS.rank]) i (by rw [hk]; exact hi)
    exact (svcRetired_mem_history kinds ops i).mp ((inv.ret_hist i).mp this).2
  · rcases hc with rfl | rfl <;> cases mode <;> simp [step, exitCmd, webExitCmd, hst, hm]
  · rcases hc with rfl | rfl <;> cases mode <;> simp [step, exitCmd, webExitCmd, hst, hm]

/-- **stop_at_most_once**: over every service set and every history `StopNode` is called
at most once. -/
theorem stop_at_most_once (kinds : List Kind) (ops : List Op) (mode : StopMode) : stops (exec true kinds ops mode).2 ≤ 1 := by
  have h := run_stops (start kinds mode) (history kinds ops)
  have h2 : stopBudget (run true (start kinds mode) (history kinds ops)).1 ≤ 1 := by
    unfold stopBudget; split <;> omega
  simp only [exec, stops_append, stops_tellAll]
  omega

/-- `StopNode` is never called while the node is not yet exiting: the calls so far are
exactly "1 if the state is exiting/exited, else 0" -/
theorem stop_count_is_state (kinds : List Kind) (ops : List Op) (mode : StopMode) :
    stops (exec true kinds ops mode).2 ≤ (if 4 ≤ (exec true kinds ops mode).1.st.rank then 1 else 0) := by
  have h := run_stops (start kinds mode) (history kinds ops)
  simp only [exec, stops_append, stops_tellAll]
  by_cases hr : 4 ≤ (run true (start kinds mode) (history kinds ops)).1.st.rank <;>
    simp [stopBudget, hr] at h ⊢ <;> omega

/-- **stop_exactly_once_after_exit**: once an `exit` has been accepted, whatever happens
afterwards (late notifications, repeated commands, completions), `StopNode` has been
called exactly once. -/
theorem stop_exactly_once_after_exit (kinds : List Kind) (ops1 ops2 : List Op) (mode : StopMode) (c : Cmd)
    (hc : c = .exit ∨ c = .webExit)
    (hok : Evt.reply .ok ∈ (step true (exec true kinds ops1 mode).1 (.cmd c)).2) :
    stops (exec true kinds (ops1 ++ .cmd c :: ops2) mode).2 = 1 := by
  have hle := stop_at_most_once kinds (ops1 ++ .cmd c :: ops2) mode
  have hev := (exit_guard kinds ops1 mode c hc hok).2.2.1
  have hge : 1 ≤ stops (exec true kinds (ops1 ++ .cmd c :: ops2) mode).2 := by
    have : history kinds (ops1 ++ .cmd c :: ops2) = history kinds ops1 ++ (.cmd c :: ops2) := by
      simp [history, List.append_assoc]
    simp only [exec, this, run_append, run, stops_append, stops_tellAll]
    simp only [exec] at hev
    rw [hev]
    cases mode <;> simp <;> omega
  omega

/-! ## refused commands, unknown names, unknown commands, the web_* duplicates -/

/-- **refused_changes_nothing**: a command that is not answered "ok" (refused retire/exit,
unknown command, and the informational stat / web_nodes) leaves the controller state
exactly as it was and emits nothing but that one reply — in every state, reachable or not. -/
theorem refused_changes_nothing (f : Bool) (s : St) (c : Cmd)
    (h : Evt.reply .ok ∉ (step f s (.cmd c)).2) :
    (step f s (.cmd c)).1 = s ∧ ∃ r, r ≠ Reply.ok ∧ (step f s (.cmd c)).2 = [.reply r] := by
  cases c <;> simp only [step, retireCmd, exitCmd, webRetireCmd, webExitCmd] at h ⊢ <;>
    (repeat' split) <;> simp_all

/-- a `retired` notification carrying a name the node does not host changes nothing -/
theorem unknown_service_ignored (f : Bool) (s : St) (i : Nat) (h : s.kinds.length ≤ i) :
    step f s (.svcRetired i) = (s, [.reply .ok]) := by
  simp [step, serviceRetired, Nat.not_lt.mpr h]

/-- any other service command changes nothing -/
theorem other_service_cmd_ignored (f : Bool) (s : St) (i : Nat) :
    step f s (.svcOther i) = (s, [.reply .ok]) := rfl

/-- a support answer that is not exactly "ok", or that answers no outstanding query,
never grants support -/
theorem non_ok_answer_grants_nothing (f : Bool) (s : St) (i : Nat) :
    (step f s (.qack i false)).1.support = s.support ∧ (step f s (.qack i false)).1.allSup = s.allSup ∧
    (step f s (.qack i false)).1.st = s.st := by
  simp only [step, queryAck]; (repeat' split) <;> simp_all

/-- `web_retire` behaves exactly like `retire`, `web_exit` exactly like `exit` -/
theorem web_retire_same (f : Bool) (s : St) : step f s (.cmd .webRetire) = step f s (.cmd .retire) := rfl
theorem web_exit_same (f : Bool) (s : St) : step f s (.cmd .webExit) = step f s (.cmd .exit) := rfl

/-! ## the executable property monitor accepts the model -/

open Cell2v.Spec.C12 in
/-- **model_passes_monitor**: the monitor `Spec/C12` — the very predicate that `modeld_c12 spec`
evaluates on the observations recorded from the Go code, with its seventeen clauses
(state regression, retire/exit guards, support, fan-out, retired iff all reported,
StopNode at most once and only on exit, exited only after a successful stop, refused
commands change nothing, …) — never flags the observable trace of the model, for every
service set and every history. -/
theorem model_passes_monitor (kinds : List Kind) (ops : List Op) (mode : StopMode) :
    monitorCase kinds (inlineOf mode) (obsOf (boot true kinds mode).1 (boot true kinds mode).2)
      (traceOf (boot true kinds mode).1 ops) = none := by
  obtain ⟨h1, h2⟩ := reset_ok kinds mode
  simp only [monitorCase, h1]
  exact runAll_none ops (RInv.exec kinds [] mode) h2

open Cell2v.Spec.C12 in
/-- the monitor is not vacuous: it flags the D3 history on the code before the repair
(the model `step false`), with the signature recorded in known_findings.json -/
theorem monitor_flags_d3 :
    let s := (exec false [.raw] [.qack 0 true, .cmd .retire, .svcRetired 0, .cmd .exit]).1
    let m : Mon := { Mon.init 1 [0] with reported := [0], cur := .exiting, stopsTotal := 1 }
    (m.step (.svcRetired 0) (obsOf (step false s (.svcRetired 0)).1 (step false s (.svcRetired 0)).2)).2
      = some "C12/state-regression" := by decide

/-! ## the cluster provider may refuse a publication (`App.UpdateNodeState` ignores its error)

`node/app.App.UpdateNodeState` hands each state to `provider.UpdateClusterState` exactly once and
drops the error: a refused publication is lost for good — not retried, not repeated.  For every
fault script `sc` of the provider (which of its calls fail): -/

theorem pubRanks_eq_map (es : List Evt) : pubRanks es = (Cell2v.Spec.C12.pubsOf es).map NS.rank := by
  induction es with
  | nil => rfl
  | cons e es ih => cases e <;> simp_all [pubRanks, Cell2v.Spec.C12.pubsOf]

/-- **cluster_view_monotone**: whatever the provider refuses, the sequence of states the cluster
is actually shown — preceded by the initial `working` — only ever moves forward. -/
theorem cluster_view_monotone (sc : List Bool) (kinds : List Kind) (ops : List Op) (mode : StopMode) :
    List.Pairwise (· ≤ ·) (NS.working.rank :: (clusterView sc (exec true kinds ops mode).2).map NS.rank) := by
  have h := state_monotone kinds ops mode
  rw [pubRanks_eq_map] at h
  refine List.Pairwise.sublist ?_ h
  exact List.cons_sublist_cons.mpr ((Cell2v.Spec.C12.delivered_sublist sc _).map _)

/-- **provider_called_once_per_update**: every state change of the node reaches the provider
exactly once — it is either shown to the cluster or refused; both are order-preserving selections
of the node's own sequence (no retry, no repetition, no invention). -/
theorem provider_called_once_per_update (sc : List Bool) (kinds : List Kind) (ops : List Op) (mode : StopMode) :
    (clusterView sc (exec true kinds ops mode).2).length +
        (lostOf sc (Cell2v.Spec.C12.pubsOf (exec true kinds ops mode).2)).length =
      (Cell2v.Spec.C12.pubsOf (exec true kinds ops mode).2).length ∧
    (clusterView sc (exec true kinds ops mode).2).Sublist (Cell2v.Spec.C12.pubsOf (exec true kinds ops mode).2) ∧
    (lostOf sc (Cell2v.Spec.C12.pubsOf (exec true kinds ops mode).2)).Sublist
      (Cell2v.Spec.C12.pubsOf (exec true kinds ops mode).2) :=
  ⟨Cell2v.Spec.C12.delivered_length_add_lost sc _, Cell2v.Spec.C12.delivered_sublist sc _,
    Cell2v.Spec.C12.lostOf_sublist sc _⟩

/-- a provider that never fails shows the cluster exactly the node's own sequence -/
theorem reliable_provider_sees_all (es : List Evt) : clusterView [] es = Cell2v.Spec.C12.pubsOf es :=
  Cell2v.Spec.C12.delivered_nil_script _

/-- the provider's view of a whole case is the concatenation of its views of the parts, the
script advanced by the number of publications (what the driver and `traceOfL` thread step by step) -/
theorem cluster_view_append (sc : List Bool) (a b : List Evt) :
    clusterView sc (a ++ b) =
      clusterView sc a ++ clusterView (scriptAfter sc (Cell2v.Spec.C12.pubsOf a).length) b := by
  have := Cell2v.Spec.C12.delivered_append sc (Cell2v.Spec.C12.pubsOf a) (Cell2v.Spec.C12.pubsOf b)
  show delivered sc (Cell2v.Spec.C12.pubsOf (a ++ b)) = _
  rw [Cell2v.Spec.C12.pubsOf_append]
  exact this

/-- non-vacuity: the provider refuses `retiring`; the cluster sees retired, exiting, exited -/
example : clusterView [true]
    (exec true [.raw] [.qack 0 true, .cmd .retire, .svcRetired 0, .cmd .exit, .stopDone true]).2
    = [.retired, .exiting, .exited] := by decide

open Cell2v.Spec.C12 in
/-- **model_passes_monitor_lossy**: the monitor never flags the observable trace of the model
when the cluster provider refuses publications according to any fault script (the refused ones
are observed as `lost`), for every service set and every history. -/
theorem model_passes_monitor_lossy (sc : List Bool) (kinds : List Kind) (ops : List Op) (mode : StopMode) :
    monitorCase kinds (inlineOf mode) (obsOf (boot true kinds mode).1 (boot true kinds mode).2)
      (traceOfL sc (boot true kinds mode).1 ops) = none := by
  obtain ⟨h1, h2⟩ := reset_ok kinds mode
  simp only [monitorCase, h1]
  exact runAll_noneL sc ops (RInv.exec kinds [] mode) h2

open Cell2v.Spec.C12 in
/-- the sequence clause is the old `pubs = upd` whenever nothing was refused (the monitor was widened, not loosened) -/
theorem monitor_sequence_clause_no_loss (u p : List NS) : isMerge u p [] = true ↔ p = u := isMerge_no_loss u p

open Cell2v.Spec.C12 in
/-- the monitor is not vacuous there: a refused `retiring` that is published again later (a
retry carrying the stale state), when the node is already retired, is a state regression -/
theorem monitor_flags_stale_retry :
    let m : Mon := { Mon.init 1 [0] with reported := [0], cur := .retired }
    (m.step .tick { reply := none, pubs := [.retiring], upd := [], stops := 0, sent := [], st := .retired }).2
      = some "C12/state-regression" := by decide

/-! ## a failed stop is final; `retired` does not need `retire` (review notes) -/

/-- once the node is `exiting` with no StopNode completion outstanding (the stop failed, or its
callback was dropped), nothing moves it any more: in particular `exit` is refused for ever and
StopNode is never called a second time (`stop_at_most_once`) — a failed stop cannot be retried. -/
theorem failed_stop_is_final (s : St) (ops : List Op) (h : s.st = .exiting) (hp : s.stopPend = 0) :
    (run true s ops).1.st = .exiting ∧ (run true s ops).1.stopPend = 0 := by
  induction ops generalizing s with
  | nil => exact ⟨h, hp⟩
  | cons o os ih =>
    have hs : (step true s o).1.st = .exiting ∧ (step true s o).1.stopPend = 0 := by
      obtain ⟨st, kinds, qpend, support, retired, allSup, stopPend, stopMode, unres⟩ := s
      simp only at h hp
      subst h hp
      cases o with
      | cmd c => cases c <;> simp [step, retireCmd, exitCmd, webRetireCmd, webExitCmd]
      | qack i ok => simp only [step, queryAck]; (repeat' split) <;> simp
      | svcRetired i => simp only [step, serviceRetired]; (repeat' split) <;> simp_all
      | svcOther i => simp [step]
      | stopDone b => simp [step, stopDone]
      | tick => simp [step]
      | setRes i up => simp [step]
    simp only [run]
    exact ih _ hs.1 hs.2

/-- non-vacuity: reachable — the application completes the stop with `false` -/
example : (exec true [.raw] [.qack 0 true, .cmd .retire, .svcRetired 0, .cmd .exit, .stopDone false]).1.st = .exiting ∧
    (exec true [.raw] [.qack 0 true, .cmd .retire, .svcRetired 0, .cmd .exit, .stopDone false]).1.stopPend = 0 := by
  decide

/-- the route to `exit` does not pass through an accepted `retire`: a node whose only service
refused retirement support becomes `retired` as soon as that service says `retired` (from
`working`, nodectrl.go onServiceRetired), and `exit` is then accepted.  The statement of C12 allows
it ("accepts exit only when retired"); its title does not. -/
theorem exit_without_retire :
    (exec true [.nodeNo] [.svcRetired 0]).1.st = .retired ∧
    Evt.reply .ok ∈ (step true (exec true [.nodeNo] [.svcRetired 0]).1 (.cmd .exit)).2 ∧
    Evt.reply .ok ∉ (step true (exec true [.nodeNo] []).1 (.cmd .retire)).2 := by decide

/-! ## the node's service list: every configured service is hosted, whatever its attributes

`App.FilterSelfServices` + `NodeCtrl.makeServices` are inside the model (`hostedOf`): the
controller tracks exactly the configured names of the node's list, in order, and never looks
at `ServiceInfo` (type, `Frontend`, client addresses).  The guards above therefore quantify
over frontends (gates) exactly as over backends. -/

/-- the tracked services do not depend on any attribute of the services table -/
theorem hosted_ignores_attributes (f : SvcCfg → SvcCfg) (lst : List Entry) :
    hostedOf (lst.map (Entry.mapCfg f)) = hostedOf lst := by
  induction lst with
  | nil => rfl
  | cons e r ih => cases e <;> simp [hostedOf, Entry.mapCfg, ih]

/-- as many services are tracked as names are configured (unconfigured names are skipped) -/
theorem hosted_length (lst : List Entry) : (hostedOf lst).length = lst.countP Entry.isHosted := by
  induction lst with
  | nil => rfl
  | cons e r ih => cases e <;> simp [hostedOf, Entry.isHosted, List.countP_cons, ih]

/-- **every_configured_service_hosted**: the `j`-th name of the node's list, if configured — as a
backend or as a frontend, with any attributes — is the tracked service number `hostIdx lst j`,
and behaves like its kind. -/
theorem every_configured_service_hosted (lst : List Entry) (j : Nat) (cfg : SvcCfg) (k : Kind)
    (h : lst[j]? = some (.hosted cfg k)) :
    hostIdx lst j < (hostedOf lst).length ∧ (hostedOf lst)[hostIdx lst j]? = some k := by
  induction lst generalizing j with
  | nil => simp at h
  | cons e r ih =>
    cases j with
    | zero =>
      simp at h; subst h
      simp [hostIdx, hostedOf]
    | succ j =>
      have h' : r[j]? = some (.hosted cfg k) := by simpa using h
      obtain ⟨h1, h2⟩ := ih j h'
      cases e with
      | unconfigured =>
        simp only [hostIdx, hostedOf, List.take_succ_cons, List.countP_cons, Entry.isHosted] at h1 h2 ⊢
        simpa using ⟨h1, h2⟩
      | hosted c k0 =>
        simp only [hostIdx, hostedOf, List.take_succ_cons, List.countP_cons, Entry.isHosted] at h1 h2 ⊢
        simp only [if_true, List.length_cons, List.getElem?_cons_succ]
        exact ⟨by omega, h2⟩

/-- an unconfigured name is not tracked: the tracked services are the configured ones only -/
theorem unconfigured_not_hosted (lst : List Entry) : hostedOf (lst.filter Entry.isHosted) = hostedOf lst := by
  induction lst with
  | nil => rfl
  | cons e r ih => cases e <;> simp [hostedOf, Entry.isHosted, List.filter_cons, ih]

/-- **probe_asks_every_hosted**: the start-up probe asks every configured service the node can
resolve — a frontend as well — for its retirement support. -/
theorem probe_asks_every_hosted (lst : List Entry) (mode : StopMode) (j : Nat) (cfg : SvcCfg) (k : Kind)
    (h : lst[j]? = some (.hosted cfg k)) (hr : k.reachable = true) :
    Evt.send (hostIdx lst j) .queryretire ∈ (execCfg true lst [] mode).2 := by
  obtain ⟨h1, h2⟩ := every_configured_service_hosted lst j cfg k h
  simp only [execCfg, exec, List.mem_append]
  left
  simp only [tellAll, List.mem_map, List.mem_filter, List.mem_range, start]
  refine ⟨hostIdx lst j, ⟨h1, ?_⟩, rfl⟩
  simp [List.contains_eq_mem, List.mem_filter, reachableAt, h2, hr]

/-- **retire_guard_cfg**: `retire_guard` over the node's configuration: an accepted retire means
every configured name of the list — frontend or backend — answered the probe with "ok", and
each one the node can resolve is told to retire. -/
theorem retire_guard_cfg (lst : List Entry) (ops : List Op) (mode : StopMode) (c : Cmd)
    (hc : c = .retire ∨ c = .webRetire)
    (hok : Evt.reply .ok ∈ (step true (execCfg true lst ops mode).1 (.cmd c)).2)
    (j : Nat) (cfg : SvcCfg) (k : Kind) (h : lst[j]? = some (.hosted cfg k)) :
    Op.qack (hostIdx lst j) true ∈ history (hostedOf lst) ops ∧
    (hostIdx lst j ∉ (execCfg true lst ops mode).1.unres →
      Evt.send (hostIdx lst j) .retire ∈ (step true (execCfg true lst ops mode).1 (.cmd c)).2) := by
  obtain ⟨h1, _⟩ := every_configured_service_hosted lst j cfg k h
  have g := retire_guard (hostedOf lst) ops mode c hc hok
  exact ⟨g.2.1 _ h1, g.2.2.1 _ h1⟩

/-- **retired_waits_for_every_configured**: the node publishes `retired` only after every
configured name of its list — frontend or backend — has reported retired. -/
theorem retired_waits_for_every_configured (lst : List Entry) (ops : List Op) (mode : StopMode) (o : Op)
    (hp : Evt.pub .retired ∈ (step true (execCfg true lst ops mode).1 o).2)
    (j : Nat) (cfg : SvcCfg) (k : Kind) (h : lst[j]? = some (.hosted cfg k)) :
    Op.svcRetired (hostIdx lst j) ∈ ops ++ [o] :=
  retired_only_after_all_reported (hostedOf lst) ops mode o hp _ (every_configured_service_hosted lst j cfg k h).1

/-- **exit_waits_for_every_configured**: an accepted exit means every configured name reported retired -/
theorem exit_waits_for_every_configured (lst : List Entry) (ops : List Op) (mode : StopMode) (c : Cmd)
    (hc : c = .exit ∨ c = .webExit)
    (hok : Evt.reply .ok ∈ (step true (execCfg true lst ops mode).1 (.cmd c)).2)
    (j : Nat) (cfg : SvcCfg) (k : Kind) (h : lst[j]? = some (.hosted cfg k)) :
    Op.svcRetired (hostIdx lst j) ∈ ops :=
  (exit_guard (hostedOf lst) ops mode c hc hok).2.1 _ (every_configured_service_hosted lst j cfg k h).1

/-- non-vacuity: a gate listed between an unconfigured name and a backend is service 0; retire is
refused until it, too, has answered "ok", and accepted then -/
example :
    let lst := [Entry.unconfigured, .hosted { typ := 1, frontend := true, clientAddr := true } .raw, .hosted {} .raw]
    hostIdx lst 1 = 0 ∧ hostIdx lst 2 = 1 ∧
    Evt.reply .ok ∉ (step true (execCfg true lst [.qack 1 true]).1 (.cmd .retire)).2 ∧
    Evt.reply .ok ∈ (step true (execCfg true lst [.qack 1 true, .qack 0 true]).1 (.cmd .retire)).2 ∧
    Evt.pub .retired ∉ (step true (execCfg true lst [.qack 1 true, .qack 0 true, .cmd .retire]).1 (.svcRetired 1)).2 ∧
    Evt.pub .retired ∈ (step true (execCfg true lst [.qack 1 true, .qack 0 true, .cmd .retire, .svcRetired 1]).1
      (.svcRetired 0)).2 := by decide

open Cell2v.Spec.C12 in
/-- the monitor is not vacuous on the start-up clause: a controller that leaves a hosted gate
out of its probe (service 0 of two is never asked) is flagged on the very first observation -/
theorem monitor_flags_unprobed_service :
    (Mon.reset (hostedOf [.hosted { frontend := true } .raw, .hosted {} .raw])
      { reply := none, pubs := [], upd := [], stops := 0, sent := [(1, .queryretire)], st := .working }).2
      = some "C12/hosted-service-not-probed" := by decide

open Cell2v.Spec.C12 in
/-- ... and on the retire clause from a real start (`Mon.reset`, then `runAll`): a retire accepted
while the gate never declared support is flagged -/
theorem monitor_flags_retire_without_frontend_support :
    monitorCase (hostedOf [.hosted { frontend := true } .raw, .hosted {} .raw]) none
      { reply := none, pubs := [], upd := [], stops := 0, sent := [(0, .queryretire), (1, .queryretire)], st := .working }
      [(.qack 1 true, { reply := none, pubs := [], upd := [], stops := 0, sent := [], st := .working }),
       (.cmd .retire, { reply := some .ok, pubs := [.retiring], upd := [.retiring], stops := 0,
                        sent := [(0, .retire), (1, .retire)], st := .retiring })]
      = some "C12/retire-accepted-without-support" := by decide

/-! ## non-vacuity: the hypotheses above are met by real histories -/

/-- one scripted and one NodeService-kind service, both supporting: retire is accepted -/
example : Evt.reply .ok ∈ (step true (exec true [.raw, .nodeOk] [.qack 0 true]).1 (.cmd .retire)).2 := by decide
/-- ... and after both reported, exit is accepted (through the web duplicate) -/
example : Evt.reply .ok ∈
    (step true (exec true [.raw, .nodeOk] [.qack 0 true, .cmd .webRetire, .svcRetired 1, .svcRetired 0]).1
      (.cmd .webExit)).2 := by decide
/-- the last report publishes `retired` -/
example : Evt.pub .retired ∈
    (step true (exec true [.raw, .nodeOk] [.qack 0 true, .cmd .retire, .svcRetired 1]).1 (.svcRetired 0)).2 := by
  decide
/-- a refused command exists in a reachable state -/
example : Evt.reply .ok ∉ (step true (exec true [.raw, .nodeNo] [.qack 0 true]).1 (.cmd .retire)).2 := by decide
/-- the full life cycle publishes retiring, retired, exiting, exited and stops once -/
example : pubRanks (exec true [.raw] [.qack 0 true, .cmd .retire, .svcRetired 0, .cmd .exit, .stopDone true]).2
    = [2, 3, 4, 5] := by decide

/-- StopNode completing inside the call: exiting is published before exited, one step -/
example : pubRanks (exec true [.raw] [.qack 0 true, .cmd .retire, .svcRetired 0, .cmd .exit] .inlineOk).2
    = [2, 3, 4, 5] := by decide
example : (exec true [.raw] [.qack 0 true, .cmd .retire, .svcRetired 0, .cmd .webExit] .inlineFail).1.st
    = .exiting := by decide

/-! ## defect D3 (before 7a7d699): a late `retired` moved an exiting node back -/

/-- support, retire, report, exit, a repeated report, a second exit -/
def d3Witness : List Op :=
  [.qack 0 true, .cmd .retire, .svcRetired 0, .cmd .exit, .svcRetired 0, .cmd .exit]

/-- on the code before the repair the published state went exiting → retired → exiting … -/
theorem d3_state_regression : pubRanks (exec false [.raw] d3Witness).2 = [2, 3, 4, 3, 4] := by decide
/-- … and `StopNode` was called twice -/
theorem d3_stopnode_twice : stops (exec false [.raw] d3Witness).2 = 2 := by decide
/-- the same history on the repaired code -/
theorem d3_repaired :
    pubRanks (exec true [.raw] d3Witness).2 = [2, 3, 4] ∧ stops (exec true [.raw] d3Witness).2 = 1 := by decide

end Cell2v.Props.C12
