import Cell2v.Lemmas.Codec
/-!
C06 — property theorems (pomelo wire codec).  Only property statements,
non-vacuity examples and defect witnesses live here.
-/
namespace Cell2v.Props.C06
open Cell2v.Codec

/-- id round trip through the base-128 encoding with Go's mod-2^64 decode arithmetic -/
theorem varint_roundtrip (n : Nat) (h : n < 2 ^ 64) (rest : Bytes) :
    decVar (encVar n ++ rest) = (n, (encVar n).length) := by
  have := decVarAux_enc n rest 0 0 0 (by simpa using h)
  simpa [decVar] using this

/-- **Round trip**: for every message within protocol limits (id < 2^64, route ≤ 255
bytes), any payload, error flag, compression on/off, route in or out of a
consistent dictionary, and any zlib with `inflate ∘ deflate = id`:
decoding the encoding returns every field the protocol carries. -/
theorem decode_encode (E : Env) (m : Msg)
    (hid : m.id < 2 ^ 64) (hrl : m.route.length ≤ 255)
    (hdict : ∀ r c, E.routes r = some c → E.codes c = some r ∧ c < 65536)
    (hz : ∀ d, E.inflate (E.deflate d) = some d) :
    decodeMsg E (encodeMsg E m) = .ok (carried m) := by
  rw [decodeMsg_eq_PM]
  obtain ⟨typ, id, route, data, err⟩ := m
  simp only at hid hrl
  have hv := varint_roundtrip id hid
  have hpos := encVar_length_pos id
  have hrl' : route.length % 256 = route.length := Nat.mod_eq_of_lt (by omega)
  by_cases hlt : (E.deflate data).length < data.length <;>
  cases hr : E.routes route with
  | none =>
    cases typ <;> cases err <;> cases hc : E.compress <;>
      simp [decodeMsgPM, encodeMsg, carried, hr, hc, hlt, b2n, MType.code, MType.ofCode, MType.hasId, MType.routable,
            hv, hz, hrl'] <;>
      (try omega) <;> (repeat' split) <;> (try omega) <;> simp_all <;> omega
  | some c =>
    obtain ⟨hcodes, hc65⟩ := hdict route c hr
    have hb : c / 256 % 256 * 256 + c % 256 = c := by omega
    cases typ <;> cases err <;> cases hc : E.compress <;>
      simp [decodeMsgPM, encodeMsg, carried, hr, hc, hlt, b2n, MType.code, MType.ofCode, MType.hasId, MType.routable,
            hv, hz, hb, hcodes] <;>
      (try omega) <;> (repeat' split) <;> (try omega) <;> simp_all <;> omega

/-- **No crash**: on every byte string (and every dictionary / inflate behaviour)
`message.Decode` answers a value or an error; none of its index or slice
expressions is ever out of bounds. -/
theorem decode_total (E : Env) (bs : Bytes) : decodeMsg E bs ≠ .oob := by
  rw [decodeMsg_eq_PM]
  unfold decodeMsgPM
  intro h
  simp only [] at h
  repeat' (split at h)
  all_goals (first | cases h | (simp only [] at h; repeat' (split at h)) <;> cases h)

/-- D1 (repaired by the `fix:` commit): without the three bounds checks the very
same decoder crashes on 2- and 3-byte inputs, whatever the environment. -/
def E0 : Env := { routes := fun _ => none, codes := fun _ => none, deflate := id, inflate := some, compress := false }
theorem d1_witnesses :
    decodeMsgUnchecked E0 [0x00, 0x05] = .oob ∧ decodeMsgUnchecked E0 [0x01, 0x05] = .oob ∧
    decodeMsgUnchecked E0 [0x02, 0x05] = .oob ∧ decodeMsgUnchecked E0 [0x06, 0x03, 0x41] = .oob ∧
    decodeMsgUnchecked E0 [0x00, 0x80, 0x80] = .oob := by decide

/-- non-vacuity: the hypotheses of `decode_encode` are met by a concrete
environment and message, and the conclusion is the expected concrete value -/
example : decodeMsg E0 (encodeMsg E0 ⟨.request, 300, [97, 46, 98], [1, 2, 3], true⟩)
    = .ok ⟨.request, 300, [97, 46, 98], [1, 2, 3], true⟩ :=
  decode_encode E0 _ (by decide) (by decide) (by simp [E0]) (by simp [E0])

/-- **Packet stream round trip**: any sequence of valid packets (type 1..5, body
< 2^24 bytes), each framed by the encoder and concatenated, decodes to the same
sequence.  (`decLoop`'s termination proof is the "never loops" half.) -/
theorem packets_roundtrip (ps : List Packet) (hv : ∀ p ∈ ps, p.Valid) :
    (∀ p ∈ ps, frame p = .ok (frameBytes p)) ∧
    decodePackets (ps.flatMap frameBytes) = .ok ps := by
  refine ⟨fun p hp => frame_ok p (hv p hp), ?_⟩
  cases ps with
  | nil => simp [decodePackets]
  | cons p ps =>
    obtain ⟨h1, h2, h3⟩ := hv p (by simp)
    unfold decodePackets
    have hl : ¬ (((p :: ps).flatMap frameBytes).length < 4) := by
      simp only [List.flatMap_cons, List.length_append, frameBytes_length]; omega
    rw [if_neg hl]
    simp only [List.flatMap_cons]
    rw [frameBytes_take4, parseHeader_frame _ _ h1 h2 h3, frameBytes_drop4]
    exact decLoop_frames ps p (fun q hq => hv q (by simp [hq]))

/-- header round trip -/
theorem header_roundtrip (t n : Nat) (h1 : 1 ≤ t) (h2 : t ≤ 5) (hn : n < 2 ^ 24) :
    parseHeader (t :: intToBytes n) = .ok (n, t) := parseHeader_frame t n h1 h2 hn

/-- D13 (repaired by a `fix:` commit; found from the hypothesis `Packet.Valid` the
round-trip proof forced): the old `len(data) > MaxPacketSize` test *accepted* a
body of exactly 2^24 bytes although the 3-byte length field cannot carry it —
the header announced length 0. -/
theorem d13_witness (p : Packet) (h1 : 1 ≤ p.typ) (h2 : p.typ ≤ 5) (hl : p.body.length = 2 ^ 24) :
    frameUnfixed p = .ok (p.typ :: 0 :: 0 :: 0 :: p.body) := by
  unfold frameUnfixed maxPacketSize intToBytes
  have : ¬ (p.typ < 1 ∨ p.typ > 5) := by omega
  rw [if_neg this, hl]
  simp

/-- the repaired encoder accepts exactly the valid packets: everything it frames
is inside the domain of `packets_roundtrip` -/
theorem frame_ok_iff_valid (p : Packet) : (∃ bs, frame p = .ok bs) ↔ p.Valid := by
  constructor
  · intro ⟨bs, h⟩
    unfold frame maxPacketSize at h
    unfold Packet.Valid
    by_cases h1 : p.typ < 1 ∨ p.typ > 5
    · rw [if_pos h1] at h; cases h
    · rw [if_neg h1] at h
      by_cases h2 : p.body.length ≥ 2 ^ 24
      · rw [if_pos h2] at h; cases h
      · omega
  · intro h; exact ⟨_, frame_ok p h⟩

/-- **Dictionary**: whatever sequence of `SetDictionary` calls was made (each with any
map-iteration order, stopping at the first duplicate as the code does), the two
Go maps stay mutually inverse and every code is a uint16 … -/
theorem SetDictionary_bijective (trim : Bytes → Bytes) (calls : List (List (Bytes × Nat)))
    (hc : ∀ es ∈ calls, ∀ e ∈ es, e.2 < 65536) :
    let d := calls.foldl (fun d es => (setDictionary trim d es).1) []
    ∀ r c, d.routes r = some c → d.codes c = some r ∧ c < 65536 := by
  intro d r c h
  have hw : DictWF d := setDictionary_calls_wf trim calls [] dictWF_nil hc
  exact dict_routes_codes d hw r c h

/-- … so the round trip holds with route compression for EVERY reachable dictionary
(this discharges the `hdict` hypothesis of `decode_encode`). -/
theorem decode_encode_any_dictionary (trim : Bytes → Bytes) (calls : List (List (Bytes × Nat)))
    (hc : ∀ es ∈ calls, ∀ e ∈ es, e.2 < 65536)
    (deflate : Bytes → Bytes) (inflate : Bytes → Option Bytes) (compress : Bool)
    (hz : ∀ x, inflate (deflate x) = some x)
    (m : Msg) (hid : m.id < 2 ^ 64) (hrl : m.route.length ≤ 255) :
    let E := (calls.foldl (fun d es => (setDictionary trim d es).1) []).env deflate inflate compress
    decodeMsg E (encodeMsg E m) = .ok (carried m) := by
  intro E
  exact decode_encode E m hid hrl (SetDictionary_bijective trim calls hc) hz

/-- `frame` = header (a function of type and length only) followed by the body -/
theorem frame_eq_header (p : Packet) :
    frame p = (match frameHeader p.typ p.body.length with | .ok h => .ok (h ++ p.body) | .error e => .error e) := by
  unfold frame frameHeader
  split
  · rfl
  · split <;> simp

example : (⟨4, [1, 2, 3]⟩ : Packet).Valid := by simp [Packet.Valid]

end Cell2v.Props.C06
