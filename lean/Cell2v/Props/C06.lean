import Cell2v.Lemmas.Codec
/-!
C06 — property theorems (pomelo wire codec).  Only property statements,
non-vacuity examples and defect witnesses live here.
-/
namespace Cell2v.Props.C06
open Cell2v.Codec

/-- id round trip through the base-128 encoding with Go's mod-2^64 decode arithmetic -/
theorem varint_roundtrip (n : Nat) (h : n < 2 ^ 64) (rest : Bytes) :
    decVar (encVar n ++ rest) = (n, (encVar n).length) := by
  have := decVarAux_enc n rest 0 0 0 (by simpa using h)
  simpa [decVar] using this

/-- **Round trip**: for every message within protocol limits (id < 2^64, route ≤ 255
bytes), any payload, error flag, compression on/off, route in or out of a
consistent dictionary, and any zlib with `inflate ∘ deflate = id`:
decoding the encoding returns every field the protocol carries. -/
theorem decode_encode (E : Env) (m : Msg)
    (hid : m.id < 2 ^ 64) (hrl : m.route.length ≤ 255)
    (hdict : ∀ r c, E.routes r = some c → E.codes c = some r ∧ c < 65536)
    (hz : ∀ d, E.inflate (E.deflate d) = some d) :
    decodeMsg E (encodeMsg E m) = .ok (carried m) := by
  rw [decodeMsg_eq_PM]
  obtain ⟨typ, id, route, data, err⟩ := m
  simp only at hid hrl
  have hv := varint_roundtrip id hid
  have hpos := encVar_length_pos id
  have hrl' : route.length % 256 = route.length := Nat.mod_eq_of_lt (by omega)
  by_cases hlt : (E.deflate data).length < data.length <;>
  cases hr : E.routes route with
  | none =>
    cases typ <;> cases err <;> cases hc : E.compress <;>
      simp [decodeMsgPM, encodeMsg, carried, hr, hc, hlt, b2n, MType.code, MType.ofCode, MType.hasId, MType.routable,
            hv, hz, hrl'] <;>
      (try omega) <;> (repeat' split) <;> (try omega) <;> simp_all <;> omega
  | some c =>
    obtain ⟨hcodes, hc65⟩ := hdict route c hr
    have hb : c / 256 % 256 * 256 + c % 256 = c := by omega
    cases typ <;> cases err <;> cases hc : E.compress <;>
      simp [decodeMsgPM, encodeMsg, carried, hr, hc, hlt, b2n, MType.code, MType.ofCode, MType.hasId, MType.routable,
            hv, hz, hb, hcodes] <;>
      (try omega) <;> (repeat' split) <;> (try omega) <;> simp_all <;> omega

/-- **No crash**: on every byte string (and every dictionary / inflate behaviour)
`message.Decode` answers a value or an error; none of its index or slice
expressions is ever out of bounds. -/
theorem decode_total (E : Env) (bs : Bytes) : decodeMsg E bs ≠ .oob := by
  rw [decodeMsg_eq_PM]
  unfold decodeMsgPM
  intro h
  simp only [] at h
  repeat' (split at h)
  all_goals (first | cases h | (simp only [] at h; repeat' (split at h)) <;> cases h)

/-- D1 (repaired by the `fix:` commit): without the three bounds checks the very
same decoder crashes on 2- and 3-byte inputs, whatever the environment. -/
def E0 : Env := { routes := fun _ => none, codes := fun _ => none, deflate := id, inflate := some, compress := false }
theorem d1_witnesses :
    decodeMsgUnchecked E0 [0x00, 0x05] = .oob ∧ decodeMsgUnchecked E0 [0x01, 0x05] = .oob ∧
    decodeMsgUnchecked E0 [0x02, 0x05] = .oob ∧ decodeMsgUnchecked E0 [0x06, 0x03, 0x41] = .oob ∧
    decodeMsgUnchecked E0 [0x00, 0x80, 0x80] = .oob := by decide

/-- non-vacuity: the hypotheses of `decode_encode` are met by a concrete
environment and message, and the conclusion is the expected concrete value -/
example : decodeMsg E0 (encodeMsg E0 ⟨.request, 300, [97, 46, 98], [1, 2, 3], true⟩)
    = .ok ⟨.request, 300, [97, 46, 98], [1, 2, 3], true⟩ :=
  decode_encode E0 _ (by decide) (by decide) (by simp [E0]) (by simp [E0])

/-- **Packet stream round trip**: any sequence of valid packets (type 1..5, body
< 2^24 bytes), each framed by the encoder and concatenated, decodes to the same
sequence.  (`decLoop`'s termination proof is the "never loops" half.) -/
theorem packets_roundtrip (ps : List Packet) (hv : ∀ p ∈ ps, p.Valid) :
    (∀ p ∈ ps, frame p = .ok (frameBytes p)) ∧
    decodePackets (ps.flatMap frameBytes) = .ok ps := by
  refine ⟨fun p hp => frame_ok p (hv p hp), ?_⟩
  cases ps with
  | nil => simp [decodePackets]
  | cons p ps =>
    obtain ⟨h1, h2, h3⟩ := hv p (by simp)
    unfold decodePackets
    have hl : ¬ (((p :: ps).flatMap frameBytes).length < 4) := by
      simp only [List.flatMap_cons, List.length_append, frameBytes_length]; omega
    rw [if_neg hl]
    simp only [List.flatMap_cons]
    rw [frameBytes_take4, parseHeader_frame _ _ h1 h2 h3, frameBytes_drop4]
    exact decLoop_frames ps p (fun q hq => hv q (by simp [hq]))

/-- header round trip -/
theorem header_roundtrip (t n : Nat) (h1 : 1 ≤ t) (h2 : t ≤ 5) (hn : n < 2 ^ 24) :
    parseHeader (t :: intToBytes n) = .ok (n, t) := parseHeader_frame t n h1 h2 hn

/-- D13 (repaired by a `fix:` commit; found from the hypothesis `Packet.Valid` the
round-trip proof forced): the old `len(data) > MaxPacketSize` test *accepted* a
body of exactly 2^24 bytes although the 3-byte length field cannot carry it —
the header announced length 0. -/
theorem d13_witness (p : Packet) (h1 : 1 ≤ p.typ) (h2 : p.typ ≤ 5) (hl : p.body.length = 2 ^ 24) :
    frameUnfixed p = .ok (p.typ :: 0 :: 0 :: 0 :: p.body) := by
  unfold frameUnfixed maxPacketSize intToBytes
  have : ¬ (p.typ < 1 ∨ p.typ > 5) := by omega
  rw [if_neg this, hl]
  simp

/-- the repaired encoder accepts exactly the valid packets: everything it frames
is inside the domain of `packets_roundtrip` -/
theorem frame_ok_iff_valid (p : Packet) : (∃ bs, frame p = .ok bs) ↔ p.Valid := by
  constructor
  · intro ⟨bs, h⟩
    unfold frame maxPacketSize at h
    unfold Packet.Valid
    by_cases h1 : p.typ < 1 ∨ p.typ > 5
    · rw [if_pos h1] at h; cases h
    · rw [if_neg h1] at h
      by_cases h2 : p.body.length ≥ 2 ^ 24
      · rw [if_pos h2] at h; cases h
      · omega
  · intro h; exact ⟨_, frame_ok p h⟩

/-- **Dictionary**: whatever sequence of `SetDictionary` calls was made (each with any
map-iteration order, stopping at the first duplicate as the code does), the two
Go maps stay mutually inverse and every code is a uint16 … -/
theorem SetDictionary_bijective (trim : Bytes → Bytes) (calls : List (List (Bytes × Nat)))
    (hc : ∀ es ∈ calls, ∀ e ∈ es, e.2 < 65536) :
    let d := calls.foldl (fun d es => (setDictionary trim d es).1) []
    ∀ r c, d.routes r = some c → d.codes c = some r ∧ c < 65536 := by
  intro d r c h
  have hw : DictWF d := setDictionary_calls_wf trim calls [] dictWF_nil hc
  exact dict_routes_codes d hw r c h

/-- … so the round trip holds with route compression for EVERY reachable dictionary
(this discharges the `hdict` hypothesis of `decode_encode`). -/
theorem decode_encode_any_dictionary (trim : Bytes → Bytes) (calls : List (List (Bytes × Nat)))
    (hc : ∀ es ∈ calls, ∀ e ∈ es, e.2 < 65536)
    (deflate : Bytes → Bytes) (inflate : Bytes → Option Bytes) (compress : Bool)
    (hz : ∀ x, inflate (deflate x) = some x)
    (m : Msg) (hid : m.id < 2 ^ 64) (hrl : m.route.length ≤ 255) :
    let E := (calls.foldl (fun d es => (setDictionary trim d es).1) []).env deflate inflate compress
    decodeMsg E (encodeMsg E m) = .ok (carried m) := by
  intro E
  exact decode_encode E m hid hrl (SetDictionary_bijective trim calls hc) hz

/-- `frame` = header (a function of type and length only) followed by the body -/
theorem frame_eq_header (p : Packet) :
    frame p = (match frameHeader p.typ p.body.length with | .ok h => .ok (h ++ p.body) | .error e => .error e) := by
  unfold frame frameHeader
  split
  · rfl
  · split <;> simp

example : (⟨4, [1, 2, 3]⟩ : Packet).Valid := by simp [Packet.Valid]


/-! ### second round: trimmed dictionary keys, long-lived decoder, session layer -/

/-- `trimWs` (the model of `strings.TrimSpace` on the generator's blanks: space, \t, \n, \r)
removes exactly a blank prefix and a blank suffix, leaves no blank at either end, and is idempotent -/
theorem trim_spec (bs : Bytes) :
    (∃ pre post, bs = pre ++ trimWs bs ++ post ∧ (∀ b ∈ pre, isBlank b = true) ∧ (∀ b ∈ post, isBlank b = true)) ∧
    (∀ b, (trimWs bs).head? = some b → isBlank b = false) ∧
    (∀ b, (trimWs bs).getLast? = some b → isBlank b = false) ∧
    trimWs (trimWs bs) = trimWs bs :=
  ⟨trimWs_split bs, trimWs_head_not bs, trimWs_last_not bs, trimWs_idem bs⟩

example : trimWs [32, 9, 114, 32, 101, 13, 10] = [114, 32, 101] ∧ trimWs [32, 9, 10, 13] = [] := by decide

/-- **Dictionary keys are stored trimmed, in BOTH maps**: when a `SetDictionary` call runs to
the end, every entry `(key, code)` of the call can afterwards be encoded under `trim key`
and its code decodes to `trim key` (not to the key as written); older entries are untouched. -/
theorem SetDictionary_stores_trimmed_key (trim : Bytes → Bytes) (d d' : Dict) (es : List (Bytes × Nat))
    (h : setDictionary trim d es = (d', true)) :
    (∀ e ∈ es, d'.routes (trim e.1) = some e.2 ∧ d'.codes e.2 = some (trim e.1)) ∧
    (∀ x c, d.routes x = some c → d'.routes x = some c) ∧
    (∀ c x, d.codes c = some x → d'.codes c = some x) := by
  obtain ⟨p1, p2, p3⟩ := setDictionary_stores trim es d d' h
  exact ⟨p3, p1, p2⟩

/-- non-vacuity, with the modelled trim: key `" a "` is stored as `"a"` in both directions -/
example : (setDictionary trimWs [] [([32, 97, 32], 7)]).2 = true ∧
    (setDictionary trimWs [] [([32, 97, 32], 7)]).1.codes 7 = some [97] ∧
    (setDictionary trimWs [] [([32, 97, 32], 7)]).1.routes [97] = some 7 := by decide

/-- **Map iteration order does not matter for a duplicate-free call**: if `SetDictionary`
runs to the end for one iteration order of the Go map, it does so for every other order
and both maps answer every lookup identically.  (A call WITH a duplicate stops at the first
one it meets; which entries were added before is order dependent — the harness only issues
multi-entry calls without duplicates.) -/
theorem SetDictionary_order_independent (trim : Bytes → Bytes) (d : Dict) (es es' : List (Bytes × Nat))
    (hp : es.Perm es') (hok : (setDictionary trim d es).2 = true) :
    (setDictionary trim d es').2 = true ∧
    (∀ r, (setDictionary trim d es).1.routes r = (setDictionary trim d es').1.routes r) ∧
    (∀ c, (setDictionary trim d es).1.codes c = (setDictionary trim d es').1.codes c) := by
  have hpair : setDictionary trim d es = ((setDictionary trim d es).1, true) := by
    rw [← hok]
  have hf := setDictionary_true_fresh trim es d _ hpair
  have hpX : (trimmed trim es).Perm (trimmed trim es') := hp.map _
  have hf' := freshFor_perm d _ _ hpX hf
  rw [setDictionary_fresh trim es d hf, setDictionary_fresh trim es' d hf']
  obtain ⟨l1, l2⟩ := lookups_perm _ _ hpX hf.1 hf.2.1
  refine ⟨rfl, ?_, ?_⟩
  · intro r; simp only [routes_append, l1]
  · intro c; simp only [codes_append, l2]

example : (setDictionary trimWs [] [([32, 97], 1), ([98, 9], 2)]).2 = true := by decide

/-- **Results are values** (aliasing-freedom clause for the one long-lived packet decoder of a
component): what a `Decode` call returned is still exactly that after up to `winCap - 1`
further `Decode` calls on arbitrary inputs.  In a pure model this holds by construction;
it is stated because it is the clause the differential `pdec2`/`pdecs`/`pchk` stream ties to
the Go code, where a result CAN be changed behind the caller's back (slices into a reused buffer). -/
theorem earlier_results_unchanged (w : List (Except PErr (List Packet))) (a : Bytes) (later : List Bytes)
    (hl : later.length < winCap) :
    (later.foldl (fun w d => (decodeShared w d).1) (decodeShared w a).1)[later.length]? = some (decodePackets a) := by
  have e : later.foldl (fun w d => (decodeShared w d).1) (decodeShared w a).1
      = (later.map decodePackets).foldl winPush (winPush w (decodePackets a)) := by
    rw [List.foldl_map]; rfl
  rw [e]
  have := window_stable (later.map decodePackets) (winPush w (decodePackets a)) (decodePackets a) 0
    (winPush_head _ _) (by simpa using hl)
  simpa using this

/-- **No client input brings the server down**: whatever bytes arrive in a Data packet of a
working session (any dictionary, any inflate behaviour), the session either hands a message
to its owner or is closed — the reader goroutine (which has no `recover`) never panics. -/
theorem session_never_crashes (E : Env) (body : Bytes) : sessionData E body ≠ .crash := by
  unfold sessionData
  have := decode_total E body
  cases h : decodeMsg E body with
  | ok m => simp
  | err e => simp
  | oob => exact absurd h this

/-- … and closes exactly on a decode error -/
theorem session_closed_iff (E : Env) (body : Bytes) :
    sessionData E body = .closed ↔ ∃ e, decodeMsg E body = .err e := by
  unfold sessionData
  cases h : decodeMsg E body with
  | ok m => simp
  | err e => simp
  | oob => simp

/-- a well-formed message sent by a client is delivered with the fields the owner is given
(`ClientReqId = uint32(ID)`, route, payload) -/
theorem session_delivers_encoded (E : Env) (m : Msg)
    (hid : m.id < 2 ^ 64) (hrl : m.route.length ≤ 255)
    (hdict : ∀ r c, E.routes r = some c → E.codes c = some r ∧ c < 65536)
    (hz : ∀ d, E.inflate (E.deflate d) = some d) :
    sessionData E (encodeMsg E m) = .delivered ((carried m).id % 2 ^ 32) (carried m).route m.data := by
  unfold sessionData
  rw [decode_encode E m hid hrl hdict hz]
  rfl

/-- the m3 input: route-compression bit set, code not in the dictionary ⇒ closed -/
example : sessionData E0 [0x03, 0xFF, 0xFF] = .closed := by decide
example : sessionData E0 (encodeMsg E0 ⟨.request, 2 ^ 32 + 5, [97], [1], false⟩) = .delivered 5 [97] [1] :=
  session_delivers_encoded E0 _ (by decide) (by decide) (by simp [E0]) (by simp [E0])


/-! ### third round: stream reassembly in the acceptor, large compressed payloads -/

/-- **Fragmentation independence**: however the network cuts the client's byte stream into
fragments (single bytes, inside a header, inside a body, several packets in one segment), the
sequence of framed packets `tcpPlayerConn.GetNextMessage` hands to the session — and how the
stream ends — is that of the unfragmented byte string: it is a function of the concatenation only. -/
theorem stream_fragmentation_independent (fuel : Nat) (fs : List Bytes) :
    readStreamF fuel fs = readStream fuel fs.flatten :=
  readStreamF_flatten fuel fs

/-- the bound on the number of `GetNextMessage` calls the model driver uses is never reached -/
theorem stream_fuel_enough (fuel : Nat) (s : Bytes) (h : s.length < fuel) : (readStream fuel s).2 ≠ .fuel :=
  readStream_fuel_enough fuel s h

/-- **Stream round trip under any fragmentation**: valid packets framed by the encoder and sent
in ANY fragmentation are handed over one frame per call, each frame decodes (packet decoder) to
exactly its packet, and the stream ends cleanly (`closed`, no error). -/
theorem fragmented_stream_roundtrip (ps : List Packet) (hv : ∀ p ∈ ps, p.Valid)
    (fs : List Bytes) (hfs : fs.flatten = ps.flatMap frameBytes) (fuel : Nat) (hf : ps.length < fuel) :
    readStreamF fuel fs = (ps.map frameBytes, .closed) ∧
    ∀ p ∈ ps, decodePackets (frameBytes p) = .ok [p] := by
  constructor
  · rw [readStreamF_flatten, hfs]
    exact readStream_frames ps fuel hv hf
  · intro p hp
    have := (packets_roundtrip [p] (by intro q hq; simp only [List.mem_singleton] at hq; rw [hq]; exact hv p hp)).2
    simpa using this

/-- non-vacuity: a 3-byte-body packet delivered one byte at a time -/
example : readStreamF 2 [[4], [0], [0], [3], [7], [8], [9]] = ([[4, 0, 0, 3, 7, 8, 9]], .closed) := by decide
/-- a body cut short is an error, not a message -/
example : readStreamF 2 [[4, 0], [0, 3, 7], [8]] = ([], .err) := by decide


/-! ### fourth round: the whole path for several messages, `Encode`'s side effect, the client-side read loop -/

/-- **The composition** (the property's first sentence): messages within protocol limits whose encoding fits a
packet (`< 2^24` bytes — the side condition of the composition), encoded, framed as Data packets, sent as one
byte stream in ANY fragmentation: `GetNextMessage` hands over exactly one frame per message, the stream ends
cleanly, and every frame decodes (packet decoder, then `message.Decode`) to exactly the carried fields of its
message — for every reachable dictionary shape (`hdict`) and every zlib that is an inverse pair. -/
theorem chain_roundtrip (E : Env) (ms : List Msg)
    (hm : ∀ m ∈ ms, m.id < 2 ^ 64 ∧ m.route.length ≤ 255 ∧ (encodeMsg E m).length < 2 ^ 24)
    (hdict : ∀ r c, E.routes r = some c → E.codes c = some r ∧ c < 65536)
    (hz : ∀ d, E.inflate (E.deflate d) = some d)
    (fs : List Bytes) (hfs : fs.flatten = (sendMsgs E ms).flatMap frameBytes) (fuel : Nat) (hf : ms.length < fuel) :
    readStreamF fuel fs = ((sendMsgs E ms).map frameBytes, .closed) ∧
    ∀ m ∈ ms, recvFrame E (frameBytes ⟨4, encodeMsg E m⟩) = .ok [.ok (carried m)] := by
  have hv : ∀ p ∈ sendMsgs E ms, p.Valid := by
    intro p hp
    simp only [sendMsgs, List.mem_map] at hp
    obtain ⟨m, hmm, rfl⟩ := hp
    exact ⟨by simp, by simp, (hm m hmm).2.2⟩
  constructor
  · exact (fragmented_stream_roundtrip (sendMsgs E ms) hv fs hfs fuel (by simpa [sendMsgs] using hf)).1
  · intro m hmm
    obtain ⟨h1, h2, h3⟩ := hm m hmm
    have hp : (⟨4, encodeMsg E m⟩ : Packet).Valid := ⟨by simp, by simp, h3⟩
    have hd : decodePackets (frameBytes ⟨4, encodeMsg E m⟩) = .ok [⟨4, encodeMsg E m⟩] := by
      have := decodePackets_frames [⟨4, encodeMsg E m⟩] (by intro q hq; simp only [List.mem_singleton] at hq; rw [hq]; exact hp)
      simpa using this
    unfold recvFrame
    rw [hd]
    simp only [List.map_cons, List.map_nil]
    rw [decode_encode E m h1 h2 hdict hz]

/-- non-vacuity: two messages, the stream delivered in three odd fragments -/
example : readStreamF 3 [[4, 0, 0], [4, 2, 1, 1, 7, 4], [0, 0, 4, 6, 1, 97, 9]]
      = ((sendMsgs E0 [⟨.notify, 0, [1], [7], false⟩, ⟨.push, 0, [97], [9], false⟩]).map frameBytes, .closed) ∧
    ∀ m ∈ [(⟨.notify, 0, [1], [7], false⟩ : Msg), ⟨.push, 0, [97], [9], false⟩],
      recvFrame E0 (frameBytes ⟨4, encodeMsg E0 m⟩) = .ok [.ok (carried m)] :=
  chain_roundtrip E0 _ (by decide) (by simp [E0]) (by simp [E0]) _ (by decide) 3 (by decide)

/-- **`Encode` as a method**: the bytes are those of the pure encoder; type, id, route and error flag of the
caller's object are untouched; its `Data` is untouched unless compression is on and pays, in which case it is
REPLACED by the deflated bytes (message_encoder.go: `message.Data = d`). -/
theorem encodeM_spec (E : Env) (m : Msg) :
    (encodeMsgM E m).1 = encodeMsg E m ∧
    (encodeMsgM E m).2.typ = m.typ ∧ (encodeMsgM E m).2.id = m.id ∧ (encodeMsgM E m).2.route = m.route ∧
    (encodeMsgM E m).2.err = m.err ∧
    ((encodeMsgM E m).2.data = m.data ∨
     (E.compress = true ∧ (E.deflate m.data).length < m.data.length ∧ (encodeMsgM E m).2.data = E.deflate m.data)) := by
  refine ⟨rfl, rfl, rfl, rfl, rfl, ?_⟩
  unfold encodeMsgM
  by_cases hc : E.compress = true <;> by_cases hl : (E.deflate m.data).length < m.data.length <;> simp [hc, hl]

/-- without payload compression `Encode` does not touch the message: it may be encoded any number of times -/
theorem encodeM_pure_without_compression (E : Env) (m : Msg) (hc : E.compress = false) : (encodeMsgM E m).2 = m := by
  unfold encodeMsgM
  simp [hc]

/-- a toy zlib that IS an inverse pair: eight 7s deflate to `[9]`, everything else gets a 0 in front -/
def Ez : Env :=
  { routes := fun _ => none, codes := fun _ => none,
    deflate := fun d => if d = [7, 7, 7, 7, 7, 7, 7, 7] then [9] else 0 :: d,
    inflate := fun b => match b with | [9] => some [7, 7, 7, 7, 7, 7, 7, 7] | 0 :: d => some d | _ => none,
    compress := true }

theorem Ez_inverse (d : Bytes) : Ez.inflate (Ez.deflate d) = some d := by
  unfold Ez
  by_cases h : d = [7, 7, 7, 7, 7, 7, 7, 7] <;> simp [h]

/-- **Hazard of that side effect** (review finding 4; reproduced on the Go code by the `enc2` stream): a message
object handed to `Encode` a SECOND time (retry, broadcast of one object) is encoded from the already deflated
bytes; they do not shrink again, the gzip flag stays off, and the peer decodes the DEFLATED bytes as payload.
The first encoding round-trips, the second does not — `decode_encode` is about one `Encode` per message object. -/
theorem reencode_witness :
    let m0 : Msg := ⟨.push, 0, [97], [7, 7, 7, 7, 7, 7, 7, 7], false⟩
    decodeMsg Ez (encodeMsgM Ez m0).1 = .ok (carried m0) ∧
    decodeMsg Ez (encodeMsgM Ez (encodeMsgM Ez m0).2).1 = .ok ⟨.push, 0, [97], [9], false⟩ := by decide

/-- **Client-side read loop, reads that end at frame boundaries**: when every socket read brings whole frames
(any number of them, valid packets), the packets `Client.readPackets` returns over all rounds are exactly the
packets sent, in order, and the accumulating buffer is empty between rounds.
(Special case of `client_readloop_roundtrip` below, which covers ANY fragmentation.) -/
theorem client_readloop_roundtrip_partial (chunks : List (List Packet)) (hv : ∀ c ∈ chunks, ∀ p ∈ c, p.Valid) :
    clientReadLoop [] (chunks.map fun c => c.flatMap frameBytes) = chunks.flatten := by
  induction chunks with
  | nil => rfl
  | cons c cs ih =>
    simp only [List.map_cons, clientReadLoop, List.flatten_cons]
    rw [clientRead_frames c (hv c (by simp))]
    simp only
    rw [ih (fun d hd => hv d (by simp [hd]))]

/-- **Client-side read loop, ANY fragmentation** (full strength): valid packets framed by the encoder and delivered
by the socket in arbitrary reads (inside headers, inside bodies, several frames at once): over all rounds
`Client.readPackets` returns exactly the packets sent, in order — each round returns the frames complete so far and
keeps a strict prefix of the next frame in its accumulating buffer (`decodePackets_prefix`). -/
theorem client_readloop_roundtrip (ps : List Packet) (hv : ∀ p ∈ ps, p.Valid) (fs : List Bytes)
    (hfs : fs.flatten = ps.flatMap frameBytes) : clientReadLoop [] fs = ps :=
  clientReadLoop_frames fs [] ps hv (by simpa using hfs) (fun p _ _ => by simp; omega) (fun _ => rfl)

/-- every prefix of a stream of valid frames decodes, without error, to the packets of the frames complete in it -/
theorem packet_decoder_prefix (ps : List Packet) (hv : ∀ p ∈ ps, p.Valid) (b tail : Bytes)
    (hb : b ++ tail = ps.flatMap frameBytes) :
    ∃ qs rs, ps = qs ++ rs ∧ decodePackets b = .ok qs := by
  obtain ⟨qs, rs, _, h1, h2, _⟩ := decodePackets_prefix ps b tail hv hb
  exact ⟨qs, rs, h1, h2⟩

/-- non-vacuity: two frames in the first read, one in the second -/
example : clientReadLoop [] [[4, 0, 0, 1, 7, 3, 0, 0, 0], [4, 0, 0, 2, 8, 9]] = [⟨4, [7]⟩, ⟨3, []⟩, ⟨4, [8, 9]⟩] :=
  client_readloop_roundtrip_partial [[⟨4, [7]⟩, ⟨3, []⟩], [⟨4, [8, 9]⟩]] (by simp [Packet.Valid])

/-- a read that ends inside the second frame's header: same packets (computed) -/
example : clientReadLoop [] [[4, 0, 0, 1, 7, 3, 0], [0, 0, 4, 0, 0, 2, 8], [9]] = [⟨4, [7]⟩, ⟨3, []⟩, ⟨4, [8, 9]⟩] :=
  client_readloop_roundtrip [⟨4, [7]⟩, ⟨3, []⟩, ⟨4, [8, 9]⟩] (by simp [Packet.Valid]) _ (by decide)
example : clientReadLoop [] [[4, 0, 0, 1, 7, 3, 0], [0, 0, 4, 0, 0, 2, 8], [9]] = [⟨4, [7]⟩, ⟨3, []⟩, ⟨4, [8, 9]⟩] := by
  simp [clientReadLoop, clientRead, decodePackets, decLoop, parseHeader, packetsLen, maxPacketSize]

/-- **Route longer than 255 bytes** (review finding 6; outside the protocol limit, no error from `Encode`): the length
byte is `len % 256`, so a 256-byte route is written with length 0 and the peer reads route "" with the route
bytes in front of the payload — the reason for the hypothesis `route.length ≤ 255` of `decode_encode`. -/
theorem route_too_long_witness (r : Bytes) (hr : r.length = 256) (d : Bytes) :
    decodeMsg E0 (encodeMsg E0 ⟨.notify, 0, r, d, false⟩) = .ok ⟨.notify, 0, [], r ++ d, false⟩ := by
  rw [decodeMsg_eq_PM]
  simp [decodeMsgPM, encodeMsg, E0, b2n, MType.code, MType.ofCode, MType.hasId, MType.routable, hr]


/-! ### fifth round: the session's read loop as a state machine (handshake, ack, data, heartbeat; several packets per frame) -/

theorem processPacket_no_crash (E : Env) (j : Bytes → Bool) (st : SStatus) (p : Packet) :
    processPacket E j st p ≠ .crash ∧
    ∀ st' ev, processPacket E j st p = .cont st' ev → SessOut.crash ∉ ev ∧ SessOut.closed ∉ ev := by
  have ht := decode_total E p.body
  unfold processPacket
  constructor
  · repeat' split
    all_goals (first | (intro h; cases h) | skip)
    all_goals (rename_i h; exact absurd h ht)
  · intro st' ev
    repeat' split
    all_goals (intro h; first | cases h | skip)
    all_goals simp

theorem processPackets_no_crash (E : Env) (j : Bytes → Bool) (ps : List Packet) : ∀ (st : SStatus),
    (processPackets E j st ps).2.2 = false ∧ SessOut.crash ∉ (processPackets E j st ps).1 ∧
      SessOut.closed ∉ (processPackets E j st ps).1 := by
  induction ps with
  | nil => intro st; simp [processPackets]
  | cons p ps ih =>
    intro st
    obtain ⟨h1, h2⟩ := processPacket_no_crash E j st p
    unfold processPackets
    cases h : processPacket E j st p with
    | cont st' ev =>
      obtain ⟨a, b, c⟩ := ih st'
      obtain ⟨d, e⟩ := h2 st' ev h
      simp only [List.mem_append, not_or]
      exact ⟨a, ⟨d, b⟩, ⟨e, c⟩⟩
    | stop => simp
    | crash => exact absurd h h1

/-- **No client input brings the server down, whole session**: whatever frames a client sends from the first byte on
(handshake or not, any JSON verdict, acks and data in any order, several packets per frame, garbage), in every
status, under every dictionary and inflate behaviour, the reader goroutine never panics: the trace of the read
loop never contains `crash`.  (Generalises `session_never_crashes`, which is the single-Data-packet case.) -/
theorem session_script_never_crashes (E : Env) (j : Bytes → Bool) (frames : List Bytes) : ∀ (st : SStatus),
    SessOut.crash ∉ sessFrames E j st frames := by
  induction frames with
  | nil => intro st; simp [sessFrames]
  | cons f fs ih =>
    intro st
    unfold sessFrames
    cases hd : decodePackets f with
    | error e => simp
    | ok ps =>
      simp only
      obtain ⟨a, b, _⟩ := processPackets_no_crash E j ps st
      rcases hp : processPackets E j st ps with ⟨ev, o, c⟩
      rw [hp] at a b
      simp only at a b
      subst a
      cases o with
      | some st' =>
        simp only [List.mem_append, not_or]
        exact ⟨b, ih st'⟩
      | none =>
        simp only [List.mem_append, not_or]
        exact ⟨b, by simp⟩

/-- the session is closed by the server only through a frame the packet decoder rejects, a handshake whose JSON is
rejected, or a Data packet in status Working whose message does not decode: `closed` can only be the LAST event -/
theorem session_script_closed_last (E : Env) (j : Bytes → Bool) (frames : List Bytes) : ∀ (st : SStatus),
    SessOut.closed ∉ (sessFrames E j st frames).dropLast := by
  induction frames with
  | nil => intro st; simp [sessFrames]
  | cons f fs ih =>
    intro st
    unfold sessFrames
    cases hd : decodePackets f with
    | error e => simp
    | ok ps =>
      simp only
      obtain ⟨_, _, b⟩ := processPackets_no_crash E j ps st
      rcases hp : processPackets E j st ps with ⟨ev, o, c⟩
      rw [hp] at b
      simp only at b
      cases o with
      | some st' =>
        simp only
        intro hmem
        by_cases hne : sessFrames E j st' fs = []
        · rw [hne, List.append_nil] at hmem
          exact b ((List.dropLast_sublist _).subset hmem)
        · rw [List.dropLast_append_of_ne_nil hne] at hmem
          rcases List.mem_append.mp hmem with h | h
          · exact b h
          · exact ih st' h
      | none =>
        cases c <;> simp only [List.dropLast_concat] <;> exact b

/-- **status logic of `processPacket`**: a Data packet before the handshake was acknowledged is ignored whatever its
bytes (no event, no close, status unchanged); a HandshakeAck puts the session into Working from ANY status (a client
may skip the handshake packet); a Handshake packet closes the session exactly when its JSON body is rejected. -/
theorem session_status_logic (E : Env) (j : Bytes → Bool) (st : SStatus) (body : Bytes) :
    (st.code < 3 → processPacket E j st ⟨4, body⟩ = .cont st []) ∧
    processPacket E j st ⟨2, body⟩ = .cont .working [] ∧
    (processPacket E j st ⟨1, body⟩ = .stop ↔ j body = false) ∧
    processPacket E j st ⟨3, body⟩ = .cont st [] := by
  refine ⟨?_, ?_, ?_, ?_⟩
  · intro h; simp [processPacket, h]
  · simp [processPacket]
  · cases hj : j body <;> simp [processPacket, hj]
  · simp [processPacket]

theorem sessFrames_working_msgs (E : Env) (j : Bytes → Bool) (ms : List Msg)
    (hm : ∀ m ∈ ms, m.id < 2 ^ 64 ∧ m.route.length ≤ 255 ∧ (encodeMsg E m).length < 2 ^ 24)
    (hdict : ∀ r c, E.routes r = some c → E.codes c = some r ∧ c < 65536)
    (hz : ∀ d, E.inflate (E.deflate d) = some d) :
    sessFrames E j .working ((sendMsgs E ms).map frameBytes)
      = ms.map fun m => .delivered ((carried m).id % 2 ^ 32) (carried m).route m.data := by
  induction ms with
  | nil => simp [sendMsgs, sessFrames]
  | cons m ms ih =>
    obtain ⟨h1, h2, h3⟩ := hm m (by simp)
    have hp : (⟨4, encodeMsg E m⟩ : Packet).Valid := ⟨by simp, by simp, h3⟩
    have hd : decodePackets (frameBytes ⟨4, encodeMsg E m⟩) = .ok [⟨4, encodeMsg E m⟩] := by
      have := decodePackets_frames [⟨4, encodeMsg E m⟩] (by intro q hq; simp only [List.mem_singleton] at hq; rw [hq]; exact hp)
      simpa using this
    have ih' := ih (fun x hx => hm x (by simp [hx]))
    simp only [sendMsgs, List.map_cons] at ih' ⊢
    unfold sessFrames
    rw [hd]
    simp only [processPackets, processPacket, SStatus.code, decode_encode E m h1 h2 hdict hz]
    simp only [List.map_map] at ih'
    simp [ih']
    rfl

/-- **A regular session delivers everything**: handshake (JSON accepted), ack, then any number of messages within
protocol limits, each encoded and framed as a Data packet: the owner is handed every message, in order, with
`ClientReqId = uint32(ID)`, route and payload; the session stays open.  (Generalises `session_delivers_encoded`.) -/
theorem session_script_delivers (E : Env) (j : Bytes → Bool) (hs : Bytes) (hj : j hs = true) (hl : hs.length < 2 ^ 24)
    (ms : List Msg)
    (hm : ∀ m ∈ ms, m.id < 2 ^ 64 ∧ m.route.length ≤ 255 ∧ (encodeMsg E m).length < 2 ^ 24)
    (hdict : ∀ r c, E.routes r = some c → E.codes c = some r ∧ c < 65536)
    (hz : ∀ d, E.inflate (E.deflate d) = some d) :
    sessFrames E j .start (frameBytes ⟨1, hs⟩ :: frameBytes ⟨2, []⟩ :: (sendMsgs E ms).map frameBytes)
      = ms.map fun m => .delivered ((carried m).id % 2 ^ 32) (carried m).route m.data := by
  have d1 : decodePackets (frameBytes ⟨1, hs⟩) = .ok [⟨1, hs⟩] := by
    have := decodePackets_frames [⟨1, hs⟩] (by intro q hq; simp only [List.mem_singleton] at hq; rw [hq]; exact ⟨by simp, by simp, hl⟩)
    simpa using this
  have d2 : decodePackets (frameBytes ⟨2, []⟩) = .ok [⟨2, []⟩] := by
    have := decodePackets_frames [⟨2, []⟩] (by intro q hq; simp only [List.mem_singleton] at hq; rw [hq]; exact ⟨by simp, by simp, by simp⟩)
    simpa using this
  unfold sessFrames
  rw [d1]
  simp only [processPackets, processPacket, hj]
  unfold sessFrames
  rw [d2]
  simp only [processPackets, processPacket]
  simpa using sessFrames_working_msgs E j ms hm hdict hz

/-- non-vacuity: `{}` handshake, ack, one notify -/
example : sessFrames E0 (fun _ => true) .start (frameBytes ⟨1, [123, 125]⟩ :: frameBytes ⟨2, []⟩ ::
      (sendMsgs E0 [⟨.notify, 0, [97], [9], false⟩]).map frameBytes) = [.delivered 0 [97] [9]] :=
  session_script_delivers E0 _ _ rfl (by decide) _ (by decide) (by simp [E0]) (by simp [E0])


/-! ### dictionary growth between encode and decode; checked accesses of the packet layer -/

/-- **The dictionary may grow between `Encode` and `Decode`** (it is a process global; `SetDictionary` only ever adds
entries): a message encoded under dictionary/zlib `E` decodes to its carried fields under ANY later environment `E'`
whose code table extends `E`'s and whose inflate inverts `E`'s deflate — also when the route was spelled out at
encode time and has entered the dictionary since (the compress bit travels in the flag byte). -/
theorem decode_encode_dictionary_growth (E E' : Env) (m : Msg)
    (hid : m.id < 2 ^ 64) (hrl : m.route.length ≤ 255)
    (hdict : ∀ r c, E.routes r = some c → E.codes c = some r ∧ c < 65536)
    (hgrow : ∀ c r, E.codes c = some r → E'.codes c = some r)
    (hz : ∀ d, E'.inflate (E.deflate d) = some d) :
    decodeMsg E' (encodeMsg E m) = .ok (carried m) := by
  let E2 : Env := { routes := E.routes, codes := E'.codes, deflate := E.deflate, inflate := E'.inflate, compress := E.compress }
  have h1 : encodeMsg E m = encodeMsg E2 m := rfl
  have h2 : ∀ bs, decodeMsg E' bs = decodeMsg E2 bs := fun _ => rfl
  rw [h1, h2]
  exact decode_encode E2 m hid hrl (fun r c h => ⟨hgrow c r (hdict r c h).1, (hdict r c h).2⟩) hz

/-- `SetDictionary` only adds: after any further successful or failed call, every old code still decodes to its
route (so `hgrow` above holds along every run of the process). -/
theorem SetDictionary_grows (trim : Bytes → Bytes) (d : Dict) (es : List (Bytes × Nat)) (hw : DictWF d)
    (hc : ∀ e ∈ es, e.2 < 65536) :
    ∀ c r, d.codes c = some r → (setDictionary trim d es).1.codes c = some r := by
  induction es generalizing d with
  | nil => intro c r h; simpa [setDictionary] using h
  | cons e es ih =>
    intro c r h
    obtain ⟨k, v⟩ := e
    unfold setDictionary
    cases ha : d.add1 (trim k) v with
    | none => simpa using h
    | some d' =>
      simp only
      have hw' : DictWF d' := add1_wf d d' (trim k) v hw (hc (k, v) (by simp)) ha
      apply ih d' hw' (fun e he => hc e (by simp [he]))
      have hd' : d' = d ++ [(trim k, v)] := by
        unfold Dict.add1 at ha
        split at ha
        · cases ha
        · split at ha
          · cases ha
          · exact (Option.some.inj ha).symm
      rw [hd', codes_append, h]
      rfl

/-- non-vacuity: spelled-out route at encode time, the same route in the dictionary at decode time -/
example : decodeMsg { E0 with codes := fun c => if c = 7 then some [97] else none } (encodeMsg E0 ⟨.notify, 0, [97], [5], false⟩)
    = .ok ⟨.notify, 0, [97], [5], false⟩ :=
  decode_encode_dictionary_growth E0 _ _ (by decide) (by decide) (by simp [E0]) (by simp [E0]) (by simp [E0])

/-- **The packet layer's index/slice expressions are checked too** (`ParseHeader`, utils.go: `header[0]`, `header[1:]`
behind `len(header) != HeadLength`; everything else in the packet decoder and in `GetNextMessage` goes through
`bytes.Buffer.Next`/`ReadAll`, which clamp): with every access checked (`none` = Go panic) the function never fails
an access and is the `parseHeader` used throughout — for EVERY byte string. -/
theorem parseHeader_checked_total (h : Bytes) : parseHeaderC h = some (parseHeader h) := by
  unfold parseHeaderC parseHeader idx? slice?
  match h with
  | [] => simp
  | [_] => simp
  | [_, _] => simp
  | [_, _, _] => simp
  | [t, a, b, c] => simp [bytesToInt]; split <;> simp_all <;> (split <;> simp_all)
  | _ :: _ :: _ :: _ :: _ :: _ => simp


/-! ### results of `Decode` are values: the memory model -/

/-- **What `Decode` returned stays what it was** (non-vacuous form of `earlier_results_unchanged`; review finding 3).
In the memory model — packets are SLICES into heap buffers — a `Decode` call on any buffer returns slices that read
as exactly the packets of the pure decoder, and keep reading so after ANY sequence of later operations: the caller
overwriting (recycling) its own buffers including the one it handed to this very call, allocating, and further
`Decode` calls on any buffer.  It holds because `Decode` copies its input into a buffer of its own, every call gets a
FRESH one, and nothing ever writes a decoder-private buffer (`step_keeps_decoder`); a decoder that pointed into its
input, or reused one private buffer across calls, would violate it. -/
theorem decode_results_are_values (h : Heap) (inp : Nat) (b : Buf) (hin : h[inp]? = some b) (ops : List HOp) :
    match (decodeH h inp).2, decodePackets b.bytes with
    | .ok rs, .ok ps => rs.map (ops.foldl Heap.step (decodeH h inp).1).deref = ps.map some
    | .error e, .error e' => e = e'
    | _, _ => False := by
  have hH : decodeH h inp = (h ++ [⟨.decoder, b.bytes⟩], decodeRefs h.length b.bytes) := by
    unfold decodeH; rw [hin]
  rw [hH]
  simp only
  have hag := decodeRefs_agree h.length b.bytes
  cases hr : decodeRefs h.length b.bytes with
  | error e =>
    rw [hr] at hag
    cases hp : decodePackets b.bytes with
    | error e' => rw [hp] at hag; simpa [RefsAgree] using hag
    | ok ps => rw [hp] at hag; simp [RefsAgree] at hag
  | ok rs =>
    rw [hr] at hag
    cases hp : decodePackets b.bytes with
    | error e' => rw [hp] at hag; simp [RefsAgree] at hag
    | ok ps =>
      rw [hp] at hag
      simp only [RefsAgree] at hag
      simp only
      have hk := steps_keep_decoder ops (h ++ [⟨.decoder, b.bytes⟩]) h.length b.bytes (by simp)
      have hbuf := decodeRefs_buf h.length b.bytes rs hr
      rw [← hag, List.map_map]
      apply List.map_congr_left
      intro r hrm
      simp only [Heap.deref, Function.comp, hbuf r hrm, hk, Option.map_some]

/-- non-vacuity: one frame decoded from caller buffer 0, then the caller overwrites buffer 0 and decodes it again -/
example : let h : Heap := [⟨.caller, [4, 0, 0, 2, 7, 8]⟩]
    ([HOp.write 0 [4, 0, 0, 2, 1, 1], .decode 0].foldl Heap.step (decodeH h 0).1).deref ⟨4, 1, 4, 2⟩ = some ⟨4, [7, 8]⟩ := by
  decide

/-- … whereas a slice into the CALLER's buffer (what a decoder without the private copy would return) changes -/
example : let h : Heap := [⟨.caller, [4, 0, 0, 2, 7, 8]⟩]
    ([HOp.write 0 [4, 0, 0, 2, 1, 1]].foldl Heap.step h).deref ⟨4, 0, 4, 2⟩ = some ⟨4, [1, 1]⟩ := by decide

end Cell2v.Props.C06
