import Cell2v.Lemmas.Codec
/-!
C06 — property theorems (pomelo wire codec).  Only property statements,
non-vacuity examples and defect witnesses live here.
-/
namespace Cell2v.Props.C06
open Cell2v.Codec

/-- id round trip through the base-128 encoding with Go's mod-2^64 decode arithmetic -/
theorem varint_roundtrip (n : Nat) (h : n < 2 ^ 64) (rest : Bytes) :
    decVar (encVar n ++ rest) = (n, (encVar n).length) := by
  have := decVarAux_enc n rest 0 0 0 (by simpa using h)
  simpa [decVar] using this

/-- **Round trip**: for every message within protocol limits (id < 2^64, route ≤ 255
bytes), any payload, error flag, compression on/off, route in or out of a
consistent dictionary, and any zlib with `inflate ∘ deflate = id`:
decoding the encoding returns every field the protocol carries. -/
theorem decode_encode (E : Env) (m : Msg)
    (hid : m.id < 2 ^ 64) (hrl : m.route.length ≤ 255)
    (hdict : ∀ r c, E.routes r = some c → E.codes c = some r ∧ c < 65536)
    (hz : ∀ d, E.inflate (E.deflate d) = some d) :
    decodeMsg E (encodeMsg E m) = .ok (carried m) := by
  rw [decodeMsg_eq_PM]
  obtain ⟨typ, id, route, data, err⟩ := m
  simp only at hid hrl
  have hv := varint_roundtrip id hid
  have hpos := encVar_length_pos id
  have hrl' : route.length % 256 = route.length := Nat.mod_eq_of_lt (by omega)
  by_cases hlt : (E.deflate data).length < data.length <;>
  cases hr : E.routes route with
  | none =>
    cases typ <;> cases err <;> cases hc : E.compress <;>
      simp [decodeMsgPM, encodeMsg, carried, hr, hc, hlt, b2n, MType.code, MType.ofCode, MType.hasId, MType.routable,
            hv, hz, hrl'] <;>
      (try omega) <;> (repeat' split) <;> (try omega) <;> simp_all <;> omega
  | some c =>
    obtain ⟨hcodes, hc65⟩ := hdict route c hr
    have hb : c / 256 % 256 * 256 + c % 256 = c := by omega
    cases typ <;> cases err <;> cases hc : E.compress <;>
      simp [decodeMsgPM, encodeMsg, carried, hr, hc, hlt, b2n, MType.code, MType.ofCode, MType.hasId, MType.routable,
            hv, hz, hb, hcodes] <;>
      (try omega) <;> (repeat' split) <;> (try omega) <;> simp_all <;> omega

/-- **No crash**: on every byte string (and every dictionary / inflate behaviour)
`message.Decode` answers a value or an error; none of its index or slice
expressions is ever out of bounds. -/
theorem decode_total (E : Env) (bs : Bytes) : decodeMsg E bs ≠ .oob := by
  rw [decodeMsg_eq_PM]
  unfold decodeMsgPM
  intro h
  simp only [] at h
  repeat' (split at h)
  all_goals (first | cases h | (simp only [] at h; repeat' (split at h)) <;> cases h)

/-- D1 (repaired by the `fix:` commit): without the three bounds checks the very
same decoder crashes on 2- and 3-byte inputs, whatever the environment. -/
def E0 : Env := { routes := fun _ => none, codes := fun _ => none, deflate := id, inflate := some, compress := false }
theorem d1_witnesses :
    decodeMsgUnchecked E0 [0x00, 0x05] = .oob ∧ decodeMsgUnchecked E0 [0x01, 0x05] = .oob ∧
    decodeMsgUnchecked E0 [0x02, 0x05] = .oob ∧ decodeMsgUnchecked E0 [0x06, 0x03, 0x41] = .oob ∧
    decodeMsgUnchecked E0 [0x00, 0x80, 0x80] = .oob := by decide

/-- non-vacuity: the hypotheses of `decode_encode` are met by a concrete
environment and message, and the conclusion is the expected concrete value -/
example : decodeMsg E0 (encodeMsg E0 ⟨.request, 300, [97, 46, 98], [1, 2, 3], true⟩)
    = .ok ⟨.request, 300, [97, 46, 98], [1, 2, 3], true⟩ :=
  decode_encode E0 _ (by decide) (by decide) (by simp [E0]) (by simp [E0])

/-- **Packet stream round trip**: any sequence of valid packets (type 1..5, body
< 2^24 bytes), each framed by the encoder and concatenated, decodes to the same
sequence.  (`decLoop`'s termination proof is the "never loops" half.) -/
theorem packets_roundtrip (ps : List Packet) (hv : ∀ p ∈ ps, p.Valid) :
    (∀ p ∈ ps, frame p = .ok (frameBytes p)) ∧
    decodePackets (ps.flatMap frameBytes) = .ok ps := by
  refine ⟨fun p hp => frame_ok p (hv p hp), ?_⟩
  cases ps with
  | nil => simp [decodePackets]
  | cons p ps =>
    obtain ⟨h1, h2, h3⟩ := hv p (by simp)
    unfold decodePackets
    have hl : ¬ (((p :: ps).flatMap frameBytes).length < 4) := by
      simp only [List.flatMap_cons, List.length_append, frameBytes_length]; omega
    rw [if_neg hl]
    simp only [List.flatMap_cons]
    rw [frameBytes_take4, parseHeader_frame _ _ h1 h2 h3, frameBytes_drop4]
    exact decLoop_frames ps p (fun q hq => hv q (by simp [hq]))

/-- header round trip -/
theorem header_roundtrip (t n : Nat) (h1 : 1 ≤ t) (h2 : t ≤ 5) (hn : n < 2 ^ 24) :
    parseHeader (t :: intToBytes n) = .ok (n, t) := parseHeader_frame t n h1 h2 hn

/-- D13 (repaired by a `fix:` commit; found from the hypothesis `Packet.Valid` the
round-trip proof forced): the old `len(data) > MaxPacketSize` test *accepted* a
body of exactly 2^24 bytes although the 3-byte length field cannot carry it —
the header announced length 0. -/
theorem d13_witness (p : Packet) (h1 : 1 ≤ p.typ) (h2 : p.typ ≤ 5) (hl : p.body.length = 2 ^ 24) :
    frameUnfixed p = .ok (p.typ :: 0 :: 0 :: 0 :: p.body) := by
  unfold frameUnfixed maxPacketSize intToBytes
  have : ¬ (p.typ < 1 ∨ p.typ > 5) := by omega
  rw [if_neg this, hl]
  simp

/-- the repaired encoder accepts exactly the valid packets: everything it frames
is inside the domain of `packets_roundtrip` -/
theorem frame_ok_iff_valid (p : Packet) : (∃ bs, frame p = .ok bs) ↔ p.Valid := by
  constructor
  · intro ⟨bs, h⟩
    unfold frame maxPacketSize at h
    unfold Packet.Valid
    by_cases h1 : p.typ < 1 ∨ p.typ > 5
    · rw [if_pos h1] at h; cases h
    · rw [if_neg h1] at h
      by_cases h2 : p.body.length ≥ 2 ^ 24
      · rw [if_pos h2] at h; cases h
      · omega
  · intro h; exact ⟨_, frame_ok p h⟩

/-- **Dictionary**: whatever sequence of `SetDictionary` calls was made (each with any
map-iteration order, stopping at the first duplicate as the code does), the two
Go maps stay mutually inverse and every code is a uint16 … -/
theorem SetDictionary_bijective (trim : Bytes → Bytes) (calls : List (List (Bytes × Nat)))
    (hc : ∀ es ∈ calls, ∀ e ∈ es, e.2 < 65536) :
    let d := calls.foldl (fun d es => (setDictionary trim d es).1) []
    ∀ r c, d.routes r = some c → d.codes c = some r ∧ c < 65536 := by
  intro d r c h
  have hw : DictWF d := setDictionary_calls_wf trim calls [] dictWF_nil hc
  exact dict_routes_codes d hw r c h

/-- … so the round trip holds with route compression for EVERY reachable dictionary
(this discharges the `hdict` hypothesis of `decode_encode`). -/
theorem decode_encode_any_dictionary (trim : Bytes → Bytes) (calls : List (List (Bytes × Nat)))
    (hc : ∀ es ∈ calls, ∀ e ∈ es, e.2 < 65536)
    (deflate : Bytes → Bytes) (inflate : Bytes → Option Bytes) (compress : Bool)
    (hz : ∀ x, inflate (deflate x) = some x)
    (m : Msg) (hid : m.id < 2 ^ 64) (hrl : m.route.length ≤ 255) :
    let E := (calls.foldl (fun d es => (setDictionary trim d es).1) []).env deflate inflate compress
    decodeMsg E (encodeMsg E m) = .ok (carried m) := by
  intro E
  exact decode_encode E m hid hrl (SetDictionary_bijective trim calls hc) hz

/-- `frame` = header (a function of type and length only) followed by the body -/
theorem frame_eq_header (p : Packet) :
    frame p = (match frameHeader p.typ p.body.length with | .ok h => .ok (h ++ p.body) | .error e => .error e) := by
  unfold frame frameHeader
  split
  · rfl
  · split <;> simp

example : (⟨4, [1, 2, 3]⟩ : Packet).Valid := by simp [Packet.Valid]


/-! ### second round: trimmed dictionary keys, long-lived decoder, session layer -/

/-- `trimWs` (the model of `strings.TrimSpace` on the generator's blanks: space, \t, \n, \r)
removes exactly a blank prefix and a blank suffix, leaves no blank at either end, and is idempotent -/
theorem trim_spec (bs : Bytes) :
    (∃ pre post, bs = pre ++ trimWs bs ++ post ∧ (∀ b ∈ pre, isBlank b = true) ∧ (∀ b ∈ post, isBlank b = true)) ∧
    (∀ b, (trimWs bs).head? = some b → isBlank b = false) ∧
    (∀ b, (trimWs bs).getLast? = some b → isBlank b = false) ∧
    trimWs (trimWs bs) = trimWs bs :=
  ⟨trimWs_split bs, trimWs_head_not bs, trimWs_last_not bs, trimWs_idem bs⟩

example : trimWs [32, 9, 114, 32, 101, 13, 10] = [114, 32, 101] ∧ trimWs [32, 9, 10, 13] = [] := by decide

/-- **Dictionary keys are stored trimmed, in BOTH maps**: when a `SetDictionary` call runs to
the end, every entry `(key, code)` of the call can afterwards be encoded under `trim key`
and its code decodes to `trim key` (not to the key as written); older entries are untouched. -/
theorem SetDictionary_stores_trimmed_key (trim : Bytes → Bytes) (d d' : Dict) (es : List (Bytes × Nat))
    (h : setDictionary trim d es = (d', true)) :
    (∀ e ∈ es, d'.routes (trim e.1) = some e.2 ∧ d'.codes e.2 = some (trim e.1)) ∧
    (∀ x c, d.routes x = some c → d'.routes x = some c) ∧
    (∀ c x, d.codes c = some x → d'.codes c = some x) := by
  obtain ⟨p1, p2, p3⟩ := setDictionary_stores trim es d d' h
  exact ⟨p3, p1, p2⟩

/-- non-vacuity, with the modelled trim: key `" a "` is stored as `"a"` in both directions -/
example : (setDictionary trimWs [] [([32, 97, 32], 7)]).2 = true ∧
    (setDictionary trimWs [] [([32, 97, 32], 7)]).1.codes 7 = some [97] ∧
    (setDictionary trimWs [] [([32, 97, 32], 7)]).1.routes [97] = some 7 := by decide

/-- **Map iteration order does not matter for a duplicate-free call**: if `SetDictionary`
runs to the end for one iteration order of the Go map, it does so for every other order
and both maps answer every lookup identically.  (A call WITH a duplicate stops at the first
one it meets; which entries were added before is order dependent — the harness only issues
multi-entry calls without duplicates.) -/
theorem SetDictionary_order_independent (trim : Bytes → Bytes) (d : Dict) (es es' : List (Bytes × Nat))
    (hp : es.Perm es') (hok : (setDictionary trim d es).2 = true) :
    (setDictionary trim d es').2 = true ∧
    (∀ r, (setDictionary trim d es).1.routes r = (setDictionary trim d es').1.routes r) ∧
    (∀ c, (setDictionary trim d es).1.codes c = (setDictionary trim d es').1.codes c) := by
  have hpair : setDictionary trim d es = ((setDictionary trim d es).1, true) := by
    rw [← hok]
  have hf := setDictionary_true_fresh trim es d _ hpair
  have hpX : (trimmed trim es).Perm (trimmed trim es') := hp.map _
  have hf' := freshFor_perm d _ _ hpX hf
  rw [setDictionary_fresh trim es d hf, setDictionary_fresh trim es' d hf']
  obtain ⟨l1, l2⟩ := lookups_perm _ _ hpX hf.1 hf.2.1
  refine ⟨rfl, ?_, ?_⟩
  · intro r; simp only [routes_append, l1]
  · intro c; simp only [codes_append, l2]

example : (setDictionary trimWs [] [([32, 97], 1), ([98, 9], 2)]).2 = true := by decide

/-- **Results are values** (aliasing-freedom clause for the one long-lived packet decoder of a
component): what a `Decode` call returned is still exactly that after up to `winCap - 1`
further `Decode` calls on arbitrary inputs.  In a pure model this holds by construction;
it is stated because it is the clause the differential `pdec2`/`pdecs`/`pchk` stream ties to
the Go code, where a result CAN be changed behind the caller's back (slices into a reused buffer). -/
theorem earlier_results_unchanged (w : List (Except PErr (List Packet))) (a : Bytes) (later : List Bytes)
    (hl : later.length < winCap) :
    (later.foldl (fun w d => (decodeShared w d).1) (decodeShared w a).1)[later.length]? = some (decodePackets a) := by
  have e : later.foldl (fun w d => (decodeShared w d).1) (decodeShared w a).1
      = (later.map decodePackets).foldl winPush (winPush w (decodePackets a)) := by
    rw [List.foldl_map]; rfl
  rw [e]
  have := window_stable (later.map decodePackets) (winPush w (decodePackets a)) (decodePackets a) 0
    (winPush_head _ _) (by simpa using hl)
  simpa using this

/-- **No client input brings the server down**: whatever bytes arrive in a Data packet of a
working session (any dictionary, any inflate behaviour), the session either hands a message
to its owner or is closed — the reader goroutine (which has no `recover`) never panics. -/
theorem session_never_crashes (E : Env) (body : Bytes) : sessionData E body ≠ .crash := by
  unfold sessionData
  have := decode_total E body
  cases h : decodeMsg E body with
  | ok m => simp
  | err e => simp
  | oob => exact absurd h this

/-- … and closes exactly on a decode error -/
theorem session_closed_iff (E : Env) (body : Bytes) :
    sessionData E body = .closed ↔ ∃ e, decodeMsg E body = .err e := by
  unfold sessionData
  cases h : decodeMsg E body with
  | ok m => simp
  | err e => simp
  | oob => simp

/-- a well-formed message sent by a client is delivered with the fields the owner is given
(`ClientReqId = uint32(ID)`, route, payload) -/
theorem session_delivers_encoded (E : Env) (m : Msg)
    (hid : m.id < 2 ^ 64) (hrl : m.route.length ≤ 255)
    (hdict : ∀ r c, E.routes r = some c → E.codes c = some r ∧ c < 65536)
    (hz : ∀ d, E.inflate (E.deflate d) = some d) :
    sessionData E (encodeMsg E m) = .delivered ((carried m).id % 2 ^ 32) (carried m).route m.data := by
  unfold sessionData
  rw [decode_encode E m hid hrl hdict hz]
  rfl

/-- the m3 input: route-compression bit set, code not in the dictionary ⇒ closed -/
example : sessionData E0 [0x03, 0xFF, 0xFF] = .closed := by decide
example : sessionData E0 (encodeMsg E0 ⟨.request, 2 ^ 32 + 5, [97], [1], false⟩) = .delivered 5 [97] [1] :=
  session_delivers_encoded E0 _ (by decide) (by decide) (by simp [E0]) (by simp [E0])


/-! ### third round: stream reassembly in the acceptor, large compressed payloads -/

/-- **Fragmentation independence**: however the network cuts the client's byte stream into
fragments (single bytes, inside a header, inside a body, several packets in one segment), the
sequence of framed packets `tcpPlayerConn.GetNextMessage` hands to the session — and how the
stream ends — is that of the unfragmented byte string: it is a function of the concatenation only. -/
theorem stream_fragmentation_independent (fuel : Nat) (fs : List Bytes) :
    readStreamF fuel fs = readStream fuel fs.flatten :=
  readStreamF_flatten fuel fs

/-- the bound on the number of `GetNextMessage` calls the model driver uses is never reached -/
theorem stream_fuel_enough (fuel : Nat) (s : Bytes) (h : s.length < fuel) : (readStream fuel s).2 ≠ .fuel :=
  readStream_fuel_enough fuel s h

/-- **Stream round trip under any fragmentation**: valid packets framed by the encoder and sent
in ANY fragmentation are handed over one frame per call, each frame decodes (packet decoder) to
exactly its packet, and the stream ends cleanly (`closed`, no error). -/
theorem fragmented_stream_roundtrip (ps : List Packet) (hv : ∀ p ∈ ps, p.Valid)
    (fs : List Bytes) (hfs : fs.flatten = ps.flatMap frameBytes) (fuel : Nat) (hf : ps.length < fuel) :
    readStreamF fuel fs = (ps.map frameBytes, .closed) ∧
    ∀ p ∈ ps, decodePackets (frameBytes p) = .ok [p] := by
  constructor
  · rw [readStreamF_flatten, hfs]
    exact readStream_frames ps fuel hv hf
  · intro p hp
    have := (packets_roundtrip [p] (by intro q hq; simp only [List.mem_singleton] at hq; rw [hq]; exact hv p hp)).2
    simpa using this

/-- non-vacuity: a 3-byte-body packet delivered one byte at a time -/
example : readStreamF 2 [[4], [0], [0], [3], [7], [8], [9]] = ([[4, 0, 0, 3, 7, 8, 9]], .closed) := by decide
/-- a body cut short is an error, not a message -/
example : readStreamF 2 [[4, 0], [0, 3, 7], [8]] = ([], .err) := by decide

end Cell2v.Props.C06
