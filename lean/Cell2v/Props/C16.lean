import Cell2v.Lemmas.Channel
/-!
C16 — a channel broadcast reaches exactly its current members, per front-end.

Only property theorems, non-vacuity examples and witnesses live here.  Every
theorem quantifies over **all** histories `ops : List Op` (any number of channels,
fronts, ids, duplicates, removals at any position, session adds/removes and pushes
interleaved), over every client serializer `ser` and every local front name.
`run ser (init lf) ops` is the state of the model of `channel.Service` +
`ClientSessions` after the history; `members / chanExists / joinSeq / tally` are
plain folds over the history (the reading of the property statement), defined
without reference to the model's state.
-/
namespace Cell2v.Props.C16
open Cell2v.Channel

/-- what `broadcast` on channel `c` hands to the push layer after the history `ops` -/
def bcastObs (ser : String → List Nat) (lf : String) (ops : List Op) (c route msg : String) : Obs :=
  (step ser (run ser (init lf) ops) (.bcast c route msg)).2

/-- **Main theorem.**  After any history, a broadcast on a channel that does not
exist addresses nobody; on an existing channel, the push tuples addressed to any
front `f` are: none if no join addressed (c, f) since the channel was (re)created,
otherwise exactly one tuple whose id list is the fold of the history — joins
appended, each leave erasing the first occurrence — possibly the empty list;
route and message are the broadcast's. -/
theorem broadcast_lists_current_members (ser : String → List Nat) (lf : String) (ops : List Op)
    (c route msg : String) :
    (chanExists ops c = false → bcastObs ser lf ops c route msg = .nil) ∧
    (chanExists ops c = true → ∃ ps dl, bcastObs ser lf ops c route msg = .pushes ps dl ∧
      ∀ f, ps.filter (fun p => decide (p.front = f)) =
        match members ops c f with
        | none => []
        | some l => [⟨f, l, route, msg⟩]) := by
  have hex := reach_exists ser lf ops c
  have hwf := reach_wf ser lf ops
  unfold bcastObs
  cases hg : aget (run ser (init lf) ops).svc.chans c with
  | none =>
    rw [hg] at hex
    refine ⟨fun _ => (by simp [step, Svc.getChannel, hg]), fun h => ?_⟩
    rw [← hex] at h; cases h
  | some ch =>
    rw [hg] at hex
    refine ⟨fun h => (by rw [← hex] at h; cases h), fun _ => ?_⟩
    refine ⟨_, _, by simp only [step, Svc.getChannel, hg]; rfl, fun f => ?_⟩
    have hv := reach_view ser lf ops c f
    unfold view at hv
    rw [hg] at hv
    simp only [Option.bind] at hv
    obtain ⟨k', hk'⟩ := mem_of_aget _ _ _ hg
    have hnd := hwf.groups _ hk'
    have hf := filter_key ch.groups f hnd
    unfold Chan.pushMessage
    rw [List.filter_map]
    have : ((fun p : Push => decide (p.front = f)) ∘ fun e : String × List Nat => (⟨e.1, e.2, route, msg⟩ : Push))
        = fun e => decide (e.1 = f) := rfl
    rw [this, hf, ← hv]
    cases aget ch.groups f <;> rfl

/-- `FrontGroup.Remove` — first-position, last-position and middle slice cases, and
"not found" — is "erase the first occurrence" on every list and id -/
theorem remove_is_erase_first (l : List Nat) (x : Nat) : removeGo l x = l.erase x := removeGo_eq_erase l x

/-- the id list of the only tuple for front `f` (empty if there is none) -/
def listed (ops : List Op) (c f : String) : List Nat := (members ops c f).getD []

/-- **Count.** The number of times an id is listed = its joins − its successful leaves
(a leave is successful when the id is currently listed), counted since the channel
was last (re)created: an id added twice is listed twice and needs two removals. -/
theorem count_eq (ops : List Op) (c f : String) (x : Nat) :
    (listed ops c f).count x = (tally ops c f x).adds - (tally ops c f x).left ∧
    (tally ops c f x).left ≤ (tally ops c f x).adds :=
  tally_fold c f x ops none ⟨0, 0⟩ (by simp)

/-- ids that were never added, or removed as often as added, are not addressed -/
theorem removed_or_never_added_not_listed (ops : List Op) (c f : String) (x : Nat)
    (h : (tally ops c f x).adds = (tally ops c f x).left) : x ∉ listed ops c f := by
  have := (count_eq ops c f x).1
  rw [h, Nat.sub_self] at this
  exact List.count_eq_zero.mp this

/-- **Join order.** The listed ids are a subsequence of the ids joined to (c, f)
since the channel was last (re)created, in join order. -/
theorem order_is_join_order (ops : List Op) (c f : String) :
    (listed ops c f).Sublist (joinSeq ops c f) :=
  joinSeq_fold c f ops none [] (by simp)

/-- **At most once per front.** The fronts of the tuples of one broadcast are pairwise
distinct, and a front is addressed exactly when a join addressed (c, f) since the
channel was (re)created — also when all of its members have left again. -/
theorem at_most_once_per_front (ser : String → List Nat) (lf : String) (ops : List Op)
    (c route msg : String) (ps : List Push) (dl : List Delivery)
    (h : bcastObs ser lf ops c route msg = .pushes ps dl) :
    (ps.map (·.front)).Nodup ∧
    ∀ f, f ∈ ps.map (·.front) ↔ ops.foldl (stepHasGroup c f) false = true := by
  have hwf := reach_wf ser lf ops
  unfold bcastObs at h
  cases hg : aget (run ser (init lf) ops).svc.chans c with
  | none => simp [step, Svc.getChannel, hg] at h
  | some ch =>
    simp only [step, Svc.getChannel, hg] at h
    injection h with h1 h2
    obtain ⟨k', hk'⟩ := mem_of_aget _ _ _ hg
    have hnd := hwf.groups _ hk'
    have hfr : ps.map (·.front) = akeys ch.groups := by
      rw [← h1]; simp [Chan.pushMessage, akeys, List.map_map, Function.comp_def]
    refine ⟨by rw [hfr]; exact hnd, fun f => ?_⟩
    rw [hfr]
    have hv := reach_view ser lf ops c f
    unfold view at hv
    rw [hg] at hv
    simp only [Option.bind] at hv
    have hh := hasGroup_fold c f ops none false rfl
    unfold members at hv
    rw [← hh, ← hv]
    constructor
    · intro hm
      obtain ⟨v, hv'⟩ := aget_some_of_mem_keys _ _ hm
      rw [hv']; rfl
    · intro hs
      cases hq : aget ch.groups f with
      | none => rw [hq] at hs; cases hs
      | some l => exact mem_keys_of_aget _ _ _ hq

/-- **Isolation, per step and from any state.** An operation that does not address
the pair (c, f) — a join/leave on another channel or another front, a delete of
another channel, any create/fetch/broadcast, any session operation — leaves the
member list of (c, f) untouched. -/
theorem isolation (ser : String → List Nat) (s : St) (op : Op) (c f : String) (h : ¬ targets c f op) :
    view (step ser s op).1.svc c f = view s.svc c f := by
  rw [view_step]
  cases op <;> simp_all [stepView, targets]

/-- **Isolation, over histories.** Inserting anywhere into any history an operation
that does not address (c, f) leaves what every later broadcast lists for (c, f) unchanged. -/
theorem isolation_history (ops₁ ops₂ : List Op) (op : Op) (c f : String) (h : ¬ targets c f op) :
    members (ops₁ ++ op :: ops₂) c f = members (ops₁ ++ ops₂) c f := by
  have hstep : ∀ v, stepView c f v op = v := by
    intro v; cases op <;> simp_all [stepView, targets]
  simp [members, List.foldl_append, hstep]

/-- **Isolation, leaves of absent ids.** Leaving with an id that is not currently
listed for that channel and front (never added, already removed, no such group, no
such channel) changes nothing at all. -/
theorem leave_absent_is_noop (ser : String → List Nat) (s : St) (c f : String) (x : Nat)
    (h : x ∉ (view s.svc c f).getD []) : (step ser s (.leave c f x)).1 = s := by
  obtain ⟨lf, svc, fr⟩ := s
  simp only [step, Svc.leaveFromChannel, Svc.getChannel]
  unfold view at h
  cases hg : aget svc.chans c with
  | none => rfl
  | some ch =>
    simp only [hg, Option.bind] at h
    have : ch.leave f x = ch := by
      unfold Chan.leave
      cases hq : aget ch.groups f with
      | none => rfl
      | some g =>
        simp only [hq, Option.getD_some] at h
        simp only
        rw [removeGo_eq_erase, List.erase_of_not_mem h, aset_self _ _ _ hq]
    simp only [this, aset_self _ _ _ hg]

/-- broadcasting and fetching change no state (so they cannot disturb any member list) -/
theorem observers_change_nothing (ser : String → List Nat) (s : St) (c r m : String) (ids : List Nat) (d : List Nat) :
    (step ser s (.bcast c r m)).1 = s ∧ (step ser s (.getch c)).1 = s ∧ (step ser s (.spush ids r d)).1 = s :=
  ⟨rfl, rfl, rfl⟩

/-- **The service is a map** from names to channels: add returns the existing
channel or stores a fresh empty one; get finds exactly what was stored; delete
removes just that name; delete followed by add yields a new, empty channel whose
broadcast addresses nobody. -/
theorem service_is_a_map (s : Svc) (n n' : String) :
    -- add then get
    (s.addChannel n).1.getChannel n = some (s.addChannel n).2 ∧
    -- add on an existing name returns that channel and changes nothing
    (∀ c, s.getChannel n = some c → s.addChannel n = (s, c)) ∧
    -- add on a missing name creates an empty channel with a fresh identity
    (s.getChannel n = none → (s.addChannel n).2 = ⟨s.created + 1, []⟩) ∧
    -- other names are not affected by add / delete
    (n ≠ n' → (s.addChannel n).1.getChannel n' = s.getChannel n') ∧
    (n ≠ n' → (s.deleteChannel n).getChannel n' = s.getChannel n') ∧
    -- delete then get
    (s.deleteChannel n).getChannel n = none ∧
    -- delete then add: a new empty channel
    ((s.deleteChannel n).addChannel n).2 = ⟨s.created + 1, []⟩ ∧
    (∀ r m, ((s.deleteChannel n).addChannel n).2.pushMessage r m = []) := by
  have hdel : aget (adel s.chans n) n = none := aget_adel_same _ _
  refine ⟨addChannel_get s n, ?_, ?_, ?_, ?_, hdel, ?_, ?_⟩
  · intro c hc; simp only [Svc.getChannel] at hc; simp [Svc.addChannel, hc]
  · intro hc; simp only [Svc.getChannel] at hc; simp [Svc.addChannel, hc]
  · intro hne
    unfold Svc.addChannel Svc.getChannel
    cases hg : aget s.chans n <;> simp [aget_aset_other _ _ _ _ hne]
  · intro hne; exact aget_adel_other _ _ _ hne
  · simp [Svc.addChannel, Svc.deleteChannel, hdel]
  · intro r m; simp [Svc.addChannel, Svc.deleteChannel, hdel, Chan.pushMessage]

/-- channel identities: in every reachable state two different names hold different
channel objects, and a newly created channel is different from all stored ones -/
theorem channel_identities_fresh (ser : String → List Nat) (lf : String) (ops : List Op) (n : String) (c : Chan)
    (h : (run ser (init lf) ops).svc.getChannel n = some c) :
    c.uid ≤ (run ser (init lf) ops).svc.created ∧ c.uid ≠ (run ser (init lf) ops).svc.created + 1 := by
  obtain ⟨k', hk'⟩ := mem_of_aget _ _ _ h
  have := (reach_wf ser lf ops).uids _ hk'
  exact ⟨this, by simp only at this; omega⟩

/-- **Front-end fan-out** (`ClientSessions.PushMsg`, any live set, any id list):
every live id receives the push exactly as often as it is listed; ids that are not
live receive nothing; deliveries follow list order; each carries the push's route
and payload; and unknown ids do not affect the others — removing them from the
list gives the same deliveries. -/
theorem front_fanout (live ids : List Nat) (route : String) (data : List Nat) :
    (∀ x ∈ live, ((pushMsg live ids route data).map (·.id)).count x = ids.count x) ∧
    (∀ x, x ∉ live → ((pushMsg live ids route data).map (·.id)).count x = 0) ∧
    ((pushMsg live ids route data).map (·.id)).Sublist ids ∧
    (∀ d ∈ pushMsg live ids route data, d.route = route ∧ d.data = data) ∧
    pushMsg live ids route data = pushMsg live (ids.filter (fun i => decide (i ∈ live))) route data := by
  rw [pushMsg_ids]
  refine ⟨?_, ?_, List.filter_sublist, ?_, ?_⟩
  · intro x hx; exact List.count_filter (by simpa using hx)
  · intro x hx
    rw [List.count_eq_zero]
    intro hm
    simp [List.mem_filter] at hm
    exact hx hm.2
  · intro d hd
    simp [pushMsg] at hd
    obtain ⟨i, _, rfl⟩ := hd
    exact ⟨rfl, rfl⟩
  · simp [pushMsg, List.filter_filter]

/-- an unknown id anywhere in the list is skipped without affecting the others -/
theorem unknown_id_skipped (live a b : List Nat) (u : Nat) (route : String) (data : List Nat) (hu : u ∉ live) :
    pushMsg live (a ++ u :: b) route data = pushMsg live (a ++ b) route data := by
  simp [pushMsg, List.filter_append, hu]

/-- **A listed connection whose `Push` fails.** A connection that is still registered but
whose socket has closed (`Push` returns an error) receives nothing, and — wherever it
stands in the id list, first, middle or last — every other listed connection that is
registered and open still receives the push exactly as often as it is listed, in list
order; unregistered ids receive nothing. -/
theorem closed_connection_does_not_affect_others (fr : Front) (ids : List Nat) (route : String) (data : List Nat) :
    (∀ x ∈ fr.live, x ∉ fr.closed → ((pushMsg fr.reachable ids route data).map (·.id)).count x = ids.count x) ∧
    (∀ x ∈ fr.closed, ((pushMsg fr.reachable ids route data).map (·.id)).count x = 0) ∧
    (∀ x, x ∉ fr.live → ((pushMsg fr.reachable ids route data).map (·.id)).count x = 0) ∧
    ((pushMsg fr.reachable ids route data).map (·.id)).Sublist ids ∧
    (∀ a b u, u ∈ fr.closed →
      pushMsg fr.reachable (a ++ u :: b) route data = pushMsg fr.reachable (a ++ b) route data) := by
  have hmem : ∀ x, x ∈ fr.reachable ↔ x ∈ fr.live ∧ x ∉ fr.closed := by
    intro x; simp [Front.reachable, List.mem_filter]
  obtain ⟨h1, h2, h3, _, _⟩ := front_fanout fr.reachable ids route data
  refine ⟨fun x hx hc => h1 x ((hmem x).2 ⟨hx, hc⟩), fun x hx => h2 x (fun hh => ((hmem x).1 hh).2 hx),
    fun x hx => h2 x (fun hh => hx ((hmem x).1 hh).1), h3, ?_⟩
  intro a b u hu
  exact unknown_id_skipped fr.reachable a b u route data (fun hh => ((hmem u).1 hh).2 hu)

/-- **A push issued from inside `OnSessionAdd`.** `AddSession` registers the connection
before it calls the handler, so for every front state and every id list the new
connection receives such a push exactly as often as it is listed (it has its id and
is live), and the connections that were live before are served as usual. -/
theorem push_inside_session_add_reaches_new_connection (fr : Front) (ids : List Nat) (route : String) (data : List Nat) :
    ((pushMsg fr.addSession.1.live ids route data).map (·.id)).count fr.addSession.2 = ids.count fr.addSession.2 ∧
    ∀ x ∈ fr.live, ((pushMsg fr.addSession.1.live ids route data).map (·.id)).count x = ids.count x := by
  refine ⟨(front_fanout _ ids route data).1 _ (addSession_mem fr), fun x hx => ?_⟩
  apply (front_fanout _ ids route data).1
  unfold Front.addSession
  by_cases h : (allocId fr.nextId).1 ∈ fr.live <;> simp [h, hx]

/-- **A push issued from inside `OnSessionRemove`.** `RemoveSession` deletes the
connection before it calls the handler, so after any history the removed connection
receives nothing from such a push, while every other live connection still
receives it as often as it is listed. -/
theorem push_inside_session_remove_skips_removed (ser : String → List Nat) (lf : String) (ops : List Op)
    (id : Nat) (ids : List Nat) (route : String) (data : List Nat) :
    let fr := (run ser (init lf) ops).front
    ((pushMsg (fr.removeSession id).1.live ids route data).map (·.id)).count id = 0 ∧
    ∀ x ∈ fr.live, x ≠ id → ((pushMsg (fr.removeSession id).1.live ids route data).map (·.id)).count x = ids.count x := by
  intro fr
  have hnd : fr.live.Nodup := live_nodup_run ser (init lf) ops (by simp [init])
  have hnot : id ∉ (fr.removeSession id).1.live := by
    unfold Front.removeSession
    by_cases hm : id ∈ fr.live
    · simp only [hm, if_true]; exact fun hh => (List.Nodup.mem_erase_iff hnd).1 hh |>.1 rfl
    · simp [hm]
  refine ⟨(front_fanout _ ids route data).2.1 id hnot, fun x hx hne => ?_⟩
  apply (front_fanout _ ids route data).1
  unfold Front.removeSession
  by_cases hm : id ∈ fr.live
  · simp only [hm, if_true]; exact (List.mem_erase_of_ne hne).2 hx
  · simp [hm, hx]

/-- **End to end for the issuing front-end.** After any history, the connections of
the front that owns the channel service receive, in place, exactly the listed ids
of (c, local front) that are live sessions, once per occurrence, in list order,
with the broadcast's route and the serialized message; fronts other than the local
one cause no in-place delivery. -/
theorem bcast_local_delivery (ser : String → List Nat) (lf : String) (ops : List Op)
    (c route msg : String) (ps : List Push) (dl : List Delivery)
    (h : bcastObs ser lf ops c route msg = .pushes ps dl) :
    dl = pushMsg (run ser (init lf) ops).front.reachable (listed ops c lf) route (ser msg) := by
  obtain ⟨_, hsome⟩ := broadcast_lists_current_members ser lf ops c route msg
  have hex : chanExists ops c = true := by
    cases hce : chanExists ops c with
    | true => rfl
    | false =>
      have := (broadcast_lists_current_members ser lf ops c route msg).1 hce
      rw [this] at h; cases h
  obtain ⟨ps', dl', hobs, hfil⟩ := hsome hex
  rw [hobs] at h
  injection h with hps hdl
  subst hps; subst hdl
  -- dl' is computed from ps' by `localDeliveries`
  have hdl : dl' = localDeliveries ser (run ser (init lf) ops) ps' := by
    unfold bcastObs at hobs
    simp only [step] at hobs
    cases hg : (run ser (init lf) ops).svc.getChannel c with
    | none => rw [hg] at hobs; cases hobs
    | some ch =>
      rw [hg] at hobs
      injection hobs with h1 h2
      rw [← h2, ← h1]
  have hlf := localFront_run ser (init lf) ops
  have hlf' : (run ser (init lf) ops).localFront = lf := hlf
  rw [hdl]
  unfold localDeliveries
  rw [hlf']
  -- only the tuples addressed to `lf` contribute
  have key : ∀ (l : List Push) (live : List Nat),
      (l.flatMap fun p => if p.front = lf then pushMsg live p.ids p.route (ser p.msg) else [])
        = (l.filter (fun p => decide (p.front = lf))).flatMap fun p => pushMsg live p.ids p.route (ser p.msg) := by
    intro l live
    induction l with
    | nil => rfl
    | cons p l ih =>
      by_cases hp : p.front = lf <;> simp [List.flatMap_cons, hp, ih]
  rw [key, hfil lf]
  unfold listed
  cases members ops c lf with
  | none => simp [pushMsg]
  | some l => simp

/-- **Exactly the addressed front-end.**  After any history, of the tuples a broadcast
hands to `impls.PushMessageByIds` on the service `lf`:
* nothing is sent onward for `lf` itself nor for a service the directory does not know;
* every other known front-end `f` is sent exactly one `sys.pushmsg` if it has a group in
  the channel — carrying exactly that group's id list, the broadcast's route and message —
  and none otherwise;
* the connections of any other front-end service `b` receive exactly the listed ids of
  (c, b) that are live **on b** (whatever the live sets of other front-ends, which may use
  the same connection numbers), and nothing if `b` is the issuer or unknown. -/
theorem push_reaches_only_the_addressed_front (ser : String → List Nat) (lf : String) (ops : List Op)
    (c route msg : String) (ps : List Push) (dl : List Delivery) (dir : List String)
    (h : bcastObs ser lf ops c route msg = .pushes ps dl) :
    (∀ f, (f = lf ∨ f ∉ dir) → (forwarded lf dir ps).filter (fun p => decide (p.front = f)) = []) ∧
    (∀ f, f ≠ lf → f ∈ dir → (forwarded lf dir ps).filter (fun p => decide (p.front = f)) =
        match members ops c f with
        | none => []
        | some l => [⟨f, l, route, msg⟩]) ∧
    (∀ b blive, remoteDeliveries ser b blive (forwarded lf dir ps) =
        if b ≠ lf ∧ b ∈ dir then pushMsg blive (listed ops c b) route (ser msg) else []) := by
  obtain ⟨hnil, hsome⟩ := broadcast_lists_current_members ser lf ops c route msg
  have hex : chanExists ops c = true := by
    cases hce : chanExists ops c with
    | true => rfl
    | false => rw [hnil hce] at h; cases h
  obtain ⟨ps', dl', hobs, hfil⟩ := hsome hex
  rw [hobs] at h
  injection h with hps hdl
  subst hps
  have hff : ∀ f, (forwarded lf dir ps').filter (fun p => decide (p.front = f))
      = if (decide (f ≠ lf) && decide (f ∈ dir)) then ps'.filter (fun p => decide (p.front = f)) else [] :=
    fun f => filter_front_of_filter ps' f (fun x => decide (x ≠ lf) && decide (x ∈ dir))
  refine ⟨?_, ?_, ?_⟩
  · intro f hf
    rw [hff]
    rcases hf with hf | hf <;> simp [hf]
  · intro f h1 h2
    rw [hff, hfil f]
    simp [h1, h2]
  · intro b blive
    unfold remoteDeliveries
    rw [flatMap_front, hff, hfil b]
    unfold listed
    by_cases hb : b ≠ lf ∧ b ∈ dir
    · obtain ⟨hb1, hb2⟩ := hb
      cases members ops c b <;> simp [hb1, hb2, pushMsg]
    · have : (decide (b ≠ lf) && decide (b ∈ dir)) = false := by
        by_cases h1 : b = lf
        · simp [h1]
        · have h2 : b ∉ dir := fun hh => hb ⟨h1, hh⟩
          simp [h2]
      rw [this]; simp [hb]

/-- session ids handed out by the front-end are fresh as long as the 32-bit counter
has not wrapped: the new id is not among the live ones -/
theorem session_id_fresh (fr : Front) (h : fr.nextId + 1 < 2 ^ 32) (hb : ∀ x ∈ fr.live, x ≤ fr.nextId) :
    fr.addSession.2 = fr.nextId + 1 ∧ fr.addSession.2 ∉ fr.live ∧
    fr.addSession.1.live = fr.live ++ [fr.nextId + 1] ∧
    (∀ x ∈ fr.addSession.1.live, x ≤ fr.addSession.1.nextId) := by
  have hmod : (fr.nextId + 1) % 2 ^ 32 = fr.nextId + 1 := Nat.mod_eq_of_lt h
  have hnz : ¬ (fr.nextId + 1 = 0) := by omega
  have hnm : fr.nextId + 1 ∉ fr.live := fun hm => by have := hb _ hm; omega
  have e : fr.addSession = (⟨fr.live ++ [fr.nextId + 1], fr.nextId + 1, fr.closed⟩, fr.nextId + 1) := by
    unfold Front.addSession allocId
    simp only [hmod, if_neg hnz, if_neg hnm]
  rw [e]
  refine ⟨rfl, hnm, rfl, ?_⟩
  intro x hx
  simp at hx
  rcases hx with hx | hx
  · have := hb x hx; simp only; omega
  · simp only; omega

/-! ### non-vacuity: concrete histories meeting the hypotheses, with their concrete values -/

def demo : List Op :=
  [.join "a" "f1" 2, .join "a" "f1" 3, .join "a" "f2" 7, .join "a" "f1" 2, .join "b" "f1" 9,
   .sadd, .sadd, .leave "a" "f1" 2, .leave "a" "f2" 7, .leave "a" "f1" 5]

/-- channel exists; the first of the two `2`s went, `3, 2` stay in join order; the
group of `f2` became empty and is still addressed with an empty list; channel `b`
and the absent id `5` play no role; the local front `f1` delivers to the live
sessions 2 and 3 -/
example : bcastObs (fun s => s.toList.map Char.toNat) "f1" demo "a" "r" "m"
    = .pushes [⟨"f1", [3, 2], "r", "m"⟩, ⟨"f2", [], "r", "m"⟩] [⟨3, "r", [109]⟩, ⟨2, "r", [109]⟩] := by decide

example : chanExists demo "a" = true ∧ chanExists demo "zz" = false ∧
    members demo "a" "f1" = some [3, 2] ∧ members demo "a" "f2" = some [] ∧ members demo "a" "f3" = none := by decide

example : tally demo "a" "f1" 2 = ⟨2, 1⟩ ∧ joinSeq demo "a" "f1" = [2, 3, 2] ∧
    (tally demo "a" "f2" 7).adds = (tally demo "a" "f2" 7).left ∧ (tally demo "a" "f1" 5).adds = (tally demo "a" "f1" 5).left := by decide

/-- the demo broadcast seen from the directory [f1, f2, f3]: one request towards f2 (whose
group became empty), none towards f1 (local) or f3 (no group); a front-end f2 hosting the
same connection numbers 2 and 3 receives nothing of f1's list -/
example : forwarded "f1" ["f1", "f2", "f3"] [⟨"f1", [3, 2], "r", "m"⟩, ⟨"f2", [], "r", "m"⟩] = [⟨"f2", [], "r", "m"⟩] ∧
    remoteDeliveries (fun _ => []) "f2" [2, 3] [⟨"f2", [], "r", "m"⟩] = [] ∧
    remoteDeliveries (fun _ => []) "f2" [2, 3] (forwarded "f1" ["f1", "f2"] [⟨"f1", [3, 2], "r", "m"⟩, ⟨"f2", [3, 9], "r", "m"⟩])
      = [⟨3, "r", []⟩] := by decide

/-- removals at the first, middle and last position and of the only element -/
example : removeGo [1, 2, 3, 4] 1 = [2, 3, 4] ∧ removeGo [1, 2, 3, 4] 3 = [1, 2, 4] ∧
    removeGo [1, 2, 3, 4] 4 = [1, 2, 3] ∧ removeGo [7] 7 = [] ∧ removeGo [1, 2, 1] 1 = [2, 1] ∧
    removeGo [1, 2] 9 = [1, 2] := by decide

/-- delete then re-create: an empty channel with a new identity -/
example : bcastObs (fun _ => []) "f1" [.join "a" "f1" 2, .delch "a", .addch "a"] "a" "r" "m" = .pushes [] [] ∧
    (step (fun _ => []) (run (fun _ => []) (init "f1") [.join "a" "f1" 2, .delch "a"]) (.addch "a")).2 = .chan 2 := by
  decide

/-- `isolation` and `leave_absent_is_noop` have satisfiable hypotheses -/
example : ¬ targets "a" "f1" (.join "a" "f2" 1) ∧ ¬ targets "a" "f1" (.delch "b") ∧ targets "a" "f1" (.delch "a") := by
  simp [targets]

example : (5 : Nat) ∉ (view (run (fun _ => []) (init "f1") demo).svc "a" "f1").getD [] := by decide

/-- `session_id_fresh` hypotheses hold in the initial front state -/
example : (init "f1").front.nextId + 1 < 2 ^ 32 ∧ ∀ x ∈ (init "f1").front.live, x ≤ (init "f1").front.nextId := by
  simp [init]

/-- a push from inside OnSessionAdd listing the new connection (id 2) twice and a dead id;
a push from inside OnSessionRemove of 2 listing 2 and 3 -/
example : pushMsg (init "f1").front.addSession.1.live [2, 9, 2] "r" [] = [⟨2, "r", []⟩, ⟨2, "r", []⟩] ∧
    pushMsg ((run (fun _ => []) (init "f1") [.sadd, .sadd]).front.removeSession 2).1.live [2, 3] "r" [] = [⟨3, "r", []⟩] := by
  decide

/-- a closed-but-registered connection (3) listed first, in the middle and last -/
example : pushMsg (⟨[2, 3, 4], 4, [3]⟩ : Front).reachable [3, 2, 3, 4, 3] "r" [] = [⟨2, "r", []⟩, ⟨4, "r", []⟩] := by decide

/-- fan-out with a dead id in the middle and a duplicate -/
example : pushMsg [2, 3] [2, 9, 3, 2] "r" [1] = [⟨2, "r", [1]⟩, ⟨3, "r", [1]⟩, ⟨2, "r", [1]⟩] := by decide

/-! ### what a plausible wrong `Remove` would break (witnesses used as seeded mutations) -/

/-- swap-with-last removal keeps the multiset but not the join order -/
def removeSwap (l : List Nat) (x : Nat) : List Nat :=
  match findIndex l x with
  | none => l
  | some i => (l.set i (l.getLastD 0)).dropLast

theorem swap_remove_breaks_join_order :
    removeSwap [1, 2, 3] 1 = [3, 2] ∧ ¬ (removeSwap [1, 2, 3] 1).Sublist [1, 2, 3] := by decide

end Cell2v.Props.C16
