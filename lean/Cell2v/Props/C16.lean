import Cell2v.Lemmas.Channel
import Cell2v.Lemmas.ChannelHandle
/-!
C16 — a channel broadcast reaches exactly its current members, per front-end.

Only property theorems, non-vacuity examples and witnesses live here.  Every
theorem quantifies over **all** histories `ops : List Op` (any number of channels,
fronts, ids, duplicates, removals at any position, session adds/removes and pushes
interleaved), over every client serializer `ser` and every local front name.
`run ser (init lf) ops` is the state of the model of `channel.Service` +
`ClientSessions` after the history; `members / chanExists / joinSeq / tally` are
plain folds over the history (the reading of the property statement), defined
without reference to the model's state.
-/
namespace Cell2v.Props.C16
open Cell2v.Channel

/-- what `broadcast` on channel `c` hands to the push layer after the history `ops` -/
def bcastObs (ser : String → List Nat) (lf : String) (ops : List Op) (c route msg : String) : Obs :=
  (step ser (run ser (init lf) ops) (.bcast c route msg)).2

/-- **Main theorem.**  After any history, a broadcast on a channel that does not
exist addresses nobody; on an existing channel, the push tuples addressed to any
front `f` are: none if no join addressed (c, f) since the channel was (re)created,
otherwise exactly one tuple whose id list is the fold of the history — joins
appended, each leave erasing the first occurrence — possibly the empty list;
route and message are the broadcast's. -/
theorem broadcast_lists_current_members (ser : String → List Nat) (lf : String) (ops : List Op)
    (c route msg : String) :
    (chanExists ops c = false → bcastObs ser lf ops c route msg = .nil) ∧
    (chanExists ops c = true → ∃ ps dl, bcastObs ser lf ops c route msg = .pushes ps dl ∧
      ∀ f, ps.filter (fun p => decide (p.front = f)) =
        match members ops c f with
        | none => []
        | some l => [⟨f, l, route, msg⟩]) := by
  have hex := reach_exists ser lf ops c
  have hwf := reach_wf ser lf ops
  unfold bcastObs
  cases hg : aget (run ser (init lf) ops).svc.chans c with
  | none =>
    rw [hg] at hex
    refine ⟨fun _ => (by simp [step, Svc.getChannel, hg]), fun h => ?_⟩
    rw [← hex] at h; cases h
  | some ch =>
    rw [hg] at hex
    refine ⟨fun h => (by rw [← hex] at h; cases h), fun _ => ?_⟩
    refine ⟨_, _, by simp only [step, Svc.getChannel, hg]; rfl, fun f => ?_⟩
    have hv := reach_view ser lf ops c f
    unfold view at hv
    rw [hg] at hv
    simp only [Option.bind] at hv
    obtain ⟨k', hk'⟩ := mem_of_aget _ _ _ hg
    have hnd := hwf.groups _ hk'
    have hf := filter_key ch.groups f hnd
    unfold Chan.pushMessage
    rw [List.filter_map]
    have : ((fun p : Push => decide (p.front = f)) ∘ fun e : String × List Nat => (⟨e.1, e.2, route, msg⟩ : Push))
        = fun e => decide (e.1 = f) := rfl
    rw [this, hf, ← hv]
    cases aget ch.groups f <;> rfl

/-- `FrontGroup.Remove` — first-position, last-position and middle slice cases, and
"not found" — is "erase the first occurrence" on every list and id -/
theorem remove_is_erase_first (l : List Nat) (x : Nat) : removeGo l x = l.erase x := removeGo_eq_erase l x

/-- the id list of the only tuple for front `f` (empty if there is none) -/
def listed (ops : List Op) (c f : String) : List Nat := (members ops c f).getD []

/-- **Count.** The number of times an id is listed = its joins − its successful leaves
(a leave is successful when the id is currently listed), counted since the channel
was last (re)created: an id added twice is listed twice and needs two removals. -/
theorem count_eq (ops : List Op) (c f : String) (x : Nat) :
    (listed ops c f).count x = (tally ops c f x).adds - (tally ops c f x).left ∧
    (tally ops c f x).left ≤ (tally ops c f x).adds :=
  tally_fold c f x ops none ⟨0, 0⟩ (by simp)

/-- ids that were never added, or removed as often as added, are not addressed -/
theorem removed_or_never_added_not_listed (ops : List Op) (c f : String) (x : Nat)
    (h : (tally ops c f x).adds = (tally ops c f x).left) : x ∉ listed ops c f := by
  have := (count_eq ops c f x).1
  rw [h, Nat.sub_self] at this
  exact List.count_eq_zero.mp this

/-- **Join order.** The listed ids are a subsequence of the ids joined to (c, f)
since the channel was last (re)created, in join order. -/
theorem order_is_join_order (ops : List Op) (c f : String) :
    (listed ops c f).Sublist (joinSeq ops c f) :=
  joinSeq_fold c f ops none [] (by simp)

/-- **Count and order, on the model's own output.**  After any history, every tuple a
broadcast of the model hands to the push layer for a front `f` lists each id exactly
(joins − successful leaves) times, as a subsequence of the ids joined to (c, f) since the
channel was last (re)created, and an id whose joins were all undone is not in it — `count_eq`,
`order_is_join_order` and `removed_or_never_added_not_listed` carried over from the fold to
what `Channel.PushMessage` of the model emits. -/
theorem broadcast_tuple_count_and_order (ser : String → List Nat) (lf : String) (ops : List Op)
    (c route msg : String) (ps : List Push) (dl : List Delivery)
    (h : bcastObs ser lf ops c route msg = .pushes ps dl) (p : Push) (hp : p ∈ ps) (x : Nat) :
    p.ids.count x = (tally ops c p.front x).adds - (tally ops c p.front x).left ∧
    p.ids.Sublist (joinSeq ops c p.front) ∧
    ((tally ops c p.front x).adds = (tally ops c p.front x).left → x ∉ p.ids) ∧
    p.route = route ∧ p.msg = msg := by
  obtain ⟨hnil, hsome⟩ := broadcast_lists_current_members ser lf ops c route msg
  have hex : chanExists ops c = true := by
    cases hce : chanExists ops c with
    | true => rfl
    | false => rw [hnil hce] at h; cases h
  obtain ⟨ps', dl', hobs, hfil⟩ := hsome hex
  rw [hobs] at h
  injection h with hps _
  subst hps
  have hmem : p ∈ ps'.filter (fun q => decide (q.front = p.front)) := by simp [List.mem_filter, hp]
  rw [hfil p.front] at hmem
  cases hm : members ops c p.front with
  | none => rw [hm] at hmem; cases hmem
  | some l =>
    rw [hm] at hmem
    simp only [List.mem_singleton] at hmem
    have hl : listed ops c p.front = l := by simp [listed, hm]
    have hids : p.ids = l := by rw [hmem]
    rw [hids, ← hl]
    refine ⟨(count_eq ops c p.front x).1, order_is_join_order ops c p.front,
      removed_or_never_added_not_listed ops c p.front x, by rw [hmem], by rw [hmem]⟩

/-- **At most once per front.** The fronts of the tuples of one broadcast are pairwise
distinct, and a front is addressed exactly when a join addressed (c, f) since the
channel was (re)created — also when all of its members have left again. -/
theorem at_most_once_per_front (ser : String → List Nat) (lf : String) (ops : List Op)
    (c route msg : String) (ps : List Push) (dl : List Delivery)
    (h : bcastObs ser lf ops c route msg = .pushes ps dl) :
    (ps.map (·.front)).Nodup ∧
    ∀ f, f ∈ ps.map (·.front) ↔ ops.foldl (stepHasGroup c f) false = true := by
  have hwf := reach_wf ser lf ops
  unfold bcastObs at h
  cases hg : aget (run ser (init lf) ops).svc.chans c with
  | none => simp [step, Svc.getChannel, hg] at h
  | some ch =>
    simp only [step, Svc.getChannel, hg] at h
    injection h with h1 h2
    obtain ⟨k', hk'⟩ := mem_of_aget _ _ _ hg
    have hnd := hwf.groups _ hk'
    have hfr : ps.map (·.front) = akeys ch.groups := by
      rw [← h1]; simp [Chan.pushMessage, akeys, List.map_map, Function.comp_def]
    refine ⟨by rw [hfr]; exact hnd, fun f => ?_⟩
    rw [hfr]
    have hv := reach_view ser lf ops c f
    unfold view at hv
    rw [hg] at hv
    simp only [Option.bind] at hv
    have hh := hasGroup_fold c f ops none false rfl
    unfold members at hv
    rw [← hh, ← hv]
    constructor
    · intro hm
      obtain ⟨v, hv'⟩ := aget_some_of_mem_keys _ _ hm
      rw [hv']; rfl
    · intro hs
      cases hq : aget ch.groups f with
      | none => rw [hq] at hs; cases hs
      | some l => exact mem_keys_of_aget _ _ _ hq

/-- **Isolation, per step and from any state.** An operation that does not address
the pair (c, f) — a join/leave on another channel or another front, a delete of
another channel, any create/fetch/broadcast, any session operation — leaves the
member list of (c, f) untouched. -/
theorem isolation (ser : String → List Nat) (s : St) (op : Op) (c f : String) (h : ¬ targets c f op) :
    view (step ser s op).1.svc c f = view s.svc c f := by
  rw [view_step]
  cases op <;> simp_all [stepView, targets]

/-- **Isolation, over histories.** Inserting anywhere into any history an operation
that does not address (c, f) leaves what every later broadcast lists for (c, f) unchanged. -/
theorem isolation_history (ops₁ ops₂ : List Op) (op : Op) (c f : String) (h : ¬ targets c f op) :
    members (ops₁ ++ op :: ops₂) c f = members (ops₁ ++ ops₂) c f := by
  have hstep : ∀ v, stepView c f v op = v := by
    intro v; cases op <;> simp_all [stepView, targets]
  simp [members, List.foldl_append, hstep]

/-- **Isolation, leaves of absent ids.** Leaving with an id that is not currently
listed for that channel and front (never added, already removed, no such group, no
such channel) changes nothing at all. -/
theorem leave_absent_is_noop (ser : String → List Nat) (s : St) (c f : String) (x : Nat)
    (h : x ∉ (view s.svc c f).getD []) : (step ser s (.leave c f x)).1 = s := by
  obtain ⟨lf, svc, fr⟩ := s
  simp only [step, Svc.leaveFromChannel, Svc.getChannel]
  unfold view at h
  cases hg : aget svc.chans c with
  | none => rfl
  | some ch =>
    simp only [hg, Option.bind] at h
    have : ch.leave f x = ch := by
      unfold Chan.leave
      cases hq : aget ch.groups f with
      | none => rfl
      | some g =>
        simp only [hq, Option.getD_some] at h
        simp only
        rw [removeGo_eq_erase, List.erase_of_not_mem h, aset_self _ _ _ hq]
    simp only [this, aset_self _ _ _ hg]

/-- broadcasting and fetching change no state (so they cannot disturb any member list) -/
theorem observers_change_nothing (ser : String → List Nat) (s : St) (c r m : String) (ids : List Nat) (d : List Nat) :
    (step ser s (.bcast c r m)).1 = s ∧ (step ser s (.getch c)).1 = s ∧ (step ser s (.spush ids r d)).1 = s :=
  ⟨rfl, rfl, rfl⟩

/-- **The service is a map** from names to channels: add returns the existing
channel or stores a fresh empty one; get finds exactly what was stored; delete
removes just that name; delete followed by add yields a new, empty channel whose
broadcast addresses nobody. -/
theorem service_is_a_map (s : Svc) (n n' : String) :
    -- add then get
    (s.addChannel n).1.getChannel n = some (s.addChannel n).2 ∧
    -- add on an existing name returns that channel and changes nothing
    (∀ c, s.getChannel n = some c → s.addChannel n = (s, c)) ∧
    -- add on a missing name creates an empty channel with a fresh identity
    (s.getChannel n = none → (s.addChannel n).2 = ⟨s.created + 1, []⟩) ∧
    -- other names are not affected by add / delete
    (n ≠ n' → (s.addChannel n).1.getChannel n' = s.getChannel n') ∧
    (n ≠ n' → (s.deleteChannel n).getChannel n' = s.getChannel n') ∧
    -- delete then get
    (s.deleteChannel n).getChannel n = none ∧
    -- delete then add: a new empty channel
    ((s.deleteChannel n).addChannel n).2 = ⟨s.created + 1, []⟩ ∧
    (∀ r m, ((s.deleteChannel n).addChannel n).2.pushMessage r m = []) := by
  have hdel : aget (adel s.chans n) n = none := aget_adel_same _ _
  refine ⟨addChannel_get s n, ?_, ?_, ?_, ?_, hdel, ?_, ?_⟩
  · intro c hc; simp only [Svc.getChannel] at hc; simp [Svc.addChannel, hc]
  · intro hc; simp only [Svc.getChannel] at hc; simp [Svc.addChannel, hc]
  · intro hne
    unfold Svc.addChannel Svc.getChannel
    cases hg : aget s.chans n <;> simp [aget_aset_other _ _ _ _ hne]
  · intro hne; exact aget_adel_other _ _ _ hne
  · simp [Svc.addChannel, Svc.deleteChannel, hdel]
  · intro r m; simp [Svc.addChannel, Svc.deleteChannel, hdel, Chan.pushMessage]

/-- channel identities: in every reachable state two different names hold different
channel objects, and a newly created channel is different from all stored ones -/
theorem channel_identities_fresh (ser : String → List Nat) (lf : String) (ops : List Op) (n : String) (c : Chan)
    (h : (run ser (init lf) ops).svc.getChannel n = some c) :
    c.uid ≤ (run ser (init lf) ops).svc.created ∧ c.uid ≠ (run ser (init lf) ops).svc.created + 1 := by
  obtain ⟨k', hk'⟩ := mem_of_aget _ _ _ h
  have := (reach_wf ser lf ops).uids _ hk'
  exact ⟨this, by simp only at this; omega⟩

/-- **Front-end fan-out** (`ClientSessions.PushMsg`, any live set, any id list):
every live id receives the push exactly as often as it is listed; ids that are not
live receive nothing; deliveries follow list order; each carries the push's route
and payload; and unknown ids do not affect the others — removing them from the
list gives the same deliveries. -/
theorem front_fanout (live ids : List Nat) (route : String) (data : List Nat) :
    (∀ x ∈ live, ((pushMsg live ids route data).map (·.id)).count x = ids.count x) ∧
    (∀ x, x ∉ live → ((pushMsg live ids route data).map (·.id)).count x = 0) ∧
    ((pushMsg live ids route data).map (·.id)).Sublist ids ∧
    (∀ d ∈ pushMsg live ids route data, d.route = route ∧ d.data = data) ∧
    pushMsg live ids route data = pushMsg live (ids.filter (fun i => decide (i ∈ live))) route data := by
  rw [pushMsg_ids]
  refine ⟨?_, ?_, List.filter_sublist, ?_, ?_⟩
  · intro x hx; exact List.count_filter (by simpa using hx)
  · intro x hx
    rw [List.count_eq_zero]
    intro hm
    simp [List.mem_filter] at hm
    exact hx hm.2
  · intro d hd
    simp [pushMsg] at hd
    obtain ⟨i, _, rfl⟩ := hd
    exact ⟨rfl, rfl⟩
  · simp [pushMsg, List.filter_filter]

/-- an unknown id anywhere in the list is skipped without affecting the others -/
theorem unknown_id_skipped (live a b : List Nat) (u : Nat) (route : String) (data : List Nat) (hu : u ∉ live) :
    pushMsg live (a ++ u :: b) route data = pushMsg live (a ++ b) route data := by
  simp [pushMsg, List.filter_append, hu]

/-- **A listed connection whose `Push` fails.** A connection that is still registered but
whose socket has closed (`Push` returns an error) receives nothing, and — wherever it
stands in the id list, first, middle or last — every other listed connection that is
registered and open still receives the push exactly as often as it is listed, in list
order; unregistered ids receive nothing. -/
theorem closed_connection_does_not_affect_others (fr : Front) (ids : List Nat) (route : String) (data : List Nat) :
    (∀ x ∈ fr.live, x ∉ fr.closed → ((pushMsg fr.reachable ids route data).map (·.id)).count x = ids.count x) ∧
    (∀ x ∈ fr.closed, ((pushMsg fr.reachable ids route data).map (·.id)).count x = 0) ∧
    (∀ x, x ∉ fr.live → ((pushMsg fr.reachable ids route data).map (·.id)).count x = 0) ∧
    ((pushMsg fr.reachable ids route data).map (·.id)).Sublist ids ∧
    (∀ a b u, u ∈ fr.closed →
      pushMsg fr.reachable (a ++ u :: b) route data = pushMsg fr.reachable (a ++ b) route data) := by
  have hmem : ∀ x, x ∈ fr.reachable ↔ x ∈ fr.live ∧ x ∉ fr.closed := by
    intro x; simp [Front.reachable, List.mem_filter]
  obtain ⟨h1, h2, h3, _, _⟩ := front_fanout fr.reachable ids route data
  refine ⟨fun x hx hc => h1 x ((hmem x).2 ⟨hx, hc⟩), fun x hx => h2 x (fun hh => ((hmem x).1 hh).2 hx),
    fun x hx => h2 x (fun hh => hx ((hmem x).1 hh).1), h3, ?_⟩
  intro a b u hu
  exact unknown_id_skipped fr.reachable a b u route data (fun hh => ((hmem u).1 hh).2 hu)

/-- **A push issued from inside `OnSessionAdd`.** `AddSession` registers the connection
before it calls the handler, so for every front state and every id list the new
connection receives such a push exactly as often as it is listed (it has its id and
is live), and the connections that were live before are served as usual. -/
theorem push_inside_session_add_reaches_new_connection (fr : Front) (ids : List Nat) (route : String) (data : List Nat) :
    ((pushMsg fr.addSession.1.live ids route data).map (·.id)).count fr.addSession.2 = ids.count fr.addSession.2 ∧
    ∀ x ∈ fr.live, ((pushMsg fr.addSession.1.live ids route data).map (·.id)).count x = ids.count x := by
  refine ⟨(front_fanout _ ids route data).1 _ (addSession_mem fr), fun x hx => ?_⟩
  apply (front_fanout _ ids route data).1
  unfold Front.addSession
  by_cases h : (allocId fr.nextId).1 ∈ fr.live <;> simp [h, hx]

/-- **A push issued from inside `OnSessionRemove`.** `RemoveSession` deletes the
connection before it calls the handler, so after any history the removed connection
receives nothing from such a push, while every other live connection still
receives it as often as it is listed. -/
theorem push_inside_session_remove_skips_removed (ser : String → List Nat) (lf : String) (ops : List Op)
    (id : Nat) (ids : List Nat) (route : String) (data : List Nat) :
    let fr := (run ser (init lf) ops).front
    ((pushMsg (fr.removeSession id).1.live ids route data).map (·.id)).count id = 0 ∧
    ∀ x ∈ fr.live, x ≠ id → ((pushMsg (fr.removeSession id).1.live ids route data).map (·.id)).count x = ids.count x := by
  intro fr
  have hnd : fr.live.Nodup := live_nodup_run ser (init lf) ops (by simp [init])
  have hnot : id ∉ (fr.removeSession id).1.live := by
    unfold Front.removeSession
    by_cases hm : id ∈ fr.live
    · simp only [hm, if_true]; exact fun hh => (List.Nodup.mem_erase_iff hnd).1 hh |>.1 rfl
    · simp [hm]
  refine ⟨(front_fanout _ ids route data).2.1 id hnot, fun x hx hne => ?_⟩
  apply (front_fanout _ ids route data).1
  unfold Front.removeSession
  by_cases hm : id ∈ fr.live
  · simp only [hm, if_true]; exact (List.mem_erase_of_ne hne).2 hx
  · simp [hm, hx]

/-- **End to end for the issuing front-end.** After any history, the connections of
the front that owns the channel service receive, in place, exactly the listed ids
of (c, local front) that are live sessions, once per occurrence, in list order,
with the broadcast's route and the serialized message; fronts other than the local
one cause no in-place delivery. -/
theorem bcast_local_delivery (ser : String → List Nat) (lf : String) (ops : List Op)
    (c route msg : String) (ps : List Push) (dl : List Delivery)
    (h : bcastObs ser lf ops c route msg = .pushes ps dl) :
    dl = pushMsg (run ser (init lf) ops).front.reachable (listed ops c lf) route (ser msg) := by
  obtain ⟨_, hsome⟩ := broadcast_lists_current_members ser lf ops c route msg
  have hex : chanExists ops c = true := by
    cases hce : chanExists ops c with
    | true => rfl
    | false =>
      have := (broadcast_lists_current_members ser lf ops c route msg).1 hce
      rw [this] at h; cases h
  obtain ⟨ps', dl', hobs, hfil⟩ := hsome hex
  rw [hobs] at h
  injection h with hps hdl
  subst hps; subst hdl
  -- dl' is computed from ps' by `localDeliveries`
  have hdl : dl' = localDeliveries ser (run ser (init lf) ops) ps' := by
    unfold bcastObs at hobs
    simp only [step] at hobs
    cases hg : (run ser (init lf) ops).svc.getChannel c with
    | none => rw [hg] at hobs; cases hobs
    | some ch =>
      rw [hg] at hobs
      injection hobs with h1 h2
      rw [← h2, ← h1]
  have hlf := localFront_run ser (init lf) ops
  have hlf' : (run ser (init lf) ops).localFront = lf := hlf
  have hns : (run ser (init lf) ops).noSessions = false := noSessions_run ser (init lf) ops
  rw [hdl]
  unfold localDeliveries
  rw [hns, hlf']
  simp only [Bool.false_eq_true, if_false]
  -- only the tuples addressed to `lf` contribute
  have key : ∀ (l : List Push) (live : List Nat),
      (l.flatMap fun p => if p.front = lf then pushMsg live p.ids p.route (ser p.msg) else [])
        = (l.filter (fun p => decide (p.front = lf))).flatMap fun p => pushMsg live p.ids p.route (ser p.msg) := by
    intro l live
    induction l with
    | nil => rfl
    | cons p l ih =>
      by_cases hp : p.front = lf <;> simp [List.flatMap_cons, hp, ih]
  rw [key, hfil lf]
  unfold listed
  cases members ops c lf with
  | none => simp [pushMsg]
  | some l => simp

/-- **Exactly the addressed front-end.**  After any history, of the tuples a broadcast
hands to `impls.PushMessageByIds` on the service `lf`:
* nothing is sent onward for `lf` itself nor for a service the directory does not know;
* every other known front-end `f` is sent exactly one `sys.pushmsg` if it has a group in
  the channel — carrying exactly that group's id list, the broadcast's route and message —
  and none otherwise;
* the connections of any other front-end service `b` receive exactly the listed ids of
  (c, b) that are live **on b** (whatever the live sets of other front-ends, which may use
  the same connection numbers), and nothing if `b` is the issuer or unknown. -/
theorem push_reaches_only_the_addressed_front (ser : String → List Nat) (lf : String) (ops : List Op)
    (c route msg : String) (ps : List Push) (dl : List Delivery) (dir : List String)
    (h : bcastObs ser lf ops c route msg = .pushes ps dl) :
    (∀ f, (f = lf ∨ f ∉ dir) → (forwarded lf dir ps).filter (fun p => decide (p.front = f)) = []) ∧
    (∀ f, f ≠ lf → f ∈ dir → (forwarded lf dir ps).filter (fun p => decide (p.front = f)) =
        match members ops c f with
        | none => []
        | some l => [⟨f, l, route, msg⟩]) ∧
    (∀ b blive, remoteDeliveries ser b blive (forwarded lf dir ps) =
        if b ≠ lf ∧ b ∈ dir then pushMsg blive (listed ops c b) route (ser msg) else []) := by
  obtain ⟨hnil, hsome⟩ := broadcast_lists_current_members ser lf ops c route msg
  have hex : chanExists ops c = true := by
    cases hce : chanExists ops c with
    | true => rfl
    | false => rw [hnil hce] at h; cases h
  obtain ⟨ps', dl', hobs, hfil⟩ := hsome hex
  rw [hobs] at h
  injection h with hps hdl
  subst hps
  have hff : ∀ f, (forwarded lf dir ps').filter (fun p => decide (p.front = f))
      = if (decide (f ≠ lf) && decide (f ∈ dir)) then ps'.filter (fun p => decide (p.front = f)) else [] :=
    fun f => filter_front_of_filter ps' f (fun x => decide (x ≠ lf) && decide (x ∈ dir))
  refine ⟨?_, ?_, ?_⟩
  · intro f hf
    rw [hff]
    rcases hf with hf | hf <;> simp [hf]
  · intro f h1 h2
    rw [hff, hfil f]
    simp [h1, h2]
  · intro b blive
    unfold remoteDeliveries
    rw [flatMap_front, hff, hfil b]
    unfold listed
    by_cases hb : b ≠ lf ∧ b ∈ dir
    · obtain ⟨hb1, hb2⟩ := hb
      cases members ops c b <;> simp [hb1, hb2, pushMsg]
    · have : (decide (b ≠ lf) && decide (b ∈ dir)) = false := by
        by_cases h1 : b = lf
        · simp [h1]
        · have h2 : b ∉ dir := fun hh => hb ⟨h1, hh⟩
          simp [h2]
      rw [this]; simp [hb]

/-- what a broadcast hands to the push layer when the issuing service has **no "sessions"
component** (a back-end service owning the channel service) -/
def bcastObsB (ser : String → List Nat) (lf : String) (ops : List Op) (c route msg : String) : Obs :=
  (step ser (run ser (initBackend lf) ops) (.bcast c route msg)).2

/-- **An issuer without a "sessions" component.**  `pushLocal` declines (`sc == nil`), so
after any history: nothing is delivered in place; the tuples are the same as for an issuer
that has the component (every theorem about `ps` above applies); and every front-end the
directory knows — the issuer's own name included — is sent exactly one `sys.pushmsg`
carrying its group's id list if it has a group, none otherwise; names the directory does not
know get nothing.  With the component, `forwardedFrom` is `forwarded`. -/
theorem issuer_without_sessions_requests_every_known_front (ser : String → List Nat) (lf : String) (ops : List Op)
    (c route msg : String) (ps : List Push) (dl : List Delivery) (dir : List String)
    (h : bcastObsB ser lf ops c route msg = .pushes ps dl) :
    dl = [] ∧
    (∃ dl', bcastObs ser lf ops c route msg = .pushes ps dl') ∧
    (∀ f, f ∈ dir → (forwardedFrom (run ser (initBackend lf) ops) dir ps).filter (fun p => decide (p.front = f)) =
        match members ops c f with
        | none => []
        | some l => [⟨f, l, route, msg⟩]) ∧
    (∀ f, f ∉ dir → (forwardedFrom (run ser (initBackend lf) ops) dir ps).filter (fun p => decide (p.front = f)) = []) ∧
    forwardedFrom (run ser (init lf) ops) dir ps = forwarded lf dir ps := by
  have hsvc : (run ser (initBackend lf) ops).svc = (run ser (init lf) ops).svc :=
    svc_run_indep ser _ _ ops rfl
  have hns : (run ser (initBackend lf) ops).noSessions = true := noSessions_run ser (initBackend lf) ops
  have hns' : (run ser (init lf) ops).noSessions = false := noSessions_run ser (init lf) ops
  have hlf' : (run ser (init lf) ops).localFront = lf := localFront_run ser (init lf) ops
  unfold bcastObsB at h
  simp only [step, hsvc] at h
  cases hg : (run ser (init lf) ops).svc.getChannel c with
  | none => rw [hg] at h; cases h
  | some ch =>
    rw [hg] at h
    injection h with h1 h2
    have hdl : dl = [] := by rw [← h2]; simp [localDeliveries, hns]
    have hobs : bcastObs ser lf ops c route msg = .pushes ps (localDeliveries ser (run ser (init lf) ops) ps) := by
      unfold bcastObs
      simp only [step, hg, h1]
    obtain ⟨hnil, hsome⟩ := broadcast_lists_current_members ser lf ops c route msg
    have hex : chanExists ops c = true := by
      cases hce : chanExists ops c with
      | true => rfl
      | false => rw [hnil hce] at hobs; cases hobs
    obtain ⟨ps', dl', hobs', hfil⟩ := hsome hex
    rw [hobs] at hobs'
    injection hobs' with hps _
    subst hps
    have hff : ∀ f, (forwardedFrom (run ser (initBackend lf) ops) dir ps).filter (fun p => decide (p.front = f))
        = if decide (f ∈ dir) then ps.filter (fun p => decide (p.front = f)) else [] := by
      intro f
      have := filter_front_of_filter ps f (fun x => decide (x ∈ dir))
      simp only [forwardedFrom, hns, Bool.or_true, Bool.true_and]
      exact this
    refine ⟨hdl, ⟨_, hobs⟩, fun f hf => ?_, fun f hf => ?_, ?_⟩
    · rw [hff, hfil f]; simp [hf]
    · rw [hff]; simp [hf]
    · simp only [forwardedFrom, forwarded, hns', hlf', Bool.or_false]

/-- session ids handed out by the front-end are fresh as long as the 32-bit counter
has not wrapped: the new id is not among the live ones -/
theorem session_id_fresh (fr : Front) (h : fr.nextId + 1 < 2 ^ 32) (hb : ∀ x ∈ fr.live, x ≤ fr.nextId) :
    fr.addSession.2 = fr.nextId + 1 ∧ fr.addSession.2 ∉ fr.live ∧
    fr.addSession.1.live = fr.live ++ [fr.nextId + 1] ∧
    (∀ x ∈ fr.addSession.1.live, x ≤ fr.addSession.1.nextId) := by
  have hmod : (fr.nextId + 1) % 2 ^ 32 = fr.nextId + 1 := Nat.mod_eq_of_lt h
  have hnz : ¬ (fr.nextId + 1 = 0) := by omega
  have hnm : fr.nextId + 1 ∉ fr.live := fun hm => by have := hb _ hm; omega
  have e : fr.addSession = (⟨fr.live ++ [fr.nextId + 1], fr.nextId + 1, fr.closed⟩, fr.nextId + 1) := by
    unfold Front.addSession allocId
    simp only [hmod, if_neg hnz, if_neg hnm]
  rw [e]
  refine ⟨rfl, hnm, rfl, ?_⟩
  intro x hx
  simp at hx
  rcases hx with hx | hx
  · have := hb x hx; simp only; omega
  · simp only; omega


/-! ### retained channel handles

`AddChannel` / `AddToChannel` / `AllocTempChannel` return the `*Channel`, and
`DeleteChannel` only unbinds the name.  `HOp` adds to the by-name operations the
pointer operations `c.Add`, `c.Leave`, `c.PushMessage` and `FreeTempChannel(c)` on a
retained handle (the identity `uid` of the object); `hstate` is the state of the model
after any history of both kinds. -/

def hstate (ser : String → List Nat) (lf : String) (hops : List HOp) : HSt := hrun ser (hinit lf) hops

theorem hstate_wf (ser : String → List Nat) (lf : String) (hops : List HOp) : HWF (hstate ser lf hops) :=
  HWF.hrun ser hops (HWF.init lf)

/-- **Handle operations add no new by-name states.**  Whatever mix of by-name and handle
operations was issued, the by-name part of the state (the `sync.Map` of channels, the
sessions) is one that by-name operations alone reach — so every theorem above about
`run ser (init lf) ops` holds for it. -/
theorem handle_histories_reach_only_name_states (ser : String → List Nat) (lf : String) (hops : List HOp) :
    ∃ ops, (hstate ser lf hops).st = run ser (init lf) ops :=
  hrun_st ser lf hops (HWF.init lf) [] rfl

/-- **A handle whose object is still bound is the name.**  After any history, if the name
`c` denotes the object `ch`, then `ch.Add`, `ch.Leave`, `ch.PushMessage`, `FreeTempChannel(ch)`
are exactly `AddToChannel(c, ..)`, `LeaveFromChannel(c, ..)`, the broadcast on `c` (same tuples,
same deliveries) and `DeleteChannel(c)`. -/
theorem handle_on_bound_channel_is_the_name_operation (ser : String → List Nat) (lf : String) (hops : List HOp)
    (c : String) (ch : Chan) (hg : (hstate ser lf hops).st.svc.getChannel c = some ch) :
    let s := hstate ser lf hops
    (∀ f x, (hstep ser s (.hjoin ch.uid f x)).1 = (hstep ser s (.name (.join c f x))).1) ∧
    (∀ f x, (hstep ser s (.hleave ch.uid f x)).1 = (hstep ser s (.name (.leave c f x))).1) ∧
    (∀ r m, hstep ser s (.hbcast ch.uid r m) = hstep ser s (.name (.bcast c r m))) ∧
    hstep ser s (.hfree ch.uid) = hstep ser s (.name (.delch c)) :=
  mapped_handle ser (hstate_wf ser lf hops) c ch hg

/-- **A broadcast on a stale handle reaches exactly that object's members.**  Take any
history `hops₁` after which the name `c` denotes the object `ch`, delete `c`, and continue
with any history `hops₂` (re-creating `c`, joining and leaving the new `c`, deleting it
again, using other handles, freeing temp channels, session operations …).  A broadcast
through the retained handle then hands the push layer, per front, exactly one tuple
listing what `c` listed at the time of the delete, changed only by the `Add` / `Leave`
calls made **through that handle** since (appended / first occurrence erased) — and the
issuing front-end's own connections get exactly those of them that are live and open. -/
theorem stale_handle_broadcast_lists_the_objects_members (ser : String → List Nat) (lf : String)
    (hops₁ : List HOp) (c : String) (ch : Chan) (hg : (hstate ser lf hops₁).st.svc.getChannel c = some ch)
    (hops₂ : List HOp) (route msg : String) :
    let s := hstate ser lf (hops₁ ++ .name (.delch c) :: hops₂)
    let held := fun f => hops₂.foldl (stepStale ch.uid f) (view (hstate ser lf hops₁).st.svc c f)
    ∃ ps dl, (hstep ser s (.hbcast ch.uid route msg)).2 = .pushes ps dl ∧
      (∀ f, ps.filter (fun p => decide (p.front = f)) =
        match held f with
        | none => []
        | some l => [⟨f, l, route, msg⟩]) ∧
      dl = pushMsg s.st.front.reachable ((held lf).getD []) route (ser msg) := by
  intro s held
  have hs : s = hrun ser (hstep ser (hstate ser lf hops₁) (.name (.delch c))).1 hops₂ := by
    simp [s, hstate, hrun, List.foldl_append]
  have hwf1 := hstate_wf ser lf hops₁
  obtain ⟨hd, hv, _⟩ := delete_detaches ser hwf1 c ch hg
  have hwf2 := hwf1.hstep ser (.name (.delch c))
  have hrunv := fun f => stale_run ser hops₂ hwf2 ch.uid hd f
  have hdet : Detached s ch.uid := hs ▸ (hrunv lf).1
  have hview : ∀ f, detView s ch.uid f = held f := by
    intro f
    rw [hs, (hrunv f).2, hv f]
  have hlf : s.st.localFront = lf ∧ s.st.noSessions = false := by
    obtain ⟨ops, ho⟩ := handle_histories_reach_only_name_states ser lf (hops₁ ++ .name (.delch c) :: hops₂)
    show (hstate ser lf (hops₁ ++ .name (.delch c) :: hops₂)).st.localFront = lf ∧
      (hstate ser lf (hops₁ ++ .name (.delch c) :: hops₂)).st.noSessions = false
    rw [ho]; exact ⟨localFront_run ser (init lf) ops, noSessions_run ser (init lf) ops⟩
  obtain ⟨ps, dl, h1, h2, h3⟩ := stale_bcast ser (hstate_wf ser lf _) ch.uid hdet route msg
  refine ⟨ps, dl, h1, fun f => ?_, ?_⟩
  · have e := h2 f
    rw [hview f] at e
    exact e
  · rw [h3 hlf.2, hlf.1, hview lf]

/-- **Every object, bound or not, holds the fold of the operations that resolved to it.**
After any history of by-name and handle operations, what the object `u` holds for the front
`f` is the fold over the history's membership operations *resolved to objects* (`otrace`:
`AddToChannel(c)` acts on the object `AddChannel(c)` returns at that moment, `LeaveFromChannel(c)`
on the object `c` denotes at that moment, handle operations on their object): those resolved
to `u` append / erase the first occurrence, everything else — in particular deleting and
re-creating the name `u` was created under — leaves it untouched. -/
theorem object_members_are_the_fold_of_resolved_operations (ser : String → List Nat) (lf : String)
    (hops : List HOp) (u : Nat) (f : String) :
    objView (hstate ser lf hops) u f = (otrace ser (hinit lf) hops).foldl (applyT u f) none :=
  object_run ser hops (HWF.init lf) u f

/-- **A broadcast through any handle lists exactly what its object holds**: nobody if the
handle was never handed out; otherwise, per front, no tuple if the object has no group for
it and else exactly one tuple with the object's list (by the theorem above: the fold of the
operations resolved to that object), the broadcast's route and message. -/
theorem handle_broadcast_lists_object_members (ser : String → List Nat) (lf : String) (hops : List HOp)
    (u : Nat) (route msg : String) :
    let s := hstate ser lf hops
    (s.findObj u = none → (hstep ser s (.hbcast u route msg)).2 = .nil) ∧
    (∀ e, s.findObj u = some e → ∃ ps dl, (hstep ser s (.hbcast u route msg)).2 = .pushes ps dl ∧
      ∀ f, ps.filter (fun p => decide (p.front = f)) =
        match (otrace ser (hinit lf) hops).foldl (applyT u f) none with
        | none => []
        | some l => [⟨f, l, route, msg⟩]) := by
  intro s
  obtain ⟨h1, h2⟩ := object_bcast ser (hstate_wf ser lf hops) u route msg
  refine ⟨h1, fun e he => ?_⟩
  obtain ⟨ps, dl, hobs, hfil⟩ := h2 e he
  refine ⟨ps, dl, hobs, fun f => ?_⟩
  have e := hfil f
  rw [object_members_are_the_fold_of_resolved_operations] at e
  exact e

/-- **One step, from any reachable state, seen from any object** -/
theorem object_changes_only_by_operations_resolved_to_it (ser : String → List Nat) (lf : String) (hops : List HOp)
    (op : HOp) (u : Nat) (f : String) :
    objView (hstep ser (hstate ser lf hops) op).1 u f =
      applyT u f (objView (hstate ser lf hops) u f) (targetOf (hstate ser lf hops) op) :=
  object_step ser (hstate_wf ser lf hops) op u f

/-- **Deleting a name leaves the object intact and the name empty.** -/
theorem deleted_channel_object_keeps_its_members (ser : String → List Nat) (lf : String) (hops : List HOp)
    (c : String) (ch : Chan) (hg : (hstate ser lf hops).st.svc.getChannel c = some ch) :
    let s' := (hstep ser (hstate ser lf hops) (.name (.delch c))).1
    Detached s' ch.uid ∧ (∀ f, detView s' ch.uid f = view (hstate ser lf hops).st.svc c f) ∧
    s'.st.svc.getChannel c = none ∧ (∀ f, view s'.st.svc c f = none) := by
  intro s'
  obtain ⟨h1, h2, h3⟩ := delete_detaches ser (hstate_wf ser lf hops) c ch hg
  refine ⟨h1, h2, h3, fun f => ?_⟩
  have h3' : aget s'.st.svc.chans c = none := h3
  simp [view, h3']

/-- **Operations on a stale handle do not touch the map.**  `Add` / `Leave` / `PushMessage`
on an object that is no longer bound change nothing that any by-name operation sees — in
particular not what the channel now bound to the same name lists. -/
theorem stale_handle_ops_do_not_touch_the_map (ser : String → List Nat) (s : HSt) (u : Nat) (hd : Detached s u)
    (f : String) (x : Nat) (r m : String) :
    (hstep ser s (.hjoin u f x)).1.st = s.st ∧ (hstep ser s (.hleave u f x)).1.st = s.st ∧
    (hstep ser s (.hbcast u r m)).1 = s := by
  refine ⟨?_, ?_, rfl⟩ <;> simp only [hstep, HSt.updObj, updObj_id_of_not_mem _ u _ hd.1]

/-- **By-name operations do not touch a stale object**, and neither do other handles: one
step from any well-formed state changes what a detached object holds only if it is `Add` /
`Leave` through that object's own handle. -/
theorem stale_object_changes_only_through_its_handle (ser : String → List Nat) (lf : String) (hops : List HOp)
    (u : Nat) (hd : Detached (hstate ser lf hops) u) (op : HOp) (f : String) :
    Detached (hstep ser (hstate ser lf hops) op).1 u ∧
    detView (hstep ser (hstate ser lf hops) op).1 u f = stepStale u f (detView (hstate ser lf hops) u f) op :=
  stale_step ser (hstate_wf ser lf hops) u hd op f

/-- `FreeTempChannel(c)` is `DeleteChannel(c.GetName())`: it unbinds whatever object the
name denotes now (see the witness below: freeing a stale handle deletes its namesake) -/
theorem free_is_delete_of_the_name (ser : String → List Nat) (s : HSt) (u : Nat) (e : String × Chan)
    (h : s.findObj u = some e) : hstep ser s (.hfree u) = hstep ser s (.name (.delch e.1)) := by
  simp only [hstep, h]

/-- **Fresh session ids, from the history alone.**  As long as fewer than 2^32 − 2
connections were ever added, after any history the counter equals 1 + the number of adds,
every live id is at most the counter, and the next `AddSession` hands out counter + 1,
which no live connection has — the hypotheses of `session_id_fresh` hold in every such
reachable state. -/
theorem session_ids_fresh_before_wrap (ser : String → List Nat) (lf : String) (ops : List Op)
    (h : ops.countP isSadd + 2 < 2 ^ 32) :
    let fr := (run ser (init lf) ops).front
    fr.nextId = 1 + ops.countP isSadd ∧ (∀ x ∈ fr.live, x ≤ fr.nextId) ∧
    fr.addSession.2 = fr.nextId + 1 ∧ fr.addSession.2 ∉ fr.live ∧ fr.addSession.1.live = fr.live ++ [fr.nextId + 1] := by
  intro fr
  obtain ⟨h1, h2⟩ := fresh_run ser ops (init lf) (by simp only [init]; omega) (by simp [init])
  have h1' : fr.nextId = 1 + ops.countP isSadd := h1
  obtain ⟨a, b, c, _⟩ := session_id_fresh fr (by omega) h2
  exact ⟨h1', h2, a, b, c⟩

/-! ### non-vacuity: concrete histories meeting the hypotheses, with their concrete values -/

def demo : List Op :=
  [.join "a" "f1" 2, .join "a" "f1" 3, .join "a" "f2" 7, .join "a" "f1" 2, .join "b" "f1" 9,
   .sadd, .sadd, .leave "a" "f1" 2, .leave "a" "f2" 7, .leave "a" "f1" 5]

/-- channel exists; the first of the two `2`s went, `3, 2` stay in join order; the
group of `f2` became empty and is still addressed with an empty list; channel `b`
and the absent id `5` play no role; the local front `f1` delivers to the live
sessions 2 and 3 -/
example : bcastObs (fun s => s.toList.map Char.toNat) "f1" demo "a" "r" "m"
    = .pushes [⟨"f1", [3, 2], "r", "m"⟩, ⟨"f2", [], "r", "m"⟩] [⟨3, "r", [109]⟩, ⟨2, "r", [109]⟩] := by decide

example : chanExists demo "a" = true ∧ chanExists demo "zz" = false ∧
    members demo "a" "f1" = some [3, 2] ∧ members demo "a" "f2" = some [] ∧ members demo "a" "f3" = none := by decide

example : tally demo "a" "f1" 2 = ⟨2, 1⟩ ∧ joinSeq demo "a" "f1" = [2, 3, 2] ∧
    (tally demo "a" "f2" 7).adds = (tally demo "a" "f2" 7).left ∧ (tally demo "a" "f1" 5).adds = (tally demo "a" "f1" 5).left := by decide

/-- the demo broadcast seen from the directory [f1, f2, f3]: one request towards f2 (whose
group became empty), none towards f1 (local) or f3 (no group); a front-end f2 hosting the
same connection numbers 2 and 3 receives nothing of f1's list -/
example : forwarded "f1" ["f1", "f2", "f3"] [⟨"f1", [3, 2], "r", "m"⟩, ⟨"f2", [], "r", "m"⟩] = [⟨"f2", [], "r", "m"⟩] ∧
    remoteDeliveries (fun _ => []) "f2" [2, 3] [⟨"f2", [], "r", "m"⟩] = [] ∧
    remoteDeliveries (fun _ => []) "f2" [2, 3] (forwarded "f1" ["f1", "f2"] [⟨"f1", [3, 2], "r", "m"⟩, ⟨"f2", [3, 9], "r", "m"⟩])
      = [⟨3, "r", []⟩] := by decide

/-- removals at the first, middle and last position and of the only element -/
example : removeGo [1, 2, 3, 4] 1 = [2, 3, 4] ∧ removeGo [1, 2, 3, 4] 3 = [1, 2, 4] ∧
    removeGo [1, 2, 3, 4] 4 = [1, 2, 3] ∧ removeGo [7] 7 = [] ∧ removeGo [1, 2, 1] 1 = [2, 1] ∧
    removeGo [1, 2] 9 = [1, 2] := by decide

/-- delete then re-create: an empty channel with a new identity -/
example : bcastObs (fun _ => []) "f1" [.join "a" "f1" 2, .delch "a", .addch "a"] "a" "r" "m" = .pushes [] [] ∧
    (step (fun _ => []) (run (fun _ => []) (init "f1") [.join "a" "f1" 2, .delch "a"]) (.addch "a")).2 = .chan 2 := by
  decide

/-- `isolation` and `leave_absent_is_noop` have satisfiable hypotheses -/
example : ¬ targets "a" "f1" (.join "a" "f2" 1) ∧ ¬ targets "a" "f1" (.delch "b") ∧ targets "a" "f1" (.delch "a") := by
  simp [targets]

example : (5 : Nat) ∉ (view (run (fun _ => []) (init "f1") demo).svc "a" "f1").getD [] := by decide

/-- `session_id_fresh` hypotheses hold in the initial front state -/
example : (init "f1").front.nextId + 1 < 2 ^ 32 ∧ ∀ x ∈ (init "f1").front.live, x ≤ (init "f1").front.nextId := by
  simp [init]

/-- `session_ids_fresh_before_wrap`: the demo history added two connections -/
example : demo.countP isSadd + 2 < 2 ^ 32 ∧ (run (fun _ => []) (init "f1") demo).front.nextId = 3 := by decide

/-- a push from inside OnSessionAdd listing the new connection (id 2) twice and a dead id;
a push from inside OnSessionRemove of 2 listing 2 and 3 -/
example : pushMsg (init "f1").front.addSession.1.live [2, 9, 2] "r" [] = [⟨2, "r", []⟩, ⟨2, "r", []⟩] ∧
    pushMsg ((run (fun _ => []) (init "f1") [.sadd, .sadd]).front.removeSession 2).1.live [2, 3] "r" [] = [⟨3, "r", []⟩] := by
  decide

/-- a closed-but-registered connection (3) listed first, in the middle and last -/
example : pushMsg (⟨[2, 3, 4], 4, [3]⟩ : Front).reachable [3, 2, 3, 4, 3] "r" [] = [⟨2, "r", []⟩, ⟨4, "r", []⟩] := by decide

/-- fan-out with a dead id in the middle and a duplicate -/
example : pushMsg [2, 3] [2, 9, 3, 2] "r" [1] = [⟨2, "r", [1]⟩, ⟨3, "r", [1]⟩, ⟨2, "r", [1]⟩] := by decide


/-- a back-end issuer named like a front it has members for: nothing in place, one request to
itself (if the directory knows the name) and one to the other front -/
example : bcastObsB (fun _ => []) "f1" demo "a" "r" "m" = .pushes [⟨"f1", [3, 2], "r", "m"⟩, ⟨"f2", [], "r", "m"⟩] [] ∧
    forwardedFrom (run (fun _ => []) (initBackend "f1") demo) ["f1", "f2", "f3"] [⟨"f1", [3, 2], "r", "m"⟩, ⟨"f2", [], "r", "m"⟩]
      = [⟨"f1", [3, 2], "r", "m"⟩, ⟨"f2", [], "r", "m"⟩] ∧
    forwardedFrom (run (fun _ => []) (initBackend "f1") demo) ["f2"] [⟨"f1", [3, 2], "r", "m"⟩, ⟨"f2", [], "r", "m"⟩]
      = [⟨"f2", [], "r", "m"⟩] := by decide

/-! ### retained handles: non-vacuity and witnesses -/

def demoH : List HOp :=
  [.name (.join "a" "f1" 2), .name (.join "a" "f2" 7), .name .sadd, .name .sadd, .name (.delch "a"),
   .name (.join "a" "f1" 5), .hjoin 1 "f1" 3, .hleave 1 "f2" 7, .hjoin 2 "f1" 6, .hleave 2 "f1" 3]

/-- object #1 was deleted by name and `a` re-created as #2: the stale handle still reaches
its own members (2 from before the delete, 3 added through the handle; f2 emptied through
the handle), the name reaches the new object's (5, and 6 added through handle #2); leaving
3 through handle #2 removed nothing from #1 -/
example : (hstep (fun _ => []) (hstate (fun _ => []) "f1" demoH) (.hbcast 1 "r" "m")).2
      = .pushes [⟨"f1", [2, 3], "r", "m"⟩, ⟨"f2", [], "r", "m"⟩] [⟨2, "r", []⟩, ⟨3, "r", []⟩] ∧
    (hstep (fun _ => []) (hstate (fun _ => []) "f1" demoH) (.name (.bcast "a" "r" "m"))).2
      = .pushes [⟨"f1", [5, 6], "r", "m"⟩] [] ∧
    (hstep (fun _ => []) (hstate (fun _ => []) "f1" demoH) (.hbcast 2 "r" "m")).2
      = .pushes [⟨"f1", [5, 6], "r", "m"⟩] [] ∧
    (hstep (fun _ => []) (hstate (fun _ => []) "f1" demoH) (.hbcast 3 "r" "m")).2 = .nil := by decide

/-- the resolved operations of `demoH`: the joins by name went to #1 before the delete and to
#2 after it; folding them per object gives what the broadcasts above list -/
example : otrace (fun _ => []) (hinit "f1") demoH =
    [some ⟨1, "f1", true, 2⟩, some ⟨1, "f2", true, 7⟩, none, none, none, some ⟨2, "f1", true, 5⟩,
     some ⟨1, "f1", true, 3⟩, some ⟨1, "f2", false, 7⟩, some ⟨2, "f1", true, 6⟩, some ⟨2, "f1", false, 3⟩] ∧
    (otrace (fun _ => []) (hinit "f1") demoH).foldl (applyT 1 "f1") none = some [2, 3] ∧
    (otrace (fun _ => []) (hinit "f1") demoH).foldl (applyT 1 "f2") none = some [] ∧
    (otrace (fun _ => []) (hinit "f1") demoH).foldl (applyT 2 "f1") none = some [5, 6] ∧
    (hstate (fun _ => []) "f1" demoH).findObj 3 = none := by decide

/-- `Detached` is met: in the demo state object #1 left the map and is retained; #2 is bound;
handle #1 resolves to the detached object with the name it was created under -/
example : Detached (hstate (fun _ => []) "f1" demoH) 1 ∧ ¬ Detached (hstate (fun _ => []) "f1" demoH) 2 ∧
    (hstate (fun _ => []) "f1" demoH).findObj 1 = some ("a", ⟨1, [("f1", [2, 3]), ("f2", [])]⟩) := by
  unfold Detached; decide

/-- the hypotheses of the handle theorems are met: after the first four operations `a`
denotes object #1 -/
example : (hstate (fun _ => []) "f1" (demoH.take 4)).st.svc.getChannel "a" = some ⟨1, [("f1", [2]), ("f2", [7])]⟩ := by decide

/-- **witness**: `FreeTempChannel` on the stale handle #1 deletes the channel now bound to
its name (#2), which a by-name broadcast then no longer finds; the holder of #2 still reaches 5, 6 -/
example : ((hstep (fun _ => []) (hstate (fun _ => []) "f1" demoH) (.hfree 1)).1.st.svc.getChannel "a") = none ∧
    (hstep (fun _ => []) (hstep (fun _ => []) (hstate (fun _ => []) "f1" demoH) (.hfree 1)).1 (.hbcast 2 "r" "m")).2
      = .pushes [⟨"f1", [5, 6], "r", "m"⟩] [] := by decide

/-! ### direct pushes and unserialisable messages -/

/-- **A direct push** (`channel.Service.PushMessageByIds / PushMessageById`, no channel involved), issued in
any state `s` of the issuing service, towards any front name, with any id list, under any directory:
the push layer is handed exactly the one tuple `(f, ids)`; the listed open live connections of the issuing
service receive it in place (once per occurrence, in list order: `pushMsg`, to which `front_fanout` and
`closed_connection_does_not_affect_others` apply) iff `f` is the issuing service and it has a "sessions"
component, and nothing is delivered in place otherwise; exactly one `sys.pushmsg` carrying the caller's list
is sent onward iff the push was not delivered in place and the directory knows `f`, none otherwise (an
unknown front is dropped); a front-end `b` handling what was sent delivers to its listed live connections iff
it is the addressed one; in place and onward exclude each other; and the single-id form is the one-element
list. -/
theorem direct_push_reaches_exactly_the_listed_connections (ser : String → List Nat) (s : St) (dir : List String)
    (f : String) (ids : List Nat) (x : Nat) (route msg : String) :
    directObs ser s (directPush f ids route msg) =
      .pushes [⟨f, ids, route, msg⟩]
        (if f = s.localFront ∧ s.noSessions = false then pushMsg s.front.reachable ids route (ser msg) else []) ∧
    forwardedFrom s dir (directPush f ids route msg) =
      (if (f ≠ s.localFront ∨ s.noSessions = true) ∧ f ∈ dir then [⟨f, ids, route, msg⟩] else []) ∧
    (∀ b blive, remoteDeliveries ser b blive (forwardedFrom s dir (directPush f ids route msg)) =
      if ((f ≠ s.localFront ∨ s.noSessions = true) ∧ f ∈ dir) ∧ f = b then pushMsg blive ids route (ser msg) else []) ∧
    ((f = s.localFront ∧ s.noSessions = false) → forwardedFrom s dir (directPush f ids route msg) = []) ∧
    directPush1 f x route msg = directPush f [x] route msg := by
  have hfw : forwardedFrom s dir (directPush f ids route msg) =
      (if (f ≠ s.localFront ∨ s.noSessions = true) ∧ f ∈ dir then [⟨f, ids, route, msg⟩] else []) := by
    simp only [forwardedFrom, directPush, List.filter_cons, List.filter_nil]
    by_cases h1 : f = s.localFront <;> by_cases h2 : s.noSessions = true <;> by_cases h3 : f ∈ dir <;>
      simp [h1, h2, h3]
  refine ⟨?_, hfw, ?_, ?_, rfl⟩
  · simp only [directObs, directPush, localDeliveries]
    cases hn : s.noSessions <;> by_cases h1 : f = s.localFront <;> simp [h1]
  · intro b blive
    rw [hfw]
    by_cases hc : (f ≠ s.localFront ∨ s.noSessions = true) ∧ f ∈ dir
    · rw [if_pos hc]
      by_cases hb : f = b
      · rw [if_pos ⟨hc, hb⟩]; simp [remoteDeliveries, hb]
      · rw [if_neg (fun h => hb h.2)]; simp [remoteDeliveries, hb]
    · rw [if_neg hc, if_neg (fun h => hc h.1)]; simp [remoteDeliveries]
  · intro h
    rw [hfw]
    have : ¬ ((f ≠ s.localFront ∨ s.noSessions = true) ∧ f ∈ dir) := by
      rintro ⟨h1 | h1, _⟩
      · exact h1 h.1
      · rw [h.2] at h1; cases h1
    simp [this]

/-- **A direct push to the issuing front-end, connection by connection.**  In any state of an issuing
service that has the component, a direct push under its own name reaches every registered open connection
exactly as often as it is listed, no closed or unregistered one, in list order, each delivery carrying the
route and the serialized message. -/
theorem direct_push_in_place_counts (ser : String → List Nat) (s : St) (ids : List Nat) (route msg : String)
    (ps : List Push) (dl : List Delivery) (hs : s.noSessions = false)
    (h : directObs ser s (directPush s.localFront ids route msg) = .pushes ps dl) :
    (∀ x ∈ s.front.live, x ∉ s.front.closed → (dl.map (·.id)).count x = ids.count x) ∧
    (∀ x ∈ s.front.closed, (dl.map (·.id)).count x = 0) ∧
    (∀ x, x ∉ s.front.live → (dl.map (·.id)).count x = 0) ∧
    (dl.map (·.id)).Sublist ids ∧
    (∀ d ∈ dl, d.route = route ∧ d.data = ser msg) := by
  have h0 := (direct_push_reaches_exactly_the_listed_connections ser s [] s.localFront ids 0 route msg).1
  rw [h0] at h
  injection h with _ hdl
  simp only [hs, and_self, if_true] at hdl
  subst hdl
  obtain ⟨c1, c2, c3, c4, _⟩ := closed_connection_does_not_affect_others s.front ids route (ser msg)
  exact ⟨c1, c2, c3, c4, (front_fanout s.front.reachable ids route (ser msg)).2.2.2.1⟩

/-- **Who receives a push does not depend on the serializer.**  `pushLocal` / `pushMessageByIds` drop the
error of `Serializer.Marshal` (`pmsg.Data, _ = ...`): a message the serializer rejects goes out with empty
data — a serializer with `ser msg = []`.  For any two serializers, any state, any tuples (of a broadcast or a
direct push): the connections reached, their order, multiplicity and routes are the same, in place and at
any front-end handling the onward requests; only the payload differs, and it is always the serializer's
output for the message of the tuple that caused the delivery. -/
theorem recipients_do_not_depend_on_the_serializer (ser ser' : String → List Nat) (s : St) (b : String)
    (blive : List Nat) (ps : List Push) :
    (localDeliveries ser s ps).map (fun d => (d.id, d.route)) = (localDeliveries ser' s ps).map (fun d => (d.id, d.route)) ∧
    (remoteDeliveries ser b blive ps).map (fun d => (d.id, d.route)) =
      (remoteDeliveries ser' b blive ps).map (fun d => (d.id, d.route)) ∧
    (∀ d ∈ localDeliveries ser s ps, ∃ p ∈ ps, d.data = ser p.msg ∧ d.route = p.route ∧ d.id ∈ p.ids) := by
  refine ⟨?_, ?_, ?_⟩
  · unfold localDeliveries
    cases s.noSessions
    · simp only [Bool.false_eq_true, if_false]
      induction ps with
      | nil => rfl
      | cons p ps ih =>
        simp only [List.flatMap_cons, List.map_append, ih]
        congr 1
        by_cases hp : p.front = s.localFront <;> simp [hp, pushMsg]
    · simp
  · unfold remoteDeliveries
    induction ps with
    | nil => rfl
    | cons p ps ih =>
      simp only [List.flatMap_cons, List.map_append, ih]
      congr 1
      by_cases hp : p.front = b <;> simp [hp, pushMsg]
  · intro d hd
    unfold localDeliveries at hd
    cases hn : s.noSessions
    · simp only [hn, Bool.false_eq_true, if_false, List.mem_flatMap] at hd
      obtain ⟨p, hp, hd⟩ := hd
      by_cases hf : p.front = s.localFront
      · simp only [hf, if_true, pushMsg, List.mem_map, List.mem_filter] at hd
        obtain ⟨i, ⟨hi, _⟩, rfl⟩ := hd
        exact ⟨p, hp, rfl, rfl, hi⟩
      · simp [hf] at hd
    · simp [hn] at hd

/-- a direct push to the issuing front-end listing a live (2), an unknown (9) and the live one again: in place,
nothing onward; to the other known front f2: one request; to an unknown name: nothing at all; and the same
push with a message the serializer rejects reaches the same connections with empty data -/
example : directObs (fun _ => [7]) (run (fun _ => []) (init "f1") demo) (directPush "f1" [2, 9, 2] "r" "m") =
      .pushes [⟨"f1", [2, 9, 2], "r", "m"⟩] [⟨2, "r", [7]⟩, ⟨2, "r", [7]⟩] ∧
    forwardedFrom (run (fun _ => []) (init "f1") demo) ["f1", "f2", "f3"] (directPush "f1" [2, 9, 2] "r" "m") = [] ∧
    forwardedFrom (run (fun _ => []) (init "f1") demo) ["f1", "f2", "f3"] (directPush "f2" [2] "r" "m") = [⟨"f2", [2], "r", "m"⟩] ∧
    forwardedFrom (run (fun _ => []) (init "f1") demo) ["f1", "f2", "f3"] (directPush "nowhere" [2] "r" "m") = [] ∧
    directObs (fun _ => []) (run (fun _ => []) (init "f1") demo) (directPush "f1" [2, 9, 2] "r" "m") =
      .pushes [⟨"f1", [2, 9, 2], "r", "m"⟩] [⟨2, "r", []⟩, ⟨2, "r", []⟩] := by decide

/-- the hypotheses of `direct_push_in_place_counts` are met by the demo state (issuer f1 with the component) -/
example : (run (fun _ => []) (init "f1") demo).noSessions = false ∧ (run (fun _ => []) (init "f1") demo).localFront = "f1" ∧
    (run (fun _ => []) (init "f1") demo).front.live = [2, 3] := by decide

/-! ### what a plausible wrong `Remove` would break (witnesses used as seeded mutations) -/

/-- swap-with-last removal keeps the multiset but not the join order -/
def removeSwap (l : List Nat) (x : Nat) : List Nat :=
  match findIndex l x with
  | none => l
  | some i => (l.set i (l.getLastD 0)).dropLast

theorem swap_remove_breaks_join_order :
    removeSwap [1, 2, 3] 1 = [3, 2] ∧ ¬ (removeSwap [1, 2, 3] 1).Sublist [1, 2, 3] := by decide

end Cell2v.Props.C16
