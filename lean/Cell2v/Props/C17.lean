import Cell2v.Lemmas.Events
import Cell2v.Lemmas.EventsAlive
import Cell2v.Lemmas.EventsOwner
/-!
C17 — event centres call exactly the current subscribers, once per publication.

All theorems are about `Reach w`: worlds reachable in the model of the *repaired* code
(`Cfg.fixed`) from any centre configuration, with **any** listener templates (scripts:
subscribe / unsubscribe self, other, new; nested and global publish; clear), by **any**
sequence of top-level calls and owner drains, under **any** iteration order of the Go maps
(the guide).  `w.out` is the trace, newest token first.  Only property statements,
non-vacuity examples and defect witnesses live here.
-/
set_option linter.unusedSimpArgs false
namespace Cell2v.Props.C17
open Cell2v.Events

/-! ### exactly the current subscribers, once -/

/-- One iteration of a dispatch loop (publication `p` of name `e` on centre `c` with published args `a`):
(1) if it invokes a listener, that listener was not invoked before for `p`, is subscribed *right now* to
exactly (c, e), and receives its bound arguments followed by the published ones; on a local centre it
was already subscribed when the delivery started (a listener subscribed during the publication is not
called for it; the light centre ranges over the live map and may or may not call it);
(2) if the loop ends while the centre is running, every listener that was subscribed when the delivery
started (`snap`) and still is has been invoked.  Together with `publish_at_most_once`: each listener
subscribed over the whole delivery is invoked exactly once. -/
theorem publish_calls_current_once {w : World} (h : Reach w) {p c e : Nat} {a snap called : List Nat} {rest : List Frame}
    (hst : w.stack = .disp p c e a snap called :: rest) (hb : w.blocked = none) :
    (∀ p' c' e' id args a', (step w).out = .inv p' c' e' id args a' :: w.out →
        p' = p ∧ c' = c ∧ e' = e ∧ a' = a ∧ id ∉ called ∧
        (∃ l ∈ w.subs, l.c = c ∧ l.e = e ∧ l.id = id ∧ args = l.bound ++ a) ∧
        (∀ ct, w.cs[c]? = some ct → ct.light = false → id ∈ snap)) ∧
    ((step w).stack = rest → ∀ ct, w.cs[c]? = some ct → ct.running = true →
        ∀ l ∈ w.subs, l.c = c → l.e = e → l.id ∈ snap → l.id ∈ called) := by
  have hc := (reach_fix h).cfg
  have hstep : step w = stepDisp w rest p c e a snap called := by simp [step, hb, hst]
  rw [hstep]
  unfold stepDisp closeDisp
  split
  · rename_i hnone
    refine ⟨fun p' c' e' id args a' ho => by simp at ho, fun _ ct hct => by simp [hnone] at hct⟩
  · rename_i ct hsome
    rw [defectOf_fixed hc]
    split
    · rename_i hnr
      refine ⟨fun p' c' e' id args a' ho => by simp at ho, fun _ ct' hct hr => ?_⟩
      rw [hsome] at hct; injection hct with hct; subst hct
      simp [hr] at hnr
    · rename_i hrun
      have hr : ct.running = true := by simpa using hrun
      split
      · rename_i g hp
        refine ⟨fun p' c' e' id args a' ho => by simp at ho, fun _ ct' _ _ l hl hlc hle hsnap => ?_⟩
        have hmust := pick_none hp
        apply Classical.byContradiction
        intro hnc
        have : l ∈ mustOf w ct c e snap called := by
          simp only [mustOf, hr, if_true, List.mem_filter, Bool.and_eq_true, List.contains_eq_mem, decide_eq_true_eq,
            Bool.not_eq_true', decide_eq_false_iff_not]
          exact ⟨lisOf_mem.mpr ⟨hl, hlc, hle⟩, hsnap, hnc⟩
        rw [hmust] at this; simp at this
      · rename_i l g hp
        refine ⟨?_, ?_⟩
        · intro p' c' e' id args a' ho
          simp only [List.cons.injEq, Tok.inv.injEq, and_true] at ho
          obtain ⟨rfl, rfl, rfl, rfl, rfl, rfl⟩ := ho
          have hl : l ∈ lisOf w c e ∧ l.id ∉ called ∧ (ct.light = false → l.id ∈ snap) := by
            rcases pick_mem hp with hm | hm
            · exact ⟨(mustOf_mem hr hm).1, (mustOf_mem hr hm).2.2, fun _ => (mustOf_mem hr hm).2.1⟩
            · exact ⟨(mayOf_mem hm).1, (mayOf_mem hm).2.2.1, fun hlt => by simp [(mayOf_mem hm).2.2.2] at hlt⟩
          obtain ⟨hl1, hl2, hl3⟩ := lisOf_mem.mp hl.1
          refine ⟨rfl, rfl, rfl, rfl, hl.2.1, ⟨l, hl1, hl2, hl3, rfl, rfl⟩, ?_⟩
          intro ct' hct hlt
          rw [hsome] at hct; injection hct with hct; subst hct
          exact hl.2.2 hlt
        · intro hs
          have := congrArg List.length hs
          simp at this
          omega

/-- Trace form of clause (2): when a dispatch loop ends while its centre is running, the trace holds an
invocation, for this publication, of every listener that was subscribed when the delivery started and still
is — with `publish_at_most_once`, exactly one. -/
theorem publish_reaches_every_current_listener {w : World} (h : Reach w) {p c e : Nat} {a snap called : List Nat}
    {rest : List Frame} (hst : w.stack = .disp p c e a snap called :: rest) (hb : w.blocked = none)
    (hend : (step w).stack = rest) (ct : CAttr) (hct : w.cs[c]? = some ct) (hrun : ct.running = true)
    (l : Sub) (hl : l ∈ w.subs) (hlc : l.c = c) (hle : l.e = e) (hsnap : l.id ∈ snap) :
    ∃ args, Tok.inv p c e l.id args a ∈ w.out := by
  have hcalled := (publish_calls_current_once h hst hb).2 hend ct hct hrun l hl hlc hle hsnap
  exact (reach_fr h).called_inv p c e a snap called (by simp [disps, hst, List.filter_cons, isDisp]) l.id hcalled

/-- No listener is invoked twice for one publication (publication numbers are unique per delivery). -/
theorem publish_at_most_once {w : World} (h : Reach w) (post pre : List Tok) (p c e id : Nat) (args a : List Nat)
    (hs : w.out = post ++ .inv p c e id args a :: pre) : ∀ c' e' args' a', Tok.inv p c' e' id args' a' ∉ pre :=
  once_split post pre p c e id args a (hs ▸ (reach_fr h).once)

/-- The snapshot of a delivery is the set of listeners subscribed to (c, e) at delivery time. -/
theorem snapshot_is_current (w : World) (ct : CAttr) (c e : Nat) (a : List Nat) :
    ∃ locks, (openDisp w ct c e a).stack = .disp w.pubs c e a ((lisOf w c e).map (·.id)) [] :: w.stack ∧
      (openDisp w ct c e a).locks = locks := by
  unfold openDisp; simp only []; split <;> exact ⟨_, rfl, rfl⟩

/-- Every recorded invocation passes the listener's bound arguments followed by the arguments of the
publication being delivered. -/
theorem args_bound_then_published {w : World} (h : Reach w) (p c e id : Nat) (args a : List Nat)
    (hm : Tok.inv p c e id args a ∈ w.out) :
    ∃ b, Tok.sub c e id b true ∈ w.out ∧ args = b ++ a ∧ Tok.opn p c e a ∈ w.out :=
  (reach_sub h).invok p c e id args a hm

/-- A listener is only ever invoked for the centre and event name it subscribed to: whatever
subscription token exists for its id names the same centre and name as the invocation. -/
theorem other_names_untouched {w : World} (h : Reach w) (p c e id : Nat) (args a : List Nat)
    (hm : Tok.inv p c e id args a ∈ w.out) (c' e' : Nat) (b' : List Nat)
    (hs : Tok.sub c' e' id b' true ∈ w.out) : c' = c ∧ e' = e ∧ Tok.opn p c e a ∈ w.out := by
  obtain ⟨b, h1, _, h3⟩ := (reach_sub h).invok p c e id args a hm
  obtain ⟨hc, he, _⟩ := (reach_sub h).sub_unique id c' e' b' c e b hs h1
  exact ⟨hc, he, h3⟩

/-- D25 (review finding 3), the statement the model carries: an invocation's argument list is a VALUE fixed when the
invocation is logged — the listener's bound arguments followed by the arguments of ITS publication `p` — whatever the
trace contains afterwards (`post`: the listener's own script, nested publications of the same event to the same
listener, other deliveries), and publication `p` invoked that listener only this once.  The Go code before 4bb66e0
built the list with `append(l.Args, args...)` and so shared the subscriber's backing array between invocations
(`d25_append_in_place_overwrites`); the repaired code copies, which is what `l.bound ++ a` models. -/
theorem nested_publications_leave_args_intact {w : World} (h : Reach w) (post pre : List Tok) (p c e id : Nat)
    (args a : List Nat) (hs : w.out = post ++ .inv p c e id args a :: pre) :
    (∃ b, Tok.sub c e id b true ∈ w.out ∧ args = b ++ a ∧ Tok.opn p c e a ∈ w.out) ∧
    (∀ c' e' args' a', Tok.inv p c' e' id args' a' ∉ pre) :=
  ⟨args_bound_then_published h p c e id args a (by rw [hs]; simp), publish_at_most_once h post pre p c e id args a hs⟩

/-- Go's `append(s, xs...)` on a slice `s = arr[:n]` of a backing array `arr`: with room (`n + |xs| ≤ |arr|`) the
elements are written in place behind position `n`; without room a new array is allocated (the old one is untouched). -/
def goAppend (arr : List Nat) (n : Nat) (xs : List Nat) : List Nat × List Nat :=
  if n + xs.length ≤ arr.length then
    let arr' := arr.take n ++ xs ++ arr.drop (n + xs.length)
    (arr', arr')                       -- (the subscriber's backing array afterwards, the array the result slice views)
  else (arr, arr.take n ++ xs)

/-- D25 as it was: bound args `[7]` in a slice with three spare slots; the outer invocation is called with
`append(bound, 1)` and reads `[7, 1]`; a nested publication of the same event calls the listener with
`append(bound, 2)`, and the OUTER invocation now reads `[7, 2]`.  Without spare capacity (cap = len) nothing is shared. -/
theorem d25_append_in_place_overwrites :
    (let (arr1, _) := goAppend [7, 0, 0, 0] 1 [1]
     let (arr2, _) := goAppend arr1 1 [2]
     -- the outer invocation's arguments are the first two cells of the shared array: on entry, after the nested call
     (arr1.take 2, arr2.take 2)) = ([7, 1], [7, 2]) ∧
    (goAppend [7, 0, 0, 0] 1 [1]).1 = [7, 1, 0, 0] ∧ (goAppend [7, 1, 0, 0] 1 [2]).1 = [7, 2, 0, 0] ∧
    (goAppend [7] 1 [1]).1 = [7] ∧ (goAppend [7] 1 [2]).1 = [7] := by decide

/-! ### never again after unsubscribe / clear -/

/-- After `Unsubscribe` removed listener `id` (token `unsub … true`), no later invocation of `id`. -/
theorem never_after_unsubscribe {w : World} (h : Reach w) (post pre : List Tok) (c e id : Nat)
    (hs : w.out = post ++ .unsub c e id true :: pre) : ∀ p c' e' args a, Tok.inv p c' e' id args a ∉ post :=
  good_split post _ (hs ▸ (reach_ids h).good) id (by simp [deadOf])

/-- After `Clear` of a centre (token lists the listeners it dropped), none of them is invoked again —
local and light centre alike, including the deliveries that were in progress. -/
theorem never_after_clear {w : World} (h : Reach w) (post pre : List Tok) (c : Nat) (ids : List Nat) (id : Nat)
    (hid : id ∈ ids) (hs : w.out = post ++ .clear c ids :: pre) : ∀ p c' e' args a, Tok.inv p c' e' id args a ∉ post :=
  good_split post _ (hs ▸ (reach_ids h).good) id (by simp [deadOf, hid])

/-- what the two tokens mean: `Clear` reports every listener of the centre, `Unsubscribe` reports `true`
exactly when the listener was in that list -/
theorem clear_token_lists_current (w : World) (c : Nat) (ct : CAttr) (hc : w.cs[c]? = some ct) :
    (doClear w c).out = .clear c ((w.subs.filter (fun l => l.c == c)).map (·.id)) :: w.out ∧
    (doClear w c).subs = w.subs.filter (fun l => !(l.c == c)) := by
  simp [doClear, hc, emit]

theorem unsub_token_hit (w : World) (c e id : Nat) :
    ∃ w', removeSub w c e id = emit w' (.unsub c e id ((lisOf w c e).any (fun l => l.id == id))) ∧
      w'.subs = w.subs.filter (fun l => !(l.c == c && l.e == e && l.id == id)) := by
  unfold removeSub; simp only []; split <;> exact ⟨_, rfl, rfl⟩

/-- a removed id is never handed out again, so "never invoked again" cannot be defeated by re-use -/
theorem ids_never_reused {w : World} (h : Reach w) :
    (w.subs.map (·.id)).Nodup ∧ (∀ l ∈ w.subs, l.id ∈ w.used) ∧ ∀ id ∈ deadOf w.out, id ∈ w.used ∧ ∀ l ∈ w.subs, l.id ≠ id :=
  ⟨(reach_ids h).nodup, (reach_ids h).used, fun id hid => ⟨(reach_ids h).dead_used id hid, (reach_ids h).dead_gone id hid⟩⟩

/-- Light centre, receiver API: `UnsubscribeWithReceiver(name, r, cb)` removes a listener of that name whose callback
is `cb` and that was subscribed either without a receiver or with receiver `r` — whenever there is one — and
`SubscribeWithReceiver` is refused in exactly that situation (the callback is never registered twice). -/
theorem receiver_matching_rule (w : World) (c e f r : Nat) (ct : CAttr) (hc : w.cs[c]? = some ct) (hl : ct.light = true)
    (hr : r ≠ 0) (l : Sub) (hm : l ∈ lisOf w c e) (hfn : l.fn = f) (hrecv : recvOf w l.id = 0 ∨ recvOf w l.id = r) :
    (∃ l', l' ∈ lisOf w c e ∧ recvMatch w f r l' = true ∧ doUnsubR w c e f r = removeSub w c e l'.id) ∧
    (∀ t tm, tmplOf w t = some tm → tm.fn = f → t ∉ w.used → ct.running = true →
      (doSubR w c e t r).subs = w.subs) := by
  have hmatch : recvMatch w f r l = true := by
    simp only [recvMatch, Bool.and_eq_true, beq_iff_eq, Bool.or_eq_true]
    exact ⟨hfn, hrecv⟩
  have hr' : (r == 0) = false := by simpa using hr
  refine ⟨?_, ?_⟩
  · cases hf : (lisOf w c e).find? (recvMatch w f r) with
    | none =>
      have := List.find?_eq_none.mp hf l hm
      simp [hmatch] at this
    | some l' =>
      refine ⟨l', List.mem_of_find?_eq_some hf, List.find?_some hf, ?_⟩
      simp [doUnsubR, hc, hl, hr', hf]
  · intro t tm ht htf hu hrun
    have hu' : w.used.contains t = false := by simpa using hu
    have hany : (lisOf { w with used := t :: w.used } c e).any (recvMatch { w with used := t :: w.used } tm.fn r) = true := by
      simp only [List.any_eq_true]
      exact ⟨l, hm, by rw [htf]; exact hmatch⟩
    simp only [doSubR, hc, ht, hl, hr', hu', hrun]
    simp [hany, emit]

/-! ### global centre -/

/-- For every (name, centre) pair on which nobody called the global centre's own Subscribe/Unsubscribe directly:
the global centre lists the centre under the name exactly when that list's Global flag is set; a live global
subscription keeps the centre registered; a registered centre has at least one listener of that name (the last
`Unsubscribe`, or `Clear`, deregisters). -/
theorem global_registration_tracks_listeners {w : World} (h : Reach w) :
    (∀ c e, (e, c) ∉ w.direct → ((e, c) ∈ w.greg ↔ (c, e) ∈ w.gflag)) ∧
    (∀ l ∈ w.subs, l.glob = true → (l.e, l.c) ∉ w.direct → (l.e, l.c) ∈ w.greg) ∧
    (∀ c e, (e, c) ∉ w.direct → (e, c) ∈ w.greg → ∃ l ∈ w.subs, l.c = c ∧ l.e = e) := by
  have hr := reach_reg h
  exact ⟨hr.iff, fun l hl hg hd => (hr.iff l.c l.e hd).mpr (hr.glob l hl hg),
         fun c e hd hm => hr.nonempty c e ((hr.iff c e hd).mp hm)⟩

theorem doGsub_greg (w : World) (e c : Nat) (add : Bool) (ct : CAttr) (hc : w.cs[c]? = some ct) (hl : ct.light = false) :
    (doGsub w e c add).greg = (if add then insertP (e, c) w.greg else eraseP (e, c) w.greg) ∧
    (doGsub w e c add).cs = w.cs := by
  simp [doGsub, hc, hl, emit]

/-- The global centre's registration is a set of centres per name: a direct `Subscribe(name, centre)` makes the
centre registered (however often it is repeated), a direct `Unsubscribe` makes it unregistered (whether or not it
was registered, however often), and neither touches any other (name, centre) pair. -/
theorem direct_registration_is_a_set (w : World) (e c : Nat) (ct : CAttr) (hc : w.cs[c]? = some ct)
    (hl : ct.light = false) :
    (e, c) ∈ (doGsub w e c true).greg ∧ (e, c) ∉ (doGsub w e c false).greg ∧
    (∀ add x, x ≠ (e, c) → (x ∈ (doGsub w e c add).greg ↔ x ∈ w.greg)) ∧
    (doGsub (doGsub w e c true) e c true).greg = (doGsub w e c true).greg ∧
    (doGsub (doGsub w e c false) e c false).greg = (doGsub w e c false).greg := by
  have h1 := fun add => doGsub_greg w e c add ct hc hl
  have h2 := fun add add' => doGsub_greg (doGsub w e c add) e c add' ct (by rw [(h1 add).2]; exact hc) hl
  refine ⟨?_, ?_, ?_, ?_, ?_⟩
  · rw [(h1 true).1]; simp [mem_insertP]
  · rw [(h1 false).1]; simp [mem_eraseP]
  · intro add x hx
    rw [(h1 add).1]
    cases add <;> simp [mem_insertP, mem_eraseP, hx]
  · rw [(h2 true true).1, (h1 true).1]
    simp [insertP_idem]
  · rw [(h2 false false).1, (h1 false).1]
    simp [eraseP_idem]

/-- A direct subscribe that races with other calls (they run after the global centre looked the name's list up and
before it stores the centre): the racing script runs, then the subscription takes effect — so by
`direct_registration_is_a_set` the centre ends up registered whatever the racing calls did (unsubscribing the last
other centre of that name, clearing it, subscribing further centres …). -/
theorem racing_subscribe_is_script_then_subscribe (w : World) (e c t : Nat) (ct : CAttr) (hc : w.cs[c]? = some ct)
    (hl : ct.light = false) (ht : t ∉ w.hooked) :
    (doGsubH w e c t).stack = .script 0 (scriptOf w t ++ [.gsub e c]) :: w.stack ∧ (doGsubH w e c t).greg = w.greg := by
  have : w.hooked.contains t = false := by simpa using ht
  simp only [doGsubH, hc, hl, this, scriptOf, tmplOf]
  cases (List.find? (fun x => x.1 == t) w.tmpls) <;> simp

/-- A global publication appends exactly one event to the queue of every centre registered for the name —
through `GSubscribe` or through a direct `Subscribe` on the global centre — unless that queue already holds 999
events, and to no other centre; nothing else about any centre changes.  (No counter is consulted: a stray or
duplicate direct `Unsubscribe` earlier cannot make a registered centre miss the event.) -/
theorem global_once_per_registered_centre (w : World) (e : Nat) (a : List Nat) (c : Nat) (ct : CAttr)
    (hc : w.cs[c]? = some ct) :
    (doGpub w e a).cs[c]? = some (if (e, c) ∈ w.greg ∧ ct.queue.length < queueCap then
      { ct with queue := ct.queue ++ [(e, a)] } else ct) := by
  simp [doGpub, emit, enqAll_get, hc]

/-- A global publication appends exactly one event to the queue of every centre that has a live global
subscription to the name (and whose registration nobody removed by hand), unless that queue already holds 999
events; a centre without any listener of that name (and not registered by hand) receives nothing; nothing else
about any centre changes. -/
theorem global_once_per_subscribed_centre {w : World} (h : Reach w) (e : Nat) (a : List Nat) (c : Nat) (ct : CAttr)
    (hc : w.cs[c]? = some ct) (hd : (e, c) ∉ w.direct) :
    ((∃ l ∈ w.subs, l.c = c ∧ l.e = e ∧ l.glob = true) →
      (doGpub w e a).cs[c]? = some (if ct.queue.length < queueCap then { ct with queue := ct.queue ++ [(e, a)] } else ct)) ∧
    ((∀ l ∈ w.subs, ¬(l.c = c ∧ l.e = e)) → (doGpub w e a).cs[c]? = some ct) ∧
    (∃ ct', (doGpub w e a).cs[c]? = some ct' ∧ ct'.running = ct.running ∧ ct'.light = ct.light ∧ ct'.useChan = ct.useChan ∧
      (ct'.queue = ct.queue ∨ ct'.queue = ct.queue ++ [(e, a)])) := by
  have hr := reach_reg h
  have hget : (doGpub w e a).cs[c]? = some (if w.greg.contains (e, c) && ct.queue.length < queueCap then
      { ct with queue := ct.queue ++ [(e, a)] } else ct) := by
    simp [doGpub, emit, enqAll_get, hc]
  refine ⟨?_, ?_, ?_⟩
  · rintro ⟨l, hl, rfl, rfl, hg⟩
    have : w.greg.contains (l.e, l.c) = true := by
      simpa using (hr.iff l.c l.e hd).mpr (hr.glob l hl hg)
    rw [hget, this]; simp
  · intro hno
    have : w.greg.contains (e, c) = false := by
      apply Bool.eq_false_iff.mpr
      intro hcon
      obtain ⟨l, hl, h1, h2⟩ := hr.nonempty c e ((hr.iff c e hd).mp (by simpa using hcon))
      exact hno l hl ⟨h1, h2⟩
    rw [hget, this]; simp
  · rw [hget]
    split
    · exact ⟨_, rfl, rfl, rfl, rfl, Or.inr rfl⟩
    · exact ⟨_, rfl, rfl, rfl, rfl, Or.inl rfl⟩

/-- What the code does in the case the statement's "at least one global subscription" leaves open (review finding 4):
delivery of a global event follows the list's `Global` flag, nothing else.  The flag is set by the first `GSubscribe`
of the name and reset only when the list becomes EMPTY (or by `Clear`): a centre whose GSubscribe'd listeners are all
gone but which still has plain `Subscribe` listeners of that name keeps receiving the global event (and `dispatch`
hands it to those plain listeners) — see `plain_listeners_keep_global_delivery`. -/
theorem global_delivery_follows_global_flag {w : World} (h : Reach w) (e : Nat) (a : List Nat) (c : Nat) (ct : CAttr)
    (hc : w.cs[c]? = some ct) (hd : (e, c) ∉ w.direct) :
    (doGpub w e a).cs[c]? = some (if (c, e) ∈ w.gflag ∧ ct.queue.length < queueCap then
      { ct with queue := ct.queue ++ [(e, a)] } else ct) := by
  rw [global_once_per_registered_centre w e a c ct hc]
  have := (reach_reg h).iff c e hd
  simp only [this]

/-- listener 1 GSubscribes name 1, listener 2 Subscribes it, listener 1 unsubscribes: no global subscription is left,
the flag stays, the next global publication is still queued for the centre -/
def demoMid : World :=
  steps 6 (call (init Cfg.fixed [(false, false)] [(1, ⟨[], 0, []⟩), (2, ⟨[], 8, []⟩)])
    [.sub 0 1 1 true, .sub 0 1 2 false, .unsub 0 1 1, .gpub 1 [5]] [])

theorem plain_listeners_keep_global_delivery :
    (demoMid.subs.all (fun l => !l.glob)) = true ∧ demoMid.gflag = [(0, 1)] ∧ demoMid.direct = [] ∧
    (demoMid.cs.map (·.queue)) = [[(1, [5])]] := by decide

/-- The owner's `DoEvent` takes the oldest queued event and delivers it to the listeners subscribed to
that name at that moment (one dispatch per queued event, FIFO). -/
theorem drain_delivers_head (w : World) (rest : List Frame) (c n : Nat) (ct : CAttr) (e : Nat) (a : List Nat)
    (q : List (Nat × List Nat)) (hc : w.cs[c]? = some ct) (hq : ct.queue = (e, a) :: q) :
    stepDrain w rest c (n + 1) = openDisp { w with cs := setQueue w.cs c q, stack := .drain c n :: rest } ct c e a := by
  simp [stepDrain, hc, hq]

/-- Whatever waits in a centre's event queue was put there by a local `Publish` on that (useChan) centre or
by a global publication that reached the centre — the owner never delivers an event nobody published — and
the queue never holds more than 999 events. -/
theorem queued_events_were_published {w : World} (h : Reach w) (c : Nat) (ct : CAttr) (hc : w.cs[c]? = some ct) :
    (∀ e a, (e, a) ∈ ct.queue → Tok.pubq c e a ∈ w.out ∨ ∃ grew, Tok.gpub e a grew ∈ w.out ∧ c ∈ grew) ∧
    ct.queue.length ≤ queueCap :=
  ⟨fun e a hm => (reach_q h).prov c ct e a hc hm, (reach_q h).cap c ct hc⟩

/-! ### re-entrancy -/

/-- In the repaired code no list lock is held while a listener runs, so a listener that subscribes,
unsubscribes (itself, others, new ones) or clears never blocks; the only blocking operation left is the
blocking channel send of a local `Publish` with useChan on a full queue. -/
theorem reentrant_ops_do_not_block {w : World} (h : Reach w) : w.blocked ≠ some .reentrant ∧ w.locks = [] :=
  ⟨(reach_fix h).nob, (reach_fix h).locks⟩

/-! ### non-vacuity: concrete reachable worlds meeting the hypotheses -/

/-- listener 1 (bound [7]) unsubscribes itself when invoked; listener 2 is quiet -/
def tm1 : List (Nat × Tmpl) := [(1, ⟨[7], 0, [.unsub 0 1 1]⟩), (2, ⟨[], 8, []⟩), (3, ⟨[3], 1, [.clear 0]⟩)]

def demo1 : World :=
  steps 12 (call (steps 4 (call (init Cfg.fixed [(false, false)] tm1) [.sub 0 1 1 false, .sub 0 1 2 true] [])) [.pub 0 1 [5]] [])

theorem demo1_reach : Reach demo1 :=
  reach_steps (Reach.call _ _ (reach_steps (Reach.call _ _ (Reach.init _ _) rfl) 4) (by decide)) 12

example : demo1.out = [.cls 0, .inv 0 0 1 2 [5] [5], .unsub 0 1 1 true, .inv 0 0 1 1 [7, 5] [5], .opn 0 0 1 [5],
    .sub 0 1 2 [] true, .sub 0 1 1 [7] true] := by decide
example : demo1.greg = [(1, 0)] ∧ demo1.blocked = none := by decide

/-- clear from inside a listener, light centre, three listeners of the same name -/
def demo2 (cfg : Cfg) : World :=
  steps 12 (call (steps 5 (call (init cfg [(true, false)] [(1, ⟨[1], 0, [.clear 0]⟩), (2, ⟨[2], 0, [.clear 0]⟩), (3, ⟨[3], 0, [.clear 0]⟩)])
    [.sub 0 1 1 true, .sub 0 1 2 true, .sub 0 1 3 true] [])) [.pub 0 1 [5]] [])

example : (demo2 Cfg.fixed).out.take 4 = [.cls 0, .clear 0 [1, 2, 3], .inv 0 0 1 1 [1, 5] [5], .opn 0 0 1 [5]] := by decide

/-! ### "current subscriber" = subscribed and not removed since -/

/-- A subscription lasts until it is removed: a listener whose (successful) subscribe is in the trace and that no
later unsubscribe hit and no clear of its centre covered is still in the list of exactly that centre and name,
with the bound arguments it was subscribed with — whatever happened in between (ends of dispatch loops, nested
publications of the same name to nobody, other listeners coming and going, global publications, drains, direct
(un)registrations).  No step of the model other than a hitting unsubscribe / clear drops a listener. -/
theorem subscribed_until_removed {w : World} (h : Reach w) (c e id : Nat) (b : List Nat)
    (hsub : Tok.sub c e id b true ∈ w.out) (hlive : id ∉ deadOf w.out) :
    ∃ l ∈ lisOf w c e, l.id = id ∧ l.bound = b := by
  rcases (reach_alive h).alive c e id b hsub with hd | ⟨l, hl, h1, h2, h3, h4⟩
  · exact absurd hd hlive
  · exact ⟨l, lisOf_mem.mpr ⟨hl, h2, h3⟩, h1, h4⟩

/-- `GetSubscribeNum(name)` (and with it `HasSubscribers`): the centre's count is the number of listeners subscribed
to (c, e) and not removed since, each counted once: the ids in the list are pairwise distinct, and an id is in the
list exactly when the trace holds its successful subscribe to (c, e) and no removal of it. -/
theorem subscriber_count_is_live_subscriptions {w : World} (h : Reach w) (c e : Nat) :
    subNum w c e = ((lisOf w c e).map (·.id)).length ∧ ((lisOf w c e).map (·.id)).Nodup ∧
    ∀ id, id ∈ (lisOf w c e).map (·.id) ↔ ((∃ b, Tok.sub c e id b true ∈ w.out) ∧ id ∉ deadOf w.out) := by
  refine ⟨by simp [subNum], ?_, ?_⟩
  · unfold lisOf
    exact List.Nodup.sublist (List.Sublist.map _ List.filter_sublist) (reach_ids h).nodup
  · intro id
    constructor
    · intro hm
      obtain ⟨l, hl, rfl⟩ := List.mem_map.mp hm
      obtain ⟨hl1, rfl, rfl⟩ := lisOf_mem.mp hl
      exact ⟨⟨l.bound, (reach_sub h).subtok l hl1⟩, fun hd => (reach_ids h).dead_gone _ hd l hl1 rfl⟩
    · rintro ⟨⟨b, hb⟩, hd⟩
      obtain ⟨l, hl, h1, _⟩ := subscribed_until_removed h c e id b hb hd
      exact List.mem_map.mpr ⟨l, hl, h1⟩

/-- light centre, one-shot listener: listener 1 leaves while name 1 is being delivered, publishes the name again
(a nested delivery to nobody) and subscribes listener 2 before it returns -/
def demoLeave : World :=
  steps 14 (call (steps 3 (call (init Cfg.fixed [(true, false)]
    [(1, ⟨[1], 8, [.unsub 0 1 1, .pub 0 1 [21], .sub 0 1 2 false]⟩), (2, ⟨[2], 9, []⟩)]) [.sub 0 1 1 false] [])) [.pub 0 1 [5]] [])

theorem demoLeave_reach : Reach demoLeave :=
  reach_steps (Reach.call _ _ (reach_steps (Reach.call _ _ (Reach.init _ _) rfl) 3) (by decide)) 14

/-- non-vacuity: the hypotheses hold for listener 2 (subscribed inside the listener, after the nested delivery),
it is the one counted subscriber, and the next publication calls it -/
example : Tok.sub 0 1 2 [2] true ∈ demoLeave.out ∧ 2 ∉ deadOf demoLeave.out ∧ demoLeave.stack = [] ∧
    subNum demoLeave 0 1 = 1 ∧ (lisOf demoLeave 0 1).map (·.id) = [2] ∧
    (steps 4 (call demoLeave [.pub 0 1 [6]] [])).out.take 3 = [.cls 2, .inv 2 0 1 2 [2, 6] [6], .opn 2 0 1 [6]] := by decide

/-! ### the two repaired defects, as they were -/

/-- D7 (before 2545534): the same self-unsubscribing listener deadlocks on the list lock. -/
def demo1_d7 : World :=
  steps 12 (call (steps 4 (call (init ⟨true, false⟩ [(false, false)] tm1) [.sub 0 1 1 false, .sub 0 1 2 true] [])) [.pub 0 1 [5]] [])

theorem d7_reentrant_unsubscribe_blocked : demo1_d7.blocked = some .reentrant ∧ demo1.blocked = none := by decide

/-- D14 (before 61c6727): the light centre went on delivering after a listener cleared the centre. -/
theorem d14_light_invoked_after_clear :
    ((demo2 ⟨false, true⟩).out.filter Tok.isInv).length = 3 ∧ ((demo2 Cfg.fixed).out.filter Tok.isInv).length = 1 := by
  decide

/-! ### the owning goroutine: a centre owned by a `StandardRunService`, `Stop` from outside, publishers on any goroutine

Model: `Model/EventsOwner.lean` (every action = one atomic step of one goroutine; the theorems hold for ALL action
sequences, i.e. all interleavings of publishers, the owner loop and the caller of `Stop`). -/

open Cell2v.EventsOwner in
/-- "on that centre's owning goroutine": whatever the publishers (any goroutines), the loop and callers of `Stop` do, in
any order, every listener invocation happens on the loop goroutine — in particular `Stop` dispatches nothing itself. -/
theorem listener_runs_on_owner_goroutine_only (acts : List Act) :
    ∀ p ∈ (EventsOwner.run {} acts).log, p.1 = G.owner :=
  run_log_owner acts {} (by intro p hp; cases hp)

open Cell2v.EventsOwner in
/-- `Stop` = `Clear` first: from then on no listener invocation at all (events still queued are received and dropped),
the listener stays unsubscribed (a later `GSubscribe` is refused), and a global publication no longer reaches the
centre's queue — whatever anybody does afterwards. -/
theorem stop_ends_delivery_and_registration (s : S) (g : G) (acts : List Act) :
    (EventsOwner.run (act s (.stop g)) acts).log = s.log ∧
    (EventsOwner.run (act s (.stop g)) acts).listening = false ∧
    ∀ g' x, (act (EventsOwner.run (act s (.stop g)) acts) (.gpub g' x)).queue = (EventsOwner.run (act s (.stop g)) acts).queue := by
  obtain ⟨_, h2, h3⟩ := run_stopped acts (act s (.stop g)) rfl rfl
  have hq : ∀ r : S, r.listening = false → ∀ g' x, (act r (.gpub g' x)).queue = r.queue := by
    intro r hr g' x; simp [act, hr]
  exact ⟨h3, h2, hq _ h2⟩

open Cell2v.EventsOwner in
/-- The listener sees accepted publications in publication order, each at most once, and nothing that was not
published (the payloads it was called with are a subsequence of the accepted publications); the queue never
holds more than 999 events. -/
theorem delivered_in_publication_order (acts : List Act) :
    (delivered (EventsOwner.run {} acts)).Sublist (EventsOwner.run {} acts).hist ∧
    (EventsOwner.run {} acts).queue.length ≤ EventsOwner.cap := by
  obtain ⟨tk, h1, h2⟩ := run_fifo acts {} ⟨[], rfl, List.Sublist.refl _⟩
  refine ⟨?_, run_cap acts {} (by decide)⟩
  rw [h1]
  exact h2.trans (List.sublist_append_left tk _)

open Cell2v.EventsOwner in
/-- Concurrent publishers at the queue limit: any number of global publications from any goroutines in any order
(each one's non-blocking send is one step that always completes — no publisher ever waits) fill the queue up to 999
in order and drop the rest; no listener runs on a publisher's goroutine. -/
theorem concurrent_publishers_fill_to_cap (s : S) (ps : List (G × Int)) (hl : s.listening = true)
    (hc : s.queue.length ≤ EventsOwner.cap) :
    (EventsOwner.run s (ps.map (fun p => Act.gpub p.1 p.2))).queue
      = s.queue ++ (ps.map (·.2)).take (EventsOwner.cap - s.queue.length) ∧
    (EventsOwner.run s (ps.map (fun p => Act.gpub p.1 p.2))).log = s.log :=
  run_gpubs ps s hl hc

/-- non-vacuity: the owner is stuck in the listener (payload -1), three publications pile up, `Stop` arrives from
goroutine `ext 0`, the loop goes on: two deliveries before, the stuck one, nothing after; three events dropped -/
example : (EventsOwner.run {} (EventsOwner.rsActs 2 3)).log = [(.owner, -1), (.owner, 1), (.owner, 0)] ∧
    (EventsOwner.run {} (EventsOwner.rsActs 2 3)).hist = [0, 1, -1, -2, -3, -4] ∧
    (EventsOwner.run {} (EventsOwner.rsActs 2 3)).queue = [] := by decide

/-- non-vacuity: two free slots, five publishers -/
example (q : List Int) (hq : q.length = 997) :
    (EventsOwner.run { queue := q, listening := true } (EventsOwner.fullActs 5)).queue.length = 999 := by
  have h := (concurrent_publishers_fill_to_cap { queue := q, listening := true }
    ((List.range 5).map (fun p => (EventsOwner.G.ext p, Int.ofNat p))) rfl (by simp [EventsOwner.cap, hq])).1
  simp only [List.map_map] at h
  have h' := congrArg List.length h
  simp only [List.length_append, List.length_take, List.length_map, List.length_range, hq, EventsOwner.cap] at h'
  simpa [EventsOwner.fullActs, Function.comp_def] using h'

end Cell2v.Props.C17
